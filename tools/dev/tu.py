import sys, random, os, time
sys.path.insert(0,'/verif')
from tools.harness import core
core.force_repo_path()
import importlib
mod = importlib.import_module('tools.props.'+sys.argv[1])
tier = sys.argv[2] if len(sys.argv)>2 else 'quick'
bd='/verif/_build/test'; os.makedirs(bd,exist_ok=True)
for u in mod.PROPERTY.units(tier):
    if len(sys.argv)>3 and u.name not in sys.argv[3:]: continue
    t=time.time()
    r = core.run_unit(u, random.Random(int(os.environ.get("SEED","1"))), tier, bd)
    print(u.name, 'cases',len(r['cases']),'compared',r['compared'],'mism',len(r['mismatches']),'fail',len(r['failures']),'distinct',r['distinct'],'%.1fs'%(time.time()-t))
    if r['coq_error']: print(r['coq_error'][-2000:])
    for i in r['mismatches'][:3]: print('MISMATCH', r['cases'][i], {k:v for k,v in r['obs'][i].items()})
    for f in r['failures'][:3]: print('FAIL', f.get('aspect'), f.get('what'))
    print(sorted(r['hist'].items())[:12])
