#!/bin/bash
# usage: tu_patch.sh <seeded-id> <Prop> [unit...]  — unit-level run against a scratch worktree with the patch (SEED env)
id=$1; shift
w=/tmp/tup.$$; git -C /repo worktree add --detach $w HEAD >/dev/null 2>&1; git -C $w apply /verif/seeded/$id/patch.diff
VERIF_REPO=$w PYTHONPATH=$w/src /venv/bin/python /verif/tools/dev/tu.py "$@" 2>&1 | grep -E "FAIL|MISM|cases|Error" | cut -c1-${CUT:-400}
git -C /repo worktree remove --force $w; git -C /repo worktree prune
