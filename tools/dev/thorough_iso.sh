#!/bin/bash
# thorough tier of all 20 checks in a scratch copy of /verif against the clean /repo
rm -rf /tmp/vthor; mkdir -p /tmp/vthor
( cd /verif && tar cf - --exclude=.git --exclude=_build --exclude=seeded --exclude=replay . ) | tar xf - -C /tmp/vthor
mkdir -p /tmp/vthor/replay
cd /tmp/vthor
for p in C01 C02 C03 C04 C05 C06 C07 C08 C09 C10 C11 C12 C13 C14 C15 C16 C17 C18 C19 C20; do
  t0=$(date +%s)
  out=$(VERIF_SEED=${VERIF_SEED:-1} ./check $p --tier thorough 2>&1); rc=$?
  echo "$p rc=$rc $(( $(date +%s) - t0 ))s $(echo "$out" | tail -n 1 | cut -c1-170)"
  if [ $rc -ne 0 ]; then echo "$out" | grep -E "VIOLATION|aspect|broken" | cut -c1-600 | head -8; fi
done
echo thorough-done
