#!/bin/bash
cd /verif
for seed in ${SEEDS:-41 7 1}; do
for p in C01 C02 C03 C04 C05 C06 C07 C08 C09 C10 C11 C12 C13 C14 C15 C16 C17 C18 C19 C20; do
  out=$(VERIF_SEED=$seed VERIF_SKIP_COQCHK=1 ./check $p 2>&1); rc=$?
  echo "seed=$seed $p rc=$rc $(echo "$out" | tail -n 1 | cut -c1-150)"
  if [ $rc -ne 0 ]; then echo "$out" | grep -E "VIOLATION|aspect|broken" | cut -c1-500; fi
done; done
