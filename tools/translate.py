"""Fail-closed translator: /repo sources -> coq/Gen/*.v (regenerated on every check).
Targets are registered in TARGETS: name -> function returning the Coq text."""
import ast
import os

VERIF = os.path.dirname(os.path.dirname(os.path.abspath(__file__)))
REPO = os.environ.get("VERIF_REPO", "/repo")
GEN = os.path.join(VERIF, "coq", "Gen")


class TranslateError(Exception):
    pass


TARGETS = {}


def target(name):
    def deco(fn):
        TARGETS[name] = fn
        return fn
    return deco


def generate(name):
    """(re)write coq/Gen/<name>.v iff its text changed. Raises TranslateError (fail-closed)."""
    if name not in TARGETS:
        raise TranslateError("unknown target " + name)
    text = TARGETS[name]()
    os.makedirs(GEN, exist_ok=True)
    p = os.path.join(GEN, name + ".v")
    old = open(p).read() if os.path.exists(p) else None
    if old != text:
        open(p, "w").write(text)
    return p


def generate_all():
    errs = []
    for n in TARGETS:
        try:
            generate(n)
        except TranslateError as e:
            errs.append("%s: %s" % (n, e))
    return errs


if __name__ == "__main__":
    import sys
    es = generate_all()
    for e in es:
        print("TranslateError:", e)
    sys.exit(1 if es else 0)
