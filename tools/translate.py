"""Fail-closed translator: /repo sources -> coq/Gen/*.v (regenerated on every check).
Targets are registered in TARGETS: name -> function returning the Coq text."""
import ast
import os

VERIF = os.path.dirname(os.path.dirname(os.path.abspath(__file__)))
REPO = os.environ.get("VERIF_REPO", "/repo")
GEN = os.path.join(VERIF, "coq", "Gen")


class TranslateError(Exception):
    pass


TARGETS = {}


def target(name):
    def deco(fn):
        TARGETS[name] = fn
        return fn
    return deco


def generate(name):
    """(re)write coq/Gen/<name>.v iff its text changed. Raises TranslateError (fail-closed)."""
    if name not in TARGETS:
        raise TranslateError("unknown target " + name)
    text = TARGETS[name]()
    os.makedirs(GEN, exist_ok=True)
    p = os.path.join(GEN, name + ".v")
    old = open(p).read() if os.path.exists(p) else None
    if old != text:
        open(p, "w").write(text)
    return p


def generate_all():
    errs = []
    for n in TARGETS:
        try:
            generate(n)
        except TranslateError as e:
            errs.append("%s: %s" % (n, e))
    return errs




# ==========================================================================================
# funfit.py -> Gen/Funfit.v
# Accepted grammar (anything else raises TranslateError):
#   def f(x, xy_0, xy_1[, alpha=<const>]):
#       [docstring]
#       x_0, y_0 = xy_0         (or (x_0, y_0) = xy_0)
#       x_1, y_1 = xy_1
#       return <expr>
#   <expr> ::= name | number | <expr> (+|-|*|/) <expr> | -<expr> | (<expr>) ** alpha
#            | g(x, xy_0, xy_1[, alpha])     with g an earlier function of the file
# ==========================================================================================
def _src(rel):
    p = os.path.join(REPO, "src", "traffic_weaver", rel)
    try:
        return open(p).read()
    except OSError as e:
        raise TranslateError("cannot read %s: %s" % (rel, e))


def _num(v):
    from fractions import Fraction
    fr = Fraction(v) if not isinstance(v, float) else Fraction(repr(v))
    if fr == 0 or fr == 1:
        return str(fr.numerator)
    if fr.denominator == 1:
        return "(qz %s)" % (fr.numerator if fr.numerator >= 0 else "(%d)" % fr.numerator)
    return "(qf %s %d)" % (fr.numerator if fr.numerator >= 0 else "(%d)" % fr.numerator, fr.denominator)


class _FunfitTr:
    def __init__(self):
        self.funs = {}   # name -> has_alpha

    def expr(self, e, has_alpha, where):
        def bad(msg):
            raise TranslateError("funfit.py:%d: %s (%s)" % (getattr(e, "lineno", 0), msg, ast.dump(e)[:120]))
        if isinstance(e, ast.Name):
            if e.id in ("x", "x_0", "y_0", "x_1", "y_1"):
                return e.id
            bad("unexpected name")
        if isinstance(e, ast.Constant) and isinstance(e.value, (int, float)) and not isinstance(e.value, bool):
            return _num(e.value)
        if isinstance(e, ast.UnaryOp) and isinstance(e.op, ast.USub):
            return "(- %s)" % self.expr(e.operand, has_alpha, where)
        if isinstance(e, ast.BinOp):
            if isinstance(e.op, ast.Pow):
                if not (has_alpha and isinstance(e.right, ast.Name) and e.right.id == "alpha"):
                    bad("exponent must be the parameter alpha")
                return "(pw %s)" % self.expr(e.left, has_alpha, where)
            ops = {ast.Add: "+", ast.Sub: "-", ast.Mult: "*", ast.Div: "/"}
            if type(e.op) not in ops:
                bad("operator not accepted")
            return "(%s %s %s)" % (self.expr(e.left, has_alpha, where), ops[type(e.op)], self.expr(e.right, has_alpha, where))
        if isinstance(e, ast.Call) and isinstance(e.func, ast.Name) and e.func.id in self.funs and not e.keywords:
            g = e.func.id
            names = [a.id if isinstance(a, ast.Name) else None for a in e.args]
            want = ["x", "xy_0", "xy_1"] + (["alpha"] if self.funs[g] else [])
            if names != want:
                bad("call arguments must be exactly %s" % want)
            if self.funs[g] and not has_alpha:
                bad("alpha not in scope")
            return "(%s %sx x_0 y_0 x_1 y_1)" % (g, "pw " if self.funs[g] else "")
        bad("construct outside the accepted grammar")

    def fun(self, f):
        args = [a.arg for a in f.args.args]
        if args not in (["x", "xy_0", "xy_1"], ["x", "xy_0", "xy_1", "alpha"]) or f.args.vararg or f.args.kwarg or f.args.kwonlyargs:
            raise TranslateError("funfit.py:%d: signature of %s not accepted: %s" % (f.lineno, f.name, args))
        has_alpha = len(args) == 4
        default = None
        if has_alpha:
            if len(f.args.defaults) != 1 or not isinstance(f.args.defaults[0], ast.Constant):
                raise TranslateError("funfit.py:%d: alpha needs a constant default" % f.lineno)
            default = f.args.defaults[0].value
        elif f.args.defaults:
            raise TranslateError("funfit.py:%d: unexpected defaults" % f.lineno)
        body = list(f.body)
        if body and isinstance(body[0], ast.Expr) and isinstance(body[0].value, ast.Constant) and isinstance(body[0].value.value, str):
            body = body[1:]
        if len(body) != 3:
            raise TranslateError("funfit.py:%d: body of %s must be two unpackings and a return" % (f.lineno, f.name))
        for st, (a, b, src) in zip(body[:2], [("x_0", "y_0", "xy_0"), ("x_1", "y_1", "xy_1")]):
            ok = (isinstance(st, ast.Assign) and len(st.targets) == 1 and isinstance(st.targets[0], ast.Tuple)
                  and [getattr(t, "id", None) for t in st.targets[0].elts] == [a, b]
                  and isinstance(st.value, ast.Name) and st.value.id == src)
            if not ok:
                raise TranslateError("funfit.py:%d: expected `%s, %s = %s`" % (st.lineno, a, b, src))
        if not isinstance(body[2], ast.Return) or body[2].value is None:
            raise TranslateError("funfit.py:%d: expected return" % body[2].lineno)
        e = self.expr(body[2].value, has_alpha, f.name)
        self.funs[f.name] = has_alpha
        sig = "(pw : Qc -> Qc) " if has_alpha else ""
        out = "Definition %s %s(x x_0 y_0 x_1 y_1 : Qc) : Qc :=\n  %s.\n" % (f.name, sig, e)
        if has_alpha:
            out += "Definition %s_default_alpha : Qc := %s.\n" % (f.name, _num(default))
        return out


@target("Funfit")
def gen_funfit():
    tree = ast.parse(_src("funfit.py"))
    tr = _FunfitTr()
    parts = ["(** GENERATED by tools/translate.py from /repo/src/traffic_weaver/funfit.py — do not edit.\n"
             "    `e ** alpha` is rendered as `pw e` (the power function is a parameter, DESIGN 3.3). *)\n"
             "From TW Require Export Lib.Base.\nOpen Scope Qc_scope.\n"]
    for node in tree.body:
        if isinstance(node, ast.Expr) and isinstance(node.value, ast.Constant):
            continue
        if isinstance(node, ast.FunctionDef):
            parts.append(tr.fun(node))
        else:
            raise TranslateError("funfit.py:%d: top-level statement not accepted" % node.lineno)
    for need in ("lin_fit", "exp_fit", "exp_xy_fit", "exp_lin_fit", "lin_exp_xy_fit"):
        if need not in tr.funs:
            raise TranslateError("funfit.py: function %s is missing" % need)
    return "\n".join(parts)


# MAIN-BLOCK (keep last)
if __name__ == "__main__":
    import sys
    es = generate_all()
    for e in es:
        print("TranslateError:", e)
    sys.exit(1 if es else 0)
