"""Fail-closed translator: /repo sources -> coq/Gen/*.v (regenerated on every check).
Targets are registered in TARGETS: name -> function returning the Coq text."""
import ast
import os

VERIF = os.path.dirname(os.path.dirname(os.path.abspath(__file__)))
REPO = os.environ.get("VERIF_REPO", "/repo")
GEN = os.path.join(VERIF, "coq", "Gen")


class TranslateError(Exception):
    pass


TARGETS = {}


def target(name):
    def deco(fn):
        TARGETS[name] = fn
        return fn
    return deco


def generate(name):
    """(re)write coq/Gen/<name>.v iff its text changed. Raises TranslateError (fail-closed)."""
    if name not in TARGETS:
        raise TranslateError("unknown target " + name)
    text = TARGETS[name]()
    os.makedirs(GEN, exist_ok=True)
    p = os.path.join(GEN, name + ".v")
    old = open(p).read() if os.path.exists(p) else None
    if old != text:
        open(p, "w").write(text)
    return p


def generate_all():
    errs = []
    for n in TARGETS:
        try:
            generate(n)
        except TranslateError as e:
            errs.append("%s: %s" % (n, e))
    return errs




# ==========================================================================================
# funfit.py -> Gen/Funfit.v
# Accepted grammar (anything else raises TranslateError):
#   def f(x, xy_0, xy_1[, alpha=<const>]):
#       [docstring]
#       x_0, y_0 = xy_0         (or (x_0, y_0) = xy_0)
#       x_1, y_1 = xy_1
#       return <expr>
#   <expr> ::= name | number | <expr> (+|-|*|/) <expr> | -<expr> | (<expr>) ** alpha
#            | g(x, xy_0, xy_1[, alpha])     with g an earlier function of the file
# ==========================================================================================
def _src(rel):
    p = os.path.join(REPO, "src", "traffic_weaver", rel)
    try:
        return open(p).read()
    except OSError as e:
        raise TranslateError("cannot read %s: %s" % (rel, e))


def _num(v):
    from fractions import Fraction
    fr = Fraction(v) if not isinstance(v, float) else Fraction(repr(v))
    if fr == 0 or fr == 1:
        return str(fr.numerator)
    if fr.denominator == 1:
        return "(qz %s)" % (fr.numerator if fr.numerator >= 0 else "(%d)" % fr.numerator)
    return "(qf %s %d)" % (fr.numerator if fr.numerator >= 0 else "(%d)" % fr.numerator, fr.denominator)


class _FunfitTr:
    def __init__(self):
        self.funs = {}   # name -> has_alpha

    def expr(self, e, has_alpha, where):
        def bad(msg):
            raise TranslateError("funfit.py:%d: %s (%s)" % (getattr(e, "lineno", 0), msg, ast.dump(e)[:120]))
        if isinstance(e, ast.Name):
            if e.id in ("x", "x_0", "y_0", "x_1", "y_1"):
                return e.id
            bad("unexpected name")
        if isinstance(e, ast.Constant) and isinstance(e.value, (int, float)) and not isinstance(e.value, bool):
            return _num(e.value)
        if isinstance(e, ast.UnaryOp) and isinstance(e.op, ast.USub):
            return "(- %s)" % self.expr(e.operand, has_alpha, where)
        if isinstance(e, ast.BinOp):
            if isinstance(e.op, ast.Pow):
                if not (has_alpha and isinstance(e.right, ast.Name) and e.right.id == "alpha"):
                    bad("exponent must be the parameter alpha")
                return "(pw %s)" % self.expr(e.left, has_alpha, where)
            ops = {ast.Add: "+", ast.Sub: "-", ast.Mult: "*", ast.Div: "/"}
            if type(e.op) not in ops:
                bad("operator not accepted")
            return "(%s %s %s)" % (self.expr(e.left, has_alpha, where), ops[type(e.op)], self.expr(e.right, has_alpha, where))
        if isinstance(e, ast.Call) and isinstance(e.func, ast.Name) and e.func.id in self.funs and not e.keywords:
            g = e.func.id
            names = [a.id if isinstance(a, ast.Name) else None for a in e.args]
            want = ["x", "xy_0", "xy_1"] + (["alpha"] if self.funs[g] else [])
            if names != want:
                bad("call arguments must be exactly %s" % want)
            if self.funs[g] and not has_alpha:
                bad("alpha not in scope")
            return "(%s %sx x_0 y_0 x_1 y_1)" % (g, "pw " if self.funs[g] else "")
        bad("construct outside the accepted grammar")

    def fun(self, f):
        args = [a.arg for a in f.args.args]
        if args not in (["x", "xy_0", "xy_1"], ["x", "xy_0", "xy_1", "alpha"]) or f.args.vararg or f.args.kwarg or f.args.kwonlyargs:
            raise TranslateError("funfit.py:%d: signature of %s not accepted: %s" % (f.lineno, f.name, args))
        has_alpha = len(args) == 4
        default = None
        if has_alpha:
            if len(f.args.defaults) != 1 or not isinstance(f.args.defaults[0], ast.Constant):
                raise TranslateError("funfit.py:%d: alpha needs a constant default" % f.lineno)
            default = f.args.defaults[0].value
        elif f.args.defaults:
            raise TranslateError("funfit.py:%d: unexpected defaults" % f.lineno)
        body = list(f.body)
        if body and isinstance(body[0], ast.Expr) and isinstance(body[0].value, ast.Constant) and isinstance(body[0].value.value, str):
            body = body[1:]
        if len(body) != 3:
            raise TranslateError("funfit.py:%d: body of %s must be two unpackings and a return" % (f.lineno, f.name))
        for st, (a, b, src) in zip(body[:2], [("x_0", "y_0", "xy_0"), ("x_1", "y_1", "xy_1")]):
            ok = (isinstance(st, ast.Assign) and len(st.targets) == 1 and isinstance(st.targets[0], ast.Tuple)
                  and [getattr(t, "id", None) for t in st.targets[0].elts] == [a, b]
                  and isinstance(st.value, ast.Name) and st.value.id == src)
            if not ok:
                raise TranslateError("funfit.py:%d: expected `%s, %s = %s`" % (st.lineno, a, b, src))
        if not isinstance(body[2], ast.Return) or body[2].value is None:
            raise TranslateError("funfit.py:%d: expected return" % body[2].lineno)
        e = self.expr(body[2].value, has_alpha, f.name)
        self.funs[f.name] = has_alpha
        sig = "(pw : Qc -> Qc) " if has_alpha else ""
        out = "Definition %s %s(x x_0 y_0 x_1 y_1 : Qc) : Qc :=\n  %s.\n" % (f.name, sig, e)
        if has_alpha:
            out += "Definition %s_default_alpha : Qc := %s.\n" % (f.name, _num(default))
        return out


@target("Funfit")
def gen_funfit():
    tree = ast.parse(_src("funfit.py"))
    tr = _FunfitTr()
    parts = ["(** GENERATED by tools/translate.py from /repo/src/traffic_weaver/funfit.py — do not edit.\n"
             "    `e ** alpha` is rendered as `pw e` (the power function is a parameter, DESIGN 3.3). *)\n"
             "From TW Require Export Lib.Base.\nOpen Scope Qc_scope.\n"]
    for node in tree.body:
        if isinstance(node, ast.Expr) and isinstance(node.value, ast.Constant):
            continue
        if isinstance(node, ast.FunctionDef):
            parts.append(tr.fun(node))
        else:
            raise TranslateError("funfit.py:%d: top-level statement not accepted" % node.lineno)
    for need in ("lin_fit", "exp_fit", "exp_xy_fit", "exp_lin_fit", "lin_exp_xy_fit"):
        if need not in tr.funs:
            raise TranslateError("funfit.py: function %s is missing" % need)
    return "\n".join(parts)


# ==========================================================================================
# dataset registry -> Gen/Registry.v ; description tables -> Gen/DocTables.v ; bundled CSVs -> Gen/Bundled.v
# ==========================================================================================
DS_MODULES = ["_sandvine.py", "_mix_it.py", "_ams_ix.py", "_ix_br.py"]


def _cstr(s):
    if '"' in s or "\\" in s or "\n" in s:
        raise TranslateError("string not representable: %r" % s)
    return '"%s"' % s


def _const_str(node, consts, where):
    if isinstance(node, ast.Constant) and isinstance(node.value, str):
        return node.value
    if isinstance(node, ast.Name) and node.id in consts:
        return consts[node.id]
    raise TranslateError("%s: expected a string literal or module constant, got %s" % (where, ast.dump(node)[:80]))


def _parse_loader_module(fname):
    tree = ast.parse(_src(os.path.join("datasets", fname)))
    consts, loaders = {}, []
    for node in tree.body:
        where = "%s:%d" % (fname, getattr(node, "lineno", 0))
        if isinstance(node, ast.Expr) and isinstance(node.value, ast.Constant):
            continue
        if isinstance(node, (ast.Import, ast.ImportFrom)):
            continue
        if isinstance(node, ast.Assign) and len(node.targets) == 1 and isinstance(node.targets[0], ast.Name) \
                and isinstance(node.value, ast.Constant) and isinstance(node.value.value, str):
            consts[node.targets[0].id] = node.value.value
            continue
        if not isinstance(node, ast.FunctionDef):
            raise TranslateError("%s: top-level statement not accepted" % where)
        body = list(node.body)
        if body and isinstance(body[0], ast.Expr) and isinstance(body[0].value, ast.Constant):
            body = body[1:]
        if node.name.endswith("_dataset_description"):
            continue
        if not (node.args.kwarg and node.args.kwarg.arg == "kwargs" and not node.args.args and not node.args.vararg):
            raise TranslateError("%s: loader %s must have the signature (**kwargs)" % (where, node.name))

        def kwargs_forwarded(call):
            return any(k.arg is None and isinstance(k.value, ast.Name) and k.value.id == "kwargs" for k in call.keywords)
        if len(body) == 1 and isinstance(body[0], ast.Return) and isinstance(body[0].value, ast.Call) \
                and getattr(body[0].value.func, "id", None) == "load_csv_dataset_from_resources":
            call = body[0].value
            if len(call.args) != 1 or not kwargs_forwarded(call) or len(call.keywords) != 1:
                raise TranslateError("%s: unexpected arguments of load_csv_dataset_from_resources" % where)
            a = call.args[0]
            if not (isinstance(a, ast.Call) and isinstance(a.func, ast.Attribute) and a.func.attr == "join" and len(a.args) == 2):
                raise TranslateError("%s: expected path.join(folder, file)" % where)
            loaders.append((node.name, "Bundled", [_const_str(a.args[0], consts, where), _const_str(a.args[1], consts, where)]))
            continue
        if len(body) == 2 and isinstance(body[0], ast.Assign) and isinstance(body[0].value, ast.Call) \
                and getattr(body[0].value.func, "id", None) == "RemoteFileMetadata" and isinstance(body[1], ast.Return) \
                and isinstance(body[1].value, ast.Call) and getattr(body[1].value.func, "id", None) == "load_csv_dataset_from_remote":
            rm = {k.arg: k.value for k in body[0].value.keywords}
            if set(rm) != {"filename", "url", "checksum"} or body[0].value.args:
                raise TranslateError("%s: RemoteFileMetadata must be built with filename=, url=, checksum=" % where)
            call = body[1].value
            kw = {k.arg: k.value for k in call.keywords if k.arg}
            if call.args or set(kw) != {"remote", "dataset_filename", "dataset_folder", "validate_checksum"} or not kwargs_forwarded(call):
                raise TranslateError("%s: unexpected arguments of load_csv_dataset_from_remote: %s" % (where, sorted(kw)))
            if not (isinstance(kw["remote"], ast.Name) and kw["remote"].id == body[0].targets[0].id):
                raise TranslateError("%s: remote= must be the metadata built above" % where)
            if not (isinstance(kw["validate_checksum"], ast.Constant) and isinstance(kw["validate_checksum"].value, bool)):
                raise TranslateError("%s: validate_checksum must be a boolean literal" % where)
            for key_, val_ in (("filename", _const_str(rm["filename"], consts, where)), ("dataset_filename", _const_str(kw["dataset_filename"], consts, where))):
                rest = val_
                while rest.startswith("./"):
                    rest = rest[2:]
                if "/" in rest or rest in ("", ".", ".."):
                    raise TranslateError("%s: %s=%r contains a path separator the model does not normalise" % (where, key_, val_))
            loaders.append((node.name, "Remote", [_const_str(rm["filename"], consts, where), _const_str(rm["url"], consts, where),
                                                  _const_str(rm["checksum"], consts, where), _const_str(kw["dataset_filename"], consts, where),
                                                  _const_str(kw["dataset_folder"], consts, where)], kw["validate_checksum"].value))
            continue
        raise TranslateError("%s: body of loader %s is outside the accepted grammar" % (where, node.name))
    return loaders


@target("Registry")
def gen_registry():
    out = ["(** GENERATED by tools/translate.py from /repo/src/traffic_weaver/datasets/{_sandvine,_mix_it,_ams_ix,_ix_br,_datasets}.py — do not edit. *)",
           "From Coq Require Import String List.", "Import ListNotations.", "Open Scope string_scope.", "",
           "Inductive loader :=", "| Bundled (folder file : string)",
           "| Remote (filename url checksum dataset_filename dataset_folder : string) (validate_checksum : bool).", ""]
    rows = []
    for fn in DS_MODULES:
        for l in _parse_loader_module(fn):
            if l[1] == "Bundled":
                rows.append("  (%s, Bundled %s %s)" % (_cstr(l[0]), _cstr(l[2][0]), _cstr(l[2][1])))
            else:
                rows.append("  (%s, Remote %s %s)" % (_cstr(l[0]), " ".join(_cstr(s) for s in l[2]), "true" if l[3] else "false"))
    out.append("(* every loader function defined in the four family modules *)")
    out.append("Definition loaders : list (string * loader) := [\n" + ";\n".join(rows) + "\n].\n")
    # names visible as attributes of the aggregation module _datasets.py
    tree = ast.parse(_src(os.path.join("datasets", "_datasets.py")))
    exports = []
    for node in tree.body:
        if isinstance(node, ast.ImportFrom):
            if node.level != 1 or node.module not in ("_sandvine", "_mix_it", "_ams_ix", "_ix_br"):
                raise TranslateError("_datasets.py:%d: unexpected import source %r" % (node.lineno, node.module))
            for a in node.names:
                if a.name == "*":
                    raise TranslateError("_datasets.py:%d: star import not accepted" % node.lineno)
                exports.append(((a.asname or a.name), a.name, node.module))
        elif isinstance(node, ast.Expr) and isinstance(node.value, ast.Constant):
            continue
        else:
            raise TranslateError("_datasets.py:%d: statement not accepted" % node.lineno)
    out.append("(* attribute name in _datasets.py, function it is bound to *)")
    out.append("Definition exports : list (string * string) := [\n" + ";\n".join("  (%s, %s)" % (_cstr(a), _cstr(b)) for a, b, _ in exports) + "\n].\n")
    return "\n".join(out)


@target("DocTables")
def gen_doctables():
    d = os.path.join(REPO, "src", "traffic_weaver", "datasets", "data_description")
    out = ["(** GENERATED by tools/translate.py from /repo/src/traffic_weaver/datasets/data_description/*.md — do not edit. *)",
           "From Coq Require Import String List.", "Import ListNotations.", "Open Scope string_scope.", ""]
    rows = []
    fams = {"sandvine.md": "sandvine", "mix_it.md": "mix-it", "ams_ix.md": "ams-ix", "ix_br.md": "ix-br"}
    for fn in sorted(fams):
        p = os.path.join(d, fn)
        try:
            lines = open(p, encoding="utf-8").read().splitlines()
        except OSError as e:
            raise TranslateError("cannot read %s: %s" % (fn, e))
        n = 0
        for ln in lines:
            if not ln.startswith("|"):
                continue
            cells = [c.strip() for c in ln.strip().strip("|").split("|")]
            if len(cells) < 3 or not cells[0].isdigit():
                continue
            n += 1
            if int(cells[0]) != n:
                raise TranslateError("%s: table row numbering broken at %r" % (fn, ln[:60]))
            rows.append("  (%s, %s, %s)" % (_cstr(fams[fn]), _cstr(cells[1]), _cstr(cells[2])))
        if n == 0:
            raise TranslateError("%s: no table rows found" % fn)
    out.append("(* family, documented dataset name, repository file name *)")
    out.append("Definition doc_names : list (string * string * string) := [\n" + ";\n".join(rows) + "\n].\n")
    return "\n".join(out)


@target("Bundled")
def gen_bundled():
    from fractions import Fraction
    d = os.path.join(REPO, "src", "traffic_weaver", "datasets", "data")
    out = ["(** GENERATED by tools/translate.py from /repo/src/traffic_weaver/datasets/data/*/*.csv — do not edit.",
           "    Decimal literals are rendered as exact rationals. *)",
           "From TW Require Import Lib.Base.", "From Coq Require Import String.", "Open Scope Qc_scope.", ""]
    rows = []
    for folder in sorted(os.listdir(d)):
        fd = os.path.join(d, folder)
        if not os.path.isdir(fd) or folder.startswith("__"):
            continue
        for fn in sorted(os.listdir(fd)):
            if not fn.endswith(".csv"):
                continue
            xs, ys = [], []
            for k, ln in enumerate(open(os.path.join(fd, fn)).read().splitlines()):
                if not ln.strip():
                    continue
                cells = [c.strip() for c in ln.split(",")]
                if len(cells) != 2:
                    raise TranslateError("%s/%s:%d: expected two columns" % (folder, fn, k + 1))
                try:
                    xs.append(Fraction(cells[0]))
                    ys.append(Fraction(cells[1]))
                except ValueError:
                    raise TranslateError("%s/%s:%d: not a decimal literal" % (folder, fn, k + 1))
            rows.append("  (%s%%string, %s%%string,\n   [%s],\n   [%s])" % (_cstr(folder), _cstr(fn), "; ".join(_num(v) for v in xs), "; ".join(_num(v) for v in ys)))
    out.append("Definition bundled_files : list (string * string * list Qc * list Qc) := [\n" + ";\n".join(rows) + "\n].\n")
    return "\n".join(out)


# ==========================================================================================
# default parameter values of public signatures -> Gen/Defaults.v
# ==========================================================================================
DEFAULT_FILES = ["weaver.py", "match.py", "rfa.py", "process.py", "sorted_array_utils.py", os.path.join("datasets", "_base.py")]


def _dv(node):
    if isinstance(node, ast.Constant):
        v = node.value
        if v is None:
            return "DNone"
        if isinstance(v, bool):
            return "DBool %s" % ("true" if v else "false")
        if isinstance(v, (int, float)):
            from fractions import Fraction
            fr = Fraction(repr(v)) if isinstance(v, float) else Fraction(v)
            return "DNum (%d # %d)" % (fr.numerator, fr.denominator)
        if isinstance(v, str):
            return "DStr %s" % _cstr(v)
    if isinstance(node, ast.UnaryOp) and isinstance(node.op, ast.USub) and isinstance(node.operand, ast.Constant):
        from fractions import Fraction
        fr = -Fraction(repr(node.operand.value))
        return "DNum (%d # %d)" % (fr.numerator, fr.denominator)
    return "DOther"


@target("Defaults")
def gen_defaults():
    out = ["(** GENERATED by tools/translate.py: default values of the public signatures — do not edit. *)",
           "From Coq Require Import QArith String List.", "Import ListNotations.", "Open Scope string_scope.", "",
           "Inductive dval := DNone | DBool (b : bool) | DNum (q : Q) | DStr (s : string) | DOther.", ""]
    rows = []
    for fn in DEFAULT_FILES:
        tree = ast.parse(_src(fn))
        mod = os.path.basename(fn)[:-3]

        def visit(fdef, prefix):
            args = fdef.args
            pos = args.args
            for a, d in zip(pos[len(pos) - len(args.defaults):], args.defaults):
                rows.append("  (%s, %s)" % (_cstr("%s%s.%s" % (prefix, fdef.name, a.arg)), _dv(d)))
            for a, d in zip(args.kwonlyargs, args.kw_defaults):
                if d is not None:
                    rows.append("  (%s, %s)" % (_cstr("%s%s.%s" % (prefix, fdef.name, a.arg)), _dv(d)))
        for node in tree.body:
            if isinstance(node, ast.FunctionDef):
                visit(node, mod + ".")
            elif isinstance(node, ast.ClassDef):
                for sub in node.body:
                    if isinstance(sub, ast.FunctionDef):
                        visit(sub, mod + "." + node.name + ".")
    out.append("Definition defaults : list (string * dval) := [\n" + ";\n".join(rows) + "\n].\n")
    out.append("Fixpoint default_of (k : string) (l : list (string * dval)) : option dval :=\n  match l with [] => None | (k', v) :: l' => if String.eqb k k' then Some v else default_of k l' end.\n")
    return "\n".join(out)


# MAIN-BLOCK (keep last)
if __name__ == "__main__":
    import sys
    es = generate_all()
    for e in es:
        print("TranslateError:", e)
    sys.exit(1 if es else 0)
