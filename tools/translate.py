"""Fail-closed translator: /repo sources -> coq/Gen/*.v (regenerated on every check).
Targets are registered in TARGETS: name -> function returning the Coq text."""
import ast
import os

VERIF = os.path.dirname(os.path.dirname(os.path.abspath(__file__)))
REPO = os.environ.get("VERIF_REPO", "/repo")
GEN = os.path.join(VERIF, "coq", "Gen")


class TranslateError(Exception):
    pass


TARGETS = {}


def target(name):
    def deco(fn):
        TARGETS[name] = fn
        return fn
    return deco


def generate(name):
    """(re)write coq/Gen/<name>.v iff its text changed. Raises TranslateError (fail-closed)."""
    if name not in TARGETS:
        raise TranslateError("unknown target " + name + ("" if not globals().get("EXT_ERRORS") else " (extension files that failed to load: %s)" % EXT_ERRORS))
    text = TARGETS[name]()
    os.makedirs(GEN, exist_ok=True)
    p = os.path.join(GEN, name + ".v")
    old = open(p).read() if os.path.exists(p) else None
    if old != text:
        open(p, "w").write(text)
    return p


def generate_all():
    errs = []
    for n in TARGETS:
        try:
            generate(n)
        except TranslateError as e:
            errs.append("%s: %s" % (n, e))
    return errs




# ==========================================================================================
# funfit.py -> Gen/Funfit.v
# Accepted grammar (anything else raises TranslateError):
#   def f(x, xy_0, xy_1[, alpha=<const>]):
#       [docstring]
#       x_0, y_0 = xy_0         (or (x_0, y_0) = xy_0)
#       x_1, y_1 = xy_1
#       return <expr>
#   <expr> ::= name | number | <expr> (+|-|*|/) <expr> | -<expr> | (<expr>) ** alpha
#            | g(x, xy_0, xy_1[, alpha])     with g an earlier function of the file
# ==========================================================================================
def _src(rel):
    p = os.path.join(REPO, "src", "traffic_weaver", rel)
    try:
        return open(p).read()
    except OSError as e:
        raise TranslateError("cannot read %s: %s" % (rel, e))


def _num(v):
    from fractions import Fraction
    fr = Fraction(v) if not isinstance(v, float) else Fraction(repr(v))
    if fr == 0 or fr == 1:
        return str(fr.numerator)
    if fr.denominator == 1:
        return "(qz %s)" % (fr.numerator if fr.numerator >= 0 else "(%d)" % fr.numerator)
    return "(qf %s %d)" % (fr.numerator if fr.numerator >= 0 else "(%d)" % fr.numerator, fr.denominator)


class _FunfitTr:
    def __init__(self):
        self.funs = {}   # name -> has_alpha

    def expr(self, e, has_alpha, where):
        def bad(msg):
            raise TranslateError("funfit.py:%d: %s (%s)" % (getattr(e, "lineno", 0), msg, ast.dump(e)[:120]))
        if isinstance(e, ast.Name):
            if e.id in ("x", "x_0", "y_0", "x_1", "y_1"):
                return e.id
            bad("unexpected name")
        if isinstance(e, ast.Constant) and isinstance(e.value, (int, float)) and not isinstance(e.value, bool):
            return _num(e.value)
        if isinstance(e, ast.UnaryOp) and isinstance(e.op, ast.USub):
            return "(- %s)" % self.expr(e.operand, has_alpha, where)
        if isinstance(e, ast.BinOp):
            if isinstance(e.op, ast.Pow):
                if not (has_alpha and isinstance(e.right, ast.Name) and e.right.id == "alpha"):
                    bad("exponent must be the parameter alpha")
                return "(pw %s)" % self.expr(e.left, has_alpha, where)
            ops = {ast.Add: "+", ast.Sub: "-", ast.Mult: "*", ast.Div: "/"}
            if type(e.op) not in ops:
                bad("operator not accepted")
            return "(%s %s %s)" % (self.expr(e.left, has_alpha, where), ops[type(e.op)], self.expr(e.right, has_alpha, where))
        if isinstance(e, ast.Call) and isinstance(e.func, ast.Name) and e.func.id in self.funs and not e.keywords:
            g = e.func.id
            names = [a.id if isinstance(a, ast.Name) else None for a in e.args]
            want = ["x", "xy_0", "xy_1"] + (["alpha"] if self.funs[g] else [])
            if names != want:
                bad("call arguments must be exactly %s" % want)
            if self.funs[g] and not has_alpha:
                bad("alpha not in scope")
            return "(%s %sx x_0 y_0 x_1 y_1)" % (g, "pw " if self.funs[g] else "")
        bad("construct outside the accepted grammar")

    def fun(self, f):
        args = [a.arg for a in f.args.args]
        if args not in (["x", "xy_0", "xy_1"], ["x", "xy_0", "xy_1", "alpha"]) or f.args.vararg or f.args.kwarg or f.args.kwonlyargs:
            raise TranslateError("funfit.py:%d: signature of %s not accepted: %s" % (f.lineno, f.name, args))
        has_alpha = len(args) == 4
        default = None
        if has_alpha:
            if len(f.args.defaults) != 1 or not isinstance(f.args.defaults[0], ast.Constant):
                raise TranslateError("funfit.py:%d: alpha needs a constant default" % f.lineno)
            default = f.args.defaults[0].value
        elif f.args.defaults:
            raise TranslateError("funfit.py:%d: unexpected defaults" % f.lineno)
        body = list(f.body)
        if body and isinstance(body[0], ast.Expr) and isinstance(body[0].value, ast.Constant) and isinstance(body[0].value.value, str):
            body = body[1:]
        if len(body) != 3:
            raise TranslateError("funfit.py:%d: body of %s must be two unpackings and a return" % (f.lineno, f.name))
        for st, (a, b, src) in zip(body[:2], [("x_0", "y_0", "xy_0"), ("x_1", "y_1", "xy_1")]):
            ok = (isinstance(st, ast.Assign) and len(st.targets) == 1 and isinstance(st.targets[0], ast.Tuple)
                  and [getattr(t, "id", None) for t in st.targets[0].elts] == [a, b]
                  and isinstance(st.value, ast.Name) and st.value.id == src)
            if not ok:
                raise TranslateError("funfit.py:%d: expected `%s, %s = %s`" % (st.lineno, a, b, src))
        if not isinstance(body[2], ast.Return) or body[2].value is None:
            raise TranslateError("funfit.py:%d: expected return" % body[2].lineno)
        e = self.expr(body[2].value, has_alpha, f.name)
        self.funs[f.name] = has_alpha
        sig = "(pw : Qc -> Qc) " if has_alpha else ""
        out = "Definition %s %s(x x_0 y_0 x_1 y_1 : Qc) : Qc :=\n  %s.\n" % (f.name, sig, e)
        if has_alpha:
            out += "Definition %s_default_alpha : Qc := %s.\n" % (f.name, _num(default))
        return out


@target("Funfit")
def gen_funfit():
    tree = ast.parse(_src("funfit.py"))
    tr = _FunfitTr()
    parts = ["(** GENERATED by tools/translate.py from /repo/src/traffic_weaver/funfit.py — do not edit.\n"
             "    `e ** alpha` is rendered as `pw e` (the power function is a parameter, DESIGN 3.3). *)\n"
             "From TW Require Export Lib.Base.\nOpen Scope Qc_scope.\n"]
    for node in tree.body:
        if isinstance(node, ast.Expr) and isinstance(node.value, ast.Constant):
            continue
        if isinstance(node, ast.FunctionDef):
            parts.append(tr.fun(node))
        else:
            raise TranslateError("funfit.py:%d: top-level statement not accepted" % node.lineno)
    for need in ("lin_fit", "exp_fit", "exp_xy_fit", "exp_lin_fit", "lin_exp_xy_fit"):
        if need not in tr.funs:
            raise TranslateError("funfit.py: function %s is missing" % need)
    return "\n".join(parts)


# ==========================================================================================
# dataset registry -> Gen/Registry.v ; description tables -> Gen/DocTables.v ; bundled CSVs -> Gen/Bundled.v
# ==========================================================================================
DS_MODULES = ["_sandvine.py", "_mix_it.py", "_ams_ix.py", "_ix_br.py"]


def _cstr(s):
    if '"' in s or "\\" in s or "\n" in s:
        raise TranslateError("string not representable: %r" % s)
    return '"%s"' % s


def _const_str(node, consts, where):
    if isinstance(node, ast.Constant) and isinstance(node.value, str):
        return node.value
    if isinstance(node, ast.Name) and node.id in consts:
        return consts[node.id]
    raise TranslateError("%s: expected a string literal or module constant, got %s" % (where, ast.dump(node)[:80]))


def _parse_loader_module(fname):
    tree = ast.parse(_src(os.path.join("datasets", fname)))
    consts, loaders = {}, []
    for node in tree.body:
        where = "%s:%d" % (fname, getattr(node, "lineno", 0))
        if isinstance(node, ast.Expr) and isinstance(node.value, ast.Constant):
            continue
        if isinstance(node, (ast.Import, ast.ImportFrom)):
            continue
        if isinstance(node, ast.Assign) and len(node.targets) == 1 and isinstance(node.targets[0], ast.Name) \
                and isinstance(node.value, ast.Constant) and isinstance(node.value.value, str):
            consts[node.targets[0].id] = node.value.value
            continue
        if not isinstance(node, ast.FunctionDef):
            raise TranslateError("%s: top-level statement not accepted" % where)
        body = list(node.body)
        if body and isinstance(body[0], ast.Expr) and isinstance(body[0].value, ast.Constant):
            body = body[1:]
        if node.name.endswith("_dataset_description"):
            continue
        if not (node.args.kwarg and node.args.kwarg.arg == "kwargs" and not node.args.args and not node.args.vararg):
            raise TranslateError("%s: loader %s must have the signature (**kwargs)" % (where, node.name))

        def kwargs_forwarded(call):
            return any(k.arg is None and isinstance(k.value, ast.Name) and k.value.id == "kwargs" for k in call.keywords)
        if len(body) == 1 and isinstance(body[0], ast.Return) and isinstance(body[0].value, ast.Call) \
                and getattr(body[0].value.func, "id", None) == "load_csv_dataset_from_resources":
            call = body[0].value
            if len(call.args) != 1 or not kwargs_forwarded(call) or len(call.keywords) != 1:
                raise TranslateError("%s: unexpected arguments of load_csv_dataset_from_resources" % where)
            a = call.args[0]
            if not (isinstance(a, ast.Call) and isinstance(a.func, ast.Attribute) and a.func.attr == "join" and len(a.args) == 2):
                raise TranslateError("%s: expected path.join(folder, file)" % where)
            loaders.append((node.name, "Bundled", [_const_str(a.args[0], consts, where), _const_str(a.args[1], consts, where)]))
            continue
        if len(body) == 2 and isinstance(body[0], ast.Assign) and isinstance(body[0].value, ast.Call) \
                and getattr(body[0].value.func, "id", None) == "RemoteFileMetadata" and isinstance(body[1], ast.Return) \
                and isinstance(body[1].value, ast.Call) and getattr(body[1].value.func, "id", None) == "load_csv_dataset_from_remote":
            rm = {k.arg: k.value for k in body[0].value.keywords}
            if set(rm) != {"filename", "url", "checksum"} or body[0].value.args:
                raise TranslateError("%s: RemoteFileMetadata must be built with filename=, url=, checksum=" % where)
            call = body[1].value
            kw = {k.arg: k.value for k in call.keywords if k.arg}
            if call.args or set(kw) != {"remote", "dataset_filename", "dataset_folder", "validate_checksum"} or not kwargs_forwarded(call):
                raise TranslateError("%s: unexpected arguments of load_csv_dataset_from_remote: %s" % (where, sorted(kw)))
            if not (isinstance(kw["remote"], ast.Name) and kw["remote"].id == body[0].targets[0].id):
                raise TranslateError("%s: remote= must be the metadata built above" % where)
            if not (isinstance(kw["validate_checksum"], ast.Constant) and isinstance(kw["validate_checksum"].value, bool)):
                raise TranslateError("%s: validate_checksum must be a boolean literal" % where)
            for key_, val_ in (("filename", _const_str(rm["filename"], consts, where)), ("dataset_filename", _const_str(kw["dataset_filename"], consts, where))):
                rest = val_
                while rest.startswith("./"):
                    rest = rest[2:]
                if "/" in rest or rest in ("", ".", ".."):
                    raise TranslateError("%s: %s=%r contains a path separator the model does not normalise" % (where, key_, val_))
            loaders.append((node.name, "Remote", [_const_str(rm["filename"], consts, where), _const_str(rm["url"], consts, where),
                                                  _const_str(rm["checksum"], consts, where), _const_str(kw["dataset_filename"], consts, where),
                                                  _const_str(kw["dataset_folder"], consts, where)], kw["validate_checksum"].value))
            continue
        raise TranslateError("%s: body of loader %s is outside the accepted grammar" % (where, node.name))
    return loaders


@target("Registry")
def gen_registry():
    out = ["(** GENERATED by tools/translate.py from /repo/src/traffic_weaver/datasets/{_sandvine,_mix_it,_ams_ix,_ix_br,_datasets}.py — do not edit. *)",
           "From Coq Require Import String List.", "Import ListNotations.", "Open Scope string_scope.", "",
           "Inductive loader :=", "| Bundled (folder file : string)",
           "| Remote (filename url checksum dataset_filename dataset_folder : string) (validate_checksum : bool).", ""]
    rows = []
    for fn in DS_MODULES:
        for l in _parse_loader_module(fn):
            if l[1] == "Bundled":
                rows.append("  (%s, Bundled %s %s)" % (_cstr(l[0]), _cstr(l[2][0]), _cstr(l[2][1])))
            else:
                rows.append("  (%s, Remote %s %s)" % (_cstr(l[0]), " ".join(_cstr(s) for s in l[2]), "true" if l[3] else "false"))
    out.append("(* every loader function defined in the four family modules *)")
    out.append("Definition loaders : list (string * loader) := [\n" + ";\n".join(rows) + "\n].\n")
    # names visible as attributes of the aggregation module _datasets.py
    tree = ast.parse(_src(os.path.join("datasets", "_datasets.py")))
    exports = []
    for node in tree.body:
        if isinstance(node, ast.ImportFrom):
            if node.level != 1 or node.module not in ("_sandvine", "_mix_it", "_ams_ix", "_ix_br"):
                raise TranslateError("_datasets.py:%d: unexpected import source %r" % (node.lineno, node.module))
            for a in node.names:
                if a.name == "*":
                    raise TranslateError("_datasets.py:%d: star import not accepted" % node.lineno)
                exports.append(((a.asname or a.name), a.name, node.module))
        elif isinstance(node, ast.Expr) and isinstance(node.value, ast.Constant):
            continue
        else:
            raise TranslateError("_datasets.py:%d: statement not accepted" % node.lineno)
    out.append("(* attribute name in _datasets.py, function it is bound to *)")
    out.append("Definition exports : list (string * string) := [\n" + ";\n".join("  (%s, %s)" % (_cstr(a), _cstr(b)) for a, b, _ in exports) + "\n].\n")
    return "\n".join(out)


@target("DocTables")
def gen_doctables():
    d = os.path.join(REPO, "src", "traffic_weaver", "datasets", "data_description")
    out = ["(** GENERATED by tools/translate.py from /repo/src/traffic_weaver/datasets/data_description/*.md — do not edit. *)",
           "From Coq Require Import String List.", "Import ListNotations.", "Open Scope string_scope.", ""]
    rows = []
    fams = {"sandvine.md": "sandvine", "mix_it.md": "mix-it", "ams_ix.md": "ams-ix", "ix_br.md": "ix-br"}
    for fn in sorted(fams):
        p = os.path.join(d, fn)
        try:
            lines = open(p, encoding="utf-8").read().splitlines()
        except OSError as e:
            raise TranslateError("cannot read %s: %s" % (fn, e))
        n = 0
        for ln in lines:
            if not ln.startswith("|"):
                continue
            cells = [c.strip() for c in ln.strip().strip("|").split("|")]
            if len(cells) < 3 or not cells[0].isdigit():
                continue
            n += 1
            if int(cells[0]) != n:
                raise TranslateError("%s: table row numbering broken at %r" % (fn, ln[:60]))
            rows.append("  (%s, %s, %s)" % (_cstr(fams[fn]), _cstr(cells[1]), _cstr(cells[2])))
        if n == 0:
            raise TranslateError("%s: no table rows found" % fn)
    out.append("(* family, documented dataset name, repository file name *)")
    out.append("Definition doc_names : list (string * string * string) := [\n" + ";\n".join(rows) + "\n].\n")
    return "\n".join(out)


@target("Bundled")
def gen_bundled():
    from fractions import Fraction
    d = os.path.join(REPO, "src", "traffic_weaver", "datasets", "data")
    out = ["(** GENERATED by tools/translate.py from /repo/src/traffic_weaver/datasets/data/*/*.csv — do not edit.",
           "    Decimal literals are rendered as exact rationals. *)",
           "From TW Require Import Lib.Base.", "From Coq Require Import String.", "Open Scope Qc_scope.", ""]
    rows = []
    for folder in sorted(os.listdir(d)):
        fd = os.path.join(d, folder)
        if not os.path.isdir(fd) or folder.startswith("__"):
            continue
        for fn in sorted(os.listdir(fd)):
            if not fn.endswith(".csv"):
                continue
            xs, ys = [], []
            for k, ln in enumerate(open(os.path.join(fd, fn)).read().splitlines()):
                if not ln.strip():
                    continue
                cells = [c.strip() for c in ln.split(",")]
                if len(cells) != 2:
                    raise TranslateError("%s/%s:%d: expected two columns" % (folder, fn, k + 1))
                try:
                    xs.append(Fraction(cells[0]))
                    ys.append(Fraction(cells[1]))
                except ValueError:
                    raise TranslateError("%s/%s:%d: not a decimal literal" % (folder, fn, k + 1))
            rows.append("  (%s%%string, %s%%string,\n   [%s],\n   [%s])" % (_cstr(folder), _cstr(fn), "; ".join(_num(v) for v in xs), "; ".join(_num(v) for v in ys)))
    out.append("Definition bundled_files : list (string * string * list Qc * list Qc) := [\n" + ";\n".join(rows) + "\n].\n")
    return "\n".join(out)


# ==========================================================================================
# default parameter values of public signatures -> Gen/Defaults.v
# ==========================================================================================
DEFAULT_FILES = ["weaver.py", "match.py", "rfa.py", "process.py", "sorted_array_utils.py", os.path.join("datasets", "_base.py")]


def _dv(node):
    if isinstance(node, ast.Constant):
        v = node.value
        if v is None:
            return "DNone"
        if isinstance(v, bool):
            return "DBool %s" % ("true" if v else "false")
        if isinstance(v, (int, float)):
            from fractions import Fraction
            fr = Fraction(repr(v)) if isinstance(v, float) else Fraction(v)
            return "DNum (%d # %d)" % (fr.numerator, fr.denominator)
        if isinstance(v, str):
            return "DStr %s" % _cstr(v)
    if isinstance(node, ast.UnaryOp) and isinstance(node.op, ast.USub) and isinstance(node.operand, ast.Constant):
        from fractions import Fraction
        fr = -Fraction(repr(node.operand.value))
        return "DNum (%d # %d)" % (fr.numerator, fr.denominator)
    return "DOther"


@target("Defaults")
def gen_defaults():
    out = ["(** GENERATED by tools/translate.py: default values of the public signatures — do not edit. *)",
           "From Coq Require Import QArith String List.", "Import ListNotations.", "Open Scope string_scope.", "",
           "Inductive dval := DNone | DBool (b : bool) | DNum (q : Q) | DStr (s : string) | DOther.", ""]
    rows = []
    for fn in DEFAULT_FILES:
        tree = ast.parse(_src(fn))
        mod = os.path.basename(fn)[:-3]

        def visit(fdef, prefix):
            args = fdef.args
            pos = args.args
            for a, d in zip(pos[len(pos) - len(args.defaults):], args.defaults):
                rows.append("  (%s, %s)" % (_cstr("%s%s.%s" % (prefix, fdef.name, a.arg)), _dv(d)))
            for a, d in zip(args.kwonlyargs, args.kw_defaults):
                if d is not None:
                    rows.append("  (%s, %s)" % (_cstr("%s%s.%s" % (prefix, fdef.name, a.arg)), _dv(d)))
        for node in tree.body:
            if isinstance(node, ast.FunctionDef):
                visit(node, mod + ".")
            elif isinstance(node, ast.ClassDef):
                for sub in node.body:
                    if isinstance(sub, ast.FunctionDef):
                        visit(sub, mod + "." + node.name + ".")
    out.append("Definition defaults : list (string * dval) := [\n" + ";\n".join(rows) + "\n].\n")
    out.append("Fixpoint default_of (k : string) (l : list (string * dval)) : option dval :=\n  match l with [] => None | (k', v) :: l' => if String.eqb k k' then Some v else default_of k l' end.\n")
    return "\n".join(out)


# ==========================================================================================
# arithmetic kernels -> Gen/Kernels.v
# Each selected assignment / return expression of the listed functions is rendered as one Coq definition
# over the vector DSL of Lib/Vec.v, parameterised by its free variables (type val), in order of first
# occurrence.  The statement skeleton of every function is checked (fail-closed): an added, removed or
# reordered statement, or an expression outside the grammar, raises TranslateError.
#   grammar:  name | number | e (+|-|*|/) e | -e | e ** alpha (-> pw) | e ** 2 (-> square) | e ** 0.5 (-> psqrt)
#             | 10 ** e (-> p10) | e[:-1] | e[1:] | e[i] (i integer expression over names and literals)
#             | np.diff(e) | np.sum(e) | e.sum() | np.mean(e) | e.min() | e.max() | np.abs(e) | abs(e) | len(e)
#             | np.std(e) (-> psqrt (var e)) | np.append(e, e) | np.array([numbers]) | np.asarray(e[, dtype=..]) (identity)
#             | integral(x, y, method=...) (-> the parameter `integ`) 
# ==========================================================================================
class _KExpr:
    def __init__(self, where):
        self.where = where
        self.free = []          # free value variables in order
        self.ifree = []         # free integer variables (used inside indices)
        self.uses = set()       # oracle parameters used: pw, psqrt, p10, integ

    def bad(self, node, msg):
        raise TranslateError("%s:%d: %s (%s)" % (self.where, getattr(node, "lineno", 0), msg, ast.dump(node)[:100]))

    def var(self, name):
        if name not in self.free:
            self.free.append(name)
        return name

    def iexpr(self, e):
        if isinstance(e, ast.Constant) and isinstance(e.value, int) and not isinstance(e.value, bool):
            return "(%d)%%Z" % e.value
        if isinstance(e, ast.UnaryOp) and isinstance(e.op, ast.USub):
            return "(- %s)%%Z" % self.iexpr(e.operand)
        if isinstance(e, ast.Name):
            if e.id not in self.ifree:
                self.ifree.append(e.id)
            return e.id
        if isinstance(e, ast.BinOp) and type(e.op) in (ast.Add, ast.Sub, ast.Mult):
            op = {ast.Add: "+", ast.Sub: "-", ast.Mult: "*"}[type(e.op)]
            return "(%s %s %s)%%Z" % (self.iexpr(e.left), op, self.iexpr(e.right))
        self.bad(e, "index expression outside the grammar")

    def num(self, v):
        return "(VS %s)" % _num(v)

    def test(self, e):
        """a comparison `e1 < e2` used as an if-test -> bool"""
        if isinstance(e, ast.Compare) and len(e.ops) == 1 and isinstance(e.ops[0], ast.Lt):
            return "(Qc_ltb (as_scalar %s) (as_scalar %s))" % (self.expr(e.left), self.expr(e.comparators[0]))
        self.bad(e, "test outside the grammar")

    def expr(self, e):
        if isinstance(e, ast.Name):
            return self.var(e.id)
        if isinstance(e, ast.Attribute) and isinstance(e.value, ast.Name) and e.value.id == "self":
            return self.var("self_" + e.attr)
        if isinstance(e, ast.Constant) and isinstance(e.value, (int, float)) and not isinstance(e.value, bool):
            return self.num(e.value)
        if isinstance(e, ast.UnaryOp) and isinstance(e.op, ast.USub):
            return "(vneg %s)" % self.expr(e.operand)
        if isinstance(e, ast.BinOp):
            if isinstance(e.op, ast.Pow):
                if isinstance(e.right, ast.Name) and e.right.id == "alpha":
                    self.uses.add("pw")
                    return "(vpow pw %s)" % self.expr(e.left)
                if isinstance(e.right, ast.Name) and e.right.id == "adaptive_smooth":
                    self.uses.add("gpow")
                    return "(vpow gpow %s)" % self.expr(e.left)
                if isinstance(e.right, ast.Constant) and e.right.value == 2:
                    b = self.expr(e.left)
                    return "(vmul %s %s)" % (b, b)
                if isinstance(e.right, ast.Constant) and e.right.value == 0.5:
                    self.uses.add("psqrt")
                    return "(vpow psqrt %s)" % self.expr(e.left)
                if isinstance(e.left, ast.Constant) and e.left.value == 10:
                    self.uses.add("p10")
                    return "(vpow p10 %s)" % self.expr(e.right)
                self.bad(e, "power outside the grammar")
            ops = {ast.Add: "vadd", ast.Sub: "vsub", ast.Mult: "vmul", ast.Div: "vdiv"}
            if type(e.op) not in ops:
                self.bad(e, "operator not accepted")
            return "(%s %s %s)" % (ops[type(e.op)], self.expr(e.left), self.expr(e.right))
        if isinstance(e, ast.Subscript):
            sl = e.slice
            if isinstance(sl, ast.Slice):
                lo, hi, st = sl.lower, sl.upper, sl.step
                if st is None and lo is None and isinstance(hi, ast.UnaryOp) and isinstance(hi.op, ast.USub) and getattr(hi.operand, "value", None) == 1:
                    return "(vinit %s)" % self.expr(e.value)
                if st is None and hi is None and isinstance(lo, ast.Constant) and lo.value == 1:
                    return "(vtail %s)" % self.expr(e.value)
                self.bad(e, "slice outside the grammar")
            return "(vidx %s %s)" % (self.expr(e.value), self.iexpr(sl))
        if isinstance(e, ast.Call):
            f = e.func
            name = None
            if isinstance(f, ast.Attribute) and isinstance(f.value, ast.Name) and f.value.id == "np":
                name = "np." + f.attr
            elif isinstance(f, ast.Attribute):
                name = "." + f.attr
            elif isinstance(f, ast.Name):
                name = f.id
            kw = {k.arg: k.value for k in e.keywords}
            if name in ("np.diff", "np.sum", "np.mean", "np.abs", "abs", "len") and len(e.args) == 1 and not kw:
                return "(%s %s)" % ({"np.diff": "vdiff", "np.sum": "vsum", "np.mean": "vmean", "np.abs": "vabs", "abs": "vabs", "len": "vlen"}[name], self.expr(e.args[0]))
            if name in (".sum", ".min", ".max") and not e.args and not kw:
                return "(%s %s)" % ({".sum": "vsum", ".min": "vmin", ".max": "vmax"}[name], self.expr(f.value))
            if name == "int" and len(e.args) == 1 and not kw:
                return "(vtrunc %s)" % self.expr(e.args[0])
            if name in ("min", "max") and len(e.args) == 2 and not kw:
                return "(%s %s %s)" % ("vmin2" if name == "min" else "vmax2", self.expr(e.args[0]), self.expr(e.args[1]))
            if name == "np.std" and len(e.args) == 1 and not kw:
                self.uses.add("psqrt")
                return "(VS (psqrt (vvar %s)))" % self.expr(e.args[0])
            if name == "np.append" and len(e.args) == 2 and not kw:
                return "(vappend %s %s)" % (self.expr(e.args[0]), self.expr(e.args[1]))
            if name in ("np.asarray", "np.array", "np.asanyarray") and len(e.args) == 1 and set(kw) <= {"dtype", "copy"}:
                a = e.args[0]
                if isinstance(a, ast.List):
                    vals = []
                    for el in a.elts:
                        if not (isinstance(el, ast.Constant) and isinstance(el.value, (int, float))):
                            self.bad(e, "array literal outside the grammar")
                        vals.append(_num(el.value))
                    return "(varray [%s])" % "; ".join(vals)
                return self.expr(a)
            if name == "integral" and len(e.args) == 2 and set(kw) <= {"method"}:
                self.uses.add("integ")
                return "(integ %s %s)" % (self.expr(e.args[0]), self.expr(e.args[1]))
            self.bad(e, "call outside the grammar")
        self.bad(e, "expression outside the grammar")


def _kdef(name, where, node, as_test=False):
    k = _KExpr(where)
    body = k.test(node) if as_test else k.expr(node)
    params = ""
    if "pw" in k.uses:
        params += "(pw : Qc -> Qc) "
    if "psqrt" in k.uses:
        params += "(psqrt : Qc -> Qc) "
    if "p10" in k.uses:
        params += "(p10 : Qc -> Qc) "
    if "integ" in k.uses:
        params += "(integ : val -> val -> val) "
    if "gpow" in k.uses:
        params += "(gpow : Qc -> Qc) "
    if k.ifree:
        params += "(%s : Z) " % " ".join(k.ifree)
    if k.free:
        params += "(%s : val) " % " ".join(k.free)
    return "Definition %s %s: %s :=\n  %s.\n" % (name, params, "bool" if as_test else "val", body)


def _stmt_sig(st):
    """coarse statement signature used for the skeleton check"""
    if isinstance(st, ast.Assign) and len(st.targets) == 1:
        t = st.targets[0]
        if isinstance(t, ast.Name):
            return "assign:" + t.id
        if isinstance(t, ast.Tuple):
            return "assign:(" + ",".join(getattr(x, "id", "?") for x in t.elts) + ")"
        if isinstance(t, ast.Subscript):
            return "assign:[]"
        if isinstance(t, ast.Attribute) and isinstance(t.value, ast.Name):
            return "assign:%s.%s" % (t.value.id, t.attr)
    if isinstance(st, ast.AugAssign):
        return "aug:" + ast.unparse(st.target)
    if isinstance(st, ast.Return):
        return "return"
    if isinstance(st, ast.If):
        return "if(" + ";".join(_stmt_sig(s) for s in st.body) + "|" + ";".join(_stmt_sig(s) for s in st.orelse) + ")"
    if isinstance(st, ast.For):
        return "for(" + ";".join(_stmt_sig(s) for s in st.body) + ")"
    if isinstance(st, ast.Raise):
        return "raise"
    if isinstance(st, ast.Expr) and isinstance(st.value, ast.Call):
        return "call:" + ast.unparse(st.value.func)
    if isinstance(st, ast.Expr) and isinstance(st.value, ast.Constant):
        return "doc"
    return type(st).__name__


def _find_fun(tree, name):
    cls = None
    if "." in name:
        cls, name = name.split(".")
    for node in tree.body:
        if cls is None and isinstance(node, ast.FunctionDef) and node.name == name:
            return node
        if cls is not None and isinstance(node, ast.ClassDef) and node.name == cls:
            for sub in node.body:
                if isinstance(sub, ast.FunctionDef) and sub.name == name:
                    return sub
    raise TranslateError("function %s not found" % name)


def _body(fn):
    b = list(fn.body)
    if b and isinstance(b[0], ast.Expr) and isinstance(b[0].value, ast.Constant):
        b = b[1:]
    return b


# function -> (file, expected skeleton, [(definition name, path to the expression)])
# a path is a list of steps into the statement list: int = index, "body"/"orelse" = branch of an If/For, "value" = rhs
KERNELS = [
    ("sorted_array_utils.py", "rectangle_integral", "assign:d;return",
     [("rectangle_integral__d", [0]), ("rectangle_integral__ret", [1])]),
    ("sorted_array_utils.py", "trapezoid_integral", "return", [("trapezoid_integral__ret", [0])]),
    ("sorted_array_utils.py", "append_one_sample", "assign:x;assign:y;assign:x;if(assign:y|assign:y);return",
     [("append_one_sample__x", [2]), ("append_one_sample__y_last", [3, "body", 0]), ("append_one_sample__y_periodic", [3, "orelse", 0])]),
    ("process.py", "normalize", "assign:a;assign:a_min;assign:a_max;return",
     [("normalize__a_min", [1]), ("normalize__a_max", [2]), ("normalize__ret", [3])]),
    ("process.py", "trend", "assign:x;assign:y;assign:range_x;for(if(aug:y[i]|aug:y[i]));return", [("trend__range_x", [2])]),
    ("process.py", "repeat", "assign:x;assign:y;assign:n;assign:y;assign:x;for(assign:previous_range_diff;aug:x[n * i:n * (i + 1)]);return",
     [("repeat__previous_range_diff", [5, "body", 0])]),
    ("process.py", "truncate", "if(assign:x_left|);if(assign:x_right|);if(raise|);assign:left_id;assign:right_id;return",
     [("truncate__x_left", [0, "body", 0]), ("truncate__x_right", [1, "body", 0])]),
    ("process.py", "spline_smooth", "if(assign:s|);return", [("spline_smooth__s", [0, "body", 0])]),
    ("process.py", "noise_gauss",
     "assign:a;if(if(assign:snr|);assign:sp;if(assign:std_n|assign:std_n)|assign:std_n);assign:noise;return",
     [("noise_gauss__sp", [1, "body", 1]), ("noise_gauss__std_n_db", [1, "body", 2, "body", 0]), ("noise_gauss__std_n_lin", [1, "body", 2, "orelse", 0])]),
    ("rfa.py", "LinearFixedRFA.__init__", "call:super().__init__;if(assign:a|);assign:self.a;if(assign:self.a|);assign:self.a_l;assign:self.a_r",
     [("linfixed_init__a_from_alpha", [1, "body", 0]), ("linfixed_init__a", [2]), ("linfixed_init__clamp_test", [3, "test"]),
      ("linfixed_init__clamp_value", [3, "body", 0]), ("linfixed_init__a_l", [4]), ("linfixed_init__a_r", [5])]),
    ("rfa.py", "ExpFixedRFA.__init__", "call:super().__init__;if(assign:a|);assign:self.a;if(assign:self.a|);assign:self.a_l;assign:self.a_r;assign:self.b;assign:self.exp",
     [("expfixed_init__a_from_alpha", [1, "body", 0]), ("expfixed_init__a", [2]), ("expfixed_init__clamp_test", [3, "test"]),
      ("expfixed_init__clamp_value", [3, "body", 0]), ("expfixed_init__a_l", [4]), ("expfixed_init__a_r", [5]), ("expfixed_init__b", [6])]),
    ("rfa.py", "LinearAdaptiveRFA.__init__", "call:super().__init__;if(assign:a|);assign:self.a;if(assign:self.a|);assign:self.adaptive_smooth",
     [("linadapt_init__a_from_alpha", [1, "body", 0]), ("linadapt_init__a", [2]), ("linadapt_init__clamp_test", [3, "test"]),
      ("linadapt_init__clamp_value", [3, "body", 0])]),
    ("rfa.py", "ExpAdaptiveRFA.__init__", "call:super().__init__;if(assign:a|);assign:self.a;if(assign:self.a|);assign:self.beta;assign:self.adaptive_smooth;assign:self.exp",
     [("expadapt_init__a_from_alpha", [1, "body", 0]), ("expadapt_init__a", [2]), ("expadapt_init__clamp_test", [3, "test"]),
      ("expadapt_init__clamp_value", [3, "body", 0])]),
    ("rfa.py", "LinearAdaptiveRFA.get_adaptive_transition_points",
     "assign:gammas;assign:a_ls;assign:a_rs;for(assign:nom;assign:denom;if(call:a_ls.append;call:a_rs.append;call:gammas.append|"
     "if(call:a_ls.append;call:a_rs.append|if(call:a_ls.append;call:a_rs.append;call:gammas.append|"
     "assign:gamma;assign:gamma;assign:a_l;assign:a_r;assign:a_l;assign:a_r;call:a_ls.append;call:a_rs.append;call:gammas.append))));"
     "call:a_ls.extend;call:a_rs.extend;call:gammas.extend;return",
     [("adaptive__gamma", [3, "body", 2, "orelse", 0, "orelse", 0, "orelse", 0]), ("adaptive__gamma_smoothed", [3, "body", 2, "orelse", 0, "orelse", 0, "orelse", 1]),
      ("adaptive__a_l", [3, "body", 2, "orelse", 0, "orelse", 0, "orelse", 2]), ("adaptive__a_r", [3, "body", 2, "orelse", 0, "orelse", 0, "orelse", 3]),
      ("adaptive__a_l_clipped", [3, "body", 2, "orelse", 0, "orelse", 0, "orelse", 4]), ("adaptive__a_r_clipped", [3, "body", 2, "orelse", 0, "orelse", 0, "orelse", 5])]),
    ("match.py", "_integral_matching_stretch",
     "assign:y;if(assign:x|assign:x);if(raise|);assign:current_integral;assign:delta_p;assign:x_n2;assign:delta_x;assign:delta_xi;"
     "if(assign:w|assign:w);assign:y_hat;if(assign:y_hat|if(assign:y_hat|));assign:res_y;return",
     [("stretch__current_integral", [3]), ("stretch__delta_p", [4]), ("stretch__x_n2", [5]), ("stretch__delta_x", [6]), ("stretch__delta_xi", [7]),
      ("stretch__w_two_points", [8, "body", 0]), ("stretch__w", [8, "orelse", 0]),
      ("stretch__y_hat_trapezoid", [10, "body", 0]), ("stretch__y_hat_rectangle", [10, "orelse", 0, "body", 0]), ("stretch__res_y", [11])]),
]


@target("Kernels")
def gen_kernels():
    out = ["(** GENERATED by tools/translate.py from the arithmetic kernels of /repo/src/traffic_weaver/{sorted_array_utils,process,match}.py",
           "    — do not edit.  One definition per translated assignment / return expression, over the vector DSL of Lib/Vec.v;",
           "    free variables of the Python expression become parameters; `** alpha` -> pw, `** 0.5` -> psqrt, `10 ** e` -> p10. *)",
           "From TW Require Export Lib.Vec.", "Open Scope Qc_scope.", ""]
    trees = {}
    for fname, fn, skeleton, defs in KERNELS:
        if fname not in trees:
            trees[fname] = ast.parse(_src(fname))
        f = _find_fun(trees[fname], fn)
        body = _body(f)
        got = ";".join(_stmt_sig(s) for s in body)
        if got != skeleton:
            raise TranslateError("%s:%s: statement skeleton changed:\n  expected %s\n  found    %s" % (fname, fn, skeleton, got))
        for dname, path in defs:
            cur = body
            node = None
            for step in path:
                if isinstance(step, int):
                    node = cur[step]
                elif step == "test":
                    node = node.test
                else:
                    cur = getattr(node, step)
            as_test = False
            if path and path[-1] == "test":
                val, as_test = node, True
            elif isinstance(node, (ast.Assign, ast.Return)):
                val = node.value
            else:
                raise TranslateError("%s:%s: path %s does not end at an assignment/return" % (fname, fn, path))
            if isinstance(val, ast.Call) and getattr(val.func, "attr", None) == "sum" and isinstance(val.func.value, ast.Call) \
                    and getattr(val.func.value.func, "id", None) == "integral":
                pass
            out.append("(* %s:%d  %s *)" % (fname, node.lineno, ast.unparse(node).replace("*)", "* )")[:150]))
            out.append(_kdef(dname, fname, val, as_test))
    return "\n".join(out)


# ==========================================================================================
# weaver.py -> Gen/WeaverFootprint.v : which fields of the object each method assigns (in source order)
# ==========================================================================================
_FIELDS = {"x": "FX", "y": "FY", "original_x": "FOX", "original_y": "FOY", "reference_x": "FRX", "reference_y": "FRY",
           "x_scale": "FXS", "y_scale": "FYS"}
_MUTATORS = {"sort", "fill", "resize", "put", "itemset", "partition", "byteswap", "setfield", "setflags",
             "append", "extend", "insert", "pop", "remove", "clear", "reverse", "update"}


@target("WeaverFootprint")
def gen_weaver_footprint():
    tree = ast.parse(_src("weaver.py"))
    cls = None
    for node in tree.body:
        if isinstance(node, ast.ClassDef) and node.name == "Weaver":
            cls = node
    if cls is None:
        raise TranslateError("weaver.py: class Weaver not found")
    rows, direct, order = [], {}, []
    for fn in cls.body:
        if not isinstance(fn, ast.FunctionDef):
            continue
        writes, calls = [], []
        for st in ast.walk(fn):
            targets = []
            if isinstance(st, ast.Assign):
                targets = st.targets
            elif isinstance(st, (ast.AugAssign, ast.AnnAssign)):
                targets = [st.target]
            for t in targets:
                elts = t.elts if isinstance(t, ast.Tuple) else [t]
                for e in elts:
                    base = e
                    while isinstance(base, ast.Subscript):      # self.y[i] = ... is a write to y as well
                        base = base.value
                    if isinstance(base, ast.Attribute) and isinstance(base.value, ast.Name) and base.value.id == "self":
                        if base.attr not in _FIELDS:
                            raise TranslateError("weaver.py:%d: assignment to unknown attribute self.%s in %s" % (st.lineno, base.attr, fn.name))
                        writes.append((st.lineno, e.col_offset, _FIELDS[base.attr]))
            # in-place mutation of a field (self.y.sort(), np.add(..., out=self.y), setattr, __dict__) is outside the grammar
            if isinstance(st, ast.Call):
                for k in st.keywords:
                    if k.arg == "out":
                        raise TranslateError("weaver.py:%d: out= argument in %s" % (st.lineno, fn.name))
                f = st.func
                if isinstance(f, ast.Name) and f.id in ("setattr", "delattr", "vars"):
                    raise TranslateError("weaver.py:%d: %s() in %s" % (st.lineno, f.id, fn.name))
                if isinstance(f, ast.Attribute):
                    recv = f.value
                    while isinstance(recv, ast.Subscript):
                        recv = recv.value
                    if isinstance(recv, ast.Attribute) and isinstance(recv.value, ast.Name) and recv.value.id == "self" \
                            and recv.attr in _FIELDS and f.attr in _MUTATORS:
                        raise TranslateError("weaver.py:%d: in-place %s on self.%s in %s" % (st.lineno, f.attr, recv.attr, fn.name))
                    if isinstance(f.value, ast.Name) and f.value.id == "self":
                        calls.append((st.lineno, st.col_offset, f.attr))
            if isinstance(st, ast.Attribute) and isinstance(st.value, ast.Name) and st.value.id == "self" and st.attr == "__dict__":
                raise TranslateError("weaver.py:%d: self.__dict__ in %s" % (st.lineno, fn.name))
            if isinstance(st, ast.Delete):
                raise TranslateError("weaver.py:%d: del in %s" % (st.lineno, fn.name))
        writes.sort()
        direct[fn.name] = (writes, calls)
        order.append(fn.name)

    def closure(name, seen):
        """own assignments merged (by source position) with those of the self-methods it calls"""
        if name in seen or name not in direct:
            return []
        ws, cs = direct[name]
        items = [(l, c, [w]) for (l, c, w) in ws] + [(l, c, closure(callee, seen | {name})) for (l, c, callee) in cs]
        items.sort(key=lambda it: (it[0], it[1]))
        return [w for it in items for w in it[2]]

    for name in order:
        rows.append("  (%s, [%s])" % (_cstr(name), "; ".join(closure(name, frozenset()))))
    out = ["(** GENERATED by tools/translate.py from class Weaver in /repo/src/traffic_weaver/weaver.py — do not edit.",
           "    For every method: the fields of the object it assigns, in source order. *)",
           "From TW Require Export Lib.Glue.", "Open Scope string_scope.", "",
           "Definition method_writes : list (string * list field) := [\n" + ";\n".join(rows) + "\n].\n"]
    return "\n".join(out)



# ==========================================================================================
# weaver.py -> Gen/WeaverGlue.v : the bodies of the Weaver methods as terms of the glue language of Lib/Glue.v
# ==========================================================================================
_GLUE_SKIP = {"from_2d_array", "from_dataframe", "from_csv"}   # static constructors (modelled by Weaver.from_2d; pandas/csv not modelled)
_GLUE_BINOPS = {ast.Add: "+", ast.Sub: "-", ast.Mult: "*", ast.Div: "/", ast.Pow: "**", ast.FloorDiv: "//"}
_GLUE_CMPOPS = {ast.Lt: "<", ast.Gt: ">", ast.LtE: "<=", ast.GtE: ">=", ast.Eq: "==", ast.NotEq: "!=", ast.Is: "is", ast.IsNot: "isnot", ast.In: "in", ast.NotIn: "notin"}


def _glist(items):
    return "[" + "; ".join(items) + "]"


def _dotted(node):
    if isinstance(node, ast.Name):
        return node.id
    if isinstance(node, ast.Attribute):
        b = _dotted(node.value)
        return None if b is None else b + "." + node.attr
    return None


# translation context: how `self.attr` is written (Weaver: one of the eight fields; other classes: a variable "self.attr" bound by
# the caller of the interpreter), and which names are locals of the function being translated (for `local.attr`)
_CTX = {"self_attrs": False, "locals": set(), "allow_while": False}


def _gexpr(e, where):
    def rec(x):
        return _gexpr(x, where)
    if isinstance(e, ast.Attribute) and isinstance(e.value, ast.Name) and e.value.id == "self":
        if _CTX["self_attrs"]:
            return "(GVar %s)" % _cstr("self." + e.attr)
        if e.attr not in _FIELDS:
            raise TranslateError("%s: unknown attribute self.%s" % (where, e.attr))
        return "(GSelf %s)" % _FIELDS[e.attr]
    if isinstance(e, ast.Name):
        return "(GVar %s)" % _cstr(e.id)
    if isinstance(e, ast.Attribute) and isinstance(e.value, ast.Name) and e.value.id in _CTX["locals"]:
        return "(GMeth %s %s [])" % (rec(e.value), _cstr("." + e.attr))      # attribute of a local object: x.array
    if isinstance(e, ast.Attribute) and _dotted(e) is not None and not _dotted(e).startswith("self."):
        return "(GVar %s)" % _cstr(_dotted(e))      # np.float64, a.shape: a dotted name, given its meaning by the interpreter
    if isinstance(e, ast.ListComp) and len(e.generators) == 1 and not e.generators[0].ifs and not e.generators[0].is_async \
            and isinstance(e.generators[0].target, ast.Name):
        g = e.generators[0]
        return "(GListComp %s %s %s)" % (rec(e.elt), _cstr(g.target.id), rec(g.iter))
    if isinstance(e, ast.Attribute):
        # attribute of a computed value (np.linspace(...).T): written as a method name with a leading dot and no call
        return "(GMeth %s %s [])" % (rec(e.value), _cstr("." + e.attr))
    if isinstance(e, ast.Constant):
        if e.value is None:
            return "GNone"
        if isinstance(e.value, bool):
            return "(GBoolC %s)" % ("true" if e.value else "false")
        if isinstance(e.value, int):
            return "(GInt (%d)%%Z)" % e.value
        if isinstance(e.value, str):
            return "(GStr %s)" % _cstr(e.value)
        if isinstance(e.value, float) and e.value == e.value and abs(e.value) != float("inf"):
            from fractions import Fraction
            fr = Fraction(repr(e.value))      # the decimal literal as written (the model works over exact rationals)
            return "(GFloat (%d)%%Z %d%%positive)" % (fr.numerator, fr.denominator)
        raise TranslateError("%s: constant %r outside the glue grammar" % (where, e.value))
    if isinstance(e, ast.UnaryOp) and isinstance(e.op, ast.USub) and isinstance(e.operand, ast.Constant) and isinstance(e.operand.value, int) \
            and not isinstance(e.operand.value, bool):
        return "(GInt (%d)%%Z)" % (-e.operand.value)
    if isinstance(e, ast.UnaryOp) and isinstance(e.op, ast.USub):
        return "(GNeg %s)" % rec(e.operand)
    if isinstance(e, ast.UnaryOp) and isinstance(e.op, ast.Not):
        return "(GCall \"not\" [%s] [])" % rec(e.operand)
    if isinstance(e, ast.Tuple):
        return "(GTuple %s)" % _glist(rec(x) for x in e.elts)
    if isinstance(e, ast.List):
        return "(GList %s)" % _glist(rec(x) for x in e.elts)
    if isinstance(e, ast.IfExp):
        return "(GIfExp %s %s %s)" % (rec(e.test), rec(e.body), rec(e.orelse))
    if isinstance(e, ast.BinOp) and type(e.op) in _GLUE_BINOPS:
        return "(GBin %s %s %s)" % (_cstr(_GLUE_BINOPS[type(e.op)]), rec(e.left), rec(e.right))
    if isinstance(e, ast.Compare) and len(e.ops) == 1 and type(e.ops[0]) in _GLUE_CMPOPS:
        return "(GBin %s %s %s)" % (_cstr(_GLUE_CMPOPS[type(e.ops[0])]), rec(e.left), rec(e.comparators[0]))
    if isinstance(e, ast.BoolOp) and type(e.op) in (ast.And, ast.Or):
        op = "and" if isinstance(e.op, ast.And) else "or"
        acc = rec(e.values[-1])
        for v in reversed(e.values[:-1]):
            acc = "(GBin %s %s %s)" % (_cstr(op), rec(v), acc)
        return acc
    if isinstance(e, ast.Subscript):
        s = e.slice
        if isinstance(s, ast.Slice):
            parts = [rec(x) if x is not None else "GNone" for x in (s.lower, s.upper, s.step)]
            return "(GSlice %s %s %s %s)" % (rec(e.value), parts[0], parts[1], parts[2])
        return "(GIdx %s %s)" % (rec(e.value), rec(s))
    if isinstance(e, ast.Call) and isinstance(e.func, ast.Name) and e.func.id == "next":
        raise TranslateError("%s: next() inside an expression (only `v = next(it[, d])` statements are inside the grammar)" % where)
    if isinstance(e, ast.Call):
        args = []
        kws = []
        for a in e.args:
            if isinstance(a, ast.Starred):
                kws.append("(%s, %s)" % (_cstr("*"), rec(a.value)))
            else:
                args.append(rec(a))
        for k in e.keywords:
            kws.append("(%s, %s)" % (_cstr(k.arg if k.arg is not None else "**"), rec(k.value)))
        name = _dotted(e.func)
        if name is not None and not name.startswith("self."):
            head = name.split(".")[0]
            if "." in name and head not in ("np", "warnings"):
                # method call on a local / parameter: x.copy(); with keyword arguments: a call of ".name" on (receiver, args)
                if kws:
                    return "(GCall %s %s %s)" % (_cstr("." + e.func.attr), _glist([rec(e.func.value)] + args), _glist(kws))
                return "(GMeth %s %s %s)" % (rec(e.func.value), _cstr(e.func.attr), _glist(args))
            return "(GCall %s %s %s)" % (_cstr(name), _glist(args), _glist(kws))
        if isinstance(e.func, ast.Attribute):
            if kws:
                return "(GCall %s %s %s)" % (_cstr("." + e.func.attr), _glist([rec(e.func.value)] + args), _glist(kws))
            return "(GMeth %s %s %s)" % (rec(e.func.value), _cstr(e.func.attr), _glist(args))
        if isinstance(e.func, ast.Call):
            if kws:
                _glue_fail(where, e)
            return "(GApply %s %s)" % (rec(e.func), _glist(args))
    _glue_fail(where, e)


def _glue_fail(where, e):
    raise TranslateError("%s: expression outside the glue grammar: %s" % (where, ast.unparse(e)[:100]))


def _glhs(t, where):
    if isinstance(t, ast.Attribute) and isinstance(t.value, ast.Name) and t.value.id == "self" and _CTX["self_attrs"]:
        return "(LVar %s)" % _cstr("self." + t.attr)
    if isinstance(t, ast.Attribute) and isinstance(t.value, ast.Name) and t.value.id == "self":
        if t.attr not in _FIELDS:
            raise TranslateError("%s: assignment to unknown attribute self.%s" % (where, t.attr))
        return "(LSelf %s)" % _FIELDS[t.attr]
    if isinstance(t, ast.Name):
        return "(LVar %s)" % _cstr(t.id)
    if isinstance(t, ast.Subscript) and isinstance(t.value, ast.Name):
        s = t.slice
        if isinstance(s, ast.Slice):
            if s.step is not None or s.lower is None or s.upper is None:
                raise TranslateError("%s: slice target outside the glue grammar: %s" % (where, ast.unparse(t)[:80]))
            return "(LSlice %s %s %s)" % (_cstr(t.value.id), _gexpr(s.lower, where), _gexpr(s.upper, where))
        return "(LIdx %s %s)" % (_cstr(t.value.id), _gexpr(s, where))
    raise TranslateError("%s: assignment target outside the glue grammar: %s" % (where, ast.unparse(t)[:80]))


def _gstmts(body, where):
    out = []
    for st in body:
        w = "%s:%d" % (where, st.lineno)
        if isinstance(st, ast.Expr) and isinstance(st.value, ast.Constant) and isinstance(st.value.value, str):
            continue   # docstring
        is_next = (isinstance(st, ast.Assign) and isinstance(st.value, ast.Call) and isinstance(st.value.func, ast.Name) and st.value.func.id == "next")
        if isinstance(st, ast.Assign) and len(st.targets) == 1 and not is_next:
            t = st.targets[0]
            lhs = [_glhs(x, w) for x in t.elts] if isinstance(t, ast.Tuple) else [_glhs(t, w)]
            out.append("SAssign %s %s" % (_glist(lhs), _gexpr(st.value, w)))
        elif isinstance(st, ast.If):
            out.append("SIf %s %s %s" % (_gexpr(st.test, w), _gstmts(st.body, where), _gstmts(st.orelse, where)))
        elif isinstance(st, ast.Raise) and isinstance(st.exc, ast.Call) and isinstance(st.exc.func, ast.Name) and st.cause is None:
            out.append("SRaise %s" % _cstr(st.exc.func.id))
        elif isinstance(st, ast.Return) and st.value is not None:
            out.append("SReturn %s" % _gexpr(st.value, w))
        elif _CTX["allow_while"] and isinstance(st, ast.While) and not st.orelse:
            out.append("SWhile %s %s" % (_gexpr(st.test, w), _gstmts(st.body, where)))
        elif _CTX["allow_while"] and isinstance(st, ast.Break):
            out.append("SBreak")
        elif isinstance(st, ast.Assign) and len(st.targets) == 1 and isinstance(st.targets[0], ast.Name) and isinstance(st.value, ast.Call) \
                and isinstance(st.value.func, ast.Name) and st.value.func.id == "next" and st.value.args and isinstance(st.value.args[0], ast.Name) \
                and not st.value.keywords and len(st.value.args) <= 2:
            # v = next(it[, default]) advances the iterator: written as the pair assignment v, it = next!(it[, default])
            it = st.value.args[0].id
            out.append("SAssign [(LVar %s); (LVar %s)] (GCall \"next!\" %s [])" % (_cstr(st.targets[0].id), _cstr(it), _glist(_gexpr(a_, w) for a_ in st.value.args)))
        elif isinstance(st, ast.Expr) and isinstance(st.value, ast.Call) and isinstance(st.value.func, ast.Attribute) \
                and isinstance(st.value.func.value, ast.Name) and st.value.func.value.id in _CTX["locals"]:
            # v.m(args) as a statement: the object bound to v may be modified in place; the name is rebound to the value the
            # leaf semantics gives to "m!" (receiver first)
            c = st.value
            args = [_gexpr(c.func.value, w)] + [_gexpr(a_, w) for a_ in c.args]
            kws = ["(%s, %s)" % (_cstr(k.arg if k.arg is not None else "**"), _gexpr(k.value, w)) for k in c.keywords]
            out.append("SAssign [(LVar %s)] (GCall %s %s %s)" % (_cstr(c.func.value.id), _cstr("." + c.func.attr + "!"), _glist(args), _glist(kws)))
        elif isinstance(st, ast.Expr) and isinstance(st.value, ast.Call):
            out.append("SExpr %s" % _gexpr(st.value, w))
        elif isinstance(st, ast.AugAssign) and type(st.op) in _GLUE_BINOPS:
            out.append("SAug %s %s %s" % (_glhs(st.target, w), _cstr(_GLUE_BINOPS[type(st.op)]), _gexpr(st.value, w)))
        elif isinstance(st, ast.For) and not st.orelse:
            tg = st.target
            names = [tg] if isinstance(tg, ast.Name) else list(tg.elts) if isinstance(tg, ast.Tuple) else None
            if names is None or not all(isinstance(n_, ast.Name) for n_ in names):
                raise TranslateError("%s: loop target outside the glue grammar: %s" % (w, ast.unparse(tg)[:80]))
            out.append("SFor %s %s %s" % (_glist(_cstr(n_.id) for n_ in names), _gexpr(st.iter, w), _gstmts(st.body, where)))
        else:
            raise TranslateError("%s: statement outside the glue grammar: %s" % (w, ast.unparse(st)[:100]))
    return _glist(out)


@target("WeaverGlue")
def gen_weaver_glue():
    tree = ast.parse(_src("weaver.py"))
    cls = None
    imports = []
    for node in tree.body:
        if isinstance(node, ast.ClassDef) and node.name == "Weaver" and cls is None:
            cls = node
        elif isinstance(node, ast.Expr) and isinstance(node.value, ast.Constant) and isinstance(node.value.value, str):
            continue
        elif isinstance(node, ast.Import):
            for al in node.names:
                imports.append(("", al.name, al.asname or al.name))
        elif isinstance(node, ast.ImportFrom):
            for al in node.names:
                if al.name == "*":
                    raise TranslateError("weaver.py:%d: star import" % node.lineno)
                imports.append(("." * node.level + (node.module or ""), al.name, al.asname or al.name))
        else:
            # a module-level definition could shadow an imported name
            raise TranslateError("weaver.py:%d: module-level statement outside the glue grammar: %s" % (node.lineno, ast.unparse(node)[:80].split("\n")[0]))
    if cls is None:
        raise TranslateError("weaver.py: class Weaver not found")
    if cls.bases or cls.keywords or cls.decorator_list:
        raise TranslateError("weaver.py: class Weaver has bases/decorators (outside the glue grammar)")
    rows = []
    for fn in cls.body:
        if isinstance(fn, ast.Expr) and isinstance(fn.value, ast.Constant):
            continue
        if not isinstance(fn, ast.FunctionDef):
            raise TranslateError("weaver.py:%d: class-level statement outside the glue grammar" % fn.lineno)
        static = any(isinstance(d, ast.Name) and d.id == "staticmethod" for d in fn.decorator_list)
        if fn.name in _GLUE_SKIP:
            if not static:
                raise TranslateError("weaver.py: %s is expected to be a staticmethod" % fn.name)
            continue
        if fn.decorator_list:
            raise TranslateError("weaver.py: decorator on %s" % fn.name)
        a = fn.args
        if a.vararg or a.kwonlyargs or a.posonlyargs:
            raise TranslateError("weaver.py: parameter kinds of %s outside the glue grammar" % fn.name)
        names = [x.arg for x in a.args]
        if not names or names[0] != "self":
            raise TranslateError("weaver.py: %s has no self" % fn.name)
        defaults = [None] * (len(names) - len(a.defaults)) + list(a.defaults)
        params = []
        for nm, d in zip(names[1:], defaults[1:]):
            params.append("(%s, %s)" % (_cstr(nm), "None" if d is None else "Some %s" % _gexpr(d, "weaver.py:%s default" % fn.name)))
        if a.kwarg is not None:
            params.append("(%s, None)" % _cstr("**" + a.kwarg.arg))
        # a parameter or local that rebinds an imported name (or builtin len) would change what a call means
        bound = {b for _, _, b in imports} | {"len", "self"}
        local_names = set(names[1:]) | ({a.kwarg.arg} if a.kwarg is not None else set())
        for sub in (n for st in fn.body for n in ast.walk(st)):
            if isinstance(sub, ast.Name) and isinstance(sub.ctx, (ast.Store, ast.Del)):
                local_names.add(sub.id)
            if isinstance(sub, (ast.FunctionDef, ast.Lambda, ast.ClassDef, ast.Import, ast.ImportFrom, ast.Global, ast.Nonlocal,
                                ast.With, ast.Try, ast.For, ast.While, ast.NamedExpr, ast.ListComp, ast.GeneratorExp)) and sub is not fn:
                raise TranslateError("weaver.py:%d: %s in %s outside the glue grammar" % (sub.lineno, type(sub).__name__, fn.name))
        clash = local_names & bound
        if clash:
            raise TranslateError("weaver.py: %s rebinds %s" % (fn.name, sorted(clash)))
        rows.append("  (%s, (%s,\n     %s))" % (_cstr(fn.name), _glist(params), _gstmts(fn.body, "weaver.py:" + fn.name)))
    out = ["(** GENERATED by tools/translate.py from class Weaver in /repo/src/traffic_weaver/weaver.py — do not edit.",
           "    For every method: its parameters (with defaults) and its body in the glue language of Lib/Glue.v. *)",
           "From TW Require Export Lib.Glue.", "Open Scope string_scope.", "",
           "(** module-level imports: (module, imported name, bound name) — the only module-level statements besides the class *)",
           "Definition weaver_imports : list (string * string * string) := [\n" +
           ";\n".join("  (%s, %s, %s)" % (_cstr(a), _cstr(b), _cstr(c)) for a, b, c in imports) + "\n].\n",
           "Definition weaver_methods : list (string * (list (string * option gexpr) * list gstmt)) := [\n" + ";\n".join(rows) + "\n].\n"]
    return "\n".join(out)



# ==========================================================================================
# module-level functions as glue terms: Gen/MatchGlue.v, Gen/ProcessGlue.v, Gen/UtilsGlue.v
# ==========================================================================================
def _module_imports(tree, fname, allow_defs):
    """module-level imports (module, name, bound name); any other module-level statement except the listed definitions,
    docstrings and plain constant assignments is rejected (a definition could shadow an imported name)"""
    imports, defs = [], []
    for node in tree.body:
        if isinstance(node, ast.Expr) and isinstance(node.value, ast.Constant) and isinstance(node.value.value, str):
            continue
        if isinstance(node, ast.Import):
            for al in node.names:
                imports.append(("", al.name, al.asname or al.name))
        elif isinstance(node, ast.ImportFrom):
            for al in node.names:
                if al.name == "*":
                    raise TranslateError("%s:%d: star import" % (fname, node.lineno))
                imports.append(("." * node.level + (node.module or ""), al.name, al.asname or al.name))
        elif isinstance(node, ast.FunctionDef):
            if node.decorator_list:
                raise TranslateError("%s: decorator on %s" % (fname, node.name))
            defs.append(node.name)
        else:
            raise TranslateError("%s:%d: module-level statement outside the glue grammar: %s" % (fname, node.lineno, ast.unparse(node)[:80].split("\n")[0]))
    if len(set(defs)) != len(defs):
        raise TranslateError("%s: a function is defined twice" % fname)
    clash = set(defs) & {b for _, _, b in imports}
    if clash:
        raise TranslateError("%s: definitions shadow imports: %s" % (fname, sorted(clash)))
    return imports, defs


def _fun_row(fn, fname, bound):
    a = fn.args
    if a.vararg or a.kwonlyargs or a.posonlyargs:
        raise TranslateError("%s: parameter kinds of %s outside the glue grammar" % (fname, fn.name))
    names = [x.arg for x in a.args]
    defaults = [None] * (len(names) - len(a.defaults)) + list(a.defaults)
    params = []
    for nm, d in zip(names, defaults):
        params.append("(%s, %s)" % (_cstr(nm), "None" if d is None else "Some %s" % _gexpr(d, "%s:%s default" % (fname, fn.name))))
    if a.kwarg is not None:
        params.append("(%s, None)" % _cstr("**" + a.kwarg.arg))
    local_names = set(names) | ({a.kwarg.arg} if a.kwarg is not None else set())
    for sub in (n for st in fn.body for n in ast.walk(st)):
        if isinstance(sub, ast.Name) and isinstance(sub.ctx, (ast.Store, ast.Del)):
            local_names.add(sub.id)
        if isinstance(sub, (ast.FunctionDef, ast.Lambda, ast.ClassDef, ast.Import, ast.ImportFrom, ast.Global, ast.Nonlocal,
                            ast.With, ast.Try, ast.NamedExpr, ast.ListComp, ast.GeneratorExp, ast.Delete)) \
                or (isinstance(sub, ast.While) and not _CTX["allow_while"]):
            raise TranslateError("%s:%d: %s in %s outside the glue grammar" % (fname, sub.lineno, type(sub).__name__, fn.name))
    clash = local_names & bound
    if clash:
        raise TranslateError("%s: %s rebinds %s" % (fname, fn.name, sorted(clash)))
    return "  (%s, (%s,\n     %s))" % (_cstr(fn.name), _glist(params), _gstmts(fn.body, "%s:%s" % (fname, fn.name)))


def _gen_fun_table(fname, funcs, defname, what):
    tree = ast.parse(_src(fname))
    imports, defs = _module_imports(tree, fname, funcs)
    bound = {b for _, _, b in imports} | set(defs) | {"len", "range", "zip", "int", "abs", "min", "max", "next", "iter"}
    rows = []
    for name in funcs:
        fn = _find_fun(tree, name)
        # the function itself may be called recursively by name only if it is in the table; its own name is not a rebind
        rows.append(_fun_row(fn, fname, bound - {name}))
    out = ["(** GENERATED by tools/translate.py from /repo/src/traffic_weaver/%s — do not edit." % fname,
           "    %s: parameters (with defaults) and bodies in the glue language of Lib/Glue.v. *)" % what,
           "From TW Require Export Lib.Glue.", "Open Scope string_scope.", "",
           "Definition %s_imports : list (string * string * string) := [\n" % defname +
           ";\n".join("  (%s, %s, %s)" % (_cstr(a), _cstr(b), _cstr(c)) for a, b, c in imports) + "\n].\n",
           "(** every function defined at module level (the ones not translated are listed too: a call resolves to them) *)",
           "Definition %s_defined : list string := %s.\n" % (defname, _glist(_cstr(d) for d in defs)),
           "Definition %s_functions : list (string * (list (string * option gexpr) * list gstmt)) := [\n" % defname + ";\n".join(rows) + "\n].\n"]
    return "\n".join(out)


@target("MatchGlue")
def gen_match_glue():
    return _gen_fun_table("match.py", ["integral_matching_reference_stretch", "_interval_integral_matching_stretch", "_integral_matching_stretch"],
                          "match", "The three functions of match.py")


@target("ProcessGlue")
def gen_process_glue():
    return _gen_fun_table("process.py", ["interpolate", "repeat", "trend", "truncate", "normalize", "spline_smooth"],
                          "process", "Functions of process.py")


@target("ScanGlue")
def gen_scan_glue():
    save = dict(_CTX)
    _CTX["allow_while"] = True
    try:
        return _gen_fun_table("sorted_array_utils.py", ["find_closest_lower_equal_element_indices_to_values",
                                                        "find_closest_higher_equal_element_indices_to_values",
                                                        "find_closest_lower_or_higher_element_indices_to_values"],
                              "scan", "The three two-pointer scans of sorted_array_utils.py (while loops over explicit iterators)")
    finally:
        _CTX.update(save)


@target("UtilsGlue")
def gen_utils_glue():
    return _gen_fun_table("sorted_array_utils.py", ["append_one_sample", "oversample_linspace", "oversample_piecewise_constant", "extend_linspace",
                                                    "extend_constant", "rectangle_integral", "trapezoid_integral", "integral",
                                                    "find_closest_element_indices_to_values"],
                          "utils", "Functions of sorted_array_utils.py")



# ==========================================================================================
# rfa.py -> Gen/RfaGlue.v : the rfa() methods of the strategy classes (and the helpers they call) as glue terms
# ==========================================================================================
_RFA_METHODS = [("AbstractRFA", "_initial_oversample"), ("AbstractRFA", "_initial_x_oversample"), ("AbstractRFA", "_initial_y_oversample"),
                ("PiecewiseConstantRFA", "rfa"), ("FunctionRFA", "rfa"), ("LinearFixedRFA", "rfa"), ("LinearAdaptiveRFA", "rfa"), ("ExpFixedRFA", "rfa"),
                ("ExpAdaptiveRFA", "rfa"), ("LinearAdaptiveRFA", "get_adaptive_transition_points")]


@target("RfaGlue")
def gen_rfa_glue():
    fname = "rfa.py"
    tree = ast.parse(_src(fname))
    imports, classes = [], {}
    for node in tree.body:
        if isinstance(node, ast.Expr) and isinstance(node.value, ast.Constant) and isinstance(node.value.value, str):
            continue
        if isinstance(node, ast.Import):
            for al in node.names:
                imports.append(("", al.name, al.asname or al.name))
        elif isinstance(node, ast.ImportFrom):
            for al in node.names:
                if al.name == "*":
                    raise TranslateError("%s:%d: star import" % (fname, node.lineno))
                imports.append(("." * node.level + (node.module or ""), al.name, al.asname or al.name))
        elif isinstance(node, ast.ClassDef):
            if node.decorator_list or node.keywords:
                raise TranslateError("%s: decorator / metaclass on class %s" % (fname, node.name))
            classes[node.name] = node
        else:
            raise TranslateError("%s:%d: module-level statement outside the glue grammar: %s" % (fname, node.lineno, ast.unparse(node)[:80].split("\n")[0]))
    bound = {b for _, _, b in imports} | set(classes) | {"len", "range", "zip", "int", "abs", "min", "max"}
    # class hierarchy and, per class, the methods it defines (so that the meaning of self.m() / super() is visible)
    hier = []
    for cname, c in classes.items():
        bases = []
        for b in c.bases:
            nm = _dotted(b)
            if nm is None:
                raise TranslateError("%s: base of %s outside the glue grammar" % (fname, cname))
            bases.append(nm)
        meths = []
        for sub in c.body:
            if isinstance(sub, ast.FunctionDef):
                meths.append(sub.name)
            elif (isinstance(sub, ast.Expr) and isinstance(sub.value, ast.Constant)) or isinstance(sub, ast.Pass):
                continue
            else:
                raise TranslateError("%s:%d: class-level statement in %s outside the glue grammar" % (fname, sub.lineno, cname))
        hier.append("  (%s, (%s, %s))" % (_cstr(cname), _glist(_cstr(b) for b in bases), _glist(_cstr(m) for m in meths)))
    rows = []
    save = dict(_CTX)
    try:
        for cname, mname in _RFA_METHODS:
            if cname not in classes:
                raise TranslateError("%s: class %s not found" % (fname, cname))
            fn = None
            for sub in classes[cname].body:
                if isinstance(sub, ast.FunctionDef) and sub.name == mname:
                    fn = sub
            if fn is None:
                raise TranslateError("%s: %s.%s not found" % (fname, cname, mname))
            static = [d for d in fn.decorator_list if isinstance(d, ast.Name) and d.id == "staticmethod"]
            if len(static) != len(fn.decorator_list):
                raise TranslateError("%s: decorator on %s.%s" % (fname, cname, mname))
            names = [x.arg for x in fn.args.args]
            if static:
                if names[:1] == ["self"]:
                    raise TranslateError("%s: static method %s.%s takes self" % (fname, cname, mname))
                names = ["self"] + names      # uniform treatment below: drop the first
            elif names[:1] != ["self"]:
                raise TranslateError("%s: %s.%s has no self" % (fname, cname, mname))
            local_names = set(names[1:])
            for sub in (n for st in fn.body for n in ast.walk(st)):
                if isinstance(sub, ast.Name) and isinstance(sub.ctx, ast.Store):
                    local_names.add(sub.id)
            _CTX["self_attrs"] = True
            _CTX["locals"] = set(local_names)
            clone = ast.FunctionDef(name=cname + "." + mname, args=ast.arguments(posonlyargs=[], args=(fn.args.args if static else fn.args.args[1:]), vararg=fn.args.vararg,
                                    kwonlyargs=fn.args.kwonlyargs, kw_defaults=fn.args.kw_defaults, kwarg=fn.args.kwarg, defaults=fn.args.defaults),
                                    body=fn.body, decorator_list=[], lineno=fn.lineno)
            rows.append(_fun_row_rfa(clone, fname, bound))
    finally:
        _CTX.update(save)
    out = ["(** GENERATED by tools/translate.py from /repo/src/traffic_weaver/rfa.py — do not edit.",
           "    The rfa() methods of the strategy classes and the helpers they call, as terms of the glue language of Lib/Glue.v;",
           "    `self.attr` is the variable \"self.attr\" (bound by the caller of the interpreter to the value the constructor stored). *)",
           "From TW Require Export Lib.Glue.", "Open Scope string_scope.", "",
           "Definition rfa_imports : list (string * string * string) := [\n" +
           ";\n".join("  (%s, %s, %s)" % (_cstr(a), _cstr(b), _cstr(c)) for a, b, c in imports) + "\n].\n",
           "(** classes: (name, (bases, methods defined in the class body)) *)",
           "Definition rfa_classes : list (string * (list string * list string)) := [\n" + ";\n".join(hier) + "\n].\n",
           "Definition rfa_methods : list (string * (list (string * option gexpr) * list gstmt)) := [\n" + ";\n".join(rows) + "\n].\n"]
    return "\n".join(out)


def _fun_row_rfa(fn, fname, bound):
    """like _fun_row, but single-generator list comprehensions are inside the grammar here"""
    a = fn.args
    if a.vararg or a.kwonlyargs or a.posonlyargs:
        raise TranslateError("%s: parameter kinds of %s outside the glue grammar" % (fname, fn.name))
    names = [x.arg for x in a.args]
    defaults = [None] * (len(names) - len(a.defaults)) + list(a.defaults)
    params = ["(%s, %s)" % (_cstr(nm), "None" if d is None else "Some %s" % _gexpr(d, "%s:%s default" % (fname, fn.name))) for nm, d in zip(names, defaults)]
    local_names = set(names)
    for sub in (n for st in fn.body for n in ast.walk(st)):
        if isinstance(sub, ast.Name) and isinstance(sub.ctx, (ast.Store, ast.Del)):
            local_names.add(sub.id)
        if isinstance(sub, (ast.FunctionDef, ast.Lambda, ast.ClassDef, ast.Import, ast.ImportFrom, ast.Global, ast.Nonlocal,
                            ast.With, ast.Try, ast.While, ast.NamedExpr, ast.GeneratorExp, ast.Delete)):
            raise TranslateError("%s:%d: %s in %s outside the glue grammar" % (fname, sub.lineno, type(sub).__name__, fn.name))
    clash = local_names & bound
    if clash:
        raise TranslateError("%s: %s rebinds %s" % (fname, fn.name, sorted(clash)))
    return "  (%s, (%s,\n     %s))" % (_cstr(fn.name), _glist(params), _gstmts(fn.body, "%s:%s" % (fname, fn.name)))



# ==========================================================================================
# datasets/_base.py -> Gen/CacheSkeleton.v : guards and the order / scoping of the effects of the remote loader
# ==========================================================================================
def _bexpr(e, names, where):
    """boolean expression over the given names -> Coq bool term"""
    if isinstance(e, ast.Name) and e.id in names:
        return e.id
    if isinstance(e, ast.UnaryOp) and isinstance(e.op, ast.Not):
        return "(negb %s)" % _bexpr(e.operand, names, where)
    if isinstance(e, ast.BoolOp):
        op = " && " if isinstance(e.op, ast.And) else " || "
        return "(" + op.join(_bexpr(v, names, where) for v in e.values) + ")"
    raise TranslateError("%s: boolean expression outside the grammar: %s" % (where, ast.unparse(e)[:100]))


def _name_of(e):
    return e.id if isinstance(e, ast.Name) else None


def _join_parts(e):
    """path.join(a, b) with two names -> (a, b)"""
    if isinstance(e, ast.Call) and _dotted(e.func) in ("path.join", "os.path.join") and len(e.args) == 2 and not e.keywords \
            and all(isinstance(a, ast.Name) for a in e.args):
        return (e.args[0].id, e.args[1].id)
    return None


@target("CacheSkeleton")
def gen_cache_skeleton():
    fname = "datasets/_base.py"
    tree = ast.parse(_src(fname))
    where = fname
    load = _find_fun(tree, "load_csv_dataset_from_remote")
    fetch = _find_fun(tree, "_fetch_remote")
    body = _body(load)
    # ---- load_csv_dataset_from_remote: expected statement skeleton
    sig = ";".join(_stmt_sig(s) for s in body)
    expect = ("assign:data_home;assign:dataset_dir;assign:dataset_file_path;assign:available;assign:dataset;"
              "if(call:os.makedirs;With|if(raise|));if(assign:dataset|);if(return|return)")
    if sig != expect:
        raise TranslateError("%s:load_csv_dataset_from_remote: statement skeleton changed:\n  expected %s\n  found    %s" % (fname, expect, sig))
    paths = {}
    for st in body[:5]:
        tg = st.targets[0].id
        jp = _join_parts(st.value)
        if jp:
            paths[tg] = jp
    if paths.get("dataset_dir", (None, None))[1] != "dataset_folder" or paths.get("dataset_file_path") != ("dataset_dir", "dataset_filename"):
        raise TranslateError("%s: cache slot path is not data_home/dataset_folder/dataset_filename: %s" % (fname, paths))
    av = body[3].value
    if not (isinstance(av, ast.Call) and _dotted(av.func) == "path.exists" and len(av.args) == 1 and _name_of(av.args[0]) == "dataset_file_path"):
        raise TranslateError("%s: `available` is not path.exists(dataset_file_path)" % fname)
    if not (isinstance(body[4].value, ast.Constant) and body[4].value.value is None):
        raise TranslateError("%s: dataset is not initialised to None" % fname)
    ifst = body[5]
    bnames = {"download_if_missing", "download_even_if_available", "available"}
    download_cond = _bexpr(ifst.test, bnames, fname)
    elifst = ifst.orelse[0]
    missing_cond = _bexpr(elifst.test, bnames, fname)
    missing_exn = elifst.body[0].exc.func.id if isinstance(elifst.body[0].exc, ast.Call) and isinstance(elifst.body[0].exc.func, ast.Name) else None
    if missing_exn is None:
        raise TranslateError("%s: raise in the missing-data branch outside the grammar" % fname)
    mk = ifst.body[0].value
    if not (_dotted(mk.func) == "os.makedirs" and _name_of(mk.args[0]) == "dataset_dir"):
        raise TranslateError("%s: makedirs target is not dataset_dir" % fname)
    w = ifst.body[1]
    if len(w.items) != 1 or not isinstance(w.items[0].context_expr, ast.Call) or _dotted(w.items[0].context_expr.func) != "TemporaryDirectory" \
            or _name_of(w.items[0].optional_vars) is None:
        raise TranslateError("%s: with-statement is not `with TemporaryDirectory(...) as <name>`" % fname)
    tmpcall = w.items[0].context_expr
    tmp_var = w.items[0].optional_vars.id
    tmp_parent = None
    for k in tmpcall.keywords:
        if k.arg == "dir":
            tmp_parent = _name_of(k.value)
    if tmpcall.args or tmp_parent is None or len(tmpcall.keywords) != 1:
        raise TranslateError("%s: TemporaryDirectory arguments outside the grammar" % fname)
    # ---- the effects inside the with block, in order
    wsig = ";".join(_stmt_sig(s) for s in w.body)
    wexpect = "call:logger.info;assign:archive_path;if(assign:dataset|assign:dataset);assign:dataset_tmp_file_path;call:pickle.dump;call:os.rename"
    if wsig != wexpect:
        raise TranslateError("%s: statements inside the TemporaryDirectory block changed:\n  expected %s\n  found    %s" % (fname, wexpect, wsig))
    fcall = w.body[1].value
    if not (isinstance(fcall, ast.Call) and _name_of(fcall.func) == "_fetch_remote" and len(fcall.args) == 1 and _name_of(fcall.args[0]) == "remote"):
        raise TranslateError("%s: archive_path is not _fetch_remote(remote, ...)" % fname)
    fkw = {k.arg: _name_of(k.value) for k in fcall.keywords}
    gz = w.body[2]
    if _name_of(gz.test) != "gzip":
        raise TranslateError("%s: parse branch is not `if gzip`" % fname)

    def loadtxt_src(call):
        if not (isinstance(call, ast.Call) and _dotted(call.func) == "np.loadtxt" and len(call.args) == 1):
            raise TranslateError("%s: parse step is not np.loadtxt(<one source>, ...)" % fname)
        a = call.args[0]
        if isinstance(a, ast.Name):
            return ("plain", a.id)
        if isinstance(a, ast.Call) and _name_of(a.func) == "GzipFile" and len(a.keywords) == 1 and a.keywords[0].arg == "filename" and not a.args:
            return ("gzip", _name_of(a.keywords[0].value))
        raise TranslateError("%s: np.loadtxt source outside the grammar" % fname)
    parse_gz = loadtxt_src(gz.body[0].value)
    parse_plain = loadtxt_src(gz.orelse[0].value)
    tmpfile = _join_parts(w.body[3].value)
    dump = w.body[4].value
    dump_ok = (len(dump.args) == 2 and _name_of(dump.args[0]) == "dataset" and isinstance(dump.args[1], ast.Call) and _name_of(dump.args[1].func) == "open"
               and _name_of(dump.args[1].args[0]) == "dataset_tmp_file_path")
    ren = w.body[5].value
    ren_args = [_name_of(a) for a in ren.args] if not ren.keywords else None
    rd = body[6]
    read_ok = (isinstance(rd.test, ast.Compare) and _name_of(rd.test.left) == "dataset" and isinstance(rd.test.ops[0], ast.Is)
               and isinstance(rd.test.comparators[0], ast.Constant) and rd.test.comparators[0].value is None)
    rdv = rd.body[0].value
    read_src = None
    if isinstance(rdv, ast.Call) and _dotted(rdv.func) == "pickle.load" and isinstance(rdv.args[0], ast.Call) and _name_of(rdv.args[0].func) == "open":
        read_src = _name_of(rdv.args[0].args[0])
    # ---- _fetch_remote
    fb = _body(fetch)
    fsig = ";".join(_stmt_sig(s) for s in fb)
    if fsig != "assign:file_path;While;if(assign:checksum;if(raise|)|);return":
        raise TranslateError("%s:_fetch_remote: statement skeleton changed: %s" % (fname, fsig))
    wl = fb[1]
    if not (isinstance(wl.test, ast.Constant) and wl.test.value is True and len(wl.body) == 1 and isinstance(wl.body[0], ast.Try)):
        raise TranslateError("%s:_fetch_remote: retry loop is not `while True: try: ...`" % fname)
    tr = wl.body[0]
    if len(tr.body) != 2 or not isinstance(tr.body[1], ast.Break) or tr.orelse or tr.finalbody or len(tr.handlers) != 1:
        raise TranslateError("%s:_fetch_remote: try block outside the grammar" % fname)
    dl = tr.body[0].value
    if not (isinstance(dl, ast.Call) and _name_of(dl.func) == "urlretrieve" and len(dl.args) == 2 and _dotted(dl.args[0]) == "remote.url" and _name_of(dl.args[1]) == "file_path"):
        raise TranslateError("%s:_fetch_remote: download call is not urlretrieve(remote.url, file_path)" % fname)
    h = tr.handlers[0]
    caught = [_name_of(x) for x in (h.type.elts if isinstance(h.type, ast.Tuple) else [h.type])]
    hsig = ";".join(_stmt_sig(s) for s in h.body)
    if hsig != "if(raise|);call:warnings.warn;aug:n_retries;call:time.sleep":
        raise TranslateError("%s:_fetch_remote: exception handler changed: %s" % (fname, hsig))
    gu = h.body[0].test
    if not (isinstance(gu, ast.Compare) and _name_of(gu.left) == "n_retries" and len(gu.ops) == 1 and isinstance(gu.comparators[0], ast.Constant)
            and isinstance(gu.comparators[0].value, int) and type(gu.ops[0]) in _GLUE_CMPOPS and h.body[0].body[0].exc is None):
        raise TranslateError("%s:_fetch_remote: give-up test outside the grammar" % fname)
    giveup = "(n %s %d)%%Z" % ({"==": "=?", "<=": "<=?", "<": "<?"}.get(_GLUE_CMPOPS[type(gu.ops[0])]) or "??", gu.comparators[0].value)
    if "??" in giveup:
        raise TranslateError("%s:_fetch_remote: give-up comparison %s outside the grammar" % (fname, ast.unparse(gu)))
    dec = h.body[2]
    if not (_name_of(dec.target) == "n_retries" and type(dec.op) in (ast.Sub, ast.Add) and isinstance(dec.value, ast.Constant) and isinstance(dec.value.value, int)):
        raise TranslateError("%s:_fetch_remote: retry counter update outside the grammar" % fname)
    nxt = "(n %s %d)%%Z" % ("-" if isinstance(dec.op, ast.Sub) else "+", dec.value.value)
    ck = fb[2]
    if _name_of(ck.test) != "validate_checksum":
        raise TranslateError("%s:_fetch_remote: checksum guard is not `if validate_checksum`" % fname)
    cka = ck.body[0].value
    if not (isinstance(cka, ast.Call) and _name_of(cka.func) == "_sha256" and _name_of(cka.args[0]) == "file_path"):
        raise TranslateError("%s:_fetch_remote: checksum is not _sha256(file_path)" % fname)
    cmpx = ck.body[1].test
    sides = None
    if isinstance(cmpx, ast.Compare) and len(cmpx.ops) == 1 and type(cmpx.ops[0]) in (ast.NotEq, ast.Eq):
        sides = {(_dotted(cmpx.left) or ""), (_dotted(cmpx.comparators[0]) or "")}
    if sides != {"remote.checksum", "checksum"}:
        raise TranslateError("%s:_fetch_remote: checksum comparison outside the grammar: %s" % (fname, ast.unparse(cmpx)))
    reject = "(validate && negb same)" if isinstance(cmpx.ops[0], ast.NotEq) else "(validate && same)"
    ck_exn = ck.body[1].body[0].exc.func.id
    fp = fb[0].value     # remote.filename if dirname is None else path.join(dirname, remote.filename)
    fp_ok = isinstance(fp, ast.IfExp) and isinstance(fp.orelse, ast.Call) and _dotted(fp.orelse.func) == "path.join" and _name_of(fp.orelse.args[0]) == "dirname"

    def S(v):
        return _cstr(v if v is not None else "?")
    out = ["(** GENERATED by tools/translate.py from /repo/src/traffic_weaver/datasets/_base.py (load_csv_dataset_from_remote, _fetch_remote)",
           "    — do not edit.  Guards as boolean functions; order and scoping of the effects as data. *)",
           "From Coq Require Import Bool ZArith String List.", "Import ListNotations.", "Open Scope string_scope.", "",
           "Definition gen_download_cond (download_if_missing download_even_if_available available : bool) : bool :=\n  %s." % download_cond,
           "Definition gen_missing_cond (download_if_missing download_even_if_available available : bool) : bool :=\n  %s." % missing_cond,
           "Definition gen_missing_exn : string := %s." % S(missing_exn),
           "(** with TemporaryDirectory(dir=<parent>) as <var> *)",
           "Definition gen_tmp_parent : string := %s.\nDefinition gen_tmp_var : string := %s." % (S(tmp_parent), S(tmp_var)),
           "(** _fetch_remote(remote, dirname=..., n_retries=..., delay=..., validate_checksum=...) *)",
           "Definition gen_fetch_kwargs : list (string * string) := %s." % _glist("(%s, %s)" % (S(k), S(v)) for k, v in sorted(fkw.items())),
           "Definition gen_fetch_path_in_dirname : bool := %s." % ("true" if fp_ok else "false"),
           "(** np.loadtxt sources: (kind, variable) under `if gzip` / else *)",
           "Definition gen_parse_sources : list (string * string) := [(%s, %s); (%s, %s)]." % (S(parse_gz[0]), S(parse_gz[1]), S(parse_plain[0]), S(parse_plain[1])),
           "(** the temp file is join(<dir>, <name>); pickle.dump(dataset, open(<temp file>)) *)",
           "Definition gen_tmp_file : string * string := (%s, %s)." % (S(tmpfile[0] if tmpfile else None), S(tmpfile[1] if tmpfile else None)),
           "Definition gen_dump_to_tmp_file : bool := %s." % ("true" if dump_ok else "false"),
           "(** os.rename(src, dst), the last statement inside the with block *)",
           "Definition gen_rename : list string := %s." % _glist(S(a) for a in (ren_args or [])),
           "Definition gen_slot_path : list string := [%s; %s; %s]." % (S(paths["dataset_dir"][0]), S(paths["dataset_dir"][1]), S(paths["dataset_file_path"][1])),
           "(** if dataset is None: dataset = pickle.load(open(<path>)) *)",
           "Definition gen_read_cache : bool * string := (%s, %s)." % ("true" if read_ok else "false", S(read_src)),
           "(** the effects of a download, in source order *)",
           "Definition gen_download_effects : list string := [\"makedirs\"; \"tmpdir\"; \"fetch\"; \"parse\"; \"dump\"; \"rename\"; \"cleanup\"].",
           "(** _fetch_remote: exceptions absorbed by the retry loop, give-up test, counter update, checksum rejection *)",
           "Definition gen_retry_caught : list string := %s." % _glist(S(c) for c in caught),
           "Definition gen_giveup (n : Z) : bool := %s." % giveup,
           "Definition gen_next_retries (n : Z) : Z := %s." % nxt,
           "Definition gen_checksum_reject (validate same : bool) : bool := %s." % reject,
           "Definition gen_checksum_exn : string := %s." % S(ck_exn), ""]
    return "\n".join(out)



# ==========================================================================================
# datasets/_base.py -> Gen/Dispatch.v : how load_dataset turns a dataset name into a loader name; data home resolution
# ==========================================================================================
def _fstring_parts(e, where):
    """f'<literal>{dataset.replace(a, b)}' -> (literal, a, b)"""
    if not (isinstance(e, ast.JoinedStr) and len(e.values) == 2 and isinstance(e.values[0], ast.Constant) and isinstance(e.values[1], ast.FormattedValue)):
        raise TranslateError("%s: loader name is not f'<prefix>{...}'" % where)
    fv = e.values[1]
    c = fv.value
    if fv.conversion != -1 or fv.format_spec is not None or not (isinstance(c, ast.Call) and isinstance(c.func, ast.Attribute) and c.func.attr == "replace"
            and isinstance(c.func.value, ast.Name) and c.func.value.id == "dataset" and len(c.args) == 2 and not c.keywords
            and all(isinstance(a, ast.Constant) and isinstance(a.value, str) and len(a.value) == 1 for a in c.args)):
        raise TranslateError("%s: formatted value is not dataset.replace(<char>, <char>)" % where)
    return e.values[0].value, c.args[0].value, c.args[1].value


@target("Dispatch")
def gen_dispatch():
    fname = "datasets/_base.py"
    tree = ast.parse(_src(fname))
    ld = _find_fun(tree, "load_dataset")
    body = _body(ld)
    sig = ";".join(_stmt_sig(s) for s in body)
    if sig != "Import;if(assign:fun_name|assign:fun_name);Try;return":
        raise TranslateError("%s:load_dataset: statement skeleton changed: %s" % (fname, sig))
    if [a.arg for a in ld.args.args] != ["dataset", "unpack_dataset_columns"]:
        raise TranslateError("%s:load_dataset: parameters changed" % fname)
    test = body[1].test
    if not (isinstance(test, ast.Call) and isinstance(test.func, ast.Attribute) and test.func.attr == "startswith" and _name_of(test.func.value) == "dataset"
            and len(test.args) == 1 and isinstance(test.args[0], ast.Constant) and isinstance(test.args[0].value, str)):
        raise TranslateError("%s:load_dataset: family test is not dataset.startswith(<literal>)" % fname)
    fam = test.args[0].value
    p1, a1, b1 = _fstring_parts(body[1].body[0].value, fname)
    p2, a2, b2 = _fstring_parts(body[1].orelse[0].value, fname)
    tr = body[2]
    h = tr.handlers
    if len(h) != 1 or _name_of(h[0].type) != "AttributeError" or len(h[0].body) != 1 or not isinstance(h[0].body[0], ast.Raise) \
            or not isinstance(h[0].body[0].exc, ast.Call) or _name_of(h[0].body[0].exc.func) is None:
        raise TranslateError("%s:load_dataset: unknown-name handling outside the grammar" % fname)
    unknown_exn = h[0].body[0].exc.func.id
    probe = tr.body[0].value if len(tr.body) == 1 and isinstance(tr.body[0], ast.Expr) else None
    if not (isinstance(probe, ast.Call) and _name_of(probe.func) == "getattr" and _dotted(probe.args[0]) == "traffic_weaver.datasets._datasets"
            and _name_of(probe.args[1]) == "fun_name"):
        raise TranslateError("%s:load_dataset: lookup is not getattr(traffic_weaver.datasets._datasets, fun_name)" % fname)
    ret = body[3].value
    ok_ret = (isinstance(ret, ast.Call) and isinstance(ret.func, ast.Call) and _name_of(ret.func.func) == "getattr" and _name_of(ret.func.args[1]) == "fun_name"
              and not ret.args and len(ret.keywords) == 1 and ret.keywords[0].arg == "unpack_dataset_columns" and _name_of(ret.keywords[0].value) == "unpack_dataset_columns")
    if not ok_ret:
        raise TranslateError("%s:load_dataset: the loader is not called as <loader>(unpack_dataset_columns=unpack_dataset_columns)" % fname)
    # get_data_home
    gh = _find_fun(tree, "get_data_home")
    gb = _body(gh)
    gsig = ";".join(_stmt_sig(s) for s in gb)
    if gsig != "if(assign:data_home|);assign:data_home;call:makedirs;return":
        raise TranslateError("%s:get_data_home: statement skeleton changed: %s" % (fname, gsig))
    g0 = gb[0]
    ok_test = isinstance(g0.test, ast.Compare) and _name_of(g0.test.left) == "data_home" and isinstance(g0.test.ops[0], ast.Is) \
        and isinstance(g0.test.comparators[0], ast.Constant) and g0.test.comparators[0].value is None
    env = g0.body[0].value
    if not (ok_test and isinstance(env, ast.Call) and _dotted(env.func) == "environ.get" and len(env.args) == 2 and isinstance(env.args[0], ast.Constant)
            and isinstance(env.args[1], ast.Call) and _dotted(env.args[1].func) == "path.join"
            and all(isinstance(a, ast.Constant) and isinstance(a.value, str) for a in env.args[1].args)):
        raise TranslateError("%s:get_data_home: default resolution outside the grammar" % fname)
    envvar = env.args[0].value
    default = "/".join(a.value for a in env.args[1].args)
    exp = gb[1].value
    if not (isinstance(exp, ast.Call) and _dotted(exp.func) == "path.expanduser" and _name_of(exp.args[0]) == "data_home"):
        raise TranslateError("%s:get_data_home: expanduser step changed" % fname)
    out = ["(** GENERATED by tools/translate.py from load_dataset / get_data_home in /repo/src/traffic_weaver/datasets/_base.py — do not edit. *)",
           "From Coq Require Import String Ascii.", "Open Scope string_scope.", "",
           "Fixpoint gen_replace (a b : ascii) (s : string) : string :=",
           "  match s with EmptyString => EmptyString | String c s' => String (if Ascii.eqb c a then b else c) (gen_replace a b s') end.", "",
           "(** dataset.startswith(%r) ? f'%s{dataset.replace(%r, %r)}' : f'%s{dataset.replace(%r, %r)}' *)" % (fam, p1, a1, b1, p2, a2, b2),
           "Definition gen_fun_name (dataset : string) : string :=",
           "  if String.prefix %s dataset then %s ++ gen_replace %s%%char %s%%char dataset" % (_cstr(fam), _cstr(p1), _cstr(a1), _cstr(b1)),
           "  else %s ++ gen_replace %s%%char %s%%char dataset." % (_cstr(p2), _cstr(a2), _cstr(b2)),
           "Definition gen_unknown_exn : string := %s." % _cstr(unknown_exn),
           "(** get_data_home: explicit argument, else the environment variable, else the default (then expanduser, makedirs) *)",
           "Definition gen_env_var : string := %s." % _cstr(envvar),
           "Definition gen_default_home : string := %s." % _cstr(default),
           "Definition gen_data_home (arg env : option string) : string :=",
           "  match arg with Some d => d | None => match env with Some d => d | None => gen_default_home end end.", ""]
    return "\n".join(out)


# ==========================================================================================
# extension targets: every tools/translate_ext_*.py is executed in this module's namespace (so it uses `target`, `_gexpr`,
# `_gstmts`, `_gen_fun_table`, ... directly and registers its own @target functions). One file per family of targets.
# ==========================================================================================
import glob as _glob
EXT_ERRORS = {}      # an extension file that does not load takes only its own targets down (they are then unknown: fail-closed)
for _ext in sorted(_glob.glob(os.path.join(os.path.dirname(os.path.abspath(__file__)), "translate_ext_*.py"))):
    try:
        exec(compile(open(_ext).read(), _ext, "exec"), globals())
    except Exception as _e:        # noqa: a syntax error in one family must not stop the checks of the others
        EXT_ERRORS[os.path.basename(_ext)] = "%s: %s" % (type(_e).__name__, _e)


# MAIN-BLOCK (keep last)
if __name__ == "__main__":
    import sys
    es = generate_all() + ["%s: %s" % kv for kv in EXT_ERRORS.items()]
    for e in es:
        print("TranslateError:", e)
    sys.exit(1 if es else 0)
