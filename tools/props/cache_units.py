"""C19 — remote dataset cache: fault sequences, crash points, concurrent loaders, dataset independence.
The real load_csv_dataset_from_remote runs with the network / hash / parser / pickle / rename entry points
rebound from the harness process (no source hook); the same scenarios are replayed on Model/Cache.v."""
import gzip as gzmod
import hashlib
import io
import os
import pickle
import shutil
import subprocess
import sys
import tempfile
import threading
import warnings
from urllib.error import URLError

import numpy as np

from tools.harness.core import Unit, Failure, VERIF, REPO, exn_name

GOOD = b"0, 1.5\n1, 2.5\n2, 0.25\n3, 4.0\n"
GOOD2 = b"0, 9.0\n1, 8.0\n2, 7.0\n"             # verified content of an older cache entry
CORRUPT = b"0, 1.5\n1, 66.6\n2, 0.25\n3, 4.0\n"
TRUNC = b"0, 1.5\n1, "
PAYLOADS = {"good": GOOD, "corrupt": CORRUPT, "trunc": TRUNC, "gzgood": gzmod.compress(GOOD, mtime=0)}
ARR = {"good": np.loadtxt(io.BytesIO(GOOD), delimiter=","), "old": np.loadtxt(io.BytesIO(GOOD2), delimiter=",")}
# model encoding: blob = [payload id]; sha = id; parse: table below; data = [data id]
BLOB_ID = {"good": 1, "corrupt": 2, "trunc": 3, "gzgood": 4}
DATA_ID = {"good": 11, "old": 12, "other": 13, "other:(4, 2)": 13}

PREAMBLE = """
Definition sha (b : blob) : nat := hd 0%nat b.
Definition parse (gz : bool) (b : blob) : option data :=
  match b, gz with
  | [1%nat], false => Some [11%nat]
  | [4%nat], true => Some [11%nat]
  | [2%nat], false => Some [13%nat]       (* the corrupted payload is still a well-formed CSV, with other numbers *)
  | _, _ => None
  end.
Definition mkfs (c : option nat) : fsys := match c with Some d => fs_set fs_empty 5%nat [d] | None => fs_empty end.
Definition cache_is (f : fsys) (c : option nat) : bool :=
  match cache f 5%nat, c with
  | Some [d], Some d' => Nat.eqb d d'
  | None, None => true
  | _, _ => false
  end.
Definition out_is (p : option pc) (o : obs nat) : bool :=
  match p, o with
  | Some (PDone (Ok [d])), OVal d' => Nat.eqb d d'
  | Some (PDone (Raise e)), OExn e' => exn_eqb e e'
  | _, _ => false
  end.
Definition steps5 := [EStep; EStep; EStep; EStep; EStep].
(* harness-side driver: network events are delivered only while the process waits in urlretrieve; counts the attempts *)
Fixpoint drive (fuel : nat) (r : remote) (fl : flags) (f : fsys) (p : pc) (net : list event) (cnt : nat) : fsys * option pc * nat :=
  match fuel with
  | O => (f, Some p, cnt)
  | S k =>
      match p with
      | PDone _ => (f, Some p, cnt)
      | PFetching _ =>
          match net with
          | [] => (f, Some p, cnt)
          | e :: net' => match pstep sha parse r fl f p e with
                         | (f', Some p') => drive k r fl f' p' net' (S cnt)
                         | (f', None) => (f', None, S cnt)
                         end
          end
      | _ => match pstep sha parse r fl f p EStep with
             | (f', Some p') => drive k r fl f' p' net cnt
             | (f', None) => (f', None, cnt)
             end
      end
  end.
"""


def sha_of(b):
    return hashlib.sha256(b).hexdigest()


class Harness:
    """a scratch data home plus rebinding of the loader's entry points"""

    def __init__(self):
        os.makedirs(os.path.join(VERIF, "_build"), exist_ok=True)
        self.root = tempfile.mkdtemp(prefix="cache.", dir=os.path.join(VERIF, "_build"))
        import traffic_weaver.datasets._base as B
        self.B = B
        self.saved = {k: getattr(B, k) for k in ("urlretrieve", "_sha256")}
        self.saved_sleep = B.time.sleep
        self.sleeps = []
        B.time.sleep = lambda d: self.sleeps.append(d)

    def close(self):
        for k, v in self.saved.items():
            setattr(self.B, k, v)
        self.B.time.sleep = self.saved_sleep
        shutil.rmtree(self.root, ignore_errors=True)

    def seed_cache(self, which="old"):
        d = os.path.join(self.root, "fam")
        os.makedirs(d, exist_ok=True)
        pickle.dump(ARR[which], open(os.path.join(d, "ds"), "wb"))

    def cache_state(self):
        p = os.path.join(self.root, "fam", "ds")
        if not os.path.exists(p):
            return {"present": False}
        try:
            a = pickle.load(open(p, "rb"))
            for k, v in ARR.items():
                if isinstance(a, np.ndarray) and a.shape == v.shape and np.array_equal(a, v):
                    return {"present": True, "content": k}
            return {"present": True, "content": "other:%s" % (getattr(a, "shape", None),)}
        except Exception as e:
            return {"present": True, "content": "unreadable:%s" % type(e).__name__}

    def listing(self):
        out = []
        for base, ds, fs in os.walk(self.root):
            for f in fs:
                out.append(os.path.relpath(os.path.join(base, f), self.root))
        return sorted(out)

    def remote(self, digest_of="good", filename="remote.csv"):
        return self.B.RemoteFileMetadata(filename=filename, url="https://example.invalid/x", checksum=sha_of(PAYLOADS[digest_of]))


def result_id(r):
    if isinstance(r, tuple):
        r = np.column_stack(r)
    for k, v in ARR.items():
        if isinstance(r, np.ndarray) and r.shape == v.shape and np.array_equal(r, v):
            return k
    return "other"


def coq_opt(v):
    return "None" if v is None else "(Some %d%%nat)" % v


def coq_flags(c):
    return "{| download_if_missing := %s; download_even_if_available := %s; validate_checksum := %s; gzip := %s; n_retries := %d |}" % (
        "true" if c["dim"] else "false", "true" if c["deia"] else "false", "true" if c["validate"] else "false",
        "true" if c["gzip"] else "false", c["n_retries"])


def coq_remote(c):
    return "{| r_slot := 5; r_digest := %d |}" % BLOB_ID[c.get("digest_of", "good")]


def coq_events(script):
    ev = ["ENetFail" if s in ("urlerror", "timeout") else "ENetOk [%d%%nat]" % BLOB_ID[s] for s in script]
    return "[" + "; ".join(ev) + "]"


# ------------------------------------------------------------------------------------------
class RemoteSeqUnit(Unit):
    name = "remote_seq"
    imports = ["Model.Cache"]
    preamble = PREAMBLE

    def gen(self, rng, tier):
        cases = []
        for dim in (True, False):
            for deia in (True, False):
                for initial in (None, "old"):
                    for script in (["good"], ["urlerror", "good"], ["corrupt"], []):
                        cases.append(self.mk(rng, dim=dim, deia=deia, initial=initial, script=script))
        k = 120 if tier == "quick" else 1200
        for _ in range(k):
            n = rng.choice([0, 1, 2, 3, 3])
            nf = rng.randint(0, n + 2)
            script = [rng.choice(["urlerror", "timeout"]) for _ in range(nf)] + [rng.choice(["good", "good", "corrupt", "trunc", "gzgood"])]
            c = self.mk(rng, n_retries=n, script=script, initial=rng.choice([None, None, "old"]), deia=rng.random() < 0.3,
                        validate=rng.random() < 0.85, unpack=rng.random() < 0.2)
            cases.append(c)
        # the retry count as a NumPy integer (an element of a uint8 / int64 configuration array): more failures than retries are
        # propagated after exactly n_retries + 1 attempts, whatever integer type counts them
        for ty in ("uint8", "uint16", "int64", "uint64"):
            for n in (0, 1, 2):
                c = self.mk(rng, n_retries=n, script=["urlerror"] * (n + 1) + ["good"], initial=None)
                c["n_retries_type"] = ty
                cases.append(c)
                c = self.mk(rng, n_retries=n, script=["timeout"] * n + ["good"], initial=None)
                c["n_retries_type"] = ty
                cases.append(c)
        # the remote file and the cache entry carry the SAME name ("traffic.csv" downloaded, "traffic.csv" cached; with a ./ prefix): the
        # two live in different directories and have nothing to do with each other
        for script in (["good"], ["urlerror", "good"], ["gzgood"]):
            for fn in ("ds", "./ds"):
                c = self.mk(rng, script=script, initial=None)
                c["remote_filename"] = fn
                cases.append(c)
        return cases

    def mk(self, rng, dim=True, deia=False, initial=None, script=("good",), n_retries=3, validate=True, unpack=False):
        last = script[-1] if script else "good"
        c = {"dim": dim, "deia": deia, "initial": initial, "script": list(script), "n_retries": n_retries, "validate": validate,
             "gzip": last == "gzgood", "unpack": unpack, "digest_of": "good"}
        if last == "gzgood":
            c["digest_of"] = "gzgood"
        if last == "trunc" and rng.random() < 0.7:
            c["digest_of"] = "trunc"       # passes the checksum gate, fails in the parser
        return c

    def run(self, c):
        h = Harness()
        try:
            if c["initial"]:
                h.seed_cache(c["initial"])
            script = list(c["script"])
            attempts = []

            def fake_urlretrieve(url, path):
                attempts.append(url)
                if not script:
                    raise RuntimeError("script exhausted")
                s = script.pop(0)
                if s == "urlerror":
                    raise URLError("scripted")
                if s == "timeout":
                    raise TimeoutError("scripted")
                open(path, "wb").write(PAYLOADS[s])
                return path, None
            h.B.urlretrieve = fake_urlretrieve
            try:
                with warnings.catch_warnings():
                    warnings.simplefilter("ignore")
                    r = h.B.load_csv_dataset_from_remote(h.remote(c["digest_of"], c.get("remote_filename", "remote.csv")), "ds", "fam", data_home=h.root, download_if_missing=c["dim"],
                                                         download_even_if_available=c["deia"], validate_checksum=c["validate"],
                                                         n_retries=(getattr(np, c["n_retries_type"])(c["n_retries"]) if c.get("n_retries_type") else c["n_retries"]),
                                                         delay=0.0, gzip=c["gzip"], unpack_dataset_columns=c["unpack"])
                o = {"result": result_id(r), "tuple": isinstance(r, tuple)}
            except Exception as e:
                o = {"exc": exn_name(e), "exc_msg": "%s: %s" % (type(e).__name__, str(e)[:100])}
            o.update({"attempts": len(attempts), "sleeps": len(h.sleeps), "cache": h.cache_state(), "listing": h.listing()})
            # a later load with a working network must succeed and return the verified data
            h.B.urlretrieve = lambda url, path: (open(path, "wb").write(PAYLOADS[c["digest_of"] if c["digest_of"] != "trunc" else "good"]), (path, None))[1]
            try:
                if c["digest_of"] != "trunc":
                    r2 = h.B.load_csv_dataset_from_remote(h.remote(c["digest_of"]), "ds", "fam", data_home=h.root, delay=0.0, gzip=c["gzip"])
                    o["later"] = result_id(r2)
                    # ... and again after the caller has edited, in place, what the previous (cache-hit) load returned: every load
                    # returns the verified data, not an array shared with earlier callers
                    if isinstance(r2, np.ndarray) and r2.flags.writeable:
                        r2 *= 8.0
                    r3 = h.B.load_csv_dataset_from_remote(h.remote(c["digest_of"]), "ds", "fam", data_home=h.root, delay=0.0, gzip=c["gzip"],
                                                         unpack_dataset_columns=c["unpack"])
                    o["later_after_edit"] = result_id(r3)
                    # ... and after the entry has been replaced by another complete, verified copy (data home cleared, a new
                    # revision published): the load returns what the entry holds now
                    h.seed_cache("old")
                    r4 = h.B.load_csv_dataset_from_remote(h.remote(c["digest_of"]), "ds", "fam", data_home=h.root, delay=0.0, gzip=c["gzip"])
                    o["later_after_replace"] = result_id(r4)
            except Exception as e:
                o.setdefault("later", "exc:" + type(e).__name__)
                if "later_after_replace" not in o:
                    o["later_exc"] = "%s: %s" % (type(e).__name__, str(e)[:100])
            return o
        finally:
            h.close()

    def coq(self, c, o):
        init = coq_opt(DATA_ID[c["initial"]] if c["initial"] else None)
        call = "drive 40 %s %s (mkfs %s) PStart %s 0" % (coq_remote(c), coq_flags(c), init, coq_events(c["script"]))
        if "exc" in o:
            out = "(OExn %s)" % o["exc"]
        else:
            out = "(OVal %d%%nat)" % DATA_ID.get(o["result"], 0)
        cs = o["cache"]
        cache = coq_opt(DATA_ID.get(cs.get("content"), 99) if cs["present"] else None)
        # attempts = network events consumed = provided - left over
        nnet = len(c["script"])
        if o["attempts"] > nnet:
            return None      # the scripted network ran dry (harness artefact): nothing to compare
        return "let '(f, p, cnt) := %s in out_is p %s && cache_is f %s && Nat.eqb cnt %d" % (call, out, cache, o["attempts"])

    def oracle(self, c, o):
        F = []

        def fail(aspect, what):
            F.append(Failure(aspect=aspect, what="%s (scenario %s; outcome %s)" % (what, c, {k: v for k, v in o.items() if k != "listing"}), signature={"aspect": aspect}))
        cs = o["cache"]
        if not c["validate"]:
            # the caller switched verification off: nothing is claimed about what an unverified download yields
            return F
        if cs["present"] and cs.get("content") not in ("good", "old"):
            fail("cache-corrupt", "cache entry is neither absent nor a complete copy of verified data: %s" % cs.get("content"))
        if o.get("result") == "other":
            fail("returned-unverified", "returned data is not the verified data")
        if c["validate"] and c["script"] and c["script"][-1] == "corrupt" and o["attempts"] == len(c["script"]) and "exc" not in o and c["digest_of"] == "good":
            fail("checksum-gate", "payload with a wrong SHA-256 was accepted")
        if c["validate"] and c["script"] and c["script"][-1] == "corrupt" and o["attempts"] == len(c["script"]) and o.get("exc") not in (None, "OSError"):
            fail("checksum-gate", "checksum mismatch raised %s, not OSError" % o.get("exc"))
        nf = sum(1 for s in c["script"] if s in ("urlerror", "timeout"))
        downloads = (c["dim"] and not c["initial"]) or (c["dim"] and c["deia"] and c["initial"])
        if downloads:
            if nf <= c["n_retries"] and o["attempts"] != nf + 1:
                fail("retries", "%d transient failures with n_retries=%d: %d attempts were made" % (nf, c["n_retries"], o["attempts"]))
            if nf > c["n_retries"] and (o.get("exc") != "OSError" or o["attempts"] != c["n_retries"] + 1):
                fail("retries", "%d failures exceed n_retries=%d: outcome %s after %d attempts" % (nf, c["n_retries"], o.get("exc") or o.get("result"), o["attempts"]))
        else:
            if o["attempts"] != 0:
                fail("cache-hit-network", "network was used although the cache should have been served / download was not allowed")
            if c["initial"] and o.get("result") != c["initial"]:
                fail("cache-hit", "cached dataset not returned: %s" % (o.get("result") or o.get("exc")))
        if "later" in o and o["later"] not in ("good", "old"):
            fail("later-load", "a later load does not succeed with the verified data: %s" % o["later"])
        elif "later" in o:
            if o.get("later_exc"):
                fail("later-load", "a further load raised %s" % o["later_exc"])
            if "later_after_edit" in o and o["later_after_edit"] != o["later"]:
                fail("later-load-shared", "after the caller edited the array a cache-hit load had returned, the next load returned %s, not the verified data (%s)" % (o["later_after_edit"], o["later"]))
            if "later_after_replace" in o and o["later_after_replace"] != "old":
                fail("later-load-stale", "after the entry was replaced by another verified copy the load returned %s, not what the entry holds" % o["later_after_replace"])
        if any("tmp" in os.path.basename(os.path.dirname(p)) for p in o["listing"] if p != os.path.join("fam", "ds")):
            pass  # temp dirs are removed by TemporaryDirectory on normal exits; leftovers are judged in the crash unit
        return F

    def key(self, c, o):
        return str(sorted(c.items()))

    def label(self, c, o):
        return "%s%s:%s" % ("hit" if c["initial"] else "miss", ":deia" if c["deia"] else "", o.get("exc") or o.get("result"))


# ------------------------------------------------------------------------------------------
CRASH_POINTS = ["before_download", "within_download", "after_download", "in_verify", "in_parse", "in_dump_midwrite", "before_rename",
                "after_rename", "none"]
CHILD = r"""
import os, sys, pickle
sys.path.insert(0, %(src)r)
import numpy as np
import traffic_weaver.datasets._base as B
point, root, payload_path, digest = sys.argv[1:5]
payload = open(payload_path, 'rb').read()
def die(): os._exit(17)
def fake_urlretrieve(url, path):
    if point == 'before_download': die()
    with open(path, 'wb') as f:
        f.write(payload[:len(payload)//2]); f.flush()
        if point == 'within_download': die()
        f.write(payload[len(payload)//2:])
    if point == 'after_download': die()
    return path, None
B.urlretrieve = fake_urlretrieve
real_sha = B._sha256
def sha(path):
    if point == 'in_verify': die()
    return real_sha(path)
B._sha256 = sha
real_loadtxt = np.loadtxt
class NP:
    def __getattr__(self, k): return getattr(np, k)
    def loadtxt(self, *a, **k):
        if point == 'in_parse': die()
        return real_loadtxt(*a, **k)
B.np = NP()
real_dump = pickle.dump
class PK:
    def __getattr__(self, k): return getattr(pickle, k)
    def dump(self, obj, f, *a, **k):
        if point == 'in_dump_midwrite':
            data = pickle.dumps(obj); f.write(data[:len(data)//2]); f.flush(); die()
        return real_dump(obj, f, *a, **k)
B.pickle = PK()
real_rename = os.rename
class OS:
    def __getattr__(self, k): return getattr(os, k)
    def rename(self, a, b):
        if point == 'before_rename': die()
        real_rename(a, b)
        if point == 'after_rename': die()
B.os = OS()
remote = B.RemoteFileMetadata(filename='remote.csv', url='https://example.invalid/x', checksum=digest)
r = B.load_csv_dataset_from_remote(remote, 'ds', 'fam', data_home=root, delay=0.0)
sys.exit(0)
"""
# pc reached in the model before the crash event, as an event prefix for run_load
CRASH_PREFIX = {"before_download": "[EStep]", "within_download": "[EStep]", "after_download": "[EStep; ENetOk [1%nat]]",
                "in_verify": "[EStep; ENetOk [1%nat]]", "in_parse": "[EStep; ENetOk [1%nat]; EStep]",
                "in_dump_midwrite": "[EStep; ENetOk [1%nat]; EStep; EStep]", "before_rename": "[EStep; ENetOk [1%nat]; EStep; EStep; EStep]",
                "after_rename": "[EStep; ENetOk [1%nat]; EStep; EStep; EStep; EStep]", "none": None}


class RemoteCrashUnit(Unit):
    name = "remote_crash"
    imports = ["Model.Cache"]
    preamble = PREAMBLE
    case_timeout = 120

    def gen(self, rng, tier):
        cases = []
        for point in CRASH_POINTS:
            for initial in (None, "old"):
                cases.append({"point": point, "initial": initial, "deia": initial is not None})
        return cases

    def run(self, c):
        h = Harness()
        try:
            if c["initial"]:
                h.seed_cache(c["initial"])
            pp = os.path.join(h.root, "payload.bin")
            open(pp, "wb").write(GOOD)
            script = CHILD % {"src": os.path.join(REPO, "src")}
            if c["deia"]:
                script = script.replace("data_home=root, delay=0.0)", "data_home=root, delay=0.0, download_even_if_available=True)")
            env = dict(os.environ, PYTHONPATH=os.path.join(REPO, "src"), PYTHONWARNINGS="ignore")
            p = subprocess.run([sys.executable, "-c", script, c["point"], h.root, pp, sha_of(GOOD)], env=env, timeout=90,
                               stdout=subprocess.PIPE, stderr=subprocess.PIPE)
            os.remove(pp)
            o = {"rc": p.returncode, "stderr": p.stderr.decode("utf8", "replace")[-300:], "cache": h.cache_state(), "listing": h.listing()}
            h.B.urlretrieve = lambda url, path: (open(path, "wb").write(GOOD), (path, None))[1]
            try:
                r2 = h.B.load_csv_dataset_from_remote(h.remote("good"), "ds", "fam", data_home=h.root, delay=0.0)
                o["later"] = result_id(r2)
            except Exception as e:
                o["later"] = "exc:%s:%s" % (type(e).__name__, str(e)[:80])
            return o
        finally:
            h.close()

    def coq(self, c, o):
        init = coq_opt(DATA_ID[c["initial"]] if c["initial"] else None)
        cs = o["cache"]
        cache = coq_opt(DATA_ID.get(cs.get("content"), 99) if cs["present"] else None)
        fl = "{| download_if_missing := true; download_even_if_available := %s; validate_checksum := true; gzip := false; n_retries := 3 |}" % (
            "true" if c["deia"] else "false")
        r = "{| r_slot := 5; r_digest := 1 |}"
        if c["point"] == "none":
            return ("let '(f, p, rest) := load sha parse %s %s (mkfs %s) (EStep :: ENetOk [1%%nat] :: steps5) in cache_is f %s && Nat.eqb %d 0"
                    % (r, fl, init, cache, o["rc"]))
        return ("let '(f, p, rest) := load sha parse %s %s (mkfs %s) %s in match p with Some q => cache_is (fst (pstep sha parse %s %s f q ECrash)) %s && Nat.eqb %d 17 | None => false end"
                % (r, fl, init, CRASH_PREFIX[c["point"]], r, fl, cache, o["rc"]))

    def oracle(self, c, o):
        F = []

        def fail(aspect, what):
            F.append(Failure(aspect=aspect, what="crash at %s (initial cache %s): %s; listing %s" % (c["point"], c["initial"], what, o["listing"]),
                             signature={"aspect": aspect, "point": c["point"]}))
        if c["point"] != "none" and o["rc"] != 17:
            fail("harness", "child did not die at the requested point (rc=%s, %s)" % (o["rc"], o["stderr"]))
            return F
        cs = o["cache"]
        if cs["present"] and cs.get("content") not in ("good", "old"):
            fail("cache-corrupt-after-crash", "cache entry is neither absent nor a complete copy of verified data: %s" % cs.get("content"))
        if o["later"] not in ("good", "old"):
            fail("later-load-after-crash", "a later load does not succeed with the verified data: %s" % o["later"])
        return F

    def key(self, c, o):
        return (c["point"], c["initial"])

    def label(self, c, o):
        return c["point"]


# ------------------------------------------------------------------------------------------
class Gate:
    """step gating for loader threads: every rebound entry point calls gate.wait(name) first"""

    def __init__(self, names):
        self.sem = {n: threading.Semaphore(0) for n in names}
        self.arrived = threading.Semaphore(0)
        self.at = {}

    def wait(self, where):
        me = threading.current_thread().name
        self.at[me] = where
        self.arrived.release()
        self.sem[me].acquire()


class RemoteConcUnit(Unit):
    name = "remote_conc"
    imports = ["Model.Cache"]
    case_timeout = 120
    preamble = PREAMBLE + """
(* one scheduler release = steps of that process up to its next gate (urlretrieve, sha, loadtxt, dump, rename) *)
Definition at_gate (p : pc) : bool :=
  match p with PFetching _ | PFetched _ | PVerified _ | PParsed _ | PDumped _ | PDone _ => true | _ => false end.
Fixpoint macro (fuel : nat) (g : gstate) (i : nat) (e : event) : gstate :=
  match fuel with
  | O => g
  | S f =>
      let g' := gstep sha parse g (i, e) in
      match nth i (snd g') None with
      | Some q => if at_gate (p_pc q) then g' else macro f g' i EStep
      | None => g'
      end
  end.
Definition proc_out (g : gstate) (i : nat) (o : obs nat) : bool :=
  match nth i (snd g) None with Some q => out_is (Some (p_pc q)) o | None => false end.
"""

    def gen(self, rng, tier):
        cases = []
        k = 60 if tier == "quick" else 600
        for _ in range(k):
            nthreads = rng.choice([2, 2, 2, 3])
            payloads = [rng.choice(["good", "good", "good", "corrupt"]) for _ in range(nthreads)]
            sched = []
            for t in range(nthreads):
                sched += [t] * 6
            rng.shuffle(sched)
            cases.append({"threads": nthreads, "payloads": payloads, "schedule": sched, "initial": rng.choice([None, None, None, "old"]),
                          "deia": rng.random() < 0.2})
        # directed schedules: one loader gets ahead by k steps, the other catches up j steps, then both finish
        for pay in (["good", "corrupt"], ["corrupt", "good"]):
            for k_ in range(1, 7):
                for j_ in range(1, 7):
                    cases.append({"threads": 2, "payloads": pay, "schedule": [0] * k_ + [1] * j_ + [0] * (6 - k_) + [1] * (6 - j_), "initial": None, "deia": False})
        # a refresh of an entry that is already cached (download_even_if_available) next to a cache-only reader (download_if_missing=False)
        # or a default reader: at every step boundary of the refresher the reader is served the cached, verified data — the entry is
        # replaced atomically, it is never away
        for reader in ({"dim": False, "deia": False}, {"dim": True, "deia": False}):
            for k_ in range(1, 10):
                cases.append({"threads": 2, "payloads": ["good", "good"], "schedule": [0] * k_ + [1] * 8, "initial": "old", "deia": True,
                              "flags": [{"dim": True, "deia": True}, reader]})
        if tier != "quick":
            # exhaustively all interleavings of two loaders at step-boundary granularity (6 releases each: C(12,6) = 924)
            import itertools
            for pos in itertools.combinations(range(12), 6):
                sched = [1] * 12
                for p_ in pos:
                    sched[p_] = 0
                cases.append({"threads": 2, "payloads": ["good", "good"], "schedule": sched, "initial": None, "deia": False})
            self.exhaustive_space = "all 924 interleavings of two loaders at step-boundary granularity"
        return cases

    def run(self, c):
        h = Harness()
        B = h.B
        names = ["T%d" % i for i in range(c["threads"])]
        gate = Gate(names)
        results = {}
        saved_np, saved_pickle, saved_os = B.np, B.pickle, B.os
        try:
            if c["initial"]:
                h.seed_cache(c["initial"])

            def fake_urlretrieve(url, path):
                gate.wait("urlretrieve")
                me = threading.current_thread().name
                open(path, "wb").write(PAYLOADS[c["payloads"][names.index(me)]])
                return path, None
            real_sha = h.saved["_sha256"]

            def sha(path):
                gate.wait("sha")
                return real_sha(path)
            B.urlretrieve, B._sha256 = fake_urlretrieve, sha

            class NP:
                def __getattr__(self, k):
                    return getattr(np, k)

                def loadtxt(self, *a, **k):
                    gate.wait("loadtxt")
                    return np.loadtxt(*a, **k)

            class PK:
                def __getattr__(self, k):
                    return getattr(pickle, k)

                def dump(self, obj, f, *a, **k):
                    gate.wait("dump")
                    return pickle.dump(obj, f, *a, **k)

            class OS:
                def __getattr__(self, k):
                    return getattr(os, k)

                def rename(self, a, b):
                    gate.wait("rename")
                    return os.rename(a, b)

                # (not used by the loader as it is; a step boundary of their own if a change brings them in)
                def remove(self, a):
                    gate.wait("remove")
                    return os.remove(a)

                def unlink(self, a):
                    gate.wait("unlink")
                    return os.unlink(a)

                def replace(self, a, b):
                    gate.wait("replace")
                    return os.replace(a, b)
            B.np, B.pickle, B.os = NP(), PK(), OS()
            done = {}

            def body():
                me = threading.current_thread().name
                gate.wait("start")
                try:
                    with warnings.catch_warnings():
                        warnings.simplefilter("ignore")
                        fl_ = (c.get("flags") or [{"dim": True, "deia": c["deia"]}] * c["threads"])[names.index(me)]
                        r = B.load_csv_dataset_from_remote(h.remote("good"), "ds", "fam", data_home=h.root, delay=0.0,
                                                           download_if_missing=fl_["dim"], download_even_if_available=fl_["deia"])
                    results[me] = {"result": result_id(r)}
                except Exception as e:
                    results[me] = {"exc": exn_name(e), "exc_msg": str(e)[:80]}
                done[me] = True
                gate.at[me] = "done"
                gate.arrived.release()
            ths = [threading.Thread(target=body, name=n, daemon=True) for n in names]
            for t in ths:
                t.start()
            for _ in names:
                gate.arrived.acquire(timeout=30)
            used = []
            for tid in c["schedule"]:
                n = names[tid]
                if done.get(n):
                    continue
                used.append(tid)
                gate.sem[n].release()
                if not gate.arrived.acquire(timeout=30):
                    return {"hang": True, "at": dict(gate.at)}
            # let everybody finish
            for n in names:
                while not done.get(n):
                    used.append(names.index(n))
                    gate.sem[n].release()
                    if not gate.arrived.acquire(timeout=30):
                        return {"hang": True, "at": dict(gate.at)}
            for t in ths:
                t.join(timeout=10)
            return {"results": [results.get(n) for n in names], "used": used, "cache": h.cache_state(), "listing": h.listing()}
        finally:
            B.np, B.pickle, B.os = saved_np, saved_pickle, saved_os
            h.close()

    def coq(self, c, o):
        if o.get("hang"):
            return "false"
        init = coq_opt(DATA_ID[c["initial"]] if c["initial"] else None)
        flags = c.get("flags") or [{"dim": True, "deia": c["deia"]}] * c["threads"]
        fls = ["{| download_if_missing := %s; download_even_if_available := %s; validate_checksum := true; gzip := false; n_retries := 3 |}" % (
            "true" if f_["dim"] else "false", "true" if f_["deia"] else "false") for f_ in flags]
        procs = "; ".join("Some {| p_remote := {| r_slot := 5; r_digest := 1 |}; p_flags := %s; p_pc := PStart |}" % fl for fl in fls)
        # every release: the event is the thread's own payload when it waits at urlretrieve (the model ignores it elsewhere)
        rel = "; ".join("(%d%%nat, ENetOk [%d%%nat])" % (t, BLOB_ID[c["payloads"][t]]) for t in o["used"])
        outs = []
        for i, r in enumerate(o["results"]):
            ob = "(OExn %s)" % r["exc"] if "exc" in r else "(OVal %d%%nat)" % DATA_ID.get(r["result"], 0)
            outs.append("proc_out g %d %s" % (i, ob))
        cs = o["cache"]
        cache = coq_opt(DATA_ID.get(cs.get("content"), 99) if cs["present"] else None)
        return ("let g := fold_left (fun g ie => macro 6 g (fst ie) (match nth (fst ie) (snd g) None with Some q => match p_pc q with PFetching _ => snd ie | _ => EStep end | None => EStep end)) [%s] (mkfs %s, [%s]) in %s && cache_is (fst g) %s"
                % (rel, init, procs, " && ".join(outs), cache))

    def oracle(self, c, o):
        F = []

        def fail(aspect, what):
            F.append(Failure(aspect=aspect, what="%d concurrent loaders, payloads %s, schedule %s, initial cache %s: %s" % (
                c["threads"], c["payloads"], c["schedule"], c["initial"], what), signature={"aspect": aspect}))
        if o.get("hang"):
            fail("hang", "loaders did not make progress: %s" % o.get("at"))
            return F
        cs = o["cache"]
        if cs["present"] and cs.get("content") not in ("good", "old"):
            fail("cache-corrupt-concurrent", "cache entry is neither absent nor a complete copy of verified data: %s" % cs.get("content"))
        for i, r in enumerate(o["results"]):
            if r is None:
                fail("hang", "thread %d produced no result" % i)
            elif r.get("result") == "other":
                fail("returned-unverified", "thread %d returned data that is not the verified data" % i)
            elif r.get("result") and c["payloads"][i] == "corrupt" and r["result"] == "good" and not c["initial"]:
                pass  # may legitimately come from the cache filled by another loader
        if any(p == "corrupt" for p in c["payloads"]) and cs.get("content", "").startswith("other"):
            fail("checksum-gate", "corrupted payload reached the cache")
        if c.get("flags") and c["initial"]:
            for i, (f_, r) in enumerate(zip(c["flags"], o["results"])):
                if not f_["deia"] and r is not None and r.get("result") not in ("good", "old"):
                    fail("cached-not-served", "reader %d (download_if_missing=%s) of a cached dataset got %s while another loader was refreshing the entry" % (
                        i, f_["dim"], r.get("exc_msg") or r.get("result")))
        return F

    def key(self, c, o):
        return (tuple(c["payloads"]), tuple(c["schedule"]), c["initial"], c["deia"], str(c.get("flags")))

    def label(self, c, o):
        return "%dthreads" % c["threads"]


# ------------------------------------------------------------------------------------------
class DatasetOrderUnit(Unit):
    """what is returned for one dataset never depends on which other datasets were loaded before (real registry)"""
    name = "dataset_order"

    def gen(self, rng, tier):
        from tools.props.dataset_units import doc_names
        names = [n for fam, n in doc_names() if fam != "sandvine"]
        pairs = []
        if tier == "quick":
            for i in range(len(names)):
                pairs.append((names[i - 1], names[i]))
            for _ in range(150):
                a, b = rng.sample(names, 2)
                pairs.append((a, b))
        else:
            pairs = [(a, b) for a in names for b in names if a != b]
        cases = [{"first": a, "second": b} for a, b in pairs]
        # the first dataset is fetched through its own loader function with NON-default options; the second (another
        # dataset, default options) must not inherit them
        fam = {}
        for f_, n_ in doc_names():
            if f_ != "sandvine":
                fam.setdefault(f_, []).append(n_)
        opts = [{"unpack_dataset_columns": True}, {"download_even_if_available": True}, {"n_retries": 0}, {"download_if_missing": True, "unpack_dataset_columns": True}]
        for f_, ns in sorted(fam.items()):
            for kw in opts:
                for _ in range(2 if tier == "quick" else 8):
                    a, b = rng.sample(ns, 2)
                    cases.append({"first": a, "second": b, "first_kwargs": kw})
        return cases

    def run(self, c):
        from tools.props.dataset_units import Sandbox
        from traffic_weaver.datasets import load_dataset
        with warnings.catch_warnings():
            warnings.simplefilter("ignore")
            with Sandbox() as sb:
                def fake(url, path):
                    sb.downloads.append((url, path))
                    k = int(hashlib.sha256(url.encode()).hexdigest()[:6], 16) % 1000
                    open(path, "w").write("0, %d\n1, %d\n2, 3\n" % (k, k + 1))
                    return path, None
                sb.B.urlretrieve = fake
                try:
                    if c.get("first_kwargs"):
                        import traffic_weaver.datasets._datasets as D
                        getattr(D, "fetch_" + c["first"].replace("-", "_"))(**c["first_kwargs"])
                    else:
                        load_dataset(c["first"])
                    r = load_dataset(c["second"])
                    url2 = [u for u, p in sb.downloads][-1] if len(sb.downloads) == 2 else None
                    out = {"second": np.asarray(r).tolist() if isinstance(r, np.ndarray) else None, "kind": type(r).__name__, "url2": url2, "ndl": len(sb.downloads)}
                    if c.get("first_kwargs"):
                        # asked once more, the second dataset is cached: no further download
                        import traffic_weaver.datasets._datasets as D
                        r3 = getattr(D, "fetch_" + c["second"].replace("-", "_"))()
                        out["ndl3"] = len(sb.downloads)
                        out["kind3"] = type(r3).__name__
                    return out
                except Exception as e:
                    return {"exc": exn_name(e), "exc_msg": str(e)[:100]}

    def oracle(self, c, o):
        if "exc" in o:
            return [Failure(aspect="order-raises", what="loading %s then %s raised %s" % (c["first"], c["second"], o["exc_msg"]), signature={"aspect": "order-raises"})]
        if o["ndl"] != 2 or o["url2"] is None:
            return [Failure(aspect="order-dependence", what="loading %s after %s did not download its own file (%d downloads): it was served from another dataset's cache" % (
                c["second"], c["first"], o["ndl"]), signature={"aspect": "order-dependence"})]
        if o.get("kind") != "ndarray" or o.get("kind3", "ndarray") != "ndarray":
            return [Failure(aspect="order-dependence", what="%s loaded with default options after %s(%s) came back as %s / %s, not an array" % (
                c["second"], c["first"], c.get("first_kwargs"), o.get("kind"), o.get("kind3")), signature={"aspect": "order-dependence"})]
        if o.get("ndl3", 2) != 2:
            return [Failure(aspect="order-dependence", what="%s, cached, was downloaded again (%d downloads) after %s had been fetched with %s" % (
                c["second"], o["ndl3"], c["first"], c.get("first_kwargs")), signature={"aspect": "order-dependence"})]
        k = int(hashlib.sha256(o["url2"].encode()).hexdigest()[:6], 16) % 1000
        if o["second"] != [[0.0, float(k)], [1.0, float(k + 1)], [2.0, 3.0]]:
            return [Failure(aspect="order-dependence", what="%s loaded after %s returned other data than its own" % (c["second"], c["first"]), signature={"aspect": "order-dependence"})]
        return []

    def key(self, c, o):
        return (c["first"], c["second"])
