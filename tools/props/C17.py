"""C17 — array helpers, interval view and block averaging keep their contracts."""
import math

import numpy as np

from tools.harness import gens
from tools.harness.core import Property, Unit, Failure, q, qa, qlist, zlit, natlist, exn_name, tol_for, all_finite

DIRS = {"both": "Both", "left": "Left", "right": "Right"}


def optq(v):
    return "None" if v is None else "(Some %s)" % q(v)


def cells(rows):
    """2-D float array with NaN padding -> Coq list (list (option Qc))"""
    return "[" + "; ".join("[" + "; ".join("None" if math.isnan(c) else "Some %s" % qa(c) for c in r) + "]" for r in rows) + "]"


def close_each(a, b, tol=1e-9):
    """element-wise relative closeness: a block mean is a local quantity, a huge sample elsewhere is no excuse"""
    a = np.asarray(a, dtype=float)
    b = np.asarray(b, dtype=float)
    if a.shape != b.shape:
        return False
    return bool(np.all(np.abs(a - b) <= tol * (1 + np.abs(b))))


def close(a, b, tol=1e-9):
    a = np.asarray(a, dtype=float)
    b = np.asarray(b, dtype=float)
    if a.shape != b.shape:
        return False
    if a.size == 0:
        return True
    return bool(np.all(np.abs(a - b) <= tol * (1 + np.max(np.abs(b)))))


class HelpersUnit(Unit):
    name = "helpers"
    imports = ["Model.Interval"]
    preamble = """
Definition cell_match (tol : Qc) := option_match (fun a b => approx tol a b).
Definition rows_match (tol : Qc) := list_eqb (list_eqb (cell_match tol)).
Definition al := approx_list.
"""

    OPS = ["append", "ov_lin", "ov_pc", "ext_lin", "ext_const", "integral", "sum_idx", "iget", "iset",
           "to2d", "to2d_closed", "average", "avg_roundtrip", "nfull", "iov", "iext", "set_then_2d", "set_then_2d"]

    def gen(self, rng, tier):
        cases = []
        # exhaustive small lengths x n for the structural helpers
        lens = range(1, 9) if tier == "quick" else range(1, 13)
        ns = range(1, 5) if tier == "quick" else range(1, 7)
        for L in lens:
            for n in ns:
                a = gens.sorted_x(rng, L, rng.choice(["dyadic", "int", "ratio"]))
                for op in ("ov_lin", "ov_pc", "to2d", "to2d_closed", "average", "nfull", "avg_roundtrip"):
                    cases.append(self.mk(rng, op, a, n))
                for d in DIRS:
                    cases.append(self.mk(rng, "iext", a, n, direction=d))       # the same through the interval view
                    cases.append(self.mk(rng, "ext_const", a, n, direction=d))
                    if L >= n + 1:
                        cases.append(self.mk(rng, "ext_lin", a, n, direction=d))
                        cases.append(self.mk(rng, "ext_lin", a, n, direction=d, explicit=True))
        # arrays that are *almost* evenly spaced (interior elements off the regular grid by 2^-20..2^-18 of the step) and arrays on a
        # tiny scale (clearly uneven multiples of 2^-30): an "evenly spaced" shortcut that tests the spacing with a tolerance
        # (np.allclose: rtol 1e-5, atol 1e-8) takes both for even. Every run, every structural helper that looks at differences.
        for step in (1.0, 300.0, 0.5):
            for L in (3, 4, 6):
                a = [5.0 + i * step + (step * rng.choice([-4, -2, -1, 1, 2, 4]) * 2.0 ** -20 if 0 < i < L - 1 else 0.0) for i in range(L)]
                for op in ("ov_lin", "iov"):
                    cases.append(self.mk(rng, op, a, rng.choice([2, 3, 4])))
                cases.append(self.mk(rng, "ext_lin", a, rng.randint(1, L - 1), direction=rng.choice(list(DIRS))))
        for a in ([k * 2.0 ** -30 for k in (0, 1, 3, 4, 8)], [k * 2.0 ** -30 for k in (1, 5, 2, 7)]):
            for op in ("ov_lin", "iov", "ov_pc"):
                cases.append(self.mk(rng, op, a, rng.choice([2, 3, 4])))
            cases.append(self.mk(rng, "ext_lin", a, 2, direction=rng.choice(list(DIRS))))
        # explicit end values of exactly 0 (fading a series out to zero / in from zero): an end value like any other
        for L in (3, 5, 8):
            a0 = gens.sorted_x(rng, L, rng.choice(["dyadic", "int"]))
            a0 = [v + 6.0 for v in a0]                    # (away from 0, so that the ramp to 0 differs from the default continuation)
            for d in DIRS:
                for ls, rs in ((0.0, 0.0), (None, 0.0), (0.0, None), (0, 0)):
                    cz = self.mk(rng, "ext_lin", a0, rng.randint(1, L - 1), direction=d, explicit=True)
                    cz["lstart"], cz["rstop"] = ls, rs
                    cases.append(cz)
        # integer counters beyond 2^53 in an int64 array (byte counters, epoch nanoseconds): the helpers that only *copy* elements
        # (piecewise-constant oversampling, constant extension) keep every original element as it is — not its nearest double
        for _ in range(4 if tier == "quick" else 20):
            L = rng.randint(2, 7)
            big = [2 ** 53 + 1 + 2 * rng.randint(0, 10 ** 6) for _ in range(L)]     # odd: not representable as doubles
            for op in ("ov_pc", "ext_const"):
                cb_ = self.mk(rng, op, big, rng.choice([2, 3, 4]), direction=rng.choice(list(DIRS)) if op == "ext_const" else None)
                cb_["bigint"] = True
                cases.append(cb_)
        nrand = 250 if tier == "quick" else 2500
        for _ in range(nrand):
            op = rng.choice(self.OPS)
            L = rng.randint(1, 50) if rng.random() < 0.3 else rng.randint(1, 14)
            n = rng.randint(1, 16) if rng.random() < 0.3 else rng.randint(1, 6)
            a = gens.sorted_x(rng, L) if rng.random() < 0.5 else (gens.values(rng, L) if rng.random() < 0.7 else gens.loose_x(rng, L))
            if op == "ext_lin" and L < n + 1:
                n = max(1, L - 1)
                if L < n + 1:
                    op = "ext_const"
            cases.append(self.mk(rng, op, a, n))
        return cases

    def mk(self, rng, op, a, n, direction=None, explicit=None):
        c = {"op": op, "a": a, "n": n}
        L = len(a)
        if op == "append":
            if L < 2:
                c["a"] = a = a + [a[-1] + 1.0]
            c["y"] = gens.values(rng, len(a))
            c["periodic"] = rng.random() < 0.5
            c["flag_kind"] = rng.choice(["bool", "bool", "np_bool", "int", "zero_d"])       # how the caller happens to hold the flag
        elif op in ("ext_lin", "ext_const", "iext"):
            c["direction"] = direction or rng.choice(list(DIRS))
            if op == "iext":
                c["kind"] = rng.choice(["lin", "const"])
                if c["kind"] == "lin" and L < n + 1:
                    c["kind"] = "const"
            if op == "ext_lin":
                ex = explicit if explicit is not None else (rng.random() < 0.5)
                c["lstart"] = gens.dyadic(rng, -20, 20, 2) if ex and rng.random() < 0.8 else None
                c["rstop"] = gens.dyadic(rng, -20, 20, 2) if ex and rng.random() < 0.8 else None
        elif op == "integral":
            c["y"] = gens.values(rng, L)
            c["rule"] = rng.choice(["trapezoid", "rectangle", "trapezoid", "rectangle", "simpson"])
        elif op == "sum_idx":
            k = rng.randint(0, 5)
            idx = sorted(rng.randint(0, L + 2) for _ in range(k))
            if rng.random() < 0.2 and len(idx) >= 2:
                idx[0], idx[-1] = idx[-1], idx[0]
            c["idx"] = idx
        elif op == "set_then_2d":
            c["key"] = [rng.randint(0, max(0, (L - 1) // n)), 0]
            c["key"][1] = rng.randint(0, min(n - 1, L - 1 - c["key"][0] * n))
            c["val"] = gens.dyadic(rng, -8, 8, 2)
        elif op in ("iget", "iset"):
            kind = rng.choice(["pair", "pair", "int", "triple"])
            if kind == "pair":
                c["key"] = [rng.randint(-2, L // n + 1), rng.randint(-n, n)]
            elif kind == "int":
                c["key"] = rng.randint(-L - 1, L)
            else:
                c["key"] = [0, 0, 0]
            c["val"] = gens.dyadic(rng, -8, 8, 2)
        elif op == "avg_roundtrip":
            c["y"] = gens.values(rng, L, "burst" if rng.random() < 0.15 else None)
        elif op == "average":
            c["y"] = gens.values(rng, L, "burst" if rng.random() < 0.15 else None)
        elif op == "to2d_closed":
            c["drop_last"] = rng.random() < 0.5
        elif op == "iov":
            c["kind"] = rng.choice(["lin", "pc"])
            c["num"] = rng.randint(1, 4)
        return c

    PURE = ("append", "ov_lin", "ov_pc", "ext_lin", "ext_const", "integral", "sum_idx", "average", "avg_roundtrip")

    def run(self, c):
        """the helpers are pure functions: the array handed in is unchanged afterwards and the same call gives the same answer"""
        a = np.array(c["a"], dtype=np.int64 if c.get("bigint") else float)
        held = a.copy()
        r = self.run1(c, held)
        if c["op"] in self.PURE and "exc" not in r:
            r["input_mutated"] = not np.array_equal(held, a)
            r2 = self.run1(c, held)
            r["second_call_differs"] = {k: v for k, v in r2.items()} != {k: v for k, v in r.items() if k not in ("input_mutated",)}
        return r

    def run1(self, c, a):
        import traffic_weaver.sorted_array_utils as sau
        from traffic_weaver.interval import IntervalArray
        from traffic_weaver.process import average
        op, n = c["op"], c["n"]
        try:
            if op == "append":
                fk_ = c.get("flag_kind", "bool")
                flag = {"bool": c["periodic"], "np_bool": np.bool_(c["periodic"]), "int": int(c["periodic"]), "zero_d": np.asarray(c["periodic"])}[fk_]
                x, y = sau.append_one_sample(a, np.array(c["y"], dtype=float), make_periodic=flag)
                return {"x": x.tolist(), "y": y.tolist()}
            if op == "ov_lin":
                return {"out": np.asarray(sau.oversample_linspace(a, n)).tolist()}
            if op == "ov_pc":
                return {"out": np.asarray(sau.oversample_piecewise_constant(a, n)).tolist()}
            if op == "ext_lin":
                return {"out": sau.extend_linspace(a, n, direction=c["direction"], lstart=c["lstart"], rstop=c["rstop"]).tolist()}
            if op == "ext_const":
                return {"out": sau.extend_constant(a, n, direction=c["direction"]).tolist()}
            if op == "integral":
                return {"out": np.asarray(sau.integral(a, np.array(c["y"], dtype=float), c["rule"])).tolist()}
            if op == "sum_idx":
                return {"out": np.asarray(sau.sum_over_indices(a, c["idx"]), dtype=float).tolist()}
            ia = IntervalArray(a.copy(), n)
            if op == "iget":
                k = c["key"]
                return {"out": float(ia[k if isinstance(k, int) else tuple(k)])}
            if op == "iset":
                k = c["key"]
                ia[k if isinstance(k, int) else tuple(k)] = c["val"]
                return {"out": ia.array.tolist()}
            if op == "set_then_2d":      # lay out, write through the view, lay out again on the SAME object
                ia.to_2d_array()
                ia.to_2d_array_closed_intervals()
                ia[tuple(c["key"])] = c["val"]
                return {"rows": ia.to_2d_array().tolist(), "flat": np.asarray(ia.array, dtype=float).tolist()}
            if op == "to2d":
                return {"rows": ia.to_2d_array().tolist()}
            if op == "to2d_closed":
                return {"rows": ia.to_2d_array_closed_intervals(drop_last=c["drop_last"]).tolist()}
            if op == "nfull":
                return {"out": int(ia.nr_of_full_intervals()), "len": len(ia)}
            if op == "average":
                x, y = average(a, np.array(c["y"], dtype=float), n)
                return {"x": x.tolist(), "y": y.tolist()}
            if op == "avg_roundtrip":
                y = np.array(c["y"], dtype=float)
                xs = sau.oversample_linspace(a, n)
                ys = sau.oversample_piecewise_constant(y, n)
                x2, y2 = average(xs, ys, n)
                return {"x": np.asarray(x2).tolist(), "y": np.asarray(y2).tolist()}
            if op == "iov":
                r = ia.oversample_linspace(c["num"]) if c["kind"] == "lin" else ia.oversample_piecewise(c["num"])
                return {"out": np.asarray(r.array, dtype=float).tolist(), "n": int(r.n)}
            if op == "iext":
                if c["kind"] == "lin":
                    ia.extend_linspace(direction=c["direction"])
                else:
                    ia.extend_constant(direction=c["direction"])
                return {"out": np.asarray(ia.array, dtype=float).tolist(), "n": int(ia.n)}
        except Exception as e:
            return {"exc": exn_name(e), "exc_msg": str(e)[:200]}
        raise AssertionError(op)

    def coq(self, c, o):
        op, n = c["op"], c["n"]
        A = qlist(c["a"])
        tol = tol_for(list(c["a"]) + list(c.get("y", [])) + [c.get("lstart") or 0, c.get("rstop") or 0, c.get("val") or 0])
        if o.get("input_mutated"):
            fail("input-mutated", "the array handed in by the caller was modified")
        if o.get("second_call_differs"):
            fail("second-call", "the same call on the same array gave another result the second time")
        if "exc" in o:
            if op == "integral" and c["rule"] == "simpson":
                return "res_match (al %s) (integral %s %s UnknownRule) (OExn %s)" % (tol, A, qlist(c["y"]), o["exc"])
            if op in ("iget", "iset"):
                return "match %s with Raise e => exn_eqb e %s | _ => false end" % (self.ikey_expr(c, "iget"), o["exc"])
            return "false"
        if not all_finite(*[v for k, v in o.items() if k in ("out", "x", "y")]):
            # NaN/inf in a numeric output: the model's definedness flag must be false
            if op in ("average", "avg_roundtrip"):
                return "false"
            return "false"
        if op == "append":
            return "let r := append_one_sample %s %s %s in al %s (fst r) %s && al %s (snd r) %s" % (
                A, qlist(c["y"]), "true" if c["periodic"] else "false", tol, qlist(o["x"], qa), tol, qlist(o["y"], qa))
        if op == "ov_lin":
            return "al %s (oversample_linspace %s %d) %s" % (tol, A, n, qlist(o["out"], qa))
        if op == "ov_pc":
            return "al %s (oversample_pc %s %d) %s" % (tol, A, n, qlist(o["out"], qa))
        if op == "ext_lin":
            return "al %s (extend_linspace %s %d %s %s %s) %s" % (tol, A, n, DIRS[c["direction"]], optq(c["lstart"]), optq(c["rstop"]), qlist(o["out"], qa))
        if op == "ext_const":
            return "al %s (extend_constant %s %d %s) %s" % (tol, A, n, DIRS[c["direction"]], qlist(o["out"], qa))
        if op == "integral":
            return "res_match (al %s) (integral %s %s %s) (OVal %s)" % (tol, A, qlist(c["y"]), {"trapezoid": "Trapezoid", "rectangle": "Rectangle"}.get(c["rule"], "UnknownRule"), qlist(o["out"], qa))
        if op == "sum_idx":
            return "al %s (sum_over_indices %s %s) %s" % (tol, A, natlist(c["idx"]), qlist(o["out"], qa))
        if op == "iget":
            return "match %s with Ok v => approx %s v %s | _ => false end" % (self.ikey_expr(c, "iget"), tol, qa(o["out"]))
        if op == "iset":
            return "match %s with Ok r => al %s (arr r) %s | _ => false end" % (self.ikey_expr(c, "iset"), tol, qlist(o["out"], qa))
        ia = "{| arr := %s; isize := %d |}" % (A, n)
        if op == "set_then_2d":
            return "match iset %s (KPair %s %s) %s with Ok r => rows_match %s (to_2d_array r) %s | _ => false end" % (
                ia, zlit(c["key"][0]), zlit(c["key"][1]), q(c["val"]), tol, cells(o["rows"]))
        if op == "to2d":
            return "rows_match %s (to_2d_array %s) %s" % (tol, ia, cells(o["rows"]))
        if op == "to2d_closed":
            return "rows_match %s (to_2d_closed %s %s) %s" % (tol, ia, "true" if c["drop_last"] else "false", cells(o["rows"]))
        if op == "nfull":
            return "Nat.eqb (nr_of_full_intervals %s) %d" % (ia, o["out"])
        if op == "average":
            return "let r := average %s %s %d in al %s (fst r) %s && al %s (snd r) %s" % (A, qlist(c["y"]), n, tol, qlist(o["x"], qa), tol, qlist(o["y"], qa))
        if op == "avg_roundtrip":
            return "let r := average (oversample_linspace %s %d) (oversample_pc %s %d) %d in al %s (fst r) %s && al %s (snd r) %s" % (
                A, n, qlist(c["y"]), n, n, tol, qlist(o["x"], qa), tol, qlist(o["y"], qa))
        if op == "iov":
            f = "ioversample_linspace" if c["kind"] == "lin" else "ioversample_pc"
            return "let r := %s %s %d in al %s (arr r) %s && Nat.eqb (isize r) %d" % (f, ia, c["num"], tol, qlist(o["out"], qa), o["n"])
        if op == "iext":
            f = "iextend_linspace" if c["kind"] == "lin" else "iextend_constant"
            return "let r := %s %s %s in al %s (arr r) %s && Nat.eqb (isize r) %d" % (f, ia, DIRS[c["direction"]], tol, qlist(o["out"], qa), o["n"])
        raise AssertionError(op)

    def ikey_expr(self, c, fn):
        k = c["key"]
        ia = "{| arr := %s; isize := %d |}" % (qlist(c["a"]), c["n"])
        if isinstance(k, int):
            key = "(KInt %s)" % zlit(k)
        elif len(k) == 2:
            key = "(KPair %s %s)" % (zlit(k[0]), zlit(k[1]))
        else:
            key = "KOther"
        if fn == "iget" and c["op"] == "iget":
            return "iget %s %s" % (ia, key)
        return "iset %s %s %s" % (ia, key, q(c["val"]))

    # ---- the property stated directly on the implementation's outputs
    def oracle(self, c, o):
        op, n, a = c["op"], c["n"], c["a"]
        L = len(a)
        F = []

        def fail(aspect, what):
            F.append(Failure(aspect=aspect, what="%s: %s (case a=%s n=%s)" % (op, what, a, n), signature={"aspect": aspect, "op": op}))

        if "exc" in o:
            if op == "integral" and c["rule"] == "simpson":
                if o["exc"] != "ValueError":
                    fail("unknown-rule", "unknown integration rule raised %s, not ValueError" % o["exc"])
            elif op in ("iget", "iset"):
                k = c["key"]
                if not isinstance(k, int) and len(k) == 2:
                    f = k[0] * n + k[1]
                    if -L <= f < L:
                        fail("interval-index", "valid key %s raised %s" % (k, o["exc"]))
                elif isinstance(k, int) and -L <= k < L:
                    fail("interval-index", "valid key %s raised %s" % (k, o["exc"]))
                elif not isinstance(k, int) and len(k) != 2 and o["exc"] != "IndexError":
                    fail("interval-index", "key of length %d raised %s, not IndexError" % (len(k), o["exc"]))
            else:
                fail("raises", "raised %s: %s" % (o["exc"], o.get("exc_msg")))
            return F
        if op == "integral" and c["rule"] == "simpson":
            fail("unknown-rule", "unknown integration rule accepted")
            return F
        if op == "append":
            x, y = o["x"], o["y"]
            if len(x) != L + 1 or len(y) != L + 1 or x[:L] != a or y[:L] != c["y"]:
                fail("append", "prefix changed or wrong length")
            elif not close([x[-1] - x[-2]], [a[-1] - a[-2]]):
                fail("append", "x not continued by its last step: %s" % x[-3:])
            elif y[-1] != (c["y"][0] if c["periodic"] else c["y"][-1]):
                fail("append", "appended y is %s" % y[-1])
        elif op in ("ov_lin", "ov_pc"):
            out = o["out"]
            if n < 2:
                if out != a:
                    fail("oversample", "num < 2 must return the input")
            else:
                if len(out) != (L - 1) * n + 1:
                    fail("oversample", "length %d, expected %d" % (len(out), (L - 1) * n + 1))
                else:
                    if out[::n] != a:
                        fail("oversample", "every n-th element is not an original element")
                    for k in range(L - 1):
                        blk = out[k * n:(k + 1) * n]
                        exp = [a[k] + i * (a[k + 1] - a[k]) / n for i in range(n)] if op == "ov_lin" else [a[k]] * n
                        if not close(blk, exp):
                            fail("oversample", "gap %d filled with %s, expected %s" % (k, blk, exp))
                            break
        elif op in ("ext_lin", "ext_const", "iext"):
            # (iext: the same contract through the interval view — IntervalArray.extend_linspace / extend_constant with the object's own
            #  n and the helper's documented default end points; n stays)
            if op == "iext":
                if o.get("n") != n:
                    fail("extend", "interval size became %s" % o.get("n"))
                op = "ext_lin" if c["kind"] == "lin" else "ext_const"
                c = dict(c, lstart=None, rstop=None)
            out = o["out"]
            d = c["direction"]
            nl = n if d in ("both", "left") else 0
            nr = n if d in ("both", "right") else 0
            if len(out) != L + nl + nr:
                fail("extend", "length %d, expected %d" % (len(out), L + nl + nr))
            elif out[nl:nl + L] != a:
                fail("extend", "original elements not kept in the middle")
            else:
                if op == "ext_const":
                    if out[:nl] != [a[0]] * nl or out[nl + L:] != [a[-1]] * nr:
                        fail("extend", "constant extension wrong: %s" % out)
                else:
                    if nl:
                        ls = c["lstart"] if c["lstart"] is not None else 2 * a[0] - a[n]
                        exp = [ls + i * (a[0] - ls) / n for i in range(n)]
                        if not close(out[:nl], exp):
                            fail("extend", "left extension %s, expected %s" % (out[:nl], exp))
                    if nr:
                        rs = c["rstop"] if c["rstop"] is not None else 2 * a[-1] - a[-n - 1]
                        exp = [a[-1] + i * (rs - a[-1]) / n for i in range(1, n + 1)]
                        if not close(out[nl + L:], exp):
                            fail("extend", "right extension %s, expected %s" % (out[nl + L:], exp))
        elif op == "integral":
            y = c["y"]
            exp = [((y[i] + y[i + 1]) / 2 if c["rule"] == "trapezoid" else y[i]) * (a[i + 1] - a[i]) for i in range(L - 1)]
            if not close(o["out"], exp):
                fail("integral", "%s rule gave %s expected %s" % (c["rule"], o["out"], exp))
        elif op == "sum_idx":
            idx = c["idx"]
            exp = [sum(a[s:e]) for s, e in zip(idx[:-1], idx[1:])]
            if not close(o["out"], exp):
                fail("sum_over_indices", "gave %s expected %s" % (o["out"], exp))
        elif op in ("iget", "iset"):
            k = c["key"]
            f = k if isinstance(k, int) else (k[0] * n + k[1] if len(k) == 2 else None)
            if f is None or not (-L <= f < L):
                fail("interval-index", "invalid key %s accepted" % (k,))
            elif op == "iget" and o["out"] != a[f]:
                fail("interval-index", "a[%s] read %s, flat element is %s" % (k, o["out"], a[f]))
            elif op == "iset":
                exp = list(a)
                exp[f] = c["val"]
                if o["out"] != exp:
                    fail("interval-index", "a[%s]=v wrote %s" % (k, o["out"]))
        elif op == "set_then_2d":
            f = c["key"][0] * n + c["key"][1]
            exp = list(a)
            exp[f] = c["val"]
            m = -(-L // n)
            erows = [[exp[r * n + j] if r * n + j < L else math.nan for j in range(n)] for r in range(m)]
            if o["flat"] != exp or not np.array_equal(np.array(o["rows"], dtype=float), np.array(erows, dtype=float), equal_nan=True):
                fail("layout", "after a write through the view the 2-D layout is %s, the flat array laid out row by row is %s" % (o["rows"], erows))
        elif op in ("to2d", "to2d_closed"):
            rows = o["rows"]
            m = -(-L // n)
            exp = [[a[r * n + j] if r * n + j < L else math.nan for j in range(n)] for r in range(m)]
            if op == "to2d_closed":
                exp = [row + [exp[r + 1][0] if r + 1 < m else math.nan] for r, row in enumerate(exp)]
                if c["drop_last"]:
                    exp = exp[:-1]
            if not np.array_equal(np.array(rows, dtype=float).reshape(len(exp), -1) if rows else np.zeros((0, 0)), np.array(exp, dtype=float).reshape(len(exp), -1) if exp else np.zeros((0, 0)), equal_nan=True):
                fail("layout", "2-D layout %s, expected %s" % (rows, exp))
        elif op == "nfull":
            if o["out"] != L // n or o["len"] != L:
                fail("layout", "nr_of_full_intervals %s len %s" % (o["out"], o["len"]))
        elif op == "average":
            m = -(-L // n)
            y = c["y"]
            ex = [a[r * n] for r in range(m)]
            ey = [sum(y[r * n:(r + 1) * n]) / len(y[r * n:(r + 1) * n]) for r in range(m)]
            if not close(o["x"], ex) or not close_each(o["y"], ey):
                fail("average", "gave %s / %s expected %s / %s" % (o["x"], o["y"], ex, ey))
        elif op == "avg_roundtrip":
            if n >= 2 and (not close(o["x"], a, 1e-12) or not close_each(o["y"], c["y"], 1e-12)):
                fail("average-roundtrip", "average(oversample) = %s / %s, input %s / %s" % (o["x"], o["y"], a, c["y"]))
        return F

    def key(self, c, o):
        return (c["op"], len(c["a"]), c["n"], str(sorted((k, str(v)) for k, v in c.items() if k not in ("a", "n", "op"))), tuple(c["a"]))

    def label(self, c, o):
        return c["op"] + (":exc" if "exc" in o else "")


class C17(Property):
    id = "C17"
    gen_targets = ["Kernels", "UtilsGlue"]
    rule = ("exhaustive over lengths x n for the structural helpers (oversample, extend in all directions with default and explicit "
            "end values, 2-D layouts, averaging, round trip) plus seeded random operations over all 16 helper operations; "
            "distinct = distinct (op, parameters, array)")

    def units(self, tier):
        return [HelpersUnit()]


PROPERTY = C17()
