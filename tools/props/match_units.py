"""Correspondence units and oracles for integral matching (C01, C03; rejection classes of C20)."""
import warnings
from fractions import Fraction

import numpy as np

from tools.harness import gens
from tools.harness.core import Unit, Failure, q, qa, qlist, natlist, exn_name, tol_for, all_finite
from tools.props.C10 import brute

ALPHAS = [1.0, 1.0, 0.5, 1.5, 2.0, 3.0]
RULES = {"trapezoid": "Trapezoid", "rectangle": "Rectangle"}


def rule_c(r):
    return RULES.get(r, "UnknownRule")


def integ(rule, xs, ys):
    """exact per-interval integrals of float data"""
    xs = [Fraction(v) for v in xs]
    ys = [Fraction(v) for v in ys]
    if rule == "trapezoid":
        return [(ys[i] + ys[i + 1]) / 2 * (xs[i + 1] - xs[i]) for i in range(len(xs) - 1)]
    return [ys[i] * (xs[i + 1] - xs[i]) for i in range(len(xs) - 1)]


def expected_plan(c):
    """(fixed indices in x, reference indices, judged) computed from the property text, not from the code"""
    x, xr = c["x"], c["xr"]
    mode = c["mode"]
    if mode == "strategy":
        idx = [brute(x, v, c["strategy"], True) for v in xr]
        fixed = sorted(set(idx))
        ridx = list(range(len(xr)))
        judged = len(fixed) == len(xr)
    else:
        if len(c["fixed_values"] if mode == "values" else c["fixed_indices"]) > len(x):
            return None, None, False       # more fixed points than samples (duplicates count): rejected with ValueError by design
        if mode == "values":
            vals = sorted(set(c["fixed_values"]))
            if any(v not in x for v in vals):
                return None, None, False
            fixed = [x.index(v) for v in vals]
        else:
            fixed = sorted(set(c["fixed_indices"]))
            if any(not (0 <= i < len(x)) for i in fixed):
                return None, None, False
        near = [brute(xr, x[i], "closest", True) for i in fixed]
        ridx = sorted(set(near))
        judged = len(ridx) == len(fixed)
    judged = judged and len(fixed) >= 2 and all(b - a >= 2 for a, b in zip(fixed[:-1], fixed[1:]))
    return fixed, ridx, judged


class MatchUnit(Unit):
    name = "match"
    imports = ["Model.Match", "Lib.Pow"]
    preamble = """
Definition lm (tol : Qc) (m : res (list Qc)) (o : obs (list Qc)) : bool := res_match (approx_list tol) m o.
"""

    def __init__(self, aspects=("C01", "C03")):
        self.aspects = set(aspects)

    # ------------------------------------------------------------------ generation
    def gen(self, rng, tier):
        cases = self._gen(rng, tier)
        for c in cases:
            if rng.random() < 0.25:
                c["y"] = [float(rng.randint(-9, 9)) for _ in c["y"]]
                c["int_y"] = True
        return cases

    def _gen(self, rng, tier):
        cases = []
        k = 120 if tier == "quick" else 1500
        big = tier != "quick"
        for _ in range(k):       # kernel
            N = rng.choice([2, 3, 3, 4, 5, 6, 9, 12]) if not (big and rng.random() < 0.05) else rng.randint(13, 40)
            x = gens.sorted_x(rng, N)
            y = gens.values(rng, N)
            rule = rng.choice(["trapezoid", "rectangle"])
            tgt = gens.dyadic(rng, -20, 20, 2)
            if rng.random() < 0.15:
                tgt = float(sum(integ(rule, x, y)))     # delta_p = 0
            cases.append({"kind": "kernel", "x": x, "y": y, "target": tgt, "rule": rule, "alpha": rng.choice(ALPHAS)})
        for _ in range(k):       # interval loop
            W = rng.randint(1, 6)
            gaps = [rng.choice([1, 2, 2, 3, 4, 7]) for _ in range(W)]
            start = rng.randint(0, 3)
            fixed = [start]
            for g in gaps:
                fixed.append(fixed[-1] + g)
            N = fixed[-1] + 1 + rng.randint(0, 3)
            cases.append({"kind": "interval", "x": gens.sorted_x(rng, N), "y": gens.values(rng, N), "fixed": fixed,
                          "targets": [gens.dyadic(rng, -20, 20, 2) for _ in range(W)], "rule": rng.choice(["trapezoid", "rectangle"]),
                          "alpha": rng.choice(ALPHAS)})
        for _ in range(2 * k):   # reference
            cases.append(self.mk_ref(rng, big))
        # decimal sampling grids (0.1, 0.2, 0.05, 0.3 — not binary fractions) with reference points written as the midpoint of two
        # neighbouring samples, (x[i] + x[i+1]) / 2 in floats: which sample is closest is decided by the two distances as they are
        # (both subtractions are exact there, by Sterbenz' lemma; cases where they are not are dropped as in C10, DESIGN 3.6) —
        # not by a recomputed, rounded midpoint
        from tools.props.C10 import near_tie
        made = 0
        while made < (10 if not big else 60):
            step = rng.choice([0.1, 0.2, 0.05, 0.3])
            N = rng.randint(8, 16)
            x0 = rng.choice([0.0, 0.5, 1.0])
            x = [x0 + i * step for i in range(N)]
            idx = sorted(rng.sample(range(N - 1), rng.randint(2, 4)))
            xr = sorted({(x[i] + x[i + 1]) / 2 for i in idx} | ({x[0]} if rng.random() < 0.5 else set()) | ({x[-1]} if rng.random() < 0.5 else set()))
            if len(xr) < 2 or any(near_tie(x, v) for v in xr):
                continue
            cases.append({"kind": "reference", "x": x, "y": gens.values(rng, N, "int"), "xr": xr, "yr": gens.values(rng, len(xr), "int"),
                          "rt": rng.choice(["trapezoid", "rectangle"]), "rr": rng.choice(["rectangle", "trapezoid"]),
                          "alpha": rng.choice([1.0, 2.0, 0.5]), "mode": "strategy", "strategy": "closest"})
            made += 1
        # integer-typed abscissae with reference positions that are not integers (1.6, 5.7, -0.25): which sample is closest / lower /
        # higher is decided on the numbers, not on numbers cast to the type of x
        for _ in range(12 if not big else 60):
            N = rng.randint(8, 14)
            x0 = rng.randint(-4, 3)
            x = [float(x0 + i) for i in range(N)]
            xr = sorted({x[0] + rng.randint(0, 4 * (N - 1)) / 4 + rng.choice([0.0, 0.6, 0.7, 0.3]) for _ in range(rng.randint(2, 4))})
            xr = [v for v in xr if x[0] <= v <= x[-1] and abs((v * 2) % 2 - 1) > 1e-9]      # (no exact half-way ties)
            if len(xr) < 2:
                continue
            cases.append({"kind": "reference", "x": x, "y": gens.values(rng, N, "int"), "xr": xr, "yr": gens.values(rng, len(xr), "int"),
                          "rt": rng.choice(["trapezoid", "rectangle"]), "rr": rng.choice(["rectangle", "trapezoid"]), "alpha": rng.choice([1.0, 2.0]),
                          "mode": "strategy", "strategy": rng.choice(["closest", "higher", "lower"]), "int_x_arr": True})
        # rejection classes
        for _ in range(12):
            c = self.mk_ref(rng, False)
            c["bad"] = rng.choice(["rule_t", "rule_r", "strategy", "not_in_x", "too_many_values", "too_many_indices"])
            if c["bad"] == "rule_t":
                c["rt"] = "simpson"
            elif c["bad"] == "rule_r":
                c["rr"] = "simpson"
            elif c["bad"] == "strategy":
                c["mode"], c["strategy"] = "strategy", "nearest"
            elif c["bad"] == "not_in_x":
                c["mode"] = "values"
                c["fixed_values"] = [c["x"][0], c["x"][0] + 0.03125, c["x"][-1]]
            elif c["bad"] == "too_many_values":
                c["mode"] = "values"
                c["fixed_values"] = list(c["x"]) + [c["x"][-1]]
            else:
                c["mode"] = "indices"
                c["fixed_indices"] = list(range(len(c["x"]))) + [0]
            cases.append(c)
        return cases

    def mk_ref(self, rng, big):
        m = rng.choice([2, 3, 3, 4, 5])
        n = rng.choice([2, 3, 4, 5, 8])
        kind = rng.choice(["grid", "grid", "offgrid", "free"])
        if kind == "grid":       # the recreate pipeline shape: reference points sit on every n-th sample
            xr = gens.sorted_x(rng, m)
            if max(abs(v) for v in xr) >= 2.0 ** 20:
                # abscissae on a large offset: subdivide by a power of two only, so that the fine grid is exact in floats. With
                # x = 1.7e9 + 0.6 k the centre and half-width of a window are rounded at 2.4e-7, the profile weight at a fixed point
                # is 1e-7 instead of 0, and a displacement of 1.5e6 (values of order 1e6 matched to a reference of order 1) moves the
                # fixed point by 0.2: a rounding effect of the input representation, which the exact model rightly does not have
                n = rng.choice([2, 4, 8])
            x = []
            for a, b in zip(xr[:-1], xr[1:]):
                x += [a + i * (b - a) / n for i in range(n)]
            x.append(xr[-1])
            if rng.random() < 0.3:
                x = [x[0] - 0.5] + x + [x[-1] + 0.25]
        else:
            N = rng.randint(5, 40 if big and rng.random() < 0.1 else 16)
            x = gens.sorted_x(rng, N)
            xr = sorted({rng.choice(x) + (rng.choice([0, 0.0625, -0.0625, 0.125]) if kind == "offgrid" else rng.randint(-8, 8) / 16) for _ in range(m)})
            if rng.random() < 0.2:
                xr = [x[0] - 1.0] + xr + [x[-1] + 1.0]
        c = {"kind": "reference", "x": x, "y": gens.values(rng, len(x)), "xr": xr, "yr": gens.values(rng, len(xr)),
             "rt": rng.choice(["trapezoid", "rectangle"]), "rr": rng.choice(["rectangle", "rectangle", "trapezoid"]),
             "alpha": rng.choice(ALPHAS), "mode": rng.choice(["strategy", "strategy", "values", "indices"]),
             "strategy": rng.choice(["closest", "closest", "lower", "higher"])}
        if c["mode"] in ("values", "indices"):
            cand = [brute(x, v, "closest", True) for v in xr]
            if rng.random() < 0.4:
                cand = sorted(rng.sample(range(len(x)), min(len(x), rng.randint(2, 4))))
            if rng.random() < 0.2:
                rng.shuffle(cand)
            c["fixed_indices"] = cand
            c["fixed_values"] = [x[i] for i in cand]
            # the documented precedence: the finding strategy "is used only if fixed points are not specified", and the indices win over
            # the abscissae when both are given — a caller may well pass them all (a wrapper forwarding its own keywords)
            c["also_strategy"] = rng.random() < 0.5
            if c["mode"] == "indices" and rng.random() < 0.4:
                other = sorted(rng.sample(range(len(x)), min(len(x), rng.randint(2, 4))))
                c["also_values"] = [x[i] for i in other]
        return c

    # ------------------------------------------------------------------ implementation
    def run(self, c):
        import traffic_weaver.match as M
        x = np.array(c["x"], dtype=float)
        if c.get("int_x_arr") and all(float(v).is_integer() for v in c["x"]):
            x = np.array([int(v) for v in c["x"]], dtype=np.int64)       # integer-typed abscissae (np.arange, sample numbers)
        if c.get("int_y") and all(float(v).is_integer() for v in c["y"]):
            y = np.array([int(v) for v in c["y"]], dtype=np.int64)      # integer-typed values (counts)
        else:
            y = np.array(c["y"], dtype=float)
        y0 = y.copy()
        try:
            with warnings.catch_warnings():
                warnings.simplefilter("ignore")
                if c["kind"] == "kernel":
                    r = M._integral_matching_stretch(x, y, integral_value=c["target"], integral_method=c["rule"], alpha=c["alpha"])
                elif c["kind"] == "interval":
                    r = M._interval_integral_matching_stretch(x, y, integral_values=c["targets"], fixed_points_indices_in_x=c["fixed"],
                                                              integral_method=c["rule"], alpha=c["alpha"])
                else:
                    kw = {}
                    if c["mode"] == "values":
                        kw["fixed_points_in_x"] = c["fixed_values"]
                    elif c["mode"] == "indices":
                        kw["fixed_points_indices_in_x"] = c["fixed_indices"]
                    else:
                        kw["fixed_points_finding_strategy"] = c["strategy"]
                    if c["mode"] in ("values", "indices") and c.get("also_strategy"):
                        kw["fixed_points_finding_strategy"] = c["strategy"]
                    if c["mode"] == "indices" and c.get("also_values"):
                        kw["fixed_points_in_x"] = c["also_values"]
                    r = M.integral_matching_reference_stretch(x, y, np.array(c["xr"], dtype=float), np.array(c["yr"], dtype=float),
                                                              target_function_integral_method=c["rt"], reference_function_integral_method=c["rr"],
                                                              alpha=c["alpha"], **kw)
                    o = {"out": np.asarray(r, dtype=float).tolist(), "kind_out": type(r).__name__, "input_changed": not np.array_equal(y, y0)}
                    # second pass on the result (idempotence)
                    yin2 = np.asarray(r, dtype=float)
                    r2 = M.integral_matching_reference_stretch(x, yin2, np.array(c["xr"], dtype=float), np.array(c["yr"], dtype=float),
                                                               target_function_integral_method=c["rt"], reference_function_integral_method=c["rr"],
                                                               alpha=c["alpha"], **kw)
                    o["out2"] = np.asarray(r2, dtype=float).tolist()
                    # a result is a value of its own: the caller goes on writing to the array it handed in (here: the first result,
                    # handed in for the second pass), and what was returned stays what it was
                    if isinstance(r2, np.ndarray) and isinstance(r, np.ndarray):
                        yin2 += 1.0
                        o["aliased"] = bool(np.asarray(r2, dtype=float).tolist() != o["out2"]) or bool(isinstance(y, np.ndarray) and np.shares_memory(r, y))
                    return o
            return {"out": np.asarray(r, dtype=float).tolist(), "kind_out": type(r).__name__, "input_changed": not np.array_equal(y, y0)}
        except Exception as e:
            return {"exc": exn_name(e), "exc_msg": "%s: %s" % (type(e).__name__, str(e)[:160])}

    # ------------------------------------------------------------------ model
    def coq(self, c, o):
        pw = "(pw_quarter %d)" % round(4 * c["alpha"])
        X, Y = qlist(c["x"]), qlist(c["y"])
        if c["kind"] == "kernel":
            call = "stretch_res %s %s %s %s %s" % (pw, rule_c(c["rule"]), X, Y, q(c["target"]))
        elif c["kind"] == "interval":
            call = "interval_match %s %s %s %s %s %s" % (pw, rule_c(c["rule"]), X, Y, qlist(c["targets"]), natlist(c["fixed"]))
        else:
            if c["mode"] == "values":
                mode = "(ByValues %s)" % qlist(c["fixed_values"])
            elif c["mode"] == "indices":
                mode = "(ByIndices %s)" % natlist(c["fixed_indices"])
            else:
                mode = "(ByStrategy %s)" % {"closest": "Closest", "lower": "Lower", "higher": "Higher"}.get(c["strategy"], "UnknownStrategy")
            call = "match_ref %s %s %s %s %s %s %s %s" % (pw, X, Y, qlist(c["xr"]), qlist(c["yr"]), mode, rule_c(c["rt"]), rule_c(c["rr"]))
        if "exc" in o:
            return "lm 0 (%s) (OExn %s)" % (call, o["exc"])
        if not all_finite(o["out"]):
            return "lm 0 (%s) (OExn NonFinite)" % call
        tol = tol_for(c["y"] + o["out"] + c.get("targets", []) + [c.get("target", 0)] + c.get("yr", []), rel=2.0 ** -26)
        if c["alpha"] < 1 and len(c["x"]) == len(o["out"]) == len(c["y"]):
            # conditioning (DESIGN 3.6): t -> t^alpha with alpha < 1 is not Lipschitz at 0, i.e. at the centre of a window. The model
            # evaluates the profile on the exact rational values of the abscissae, the code in floats: when the rounded centre
            # (x[a] + x[b]) / 2 coincides with a sample whose exact distance from the exact centre is 1e-16, the two arguments of the
            # power differ by d ~ 1e-16 and the powers by d^alpha ~ 1e-8 — times the displacement applied. Zero on dyadic grids.
            xs = [float(v) for v in c["x"]]
            fx = [Fraction(v) for v in xs]
            d = Fraction(0)
            wins = [(0, len(xs) - 1)] if c["kind"] == "kernel" else [(a, b) for a in range(len(xs)) for b in range(a + 2, len(xs))]
            for a, b in wins:
                if xs[b] == xs[a]:
                    continue
                mid_f, dx_f = (xs[b] + xs[a]) / 2, xs[b] - xs[a]
                mid_e, dx_e = (fx[b] + fx[a]) / 2, fx[b] - fx[a]
                for i in range(a, b + 1):
                    d = max(d, abs(Fraction(2 * abs(mid_f - xs[i]) / dx_f) - 2 * abs(mid_e - fx[i]) / dx_e))
            if d > 0:
                disp = max(abs(float(a_) - float(b_)) for a_, b_ in zip(o["out"], c["y"]))
                tol = "(%s + %s)" % (tol, q(Fraction(64 * disp * float(d) ** c["alpha"])))
        return "lm %s (%s) (OVal %s)" % (tol, call, qlist(o["out"], qa))

    # ------------------------------------------------------------------ oracle
    def oracle(self, c, o):
        F = []

        def fail(prop, aspect, what, **sig):
            if prop in self.aspects:
                d = {"aspect": aspect, "kind": c["kind"]}
                d.update(sig)
                F.append(Failure(aspect=aspect, what="%s: %s (case %s)" % (c["kind"], what, {k: v for k, v in c.items() if k != "kind"}), signature=d))

        x, y = c["x"], c["y"]
        if c.get("bad"):
            if o.get("exc") != "ValueError":
                fail("C20", "rejection-" + c["bad"], "invalid request (%s) gave %s, not ValueError" % (c["bad"], o.get("exc_msg") or "a result"))
            return F
        if c["kind"] == "kernel":
            if "exc" in o:
                fail("C01", "raises", "kernel raised %s" % o["exc_msg"])
                return F
            out = o["out"]
            if len(x) >= 3 and all_finite(out):
                self.window_checks(c, x, y, out, 0, len(x) - 1, Fraction(c["target"]), c["rule"], fail, "kernel")
            return F
        if c["kind"] == "interval":
            if "exc" in o:
                fail("C01", "raises", "interval matching raised %s" % o["exc_msg"])
                return F
            out, fixed = o["out"], c["fixed"]
            if not all_finite(out):
                return F
            if all(b - a >= 2 for a, b in zip(fixed[:-1], fixed[1:])):
                for j in range(len(fixed) - 1):
                    self.window_checks(c, x, y, out, fixed[j], fixed[j + 1], Fraction(c["targets"][j]), c["rule"], fail, "window %d" % j)
                self.outside_checks(c, y, out, fixed, fail)
            return F
        # reference
        fixed, ridx, judged = expected_plan(c)
        if "exc" in o:
            if fixed is None and o["exc"] == "ValueError":
                return F
            if fixed is not None:
                fail("C01", "raises", "matching raised %s" % o["exc_msg"], exc=o["exc"])
            return F
        if fixed is None:
            fail("C20", "rejection-not-in-x", "fixed points that are not samples of x were accepted")
            return F
        out = o["out"]
        if o.get("kind_out") != "ndarray" or len(out) != len(x):
            fail("C01", "shape", "result is %s of length %d" % (o.get("kind_out"), len(out)))
            return F
        if o["input_changed"]:
            fail("C03", "input-mutated", "the caller's y array was modified")
        if o.get("aliased"):
            fail("C03", "result-aliases-input", "matching the already matched series returned the caller's own array: writing to that array afterwards changed the returned result")
        if not judged or not all_finite(out):
            return F
        ref = integ(c["rr"], c["xr"], c["yr"])
        tot = Fraction(0)
        for j in range(len(fixed) - 1):
            tgt = sum(ref[ridx[j]:ridx[j + 1]], Fraction(0))
            tot += tgt
            self.window_checks(c, x, y, out, fixed[j], fixed[j + 1], tgt, c["rt"], fail, "window %d" % j)
        got = sum(integ(c["rt"], x[fixed[0]:fixed[-1] + 1], out[fixed[0]:fixed[-1] + 1]), Fraction(0))
        if abs(got - tot) > Fraction(1, 10 ** 9) * (1 + abs(tot) + sum(abs(Fraction(v)) for v in y[fixed[0]:fixed[-1] + 1])):
            fail("C01", "total-integral", "integral between first and last fixed point is %s, reference total %s" % (float(got), float(tot)))
        self.outside_checks(c, y, out, fixed, fail)
        if "out2" in o and all_finite(o["out2"]):
            if np.max(np.abs(np.array(o["out2"]) - np.array(out))) > 1e-9 * (1 + np.max(np.abs(out))):
                fail("C03", "idempotent", "matching an already matched function changed it by %g" % np.max(np.abs(np.array(o["out2"]) - np.array(out))))
        return F

    def window_checks(self, c, x, y, out, s, e, target, rule, fail, where):
        got = sum(integ(rule, x[s:e + 1], out[s:e + 1]), Fraction(0))
        if abs(got - target) > Fraction(1, 10 ** 9) * (1 + abs(target) + sum(abs(Fraction(v)) for v in y[s:e + 1])):
            fail("C01", "window-integral", "%s [%d,%d]: %s integral of the result is %s, reference integral is %s" % (where, s, e, rule, float(got), float(target)))
        if e - s < 2:
            return
        sc = 1 + max(abs(v) for v in out[s:e + 1]) + max(abs(v) for v in y[s:e + 1])
        t = 1e-9 * sc
        if abs(out[s] - y[s]) > t or abs(out[e] - y[e]) > t:
            fail("C03", "fixed-moved", "%s: fixed points moved: %r->%r, %r->%r" % (where, y[s], out[s], y[e], out[e]))
        disp = [out[i] - y[i] for i in range(s, e + 1)]
        ctr = (x[s] + x[e]) / 2
        w = x[e] - x[s]
        prof = [1 - (2 * abs(x[i] - ctr) / w) ** c["alpha"] for i in range(s, e + 1)]
        if any(d > t for d in disp) and any(d < -t for d in disp):
            fail("C03", "direction", "%s: interior samples displaced in different directions: %s" % (where, disp))
        # proportional to the documented profile: disp_i * prof_j == disp_j * prof_i
        jmax = max(range(len(prof)), key=lambda j: prof[j])
        for i in range(len(prof)):
            if abs(disp[i] * prof[jmax] - disp[jmax] * prof[i]) > 1e-8 * sc * (1 + abs(disp[jmax])):
                fail("C03", "profile", "%s: displacement %s is not proportional to 1-(2|x-c|/w)^alpha = %s" % (where, disp, prof))
                break

    def outside_checks(self, c, y, out, fixed, fail):
        for i in list(range(0, fixed[0])) + list(range(fixed[-1] + 1, len(y))):
            if out[i] != y[i]:
                fail("C03", "outside-changed", "sample %d outside the span of the fixed points changed: %r -> %r" % (i, y[i], out[i]))
                break

    def key(self, c, o):
        return (c["kind"], tuple(c["x"]), tuple(c["y"]), c.get("rule"), c.get("rt"), c.get("rr"), c["alpha"], c.get("mode"), c.get("strategy"),
                tuple(c.get("xr", [])), tuple(c.get("fixed", [])), tuple(c.get("fixed_indices", [])), c.get("bad"))

    def label(self, c, o):
        if c["kind"] == "reference":
            return "ref:%s%s%s" % (c["mode"], ":" + c["strategy"] if c["mode"] == "strategy" else "", ":exc=" + o["exc"] if "exc" in o else "")
        return c["kind"] + (":exc" if "exc" in o else "")
