"""C08 — reference series tracks domain transformations through any history."""
from tools.harness.core import Property
from tools.props.weaver_units import WeaverUnit, DOMAIN_OPS, RESHAPE_OPS
from tools.props.commute_units import CommuteUnit


class DomainUnit(WeaverUnit):
    name = "weaver_domain"


class P(Property):
    id = "C08"
    gen_targets = ["Funfit", "WeaverFootprint", "WeaverGlue"]

    def units(self, tier):
        return [DomainUnit(("C08",), ops=DOMAIN_OPS + DOMAIN_OPS + RESHAPE_OPS, max_len=8, exhaustive_domain=True, queries=False), CommuteUnit()]


PROPERTY = P()
