"""C01 — integral matching; see DESIGN.md section 7."""
from tools.harness.core import Property
from tools.props.match_units import MatchUnit


class P(Property):
    id = "C01"
    gen_targets = ["Kernels", "MatchGlue"]

    def units(self, tier):
        return [MatchUnit(("C01",))]


PROPERTY = P()
