"""C09 — Weaver state stays well-formed; caller data and the original are never corrupted."""
from tools.harness.core import Property
from tools.props.weaver_units import WeaverUnit, BigIntAbscissaeUnit


class P(Property):
    id = "C09"
    gen_targets = ["Funfit", "WeaverFootprint", "WeaverGlue"]

    def units(self, tier):
        # refused requests in the middle of programs: whatever is refused leaves the object as it was (equal lengths, same series)
        return [WeaverUnit(("C09",), max_len=10, invalid_kinds=['method', 'n_below_2', 'grid_ends', 'grid_ends_permuted', 'rule_t', 'rule_r', 'strategy', 'trunc_inverted', 'index_stop', 'fixed_not_in_x', 'interp_none', 'recreate_kwarg']), BigIntAbscissaeUnit()]


PROPERTY = P()
