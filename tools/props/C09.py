"""C09 — Weaver state stays well-formed; caller data and the original are never corrupted."""
from tools.harness.core import Property
from tools.props.weaver_units import WeaverUnit, BigIntAbscissaeUnit


class P(Property):
    id = "C09"
    gen_targets = ["Funfit", "WeaverFootprint", "WeaverGlue"]

    def units(self, tier):
        return [WeaverUnit(("C09",), max_len=10), BigIntAbscissaeUnit()]


PROPERTY = P()
