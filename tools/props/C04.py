"""C04 — see DESIGN.md section 7."""
from tools.harness.core import Property
from tools.props.rfa_units import RfaUnit, FunfitUnit, AdaptiveWindowsUnit, RfaMetaUnit


class P(Property):
    id = "C04"
    gen_targets = ["Funfit", "RfaGlue"]

    def units(self, tier):
        return [RfaUnit(("C04",))]


PROPERTY = P()
