"""C04 — see DESIGN.md section 7."""
from tools.harness.core import Property
from tools.props.weaver_units import WeaverUnit
from tools.props.rfa_units import RfaUnit, FunfitUnit, AdaptiveWindowsUnit, RfaMetaUnit


class WC04(WeaverUnit):
    name = "weaver_c04"


class P(Property):
    id = "C04"
    gen_targets = ["Funfit", "RfaGlue"]

    def units(self, tier):
        return [RfaUnit(("C04",)),
                WC04(("C04",), ops=['recreate', 'recreate', 'shift_y', 'scale_y', 'append'], max_len=3, queries=False)]


PROPERTY = P()
