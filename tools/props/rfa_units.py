"""Correspondence units and oracles for the recreate-from-average strategies (C04-C07)."""
import decimal
import math
from fractions import Fraction

import numpy as np

from tools.harness import gens
from tools.harness.core import Unit, Failure, q, qa, qlist, zlit, zlist, exn_name, tol_for, all_finite

STRATS = ["pc", "linfixed", "linadapt", "expfixed", "expadapt", "function", "cubic"]
EXPS = [0.5, 1.0, 1.5, 2.0, 3.0, 4.0]
SMOOTHS = [1.0, 1.0, 2.0, 3.0, 0.5]
POLY = [[0], [1, 2], [0, 0, 1], [3, -1, 0.5]]


def optq(v):
    return "None" if v is None else "(Some %s)" % q(v)


def cls_of(s):
    import traffic_weaver.rfa as R
    return {"pc": R.PiecewiseConstantRFA, "linfixed": R.LinearFixedRFA, "linadapt": R.LinearAdaptiveRFA, "expfixed": R.ExpFixedRFA,
            "expadapt": R.ExpAdaptiveRFA, "function": R.FunctionRFA, "cubic": R.CubicSplineRFA}[s]


def kwargs_of(c):
    s = c["strategy"]
    kw = {}
    if s in ("linfixed", "linadapt", "expfixed", "expadapt"):
        if c.get("a") is not None:
            kw["a"] = c["a"]
        else:
            kw["alpha"] = c["alpha"]
    if s in ("expfixed", "expadapt"):
        kw["beta"] = c["beta"]
        kw["exp"] = c["exp"]
    if s in ("linadapt", "expadapt"):
        kw["adaptive_smooth"] = c["smooth"]
    if s == "function":
        coef = c["coef"]
        if c.get("fn_kind") == "const_scalar":      # a valid f(float) -> float that ignores its argument
            kw["sampling_function_supplier"] = lambda x, y: (lambda v: float(coef[0]))
        elif c.get("fn_kind") == "scalar_only":     # a function that only accepts scalars
            import math
            kw["sampling_function_supplier"] = lambda x, y: (lambda v: sum(cf * math.pow(float(v), k) for k, cf in enumerate(coef)))
        else:
            kw["sampling_function_supplier"] = lambda x, y: (lambda v: sum(cf * v ** k for k, cf in enumerate(coef)))
    return kw


def window_a(c):
    n = c["n"]
    a = int(c["a"]) if c.get("a") is not None else int(c["alpha"] * n)
    return max(a, 2)


def adaptive_windows_exact(c):
    """high-precision replica of the documented adaptive split; returns (als, ars, float_agrees)"""
    y = c["y"]
    m = len(y)
    a = window_a(c)
    s = c["smooth"]
    decimal.getcontext().prec = 60
    ye = [y[0]] + list(y[:-1]) + [y[-1]]      # averages of the extended intervals 0..m (interval K has average ye[K])
    # extended interval index K = 1..m-1 are the real ones; interval K's average is y[K-1]
    avg = lambda K: y[0] if K <= 0 else (y[K - 1] if K <= m - 1 else y[m - 1])
    als, ars, agree = [1], [1], True
    for K in range(1, m):
        nom = abs(Fraction(avg(K + 1)) - Fraction(avg(K)))
        den = abs(Fraction(avg(K)) - Fraction(avg(K - 1)))
        if nom == 0 and den == 0:
            als.append(0); ars.append(0)
        elif nom == 0:
            als.append(a // 2); ars.append(0)
        elif den == 0:
            als.append(0); ars.append(a // 2)
        else:
            ratio = nom / den
            if float(s) == int(s):                      # integer smoothing: exact rational arithmetic
                g = ratio ** int(s)
                al = g * a / (1 + g)
                ar = Fraction(a) / (1 + g)
                cl = lambda v: int(min(max(v, Fraction(1)), Fraction(a)))
            else:                                       # fractional smoothing: 60-digit decimals, snapped when within 1e-40 of an integer
                gd = (decimal.Decimal(ratio.numerator) / decimal.Decimal(ratio.denominator)) ** decimal.Decimal(s)
                snap = lambda v: (v.to_integral_value() if abs(v - v.to_integral_value()) < decimal.Decimal(10) ** -40 else v)
                al = snap(gd * a / (1 + gd))
                ar = snap(decimal.Decimal(a) / (1 + gd))
                cl = lambda v: int(min(max(v, decimal.Decimal(1)), decimal.Decimal(a)))
            # float replica
            try:
                gf = (float(nom) / float(den)) ** s
                alf = int(min(max(gf * a / (1 + gf), 1), a))
                arf = int(min(max(a / (1 + gf), 1), a))
            except (OverflowError, ValueError, ZeroDivisionError):
                alf = arf = None      # the float computation leaves the finite range: not a case the replica speaks about
            if (cl(al), cl(ar)) != (alf, arf):
                agree = False
            als.append(cl(al)); ars.append(cl(ar))
    als.append(1); ars.append(1)
    return als, ars, agree


class RfaUnit(Unit):
    """aspects: which oracle groups are evaluated (per property)"""
    name = "rfa"
    imports = ["Model.Rfa"]
    preamble = """
Definition rfa_match (tol : Qc) (m : res (list Qc * list Qc)) (o : obs (list Qc * list Qc)) : bool :=
  res_match (pair_match (approx_list tol) (approx_list tol)) m o.
Definition rfa_match_x (tol : Qc) (m : res (list Qc * list Qc)) (ox : list Qc) (ylen : nat) : bool :=
  match m with Ok r => approx_list tol (fst r) ox && Nat.eqb (length (snd r)) ylen | _ => false end.
"""

    def __init__(self, aspects=("C04", "C05", "C06")):
        self.aspects = set(aspects)
        self.dropped = 0

    # ------------------------------------------------------------------ generation
    def mk(self, rng, strategy, m=None, n=None, **over):
        m = m if m is not None else rng.choice([2, 3, 3, 4, 5, 6, 8])
        n = n if n is not None else rng.choice([2, 3, 4, 4, 5, 8, 8, 16])      # (not `n or ...`: the factor 0 is a case of its own)
        c = {"strategy": strategy, "x": gens.sorted_x(rng, m) if rng.random() < 0.85 else gens.loose_x(rng, m), "y": gens.values(rng, m), "n": n, "int_x": False}
        if all(float(v).is_integer() for v in c["x"]) and rng.random() < 0.5:
            c["int_x"] = True      # integer-typed abscissae (epoch seconds, sample numbers): numbers like any others
        if isinstance(n, int) and rng.random() < 0.15:
            c["n_np"] = True       # the factor as a NumPy integer scalar (np.rint(period / target).astype(int), an element of np.arange)
        if strategy in ("linfixed", "linadapt", "expfixed", "expadapt"):
            if rng.random() < 0.4:
                ni = max(2, int(n))
                c["a"] = rng.choice([0, 1, 2, 3, ni - 1, ni, ni // 2, rng.randint(0, ni)])
                c["alpha"] = None
            else:
                c["a"] = None
                c["alpha"] = rng.choice([1.0, 0.5, 0.25, 0.75, 0.125, 0.375, 1.0])
            if rng.random() < 0.08:
                # windows wider than one interval (the code accepts a up to 2n; the plateau / shape clauses of C05 / C06 speak
                # about a <= n only, the grid, locality and equivariance clauses about every accepted parameter)
                ni = max(2, int(n))
                if rng.random() < 0.5:
                    c["a"], c["alpha"] = None, rng.choice([1.25, 1.5, 2.0, 2.0])
                else:
                    c["a"], c["alpha"] = rng.choice([ni + 1, 2 * ni, 2 * ni - 1, 2 * ni]), None
        if strategy in ("expfixed", "expadapt"):
            c["beta"] = rng.choice([0.0, 0.25, 0.5, 0.5, 0.75, 1.0])
            c["exp"] = rng.choice(EXPS)
        if strategy in ("linadapt", "expadapt"):
            c["smooth"] = rng.choice(SMOOTHS)
        if strategy == "function":
            c["coef"] = rng.choice(POLY)
            c["fn_kind"] = rng.choice(["poly", "const_scalar", "scalar_only"])
            if c["fn_kind"] == "const_scalar":
                c["coef"] = [rng.choice([0.0, 2.5, -1.0])]
        if strategy == "cubic" and m < 2:
            c["x"], c["y"] = gens.sorted_x(rng, 3), gens.values(rng, 3)
        c.update(over)
        return c

    def gen(self, rng, tier):
        cases = []
        per = 60 if tier == "quick" else 900
        for s in STRATS:
            k = per if s not in ("pc", "function", "cubic") else per // 3
            for _ in range(k):
                c = self.mk(rng, s)
                if tier != "quick" and rng.random() < 0.1:
                    c = self.mk(rng, s, m=rng.randint(2, 60 if rng.random() < 0.2 else 12), n=rng.randint(2, 64 if rng.random() < 0.2 else 16))
                cases.append(c)
        # boundary classes
        for s in ("linfixed", "expfixed", "linadapt", "expadapt"):
            for n in (2, 3, 4):
                for a in (0, 1, 2, n):
                    cases.append(self.mk(rng, s, m=3, n=n, a=a, alpha=None))
            cases.append(self.mk(rng, s, m=2, n=4))
            c = self.mk(rng, s, m=5, n=8)
            c["y"] = [1.0, 1.0, 3.0, 3.0, 3.0]      # ties on the left / right / both
            cases.append(c)
            c = self.mk(rng, s, m=4, n=8)
            c["y"] = [2.0, 2.0, 2.0, 2.0]           # constant series
            cases.append(c)
            c = self.mk(rng, s, m=4, n=8)
            c["y"] = [0.0, 1.0, 1001.0, 1000.0]     # jumps in ratio 1:1000
            cases.append(c)
            for n_, al_ in ((8, 0.5), (16, 0.5), (16, 0.25), (8, 0.75)):   # plateau longer than one sample, monotone averages
                c = self.mk(rng, s, m=5, n=n_, a=None, alpha=al_)
                c["x"] = [0.0, 1.0, 2.0, 3.0, 4.0] if n_ == 16 else [0.0, 1.0, 3.0, 4.0, 6.0]
                c["y"] = [0.0, 10.0, 20.0, 30.0, 40.0] if al_ != 0.75 else [5.0, -3.0, 4.0, 4.0, -8.0]
                cases.append(c)
        # every oversampling factor 2..64 on two short uniform series (unit spacing; 300 s spacing on a decimal offset): how many
        # samples come back must not depend on how the quotient spacing / n happens to round
        if "C04" in self.aspects or not self.aspects:
            for n in range(2, 65):
                for xs_ in ([0.0, 1.0, 2.0], [10.0, 10.6, 11.2], [1.7e6, 1.7e6 + 300.0]):
                    s = rng.choice(["linfixed", "expfixed", "linadapt", "expadapt"])
                    c = self.mk(rng, s, m=len(xs_), n=n, a=None, alpha=rng.choice([1.0, 0.5]))
                    c["x"] = list(xs_)
                    c["y"] = [float(rng.randint(-8, 8)) for _ in xs_]
                    cases.append(c)
        # abscissae that are *almost* uniform (interior points off the regular grid by 2^-20..2^-18 of the step) and abscissae on a
        # tiny scale (multiples of 2^-30, clearly non-uniform): "evenly spaced" shortcuts that test the spacing with a tolerance
        # (np.allclose: rtol 1e-5, atol 1e-8) take both for uniform. Every strategy, every run.
        for s in STRATS:
            for step in (1.0, 300.0):
                m_ = rng.choice([3, 4, 5])
                c = self.mk(rng, s, m=m_, n=rng.choice([2, 4, 8]))
                c["x"] = [5.0 + i * step + (step * rng.choice([-4, -2, -1, 1, 2, 4]) * 2.0 ** -20 if 0 < i < m_ - 1 else 0.0) for i in range(m_)]
                c["y"] = gens.values(rng, m_)
                cases.append(c)
            c = self.mk(rng, s, m=5, n=rng.choice([2, 4, 8]))
            c["x"] = [k * 2.0 ** -30 for k in (0, 1, 3, 4, 8)]
            c["y"] = gens.values(rng, 5)
            cases.append(c)
        # integer-typed, unevenly spaced abscissae whose FIRST gap is a multiple of n while others are not (a grid that "falls on
        # integers" in the first interval only): every strategy, every run
        for s in STRATS:
            for xs_, n_ in (([0, 4, 5, 7, 13, 14], 4), ([10, 12, 15, 16, 21], 2), ([3, 9, 10, 14, 15], 3)):
                c = self.mk(rng, s, m=len(xs_), n=n_)
                c["x"] = [float(v) for v in xs_]
                c["y"] = gens.values(rng, len(xs_))
                c["int_x"] = True
                cases.append(c)
        # n < 2 rejections
        for s in STRATS:
            for n in (1, 0, -1, 1.5):
                cases.append(self.mk(rng, s, m=3, n=n))
        # F1 witness region (exponent below 0.133): oracle only
        cases.append({"strategy": "expfixed", "x": [0.0, 1.0, 2.0, 3.0], "y": [0.0, 10.0, 0.0, 10.0], "n": 64, "a": None, "alpha": 1.0,
                      "beta": 0.0, "exp": 0.1, "int_x": False})
        out = []
        for c in cases:
            if c["strategy"] in ("linadapt", "expadapt") and isinstance(c["n"], int) and c["n"] >= 2:
                if not adaptive_windows_exact(c)[2]:
                    self.dropped += 1     # rounded computation takes another int() branch than the exact one (DESIGN 3.6)
                    continue
            out.append(c)
        return out

    # ------------------------------------------------------------------ implementation
    def run(self, c):
        x = np.array(c["x"], dtype=float)
        y = np.array(c["y"], dtype=float)
        try:
            xin = np.array([int(v) for v in c["x"]], dtype=np.int64) if c.get("int_x") and all(float(v).is_integer() for v in c["x"]) else x
            inst = cls_of(c["strategy"])(xin, y, np.int64(c["n"]) if c.get("n_np") else c["n"], **kwargs_of(c))
            xs, ys = inst.rfa()
            o = {"kinds": [type(xs).__name__, type(ys).__name__],
                 "ndim": [int(np.ndim(xs)), int(np.ndim(ys))],
                 "elem_kinds": sorted({type(v).__name__ for v in (ys if isinstance(ys, list) else [])}),
                 "x": np.asarray(xs, dtype=float).tolist(), "y": np.asarray(ys, dtype=float).reshape(-1).tolist(),
                 "xbytes_equal": bool(np.asarray(xs, dtype=float)[::(int(c["n"]) if c["n"] >= 2 else 1)].tobytes() == x.tobytes())}
            # a call must not depend on what callers did with earlier results: edit the returned arrays in place (as a
            # caller converting units would) and repeat the identical call on fresh copies of the inputs
            try:
                first = (np.array(xs, dtype=float).tobytes(), np.array(ys, dtype=float).tobytes())
                for arr in (xs, ys):
                    if isinstance(arr, np.ndarray) and arr.flags.writeable and arr.dtype.kind == "f":
                        arr *= 3.0
                        arr += 7.5
                xs2, ys2 = cls_of(c["strategy"])(np.array(c["x"], dtype=float), np.array(c["y"], dtype=float), c["n"], **kwargs_of(c)).rfa()
                o["repeatable"] = bool((np.array(xs2, dtype=float).tobytes(), np.array(ys2, dtype=float).tobytes()) == first)
                # ... and the SAME strategy object asked again (after the caller's in-place edit of what it returned the first time)
                xs3, ys3 = inst.rfa()
                if (np.array(xs3, dtype=float).tobytes(), np.array(ys3, dtype=float).tobytes()) != first:
                    o["repeatable"] = "same-object"
            except Exception as e:
                o["repeatable"] = "raised %s" % exn_name(e)
            return o
        except Exception as e:
            return {"exc": exn_name(e), "exc_msg": str(e)[:200]}

    # ------------------------------------------------------------------ model
    def coq_strategy(self, c):
        s = c["strategy"]
        al = q(c["alpha"]) if c.get("alpha") is not None else "1"
        a = optq(c.get("a"))
        if s == "pc":
            return "PiecewiseConstant", "id", "id"
        if s == "linfixed":
            return "(LinearFixed %s %s)" % (al, a), "id", "id"
        if s == "linadapt":
            return "(LinearAdaptive %s %s)" % (al, a), "id", "(pw_quarter %d)" % round(4 * c["smooth"])
        if s == "expfixed":
            return "(ExpFixed %s %s %s)" % (al, q(c["beta"]), a), "(pw_quarter %d)" % round(4 * c["exp"]), "id"
        if s == "expadapt":
            return "(ExpAdaptive %s %s %s)" % (al, q(c["beta"]), a), "(pw_quarter %d)" % round(4 * c["exp"]), "(pw_quarter %d)" % round(4 * c["smooth"])
        if s == "function":
            coef = c["coef"]
            terms = " + ".join("%s * %s" % (q(cf), " * ".join(["v"] * k) if k else "1") for k, cf in enumerate(coef))
            return "(FunctionSampled (fun v : Qc => %s))" % terms, "id", "id"
        return "(FunctionSampled (fun v : Qc => 0))", "id", "id"

    def coq(self, c, o):
        if c["strategy"] in ("expfixed", "expadapt") and abs(4 * c["exp"] - round(4 * c["exp"])) > 1e-12:
            return None
        st, pw, gp = self.coq_strategy(c)
        n = c["n"]
        nz = zlit(math.floor(n)) if n >= 2 or n == int(n) else "1"
        call = "rfa (%s) (%s) %s %s %s %s" % (pw.replace("id", "fun t => t"), gp.replace("id", "fun t => t"), st, qlist(c["x"]), qlist(c["y"]), nz)
        if "exc" in o:
            return "rfa_match 0 (%s) (OExn %s)" % (call, o["exc"])
        if not all_finite(o["x"], o["y"]):
            return "false"
        tol = tol_for(c["x"] + c["y"] + o["y"])
        if c["strategy"] == "cubic":
            return "rfa_match_x %s (%s) %s %d" % (tol, call, qlist(o["x"], qa), len(o["y"]))
        return "rfa_match %s (%s) (OVal (%s, %s))" % (tol, call, qlist(o["x"], qa), qlist(o["y"], qa))

    # ------------------------------------------------------------------ oracles
    def oracle(self, c, o):
        F = []
        s, x, y, n = c["strategy"], c["x"], c["y"], c["n"]
        m = len(x)

        def fail(prop, aspect, what, **sig):
            if prop in self.aspects:
                d = {"aspect": aspect, "strategy": s}
                d.update(sig)
                F.append(Failure(aspect=aspect, what="%s n=%s: %s (x=%s y=%s params=%s)" % (
                    s, n, what, x, y, {k: c.get(k) for k in ("alpha", "a", "beta", "exp", "smooth")}), signature=d))

        if n < 2:
            if o.get("exc") != "ValueError":
                fail("C04", "n-below-2", "oversampling factor %s gave %s, not ValueError" % (n, o.get("exc") or "a result"))
            return F
        if "exc" in o:
            fail("C04", "raises", "valid arguments raised %s: %s" % (o["exc"], o.get("exc_msg")))
            return F
        xs, ys = o["x"], o["y"]
        N = (m - 1) * n + 1
        # ---- C04: grid structure
        if o["kinds"] != ["ndarray", "ndarray"]:
            fail("C04", "container", "returned %s (elements %s), expected two numpy arrays" % (o["kinds"], o["elem_kinds"]))
        if o["ndim"] != [1, 1]:
            fail("C04", "container", "ndim %s" % o["ndim"])
        if len(xs) != N or len(ys) != N:
            fail("C04", "length", "lengths %d/%d, expected %d" % (len(xs), len(ys), N))
            return F
        if not all_finite(xs, ys):
            fail("C04", "finite", "non-finite values")
            return F
        if not o["xbytes_equal"]:
            fail("C04", "grid", "every n-th abscissa is not an original abscissa bit for bit")
        for k in range(m - 1):
            d = (x[k + 1] - x[k]) / n
            for i in range(n):
                st = xs[k * n + i + 1] - xs[k * n + i]
                if not (st > 0) or abs(st - d) > 1e-12 * (abs(d) + abs(xs[k * n + i])) + 1e-15:
                    fail("C04", "grid", "spacing inside interval %d is %r, expected %r" % (k, st, d))
                    break
        # ---- C05
        tol = 1e-9 * (1 + max(abs(v) for v in y))
        if s == "pc":
            exp = [y[k] for k in range(m - 1) for _ in range(n)] + [y[-1]]
            if ys != exp:
                fail("C05", "pc-exact", "piecewise-constant strategy does not reproduce the averages")
        if s == "cubic":
            if any(abs(ys[k * n] - y[k]) > tol for k in range(m)):
                fail("C05", "cubic-nodes", "cubic strategy does not pass through the original points")
        if s in ("function",):
            f = lambda v: sum(cf * v ** k for k, cf in enumerate(c["coef"]))
            if any(abs(ys[i] - f(xs[i])) > 1e-9 * (1 + abs(f(xs[i]))) for i in range(N)):
                fail("C04", "function-values", "sampling function values not returned")
        if len(set(y)) == 1 and s != "function":
            if any(abs(v - y[0]) > tol for v in ys):
                fail("C05", "constant", "constant series not recreated as a constant")
        if s in ("linfixed", "linadapt", "expfixed", "expadapt"):
            a = window_a(c)
            if a <= n:
                self.window_oracle(c, o, a, fail, tol)
        if o.get("repeatable", True) is not True:
            for p_ in ("C04", "C05", "C06"):      # (whichever property the unit runs for: a recreation is a function of its arguments)
                fail(p_, "history", "the identical call, repeated after the first result was edited in place by the caller, gave another result (%s)" % o.get("repeatable"))
        return F

    def window_oracle(self, c, o, a, fail, tol):
        s, x, y, n = c["strategy"], c["x"], c["y"], c["n"]
        m = len(x)
        ys = o["y"]
        between = lambda v, p, r: min(p, r) - tol <= v <= max(p, r) + tol
        small_exp = s in ("expfixed", "expadapt") and c["exp"] < 0.1330
        for k in range(m - 1):
            blk = ys[k * n:(k + 1) * n]
            yl = y[k - 1] if k > 0 else y[0]
            yr = y[k + 1]
            plate = [i for i in range(n) if abs(blk[i] - y[k]) <= tol]
            if not plate:
                fail("C05", "plateau", "interval %d has no sample at its average %s: %s" % (k, y[k], blk))
                continue
            ndiff = n - len(plate)
            if ndiff > a - 1:
                fail("C05", "plateau", "interval %d: %d samples differ from the average, more than a-1 = %d" % (k, ndiff, a - 1))
            # the differing samples are the ones nearest the borders: plateau must be one contiguous run (up to
            # coincidences when a neighbour has the same average)
            p, qq = plate[0], plate[-1]
            if yl != y[k] and yr != y[k] and plate != list(range(p, qq + 1)):
                fail("C05", "plateau", "interval %d: plateau is not contiguous: %s" % (k, blk))
            left, right = blk[:p], blk[qq + 1:]
            if any(not between(v, yl, y[k]) for v in left):
                fail("C05", "bounded", "interval %d: left samples %s leave [%s, %s]" % (k, left, yl, y[k]))
            if any(not between(v, yr, y[k]) for v in right):
                fail("C05", "bounded", "interval %d: right samples %s leave [%s, %s]" % (k, right, y[k], yr))
            seq_l = blk[:p + 1]
            seq_r = blk[qq:] + [ys[(k + 1) * n]]
            for nm, sq in (("left", seq_l), ("right", seq_r)):
                dif = [b - a_ for a_, b in zip(sq[:-1], sq[1:])]
                if any(d > tol for d in dif) and any(d < -tol for d in dif):
                    fail("C05", "monotone", "interval %d: %s transition is not monotone: %s" % (k, nm, sq), exp=c.get("exp"), small_exp=small_exp)
        if not between(ys[-1], y[-2], y[-1]):
            fail("C05", "bounded", "final sample %s outside [%s, %s]" % (ys[-1], y[-2], y[-1]))
        # ---- C06: fixed strategies follow the documented geometry
        if s in ("linfixed", "expfixed"):
            h = a // 2
            d = [x[k + 1] - x[k] for k in range(m - 1)]
            dd = lambda K: d[0] if K < 0 else (d[K] if K < m - 1 else d[m - 2])   # virtual intervals mirror the end spacing
            yy = lambda K: y[0] if K < 0 else (y[K] if K < m else y[m - 1])
            border = lambda K: yy(K - 1) + (yy(K) - yy(K - 1)) * dd(K - 1) / (dd(K - 1) + dd(K))   # value at the left border of interval K
            e = c.get("exp", 1.0)
            b = int(c["beta"] * h) if s == "expfixed" else 0
            # float conditioning: the implementation takes differences of (oversampled) abscissae, each carrying a rounding
            # error of about eps*max|x|; relative to the smallest oversampled step this error scales the weights
            cond = 8 * 2.0 ** -52 * max(abs(v) for v in x) / (min(d) / n) * (max(y) - min(y))
            near = lambda g, v: abs(g - v) <= 1e-9 * (1 + abs(v)) + cond
            for k in range(m - 1):
                z0 = border(k)
                z1 = border(k + 1) if k + 1 <= m - 2 else yy(k) + (yy(m - 1) - yy(k)) * dd(k) / (dd(k) + dd(k + 1))
                exp_blk = []
                for i in range(n):
                    if s == "linfixed":
                        if i < h:
                            v = z0 + (y[k] - z0) * i / h
                        elif i <= n - h:
                            v = y[k]
                        else:
                            v = y[k] + (z1 - y[k]) * (i - (n - h)) / h
                    else:
                        zlb = z0 + (y[k] - z0) * b / h
                        zrb = y[k] + (z1 - y[k]) * (h - b) / h
                        if i < b:
                            v = z0 + (zlb - z0) * i / b
                        elif i < h:
                            t = (i - b) / (h - b)
                            v = zlb + (y[k] - zlb) * (t * (2 - t - (1 - t) ** e))
                        elif i < n - h:
                            v = y[k]
                        elif i < n - b:
                            t = (i - (n - h)) / (h - b)
                            v = y[k] + (zrb - y[k]) * (t * t + (1 - t) * t ** e)
                        else:
                            v = zrb + (z1 - zrb) * (i - (n - b)) / b
                    exp_blk.append(v)
                got = ys[k * n:(k + 1) * n]
                if k >= 1 and not near(got[0], z0):
                    fail("C06", "border-value", "border %d is %r, linear interpolation between the plateau ends gives %r" % (k, got[0], z0))
                elif any(not near(g, v) for g, v in zip(got, exp_blk)):
                    fail("C06", "transition-shape", "interval %d is %s, documented shape gives %s" % (k, got, exp_blk))

    def key(self, c, o):
        return (c["strategy"], tuple(c["x"]), tuple(c["y"]), c["n"], c.get("alpha"), c.get("a"), c.get("beta"), c.get("exp"), c.get("smooth"))

    def label(self, c, o):
        tag = "exc" if "exc" in o else "ok"
        par = ""
        if c["strategy"] in ("linfixed", "linadapt", "expfixed", "expadapt") and c["n"] >= 2 and int(c["n"]) == c["n"]:
            par = ",a=%s" % ("n" if window_a(c) == c["n"] else ("2" if window_a(c) == 2 else "mid"))
        return "%s:%s%s" % (c["strategy"], tag, par)


# ------------------------------------------------------------------------------------------
class FunfitUnit(Unit):
    """the five shape functions against the generated Gen/Funfit.v and their documented closed forms"""
    name = "funfit"
    imports = ["Gen.Funfit", "Lib.Pow"]
    FNS = ["lin_fit", "exp_fit", "exp_xy_fit", "exp_lin_fit", "lin_exp_xy_fit"]

    def gen(self, rng, tier):
        cases = []
        k = 200 if tier == "quick" else 2000
        for _ in range(k):
            x0 = gens.dyadic(rng, -4, 4, 3)
            x1 = x0 + rng.randint(1, 64) / 8
            t = rng.choice([0.0, 1.0, 0.5, 0.25, 0.75, rng.randint(0, 64) / 64])
            cases.append({"fn": rng.choice(self.FNS), "x0": x0, "x1": x1, "y0": gens.dyadic(rng, -8, 8, 3), "y1": gens.dyadic(rng, -8, 8, 3),
                          "x": x0 + t * (x1 - x0), "alpha": rng.choice([0.25, 0.5, 1.0, 1.5, 2.0, 3.0, 4.0, 5.0, 0.7, 2.3]),
                          "default": rng.random() < 0.15})
        # abscissae on a large offset with a narrow window (epoch seconds, a window of 2^-6 .. 2 s; all exact in floats): the shapes
        # are functions of (x - x0) / (x1 - x0) — forms that go through the absolute position (slope * x + intercept) cancel here
        for _ in range(30 if tier == "quick" else 300):
            x0 = rng.choice([1.7e9, 2.0 ** 31, 86.4e6]) + rng.randint(0, 1000)
            w_ = rng.choice([2.0 ** -6, 0.001, 0.017, 0.3])
            x1 = x0 + w_
            t = rng.choice([0.0, 1.0, 0.5, 0.25, 0.75, rng.randint(0, 64) / 64])
            cases.append({"fn": rng.choice(self.FNS), "x0": x0, "x1": x1, "y0": round(rng.uniform(-800, 800), 3), "y1": round(rng.uniform(-800, 800), 3),
                          "x": x0 + t * (x1 - x0), "alpha": rng.choice([1.0, 2.0, 3.0, 0.5]), "default": rng.random() < 0.15})
        return cases

    def run(self, c):
        import traffic_weaver.funfit as ff
        f = getattr(ff, c["fn"])
        try:
            if c["fn"] == "lin_fit" or c["default"]:
                return {"out": float(f(c["x"], (c["x0"], c["y0"]), (c["x1"], c["y1"])))}
            return {"out": float(f(c["x"], (c["x0"], c["y0"]), (c["x1"], c["y1"]), alpha=c["alpha"]))}
        except Exception as e:
            return {"exc": exn_name(e)}

    def alpha(self, c):
        return 2.0 if (c["default"] or c["fn"] == "lin_fit") else c["alpha"]

    def coq(self, c, o):
        if "exc" in o:
            return "false"
        al = self.alpha(c)
        if abs(4 * al - round(4 * al)) > 1e-12:
            return None
        pw = "" if c["fn"] == "lin_fit" else "(pw_quarter %d) " % round(4 * al)
        tol = tol_for([c["y0"], c["y1"]])
        return "approx %s (%s %s%s %s %s %s %s) %s" % (tol, c["fn"], pw, q(c["x"]), q(c["x0"]), q(c["y0"]), q(c["x1"]), q(c["y1"]), qa(o["out"]))

    def oracle(self, c, o):
        if "exc" in o:
            return [Failure(aspect="raises", what="%s raised %s" % (c["fn"], o["exc"]), signature={"aspect": "raises"})]
        al = self.alpha(c)
        t = (c["x"] - c["x0"]) / (c["x1"] - c["x0"])
        g = {"lin_fit": t, "exp_fit": t ** al, "exp_xy_fit": 1 - (1 - t) ** al,
             "exp_lin_fit": t * t + (1 - t) * t ** al, "lin_exp_xy_fit": t * (2 - t - (1 - t) ** al)}[c["fn"]]
        exp = c["y0"] + (c["y1"] - c["y0"]) * g
        if abs(o["out"] - exp) > 1e-9 * (1 + abs(exp)):
            return [Failure(aspect="closed-form", what="%s(x=%s, (%s,%s), (%s,%s), alpha=%s) = %r, documented closed form gives %r" % (
                c["fn"], c["x"], c["x0"], c["y0"], c["x1"], c["y1"], al, o["out"], exp), signature={"aspect": "closed-form", "fn": c["fn"]})]
        return []

    def label(self, c, o):
        return c["fn"]


# ------------------------------------------------------------------------------------------
class AdaptiveWindowsUnit(Unit):
    """get_adaptive_transition_points called directly on lattices of jumps"""
    name = "adaptive_windows"
    imports = ["Model.Rfa"]

    def gen(self, rng, tier):
        cases = []
        vals = [0.0, 1.0, 2.0, 3.0, 4.0, -1.0, 0.5, 8.0]
        k = 150 if tier == "quick" else 1500
        for _ in range(k):
            m = rng.randint(2, 6)
            n = rng.choice([2, 4, 8, 16])
            ys = [rng.choice(vals) for _ in range(m)]
            # the same lattice of jumps on a large baseline / at a tiny scale (exact in floats): the split depends on the
            # jumps only, whatever the magnitude of the values
            kind = rng.random()
            if kind < 0.2:
                base = rng.choice([2.0 ** 20, -(2.0 ** 22), 1.0e6])
                ys = [base + v for v in ys]
            elif kind < 0.35:
                ys = [v * 2.0 ** -30 for v in ys]
            # abscissae: unit spacing, or clearly uneven (the windows are split by the *jumps* of the values; how long the
            # neighbouring intervals are plays no part)
            xs_ = [float(i) for i in range(m)] if rng.random() < 0.5 else gens.sorted_x(rng, m, rng.choice(["ratio", "int", "dyadic"]))
            c = {"strategy": "linadapt", "x": xs_, "y": ys, "n": n,
                 "a": rng.choice([2, 3, n, n // 2, max(2, n - 1)]), "alpha": None, "smooth": rng.choice([1.0, 1.0, 1.0, 2.0, 3.0])}
            if adaptive_windows_exact(c)[2]:
                cases.append(c)
        return cases

    def run(self, c):
        from traffic_weaver.rfa import LinearAdaptiveRFA
        from traffic_weaver.interval import IntervalArray
        import traffic_weaver.sorted_array_utils as sau
        n = c["n"]
        x = IntervalArray(sau.oversample_linspace(np.array(c["x"]), n), n)
        y = IntervalArray(sau.oversample_piecewise_constant(np.array(c["y"]), n), n)
        x.extend_linspace(direction="both")
        y.extend_constant(direction="both")
        try:
            als, ars, _ = LinearAdaptiveRFA.get_adaptive_transition_points(x, y, window_a(c), c["smooth"])
            return {"als": [int(v) for v in als], "ars": [int(v) for v in ars]}
        except Exception as e:
            return {"exc": exn_name(e)}

    def coq(self, c, o):
        if "exc" in o:
            return "false"
        return ("let w := adaptive_windows (pw_quarter %d) (prepare %s %s %d) %s in Z_list_eqb (fst w) %s && Z_list_eqb (snd w) %s"
                % (round(4 * c["smooth"]), qlist(c["x"]), qlist(c["y"]), c["n"], zlit(window_a(c)), zlist(o["als"]), zlist(o["ars"])))

    def oracle(self, c, o):
        F = []
        if "exc" in o:
            return [Failure(aspect="raises", what="adaptive windows raised %s" % o["exc"], signature={"aspect": "raises"})]
        y, a = c["y"], window_a(c)
        m = len(y)
        als, ars = o["als"], o["ars"]
        if len(als) != m + 1 or len(ars) != m + 1:
            return [Failure(aspect="adaptive-split", what="window lists have lengths %d/%d" % (len(als), len(ars)), signature={"aspect": "adaptive-split"})]
        avg = lambda K: y[0] if K <= 0 else (y[K - 1] if K <= m - 1 else y[m - 1])
        for K in range(1, m):
            r = abs(avg(K + 1) - avg(K))
            l = abs(avg(K) - avg(K - 1))
            al, ar = als[K], ars[K]
            what = None
            if al + ar > a or al < 0 or ar < 0:
                what = "windows %d+%d exceed a=%d" % (al, ar, a)
            elif r == 0 and l == 0 and (al, ar) != (0, 0):
                what = "no jump on either side but windows (%d,%d)" % (al, ar)
            elif r != 0 and l != 0:
                if r >= l and ar > al:
                    what = "right jump %s >= left jump %s but right window %d > left window %d" % (r, l, ar, al)
                if l >= r and al > ar:
                    what = "left jump %s >= right jump %s but left window %d > right window %d" % (l, r, al, ar)
                if c["smooth"] == 1.0:
                    g = Fraction(r) / Fraction(l)
                    eal = int(min(max(g * a / (1 + g), 1), a))
                    ear = int(min(max(Fraction(a) / (1 + g), 1), a))
                    if (al, ar) != (eal, ear):
                        what = "windows (%d,%d), split in proportion gamma=%s of a=%d gives (%d,%d)" % (al, ar, g, a, eal, ear)
            if what:
                F.append(Failure(aspect="adaptive-split", what="interval %d: %s (y=%s)" % (K, what, y), signature={"aspect": "adaptive-split"}))
                break
        return F


# ------------------------------------------------------------------------------------------
class RfaMetaUnit(Unit):
    """metamorphic relations of C07 on pairs of real runs (oracle only; the model side needs no pairs)"""
    name = "rfa_meta"

    def gen(self, rng, tier):
        base = RfaUnit(())
        cases = []
        k = 25 if tier == "quick" else 300
        for s in STRATS:
            for _ in range(k):
                c = base.mk(rng, s, m=rng.choice([3, 4, 5, 6, 8]))
                if s in ("linadapt", "expadapt"):
                    # exactly representable maps only: integer series, power-of-two scales, integer shifts
                    c["y"] = [float(rng.randint(-8, 8)) for _ in c["y"]]
                    c["ya"] = rng.choice([2.0, 0.5, -1.0, 4.0, -2.0, 2.0 ** -30, 2.0 ** 12])
                    c["yb"] = float(rng.choice([rng.randint(-4, 4), rng.randint(-4, 4), 2 ** 20, -(2 ** 22)]))
                    c["xc"] = rng.choice([2.0, 0.5, 4.0])
                    c["xd"] = float(rng.randint(-4, 4))
                    if not adaptive_windows_exact(c)[2]:
                        continue
                else:
                    c["ya"] = rng.choice([2.0, -3.0, 0.7, 1e3, -0.125])
                    c["yb"] = rng.choice([0.0, 5.0, -2.5, 100.0])
                    c["xc"] = rng.choice([2.0, 0.3, 60.0])
                    c["xd"] = rng.choice([0.0, -7.0, 1000.0])
                c["k"] = rng.randrange(len(c["y"]))
                c["delta"] = float(rng.choice([1, -1, 2, 5]))
                c["y2"] = gens.values(rng, len(c["y"]), "int")
                if s not in ("linadapt", "expadapt") and rng.random() < 0.3:
                    # a closed series (last value = first value) combined with one that is not: linearity and locality must not
                    # depend on such a coincidence in the data
                    c["y"] = list(c["y"][:-1]) + [c["y"][0]]
                    if c["y2"][0] == c["y2"][-1]:
                        c["y2"][-1] = c["y2"][0] + 3.0
                    c["k"] = rng.choice([0, len(c["y"]) - 1, c["k"]])
                cases.append(c)
        # two exactly equal consecutive averages (a plateau) far from the average that is changed: locality for the adaptive
        # strategies, where a tie takes the "no transition window" branches
        for s in ("linadapt", "expadapt"):
            made = 0
            while made < 4:
                m = 7
                c = base.mk(rng, s, m=m, n=rng.choice([2, 4, 8]))
                ys_ = [float(v) for v in rng.sample(range(-8, 9), m)]
                j = rng.choice([3, 4])
                ys_[j + 1] = ys_[j]
                c["y"] = ys_
                c["x"] = gens.sorted_x(rng, m, rng.choice(["uniform", "int", "ratio"]))
                c["ya"], c["yb"] = rng.choice([2.0, 0.5, -1.0]), float(rng.randint(-4, 4))
                c["xc"], c["xd"] = rng.choice([2.0, 0.5]), float(rng.randint(-4, 4))
                c["k"], c["delta"] = 0, float(rng.choice([1, -1, 2]))
                c["y2"] = gens.values(rng, m, "int")
                yk_ = list(ys_); yk_[0] += c["delta"]
                if not adaptive_windows_exact(c)[2] or not adaptive_windows_exact(dict(c, y=yk_))[2]:
                    continue
                cases.append(c)
                made += 1
        # pairs of series with the same length, first and last abscissa and n but other interior abscissae, run one after the other:
        # nothing of the first recreation (an oversampled axis remembered per (n, length, end points), say) may reach the second
        for s in ("pc", "linfixed", "expfixed", "cubic"):
            m = rng.choice([4, 5, 6])
            n_ = rng.choice([2, 4, 8])
            first = float(rng.randint(-3, 3))
            last = first + 4.0 * (m - 1)
            for _k in range(2):
                inner = sorted(rng.sample([first + 0.5 * j for j in range(1, 8 * (m - 1))], m - 2))
                inner0 = sorted(rng.sample([first + 0.5 * j for j in range(1, 8 * (m - 1))], m - 2))
                c = base.mk(rng, s, m=m, n=n_)
                c["x"] = [first] + inner + [last]
                c["prior_x"] = [first] + inner0 + [last]
                c["y"] = [float(rng.randint(-8, 8)) for _ in range(m)]
                c["ya"], c["yb"] = 2.0, 1.0
                c["xc"], c["xd"] = 2.0, 3.0
                c["k"] = rng.randrange(m)
                c["delta"] = 1.0
                c["y2"] = gens.values(rng, m, "int")
                cases.append(c)
        # every oversampling factor 2..64 under a change of the time unit (seconds -> minutes, seconds -> hours, index -> seconds):
        # "all n" — whether a recreation in one unit has the shape of the recreation in another must not depend on how
        # spacing / n happens to round
        xs_all = ([0.0, 300.0, 600.0, 900.0], [0.0, 60.0, 120.0], [0.0, 1.0, 2.0, 3.0])
        for n in range(2, 65):
            xs_ = xs_all[n % 3]
            s = ("linfixed", "expfixed", "pc", "linadapt", "expadapt")[n % 5]
            c = base.mk(rng, s, m=len(xs_), n=n, a=None, alpha=rng.choice([1.0, 0.5]))
            c["x"] = list(xs_)
            c["y"] = [float(rng.randint(-8, 8)) for _ in xs_]
            c["ya"], c["yb"] = 2.0, 1.0
            c["xc"], c["xd"] = (0.5, 0.0) if s in ("linadapt", "expadapt") else (rng.choice([1.0 / 60.0, 60.0, 1.0 / 3600.0]), 0.0)
            if s in ("linadapt", "expadapt") and not adaptive_windows_exact(c)[2]:
                continue
            c["k"] = rng.randrange(len(c["y"]))
            c["delta"] = 1.0
            c["y2"] = gens.values(rng, len(c["y"]), "int")
            cases.append(c)
        return cases

    def call(self, c, x, y):
        inst = cls_of(c["strategy"])(np.array(x, dtype=float), np.array(y, dtype=float), c["n"], **kwargs_of(c))
        xs, ys = inst.rfa()
        return np.asarray(xs, dtype=float), np.asarray(ys, dtype=float).reshape(-1)

    def run(self, c):
        try:
            x, y = c["x"], c["y"]
            if c.get("prior_x"):
                self.call(c, c["prior_x"], y)       # an earlier recreation in this process: same length, end points and n, other interior
            xs, ys = self.call(c, x, y)
            o = {"xs": xs.tolist(), "ys": ys.tolist()}
            if c["strategy"] != "function":
                _, ya = self.call(c, x, [c["ya"] * v + c["yb"] for v in y])
                o["ys_yaff"] = ya.tolist()
                xa, yxa = self.call(c, [c["xc"] * v + c["xd"] for v in x], y)
                o["xs_xaff"], o["ys_xaff"] = xa.tolist(), yxa.tolist()
                yk = list(y)
                yk[c["k"]] += c["delta"]
                _, ysk = self.call(c, x, yk)
                o["ys_local"] = ysk.tolist()
                if c["strategy"] not in ("linadapt", "expadapt"):
                    _, y2 = self.call(c, x, c["y2"])
                    _, ysum = self.call(c, x, [a + b for a, b in zip(y, c["y2"])])
                    o["ys_2"], o["ys_sum"] = y2.tolist(), ysum.tolist()
            return o
        except Exception as e:
            return {"exc": exn_name(e), "exc_msg": str(e)[:200]}

    def oracle(self, c, o):
        F = []
        s, n = c["strategy"], c["n"]

        def fail(aspect, what):
            F.append(Failure(aspect=aspect, what="%s n=%s: %s (x=%s y=%s params=%s)" % (s, n, what, c["x"], c["y"], {k: c.get(k) for k in ("alpha", "a", "beta", "exp", "smooth", "ya", "yb", "xc", "xd", "k", "delta")}),
                             signature={"aspect": aspect, "strategy": s}))
        if "exc" in o:
            fail("raises", "raised %s %s" % (o["exc"], o.get("exc_msg")))
            return F
        if s == "function":
            return F
        ys = np.array(o["ys"])
        xs = np.array(o["xs"])
        # the relations below compare runs sample by sample: first of all the runs must have the same shape
        shapes = {k: len(o[k]) for k in ("xs", "ys", "ys_yaff", "xs_xaff", "ys_xaff", "ys_local", "ys_2", "ys_sum") if k in o}
        if len(set(shapes.values())) != 1:
            fail("shape", "recreations of the same series under a change of units / of one value have different lengths: %s" % shapes)
            return F
        sc = 1 + np.max(np.abs(ys))
        exact = s in ("linadapt", "expadapt")
        t = 1e-9
        e1 = c["ya"] * ys + c["yb"]
        if np.max(np.abs(np.array(o["ys_yaff"]) - e1)) > t * (1 + np.max(np.abs(e1))):
            fail("y-affine", "recreate(a*y+b) differs from a*recreate(y)+b by %g" % np.max(np.abs(np.array(o["ys_yaff"]) - e1)))
        e2 = c["xc"] * xs + c["xd"]
        if np.max(np.abs(np.array(o["xs_xaff"]) - e2)) > t * (1 + np.max(np.abs(e2))):
            fail("x-affine", "abscissae of recreate(c*x+d) differ from c*xs+d")
        # conditioning of the comparison itself: c*x+d is rounded to the float grid at |c*x+d|; relative to the spacing of the samples
        # that is a perturbation of the *input* of the second run (epoch abscissae times 0.3: 6e-8 on a spacing of 0.3), and the
        # values respond to it in proportion to their range
        xa = np.array(c["x"], dtype=float)
        xb = c["xc"] * xa + c["xd"]
        cond = max(np.spacing(np.max(np.abs(v))) / np.min(np.diff(v)) for v in (xa, xb))
        if np.max(np.abs(np.array(o["ys_xaff"]) - ys)) > t * sc + 16 * cond * (np.max(ys) - np.min(ys) + 1):
            fail("x-affine", "values change under x -> c*x+d by %g" % np.max(np.abs(np.array(o["ys_xaff"]) - ys)))
        if s != "cubic":
            radius = 2 if exact else 1
            if s in ("linadapt", "expadapt") and window_a(c) > n:
                # an adaptive side window can be as wide as the whole window a; for n < a <= 2n it reaches into the next interval,
                # i.e. one interval further than the clause of C07 (stated for a <= n) says.  Fixed windows (a // 2 <= n) do not.
                radius += 1
            k = c["k"]
            m = len(c["y"])
            diff = np.abs(np.array(o["ys_local"]) - ys) > t * (sc + abs(c["delta"]))
            for j in np.nonzero(diff)[0]:
                blk = min(j // n, m - 1)
                # sample j belongs to block blk; border samples (j % n == 0) also depend on block blk-1
                lo = blk - (1 if j % n == 0 else 0)
                if not (k - radius <= blk <= k + radius or k - radius <= lo <= k + radius):
                    fail("locality", "changing average %d changed sample %d (interval %d), outside %d neighbour(s)" % (k, j, blk, radius))
                    break
        if "ys_sum" in o:
            es = ys + np.array(o["ys_2"])
            if np.max(np.abs(np.array(o["ys_sum"]) - es)) > t * (1 + np.max(np.abs(es))):
                fail("linear", "recreate(y+y') differs from recreate(y)+recreate(y')")
            if s != "cubic":
                yy = np.array(c["y"])
                if np.min(ys) < np.min(yy) - t * sc or np.max(ys) > np.max(yy) + t * sc:
                    fail("nonneg-weights", "recreated values leave the range of the averages")
        return F

    def label(self, c, o):
        return c["strategy"]
