"""C13 — interpolation honours the data and the requested grid."""
from tools.harness.core import Property
from tools.props.weaver_units import WeaverUnit
from tools.props.proc_units import InterpUnit, InterpOracleUnit


class WC13(WeaverUnit):
    name = "weaver_c13"


class C13(Property):
    id = "C13"
    gen_targets = ["Funfit", "ProcessGlue"]

    def units(self, tier):
        return [InterpUnit(), InterpOracleUnit(), WC13(("C13",), ops=['interpolate','interpolate','shift_x','scale_y','append','repeat'], max_len=6, queries=False, invalid_kinds=['method', 'grid_ends', 'grid_ends_permuted', 'grid_ends_near', 'interp_none'])]


PROPERTY = C13()
