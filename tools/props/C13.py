"""C13 — interpolation honours the data and the requested grid."""
from tools.harness.core import Property
from tools.props.proc_units import InterpUnit


class C13(Property):
    id = "C13"

    def units(self, tier):
        return [InterpUnit()]


PROPERTY = C13()
