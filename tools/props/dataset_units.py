"""Dataset lookup (C18): every documented name x spelling x unpack flag against the real load_dataset, with the
network replaced by a recorder; compared with the model over the GENERATED registry."""
import io
import os
import re
import shutil
import tempfile
import warnings

import numpy as np

from tools.harness.core import Unit, Failure, REPO, VERIF, exn_name, qa, qlist, tol_for

SMALL_CSV = "0, 1.5\n1, 2.5\n2, 0.25\n3, 4.0\n"


def doc_names():
    d = os.path.join(REPO, "src", "traffic_weaver", "datasets", "data_description")
    fams = {"sandvine.md": "sandvine", "mix_it.md": "mix-it", "ams_ix.md": "ams-ix", "ix_br.md": "ix-br"}
    out = []
    for fn in sorted(fams):
        try:
            for ln in open(os.path.join(d, fn), encoding="utf-8").read().splitlines():
                cells = [c.strip() for c in ln.strip().strip("|").split("|")]
                if ln.startswith("|") and len(cells) >= 3 and cells[0].isdigit():
                    out.append((fams[fn], cells[1]))
        except OSError:
            pass
    return out


def cstr(s):
    return '"%s"' % s.replace('"', '""')


class Sandbox:
    """redirects the data home, replaces urlretrieve / _sha256 / sleep inside traffic_weaver.datasets._base"""

    @staticmethod
    def other_filesystem():
        """a writable directory on another file system than the system temp directory (None if there is none)"""
        try:
            dev = os.stat(tempfile.gettempdir()).st_dev
        except OSError:
            return None
        for cand in ("/dev/shm", "/run/shm", os.path.join(VERIF, "_build")):
            try:
                if os.path.isdir(cand) and os.access(cand, os.W_OK) and os.stat(cand).st_dev != dev:
                    return cand
            except OSError:
                pass
        return None

    def __init__(self, use_env=True, base=None, nested=False):
        os.makedirs(os.path.join(VERIF, "_build"), exist_ok=True)
        self.root = tempfile.mkdtemp(prefix="datahome.", dir=base or os.path.join(VERIF, "_build"))
        self.use_env = use_env
        self.nested = nested
        self.downloads = []
        self.current = None

    def __enter__(self):
        import traffic_weaver.datasets._base as B
        self.B = B
        self.saved = (B.urlretrieve, B._sha256, B.time.sleep, os.environ.get("TRAFFIC_WEAVER_DATA"), os.environ.get("HOME"))
        sb = self

        def fake_urlretrieve(url, path):
            if getattr(sb, "fail_first", 0) > 0:         # scripted transient network failures before the download succeeds
                sb.fail_first -= 1
                from urllib.error import URLError
                raise URLError("scripted transient failure")
            sb.downloads.append((url, path))
            with open(path, "w") as f:
                f.write(SMALL_CSV)
            return path, None

        def fake_sha(path):
            return sb.current.checksum if sb.current is not None else "0" * 64
        B.urlretrieve = fake_urlretrieve
        B._sha256 = fake_sha
        B.time.sleep = lambda d: None          # the retry delay (restored on exit)
        # learn which remote is being fetched
        self.orig_fetch = B._fetch_remote

        def spy_fetch(remote, *a, **k):
            sb.current = remote
            return sb.orig_fetch(remote, *a, **k)
        B._fetch_remote = spy_fetch
        if self.use_env:
            # nested: a data home whose parent directories do not exist yet either (a per-site / per-user layout on first use)
            os.environ["TRAFFIC_WEAVER_DATA"] = os.path.join(self.root, "site", "user", "env-home") if self.nested else os.path.join(self.root, "env-home")
        else:
            os.environ.pop("TRAFFIC_WEAVER_DATA", None)
            os.environ["HOME"] = os.path.join(self.root, "fake-home")
            os.makedirs(os.environ["HOME"], exist_ok=True)
        return self

    def __exit__(self, *a):
        B = self.B
        B.urlretrieve, B._sha256, B.time.sleep = self.saved[0], self.saved[1], self.saved[2]
        B._fetch_remote = self.orig_fetch
        for k, v in (("TRAFFIC_WEAVER_DATA", self.saved[3]), ("HOME", self.saved[4])):
            if v is None:
                os.environ.pop(k, None)
            else:
                os.environ[k] = v
        shutil.rmtree(self.root, ignore_errors=True)

    def listing(self):
        out = []
        for base, _, fs in os.walk(self.root):
            for f in fs:
                out.append(os.path.relpath(os.path.join(base, f), self.root))
        return sorted(out)


class DatasetLookupUnit(Unit):
    name = "datasets_lookup"
    imports = ["Model.Datasets", "Gen.Bundled"]
    preamble = """
From Coq Require Import String.
Open Scope string_scope.
Definition remote_obs (ds url fname slot : string) : bool :=
  match resolve ds with
  | Ok (Remote f u c d fo v) => String.eqb u url && String.eqb (norm f) fname && String.eqb (fo ++ "/" ++ norm d) slot
  | _ => false
  end.
Definition bundled_obs (ds : string) (tol : Qc) (xs ys : list Qc) : bool :=
  match resolve ds with
  | Ok (Bundled folder file) =>
      existsb (fun b => let '(f, g, bx, by_) := b in String.eqb f folder && String.eqb g file && approx_list tol bx xs && approx_list tol by_ ys) bundled_files
  | _ => false
  end.
Definition rejected_obs (ds : string) (e : exn) : bool := match resolve ds with Raise e' => exn_eqb e e' | _ => false end.
"""

    def gen(self, rng, tier):
        cases = []
        for fam, name in doc_names():
            first = name.replace("-", "_")
            swapped = first.replace("_", "-", 1)          # a hyphen directly after the family word
            for spelling in dict.fromkeys((name, first, name.replace("_", "-"), swapped)):
                for unpack in (False, True):
                    # for the documented spelling: the same name asked again with the other value of the unpack flag (the
                    # second answer comes from what the first request left behind)
                    cases.append({"name": spelling, "doc": name, "family": fam, "unpack": unpack, "env": True, "again": spelling == name})
        # the data home on another file system than the system temp directory (a data disk, a RAM disk): the cache is still written
        # and used
        if Sandbox.other_filesystem():
            remote_docs = [(f_, n_) for f_, n_ in doc_names() if f_ != "sandvine"]
            for fam, name in remote_docs[::11]:
                cases.append({"name": name, "doc": name, "family": fam, "unpack": False, "env": True, "again": True, "other_fs": True})
        # the documented name held as a member of a str-Enum catalogue / as a NumPy string: it is the documented name
        for k_, (fam, name) in enumerate(doc_names()[3::13]):
            cases.append({"name": name, "doc": name, "family": fam, "unpack": bool(k_ % 2), "env": True, "again": False,
                          "name_kind": "str_enum" if k_ % 3 else "np_str"})
        # transient network failures (URLError) before the download succeeds: up to the documented default of 3 retries they are
        # absorbed and the documented dataset is reachable all the same
        for k_, (fam, name) in zip((1, 2, 3, 3), [(f_, n_) for f_, n_ in doc_names() if f_ != "sandvine"][5::17]):
            cases.append({"name": name, "doc": name, "family": fam, "unpack": False, "env": True, "again": False, "transient": k_})
        # a data home whose parent directories do not exist yet either (TRAFFIC_WEAVER_DATA=<root>/site/user/...; first use)
        for fam, name in [(f_, n_) for f_, n_ in doc_names() if f_ != "sandvine"][::11]:
            cases.append({"name": name, "doc": name, "family": fam, "unpack": True, "env": True, "again": False, "nested_home": True})
        # data home resolution without the environment variable, and unknown names
        docs = doc_names()
        for fam, name in docs[::9]:
            cases.append({"name": name, "doc": name, "family": fam, "unpack": False, "env": False})
        # unknown names — among them the bare family names, their spellings, and the names of the package's own helper functions (the
        # lookup is by reflection on "load_" + name: whatever else gets exported next to the loaders must not become a "dataset")
        for bad in ("no-such-dataset", "sandvine_nothing", "ams-ix", "mix_it_rome_daily", "load_sandvine_audio", "",
                    "sandvine", "mix_it", "mix-it", "ams_ix", "ix_br", "ix-br", "dataset", "csv_dataset_from_remote", "csv_dataset_from_resources",
                    "sandvine_", "dataset_description"):
            cases.append({"name": bad, "doc": None, "family": None, "unpack": False, "env": True})
        return cases

    def run(self, c):
        from traffic_weaver.datasets import load_dataset
        with warnings.catch_warnings():
            warnings.simplefilter("ignore")
            with Sandbox(use_env=c["env"], base=(Sandbox.other_filesystem() if c.get("other_fs") else None), nested=bool(c.get("nested_home"))) as sb:
                sb.fail_first = int(c.get("transient", 0))
                name_arg = c["name"]
                if c.get("name_kind") == "str_enum":
                    # a catalogue of names written as `class Name(str, Enum)`: each member IS the documented string (== and str
                    # methods see the value), only its format() / str() differ
                    import enum
                    name_arg = enum.Enum("Name", {"ENTRY": c["name"]}, type=str).ENTRY
                elif c.get("name_kind") == "np_str":
                    name_arg = np.str_(c["name"])
                try:
                    r = load_dataset(name_arg, unpack_dataset_columns=c["unpack"])
                    if c["unpack"]:
                        ok_tuple = isinstance(r, tuple) and len(r) == 2
                        arr = np.column_stack(r) if ok_tuple else np.asarray(r)
                    else:
                        ok_tuple = None
                        arr = np.asarray(r)
                    o = {"shape": list(arr.shape), "dtype": str(arr.dtype), "finite": bool(np.all(np.isfinite(arr))),
                         "tuple": ok_tuple, "kind": type(r).__name__,
                         "x": arr[:, 0].tolist() if arr.ndim == 2 else [], "y": arr[:, 1].tolist() if arr.ndim == 2 and arr.shape[1] > 1 else []}
                except Exception as e:
                    o = {"exc": exn_name(e), "exc_msg": str(e)[:160]}
                o["downloads"] = [(u, os.path.basename(p), os.path.relpath(p, sb.root)) for u, p in sb.downloads]
                o["listing"] = sb.listing()
                if c.get("again") and "exc" not in o:
                    try:
                        # the caller edits what was returned (unit conversion in place) before asking again: a later answer
                        # must not depend on that
                        arr = arr.copy()
                        for part in (r if isinstance(r, tuple) else (r,)):
                            if isinstance(part, np.ndarray) and part.flags.writeable and part.dtype.kind == "f":
                                part *= 3.0
                                part += 7.0
                        r2 = load_dataset(c["name"], unpack_dataset_columns=not c["unpack"])
                        if not c["unpack"]:
                            ok2 = isinstance(r2, tuple) and len(r2) == 2
                            arr2 = np.column_stack(r2) if ok2 else np.asarray(r2)
                        else:
                            ok2 = isinstance(r2, np.ndarray)
                            arr2 = np.asarray(r2) if ok2 else np.zeros((0, 0))
                        o["again"] = {"container_ok": bool(ok2), "kind": type(r2).__name__,
                                      "same_data": bool(arr2.shape == arr.shape and np.array_equal(arr2, arr)),
                                      "downloads": len(sb.downloads) - len(o["downloads"])}
                    except Exception as e:
                        o["again"] = {"exc": exn_name(e), "exc_msg": str(e)[:160]}
                return o

    def coq(self, c, o):
        ds = cstr(c["name"])
        if "exc" in o:
            return "rejected_obs %s %s" % (ds, o["exc"])
        if o["downloads"]:
            url, fname, rel = o["downloads"][0]
            files = [f for f in o["listing"]]
            slot = files[0] if len(files) == 1 else "?"
            home = ("site/user/env-home/" if c.get("nested_home") else "env-home/") if c["env"] else "fake-home/.traffic-weaver-data/"
            slot = slot[len(home):] if slot.startswith(home) else "?" + slot      # drop the data-home directory itself
            return "remote_obs %s %s %s %s" % (ds, cstr(url), cstr(fname), cstr(slot))
        tol = tol_for(o["x"] + o["y"])
        return "bundled_obs %s %s %s %s" % (ds, tol, qlist(o["x"], qa), qlist(o["y"], qa))

    def __init__(self):
        self.seen_urls = {}
        self.seen_slots = {}

    def oracle(self, c, o):
        F = []

        def fail(aspect, what, **sig):
            d = {"aspect": aspect}
            d.update(sig)
            F.append(Failure(aspect=aspect, what="load_dataset(%r, unpack=%s): %s" % (c["name"], c["unpack"], what), signature=d))

        if c["doc"] is None:
            if o.get("exc") != "ValueError":
                fail("unknown-accepted", "unknown name gave %s, not ValueError" % (o.get("exc") or "a result"))
            return F
        if "exc" in o:
            fail("documented-name-unreachable", "documented dataset cannot be loaded: %s: %s" % (o["exc"], o.get("exc_msg")), family=c["family"])
            return F
        if o["shape"][1:] != [2] or len(o["shape"]) != 2 or o["dtype"] != "float64" or not o["finite"]:
            fail("malformed", "result has shape %s dtype %s finite=%s" % (o["shape"], o["dtype"], o["finite"]))
        if c["unpack"] and not o["tuple"]:
            fail("unpack", "unpacking requested but a %s was returned" % o["kind"])
        ag = o.get("again")
        if ag is not None:
            if "exc" in ag:
                fail("second-request", "asking again with unpack=%s raised %s: %s" % (not c["unpack"], ag["exc"], ag.get("exc_msg")))
            elif not ag["container_ok"] or not ag["same_data"]:
                fail("second-request", "asking again with unpack=%s returned a %s (same data: %s)" % (not c["unpack"], ag["kind"], ag["same_data"]))
            elif ag["downloads"]:
                fail("second-request", "asking again downloaded %d more file(s) although the dataset was cached" % ag["downloads"])
        if c["family"] == "sandvine":
            if o["downloads"]:
                fail("bundled-downloads", "bundled dataset triggered a download")
            if any(b <= a for a, b in zip(o["x"][:-1], o["x"][1:])):
                fail("malformed", "first column not strictly increasing")
        else:
            if len(o["downloads"]) != 1:
                fail("remote-download", "expected exactly one download, saw %d" % len(o["downloads"]))
                return F
            url, fname, rel = o["downloads"][0]
            key = c["doc"]
            prev = self.seen_urls.setdefault(url, key)
            if prev != key:
                fail("shared-remote", "datasets %s and %s download the same URL %s" % (prev, key, url))
            files = o["listing"]
            if len(files) != 1:
                fail("cache-files", "data home holds %s after one load" % files)
            else:
                home = (os.path.join("site", "user", "env-home") if c.get("nested_home") else "env-home") if c["env"] else os.path.join("fake-home", ".traffic-weaver-data")
                if not files[0].startswith(home + os.sep):
                    fail("data-home", "cache written to %s, expected under %s" % (files[0], home))
                slot = files[0][len(home) + 1:]
                prev = self.seen_slots.setdefault(slot, key)
                if prev != key:
                    fail("shared-cache-slot", "datasets %s and %s use the same cache file %s" % (prev, key, slot), slot=slot)
        return F

    def key(self, c, o):
        return (c["name"], c["unpack"], c["env"])

    def label(self, c, o):
        return "%s:%s" % (c["family"] or "unknown", "exc" if "exc" in o else "ok")


# ------------------------------------------------------------------------------------------
class RegistryScanUnit(Unit):
    """C18, "no two datasets share a remote file, checksum or cache slot": every documented remote dataset is requested once in one data
    home and what the loader was handed for it (remote file name, URL, pinned checksum) and where it cached it are compared pairwise.
    Oracle only (the same statement is a theorem over the regenerated registry, Gen/Registry.v)."""
    name = "registry_scan"
    case_timeout = 120

    def gen(self, rng, tier):
        return [{"kind": "all-remote"}]

    def run(self, c):
        from traffic_weaver.datasets import load_dataset
        rows = []
        with warnings.catch_warnings():
            warnings.simplefilter("ignore")
            with Sandbox(use_env=True) as sb:
                for fam, name in doc_names():
                    if fam == "sandvine":
                        continue
                    before = set(sb.listing()) if hasattr(sb, "listing") else set()
                    sb.current = None
                    nd = len(sb.downloads)
                    try:
                        load_dataset(name)
                        r = sb.current
                        rows.append({"name": name, "filename": getattr(r, "filename", None), "url": getattr(r, "url", None),
                                     "checksum": getattr(r, "checksum", None), "downloads": len(sb.downloads) - nd})
                    except Exception as e:
                        rows.append({"name": name, "exc": exn_name(e), "exc_msg": str(e)[:120]})
        return {"rows": rows}

    def coq(self, c, o):
        return None

    def oracle(self, c, o):
        F = []
        for field in ("filename", "url", "checksum"):
            seen = {}
            for r in o["rows"]:
                v = r.get(field)
                if v is None:
                    continue
                if v in seen:
                    F.append(Failure(aspect="shared-" + field, what="datasets %r and %r share the remote %s %r" % (seen[v], r["name"], field, v),
                                     signature={"aspect": "shared-" + field}))
                    break
                seen[v] = r["name"]
        return F

    def label(self, c, o):
        return "remote:%d" % len(o.get("rows", []))
