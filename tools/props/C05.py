"""C05 — see DESIGN.md section 7."""
from tools.harness.core import Property
from tools.props.rfa_units import RfaUnit, FunfitUnit, AdaptiveWindowsUnit, RfaMetaUnit


class P(Property):
    id = "C05"
    gen_targets = ["Funfit", "Kernels", "RfaGlue"]

    def units(self, tier):
        return [RfaUnit(("C05",)), FunfitUnit(), AdaptiveWindowsUnit()]


PROPERTY = P()
