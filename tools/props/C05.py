"""C05 — see DESIGN.md section 7."""
from tools.harness.core import Property
from tools.props.weaver_units import WeaverUnit
from tools.props.rfa_units import RfaUnit, FunfitUnit, AdaptiveWindowsUnit, RfaMetaUnit


class WC05(WeaverUnit):
    name = "weaver_c05"


class P(Property):
    id = "C05"
    gen_targets = ["Funfit", "Kernels", "RfaGlue"]

    def units(self, tier):
        return [RfaUnit(("C05",)), FunfitUnit(), AdaptiveWindowsUnit(),
                WC05(("C05",), ops=['recreate', 'recreate', 'shift_y', 'scale_y', 'append'], max_len=3, queries=False)]


PROPERTY = P()
