"""C12 — repeat is a periodic extension with the original spacing."""
from tools.harness.core import Property
from tools.props.proc_units import RepeatUnit


class C12(Property):
    id = "C12"
    rule = "series of 2..40 points (uniform / non-uniform dyadic / integer dtype), r in 0..12, all factor pairs a*b <= 12; distinct = distinct (x, y, r)"

    def units(self, tier):
        return [RepeatUnit()]


PROPERTY = C12()
