"""C12 — repeat is a periodic extension with the original spacing."""
from tools.harness.core import Property
from tools.props.weaver_units import WeaverUnit
from tools.props.proc_units import RepeatUnit


class WC12(WeaverUnit):
    name = "weaver_c12"


class C12(Property):
    id = "C12"
    gen_targets = ["Funfit", "Kernels", "ProcessGlue"]
    rule = "series of 2..40 points (uniform / non-uniform dyadic / integer dtype), r in 0..12, all factor pairs a*b <= 12; distinct = distinct (x, y, r)"

    def units(self, tier):
        return [RepeatUnit(), WC12(("C12",), ops=['repeat','repeat','append','shift_x','scale_x','truncate_by_index','recreate'], max_len=6, queries=False)]


PROPERTY = C12()
