"""C06 — see DESIGN.md section 7."""
from tools.harness.core import Property
from tools.props.weaver_units import WeaverUnit
from tools.props.rfa_units import RfaUnit, FunfitUnit, AdaptiveWindowsUnit, RfaMetaUnit


class WC06(WeaverUnit):
    name = "weaver_c06"


class P(Property):
    id = "C06"
    gen_targets = ["Funfit", "Kernels", "RfaGlue"]

    def units(self, tier):
        return [RfaUnit(("C06",)), FunfitUnit(), AdaptiveWindowsUnit(),
                WC06(("C06",), ops=['recreate', 'recreate', 'shift_y', 'scale_y', 'append'], max_len=3, queries=False)]


PROPERTY = P()
