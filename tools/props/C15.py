"""C15 — noise is purely additive and obeys the signal-to-noise definition."""
from tools.harness.core import Property
from tools.props.lib_args_units import NoiseArgsUnit, NoiseStatUnit
from tools.props.weaver_units import WeaverUnit


class NoiseProgUnit(WeaverUnit):
    name = "weaver_noise"


class P(Property):
    id = "C15"
    gen_targets = ["Funfit", "Defaults", "Kernels"]
    assumptions = ["zero mean, Gaussian shape, seed reproducibility and the empirical SNR are properties of NumPy's generator: tested (noise_statistics), not proved",
                   "sqrt and 10**(snr/10) are oracles: the theorem is about scale^2 and the linear SNR"]

    def units(self, tier):
        return [NoiseArgsUnit(), NoiseStatUnit(),
                NoiseProgUnit(("C15",), ops=["noise", "noise", "shift_y", "scale_y", "recreate", "trend"], max_len=5, queries=False)]


PROPERTY = P()
