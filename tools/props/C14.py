"""C14 — trend, shift, scale and normalise are exact point-wise maps."""
from tools.harness.core import Property
from tools.props.proc_units import TrendUnit, NormalizeUnit


class C14(Property):
    id = "C14"

    def units(self, tier):
        return [TrendUnit(), NormalizeUnit()]


PROPERTY = C14()
