"""C14 — trend, shift, scale and normalise are exact point-wise maps."""
from tools.harness.core import Property
from tools.props.weaver_units import WeaverUnit
from tools.props.proc_units import TrendUnit, NormalizeUnit


class WC14(WeaverUnit):
    name = "weaver_c14"


class C14(Property):
    id = "C14"
    gen_targets = ["Funfit", "Kernels", "ProcessGlue"]

    def units(self, tier):
        return [TrendUnit(), NormalizeUnit(), WC14(("C14",), ops=['trend','shift_x','shift_y','scale_x','scale_y','normalize_x','normalize_y','append'], max_len=6, queries=False)]


PROPERTY = C14()
