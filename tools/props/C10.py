"""C10 — nearest-sample search returns the defined neighbour for every query."""
import itertools
import math

import numpy as np

from tools.harness.core import Property, Unit, Failure, q, qlist, zlist, exn_name, coq_bool


def brute(x, qv, strategy, fill):
    n = len(x)
    if strategy == "lower":
        c = [i for i in range(n) if x[i] <= qv]
        return max(c) if c else (0 if fill else -1)
    if strategy == "higher":
        c = [i for i in range(n) if x[i] >= qv]
        return min(c) if c else (n - 1 if fill else n)
    from fractions import Fraction
    best = 0
    fq = Fraction(qv)
    for i in range(n):
        if abs(Fraction(x[i]) - fq) < abs(Fraction(x[best]) - fq):     # exact rationals of the floats decide
            best = i
    return best


def near_tie(x, v):
    """float-only corner (DESIGN 3.6): the implementation compares the *rounded* differences q - x_lo and x_hi - q.
    A query whose exact differences differ by less than 1e-9 of the gap (but are not equal) is dropped ONLY when one of
    the two float subtractions is inexact; when both are exact (e.g. by Sterbenz' lemma) the implementation's decision is
    the exact one and the case is kept."""
    from fractions import Fraction
    for lo, hi in zip(x[:-1], x[1:]):
        if lo < v < hi:
            d = (Fraction(v) - Fraction(lo)) - (Fraction(hi) - Fraction(v))
            if d != 0 and abs(d) < Fraction(1, 10 ** 9) * (Fraction(hi) - Fraction(lo)):
                exact_sub = Fraction(v - lo) == Fraction(v) - Fraction(lo) and Fraction(hi - v) == Fraction(hi) - Fraction(v)
                return not exact_sub
            return False
    return False


# ('closest' has no "not valid" answer — a query outside the range yields the first / last index — so the dispatcher's fill flag
#  means nothing for it: asked with the flag off as well)
COMBOS = [("lower", True), ("lower", False), ("higher", True), ("higher", False), ("closest", True), ("closest", False)]


class SearchUnit(Unit):
    name = "search"
    imports = ["Model.Search"]
    preamble = """
Definition zl_match (m : res (list Z)) (o : obs (list Z)) : bool := res_match Z_list_eqb m o.
Definition chk_search (x l : list Qc) (r : list (obs (list Z))) : bool :=
  match r with
  | [r1; r2; r3; r4; r5; r6] =>
      zl_match (find_indices x l Lower true) r1 && zl_match (find_indices x l Lower false) r2 &&
      zl_match (find_indices x l Higher true) r3 && zl_match (find_indices x l Higher false) r4 &&
      zl_match (find_indices x l Closest true) r5 && zl_match (find_indices x l Closest false) r6
  | _ => false
  end.
"""

    def gen(self, rng, tier):
        cases = []
        if tier == "quick":
            xmax, xlen, qlen = 5, 4, 3
        else:
            xmax, xlen, qlen = 6, 5, 4
        lo = -2                                   # signed lattice: 0 sits in the middle of arrays (truthiness slips)
        lattice_x = list(range(lo, lo + xmax + 1))
        lattice_q = [lo + k / 2 for k in range(-1, 2 * xmax + 2)]
        xs = [list(c) for k in range(1, xlen + 1) for c in itertools.combinations(lattice_x, k)]
        qs = [list(c) for k in range(1, qlen + 1) for c in itertools.combinations_with_replacement(lattice_q, k)]
        if tier == "escalate":
            xs = xs[::3]
        for x in xs:
            for l in qs:
                cases.append({"x": x, "lookup": l, "kind": "lattice"})
        self.exhaustive_space = "all strictly increasing x of <=%d elements over -2..%d x all non-decreasing query lists of <=%d values over the half-integer lattice" % (xlen, xmax - 2, qlen)
        # random float arrays with queries equal to, +-1ulp from, between, beyond the elements
        nrand = 300 if tier == "quick" else 3000
        for _ in range(nrand):
            n = rng.randint(1, 12)
            if rng.random() < 0.1:    # integer samples on a large offset: spacing tiny relative to the magnitude
                from tools.harness import gens as _g
                x = _g.epoch_x(rng, n)
            elif rng.random() < 0.3:    # decimal grids: elements are not binary fractions, midpoints are rounded
                x = sorted({round(rng.randint(-30, 30) * rng.choice([0.1, 0.05, 0.3, 1.35]), 6) for _ in range(n)})
            else:
                x = sorted({rng.choice([rng.uniform(-100, 100), float(rng.randint(-20, 20)), rng.uniform(-1, 1) * 2.0 ** rng.randint(-30, 30)]) for _ in range(n)})
            qs_ = []
            for _ in range(rng.randint(1, 10)):
                e = rng.choice(x)
                kind = rng.randint(0, 6)
                if kind == 0:
                    qs_.append(e)
                elif kind == 1:
                    qs_.append(math.nextafter(e, math.inf))
                elif kind == 2:
                    qs_.append(math.nextafter(e, -math.inf))
                elif kind == 3 and len(x) > 1:
                    i = rng.randrange(len(x) - 1)
                    qs_.append((x[i] + x[i + 1]) / 2)  # midpoint (rounded): exact rational of the float decides
                elif kind == 4:
                    qs_.append(x[0] - rng.uniform(0, 10))
                elif kind == 5:
                    qs_.append(x[-1] + rng.uniform(0, 10))
                else:
                    qs_.append(rng.uniform(x[0] - 1, x[-1] + 1))
            qs_ = [v for v in qs_ if not near_tie(x, v)] or [x[0]]
            cases.append({"x": x, "lookup": sorted(qs_), "kind": "float"})
        # single-precision samples with double-precision queries (a float32 sensor column searched with Python floats): a query one
        # double-ulp off a sample is not that sample, whatever precision the samples are stored in
        for _ in range(40 if tier == "quick" else 400):
            n = rng.randint(2, 10)
            x = sorted({float(np.float32(rng.choice([rng.uniform(-10, 10), rng.randint(-20, 20) * 0.1]))) for _ in range(n)})
            qs_ = []
            for _ in range(rng.randint(2, 8)):
                e = rng.choice(x)
                qs_.append(rng.choice([e, math.nextafter(e, math.inf), math.nextafter(e, -math.inf), e + 1e-9, e - 1e-9]))
            qs_ = [v for v in qs_ if not near_tie(x, v)] or [x[0]]
            cases.append({"x": x, "lookup": sorted(qs_), "kind": "float", "x_f32": True})
        # degenerate calls: empty lookup / empty x (StopIteration in the implementation)
        cases.append({"x": [1.0, 2.0], "lookup": [], "kind": "empty"})
        cases.append({"x": [], "lookup": [1.0], "kind": "empty"})
        cases.append({"x": [1.0, 2.0], "lookup": [1.5], "kind": "unknown-strategy"})
        return cases

    def run(self, case):
        import traffic_weaver.sorted_array_utils as sau
        x = np.array(case["x"], dtype=np.float32 if case.get("x_f32") else float)     # (x_f32: the elements are exactly representable)
        l = np.array(case["lookup"], dtype=float)
        out = []
        if case["kind"] == "unknown-strategy":
            try:
                r = sau.find_closest_element_indices_to_values(x, l, strategy="nearest")
                return {"res": [{"val": [int(v) for v in r]}]}
            except Exception as e:
                return {"res": [{"exc": exn_name(e)}]}
        held = []
        for s, fill in COMBOS:
            try:
                r = sau.find_closest_element_indices_to_values(x, l, strategy=s, fill_not_valid=fill)
                out.append({"val": [int(v) for v in r]})
                held.append((len(out) - 1, r))
            except Exception as e:
                out.append({"exc": exn_name(e)})
        # the searches only read: the arrays of the caller are what they were (all six calls above ran on the same two arrays,
        # so a call that rearranged them would also have changed the later answers)
        # an answer stays what it was when it was returned: the caller keeps all six results and reads them after the last call
        overwritten = [i for i, r in held if [int(v) for v in r] != out[i]["val"]]
        res = {"res": out, "overwritten": overwritten, "input_mutated": not (np.array_equal(x, np.array(case["x"], dtype=float)) and np.array_equal(l, np.array(case["lookup"], dtype=float)))}
        # ... and each call answers for the array as it is NOW: the caller shifts the very same array object in place and asks again
        if case.get("x_f32"):
            return res
        x += 2.0
        again = []
        for s, fill in (("lower", True), ("higher", False), ("closest", True)):
            try:
                again.append({"val": [int(v) for v in sau.find_closest_element_indices_to_values(x, l, strategy=s, fill_not_valid=fill)]})
            except Exception as e:
                again.append({"exc": exn_name(e)})
        res["after_edit"] = again
        return res

    def coq(self, case, obs):
        def enc(r):
            return "OExn %s" % r["exc"] if "exc" in r else "OVal %s" % zlist(r["val"])
        if case["kind"] == "unknown-strategy":
            return "zl_match (find_indices %s %s UnknownStrategy true) (%s)" % (
                qlist(case["x"]), qlist(case["lookup"]), enc(obs["res"][0]))
        return "chk_search %s %s [%s]" % (qlist(case["x"]), qlist(case["lookup"]),
                                          "; ".join(enc(r) for r in obs["res"]))

    def oracle(self, case, obs):
        fails = []
        if obs.get("overwritten"):
            i = obs["overwritten"][0]
            fails.append(Failure(aspect="result-overwritten", what="the result of search %s (strategy, fill) was changed by a later search with the same number of queries: x=%s lookup=%s" % (str(COMBOS[i]), case["x"], case["lookup"]),
                                 signature={"aspect": "result-overwritten"}))
        if obs.get("input_mutated"):
            fails.append(Failure(aspect="input-mutated", what="a search modified the arrays handed in: x=%s lookup=%s" % (case["x"], case["lookup"]),
                                 signature={"aspect": "input-mutated"}))
        if case["kind"] == "empty":
            return fails
        if case["kind"] == "unknown-strategy":
            if obs["res"][0].get("exc") != "ValueError":
                fails.append(Failure(aspect="unknown-strategy", what="unknown strategy name gave %r instead of ValueError" % (obs["res"][0],),
                                     signature={"aspect": "unknown-strategy"}))
            return fails
        x, l = case["x"], case["lookup"]
        x2 = [float(np.float64(v) + 2.0) for v in x]
        if "after_edit" in obs and len(set(x2)) == len(x2) and not any(near_tie(x2, v) for v in l):
            for (s, fill), r in zip((("lower", True), ("higher", False), ("closest", True)), obs["after_edit"]):
                exp = [brute(x2, v, s, fill) for v in l]
                if r.get("val") != exp:
                    fails.append(Failure(aspect="stale-array-" + s, what="%s fill=%s asked again after the caller shifted the same array in place (x += 2): returned %s, defined neighbours in %s are %s (lookup=%s)" % (
                        s, fill, r.get("val") or r.get("exc"), x2, exp, l), signature={"aspect": "stale-array", "strategy": s}))
        for (s, fill), r in zip(COMBOS, obs["res"]):
            if "exc" in r:
                fails.append(Failure(aspect="raises", what="%s fill=%s raised %s on x=%s lookup=%s" % (s, fill, r["exc"], x, l),
                                     signature={"aspect": "raises", "strategy": s}))
                continue
            exp = [brute(x, v, s, fill) for v in l]
            if exp != r["val"]:
                fails.append(Failure(aspect="wrong-index-" + s,
                                     what="%s fill=%s: x=%s lookup=%s returned %s, defined neighbours are %s" % (s, fill, x, l, r["val"], exp),
                                     signature={"aspect": "wrong-index", "strategy": s, "fill": fill}))
        return fails

    def key(self, case, obs):
        if case["kind"] in ("empty",):
            return None
        return (tuple(case["x"]), tuple(case["lookup"]))

    def label(self, case, obs):
        return "%s:|x|=%d,|q|=%d" % (case["kind"], len(case["x"]), len(case["lookup"]))


class C10(Property):
    id = "C10"
    gen_targets = ["UtilsGlue", "ScanGlue"]
    rule = ("exhaustive lattice enumeration (every case is distinct by construction: key = (x, lookup)) plus seeded random float "
            "arrays with queries equal to / +-1 ulp from / between / beyond elements; every case runs all 3 strategies x 2 fill flags")

    def units(self, tier):
        return [SearchUnit()]


PROPERTY = C10()
