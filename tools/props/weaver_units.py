"""Weaver state machine: random / exhaustive programs run on the real class, replayed on the Coq model
(Model/Weaver.v) with the state compared after every step.  Serves C08, C09, C20 and the Weaver-level
parts of C11-C16."""
import itertools
import random
import warnings
from fractions import Fraction

import numpy as np

from tools.harness import gens
from tools.harness.core import Unit, Failure, q, qa, qlist, zlit, natlist, exn_name, tol_for, all_finite
from tools.props import rfa_units
from tools.props.proc_units import coq_poly, poly, poly_kind, POLYS

DOMAIN_OPS = ["append", "shift_x", "shift_y", "scale_x", "scale_y", "normalize_x", "normalize_y", "repeat",
              "truncate_by_value", "truncate_by_index"]
RESHAPE_OPS = ["recreate", "integral_match", "interpolate", "smooth", "trend", "noise"]
QUERY_OPS = ["slice_by_index", "slice_by_value"]
MAXLEN = 70


def optz(v):
    return "None" if v is None else "(Some (%s)%%Z)" % zlit(v)


def optq(v):
    return "None" if v is None else "(Some %s)" % q(v)


def cb(b):
    return "true" if b else "false"


def is_exact(arr):
    """all values are small dyadics: IEEE arithmetic on them is exact for the operations we generate"""
    for v in np.asarray(arr, dtype=float).tolist():
        fr = Fraction(v)
        if fr.denominator > (1 << 24) or abs(fr.numerator) > (1 << 40):
            return False
    return True


def constant_grid_safe(x, n, exact):
    """piecewise-constant interpolation compares grid points with samples by `<=`: an interior grid point that (nearly)
    coincides with a sample is kept only when both are exactly representable and bitwise equal"""
    g = np.linspace(x[0], x[-1], n)
    span = Fraction(float(x[-1])) - Fraction(float(x[0]))
    for i in range(1, n - 1):
        gi = Fraction(float(g[i]))
        exact_gi = Fraction(float(x[0])) + span * i / (n - 1)
        for xj in x[1:-1]:
            d = gi - Fraction(float(xj))
            if abs(d) < Fraction(1, 10 ** 9) * span:
                if not (exact and d == 0 and gi == exact_gi):
                    return False
    return True


def closest_ties_safe(x, xr, exact):
    """the 'closest' search compares the rounded differences q - x_lo and x_hi - q: a reference point (nearly) midway between
    two samples is kept only when everything is exactly representable and the tie is exact"""
    xs = [Fraction(float(v)) for v in x]
    for q_ in xr:
        qf = Fraction(float(q_))
        for lo, hi in zip(xs[:-1], xs[1:]):
            if lo < qf < hi:
                d = (qf - lo) - (hi - qf)
                if abs(d) < Fraction(1, 10 ** 9) * (hi - lo) and not (exact and d == 0):
                    return False
                break
    return True


def adaptive_stable(c, y, rng):
    """adaptive windows are integers computed from ratios of jumps: when y carries rounding (not exact dyadics) the model's
    exact y and the float y differ in the last bits, so the split must be stable under such perturbations (ties included)"""
    chk = dict(c)
    chk["y"] = [float(v) for v in y]
    base = rfa_units.adaptive_windows_exact(chk)
    if not base[2]:
        return False
    if is_exact(y):
        return True
    for _ in range(4):
        chk["y"] = [float(v) + (abs(float(v)) + 1e-300) * rng.uniform(-1, 1) * 1e-10 for v in y]
        if rfa_units.adaptive_windows_exact(chk)[:2] != base[:2]:
            return False
    return True


CTOR_SHAPES = {"1d_len2": lambda: np.array([5.0, 6.0]), "1d_len3": lambda: np.array([5.0, 6.0, 7.0]), "1d_len4": lambda: np.array([1.0, 2.0, 3.0, 4.0]),
               "1col": lambda: np.zeros((4, 1)), "0d": lambda: np.array(3.0), "1d_len2_int": lambda: np.array([7, 9])}


def nlit(n):
    """the oversampling factor for the model (an integer): a fractional factor below 2 is a factor below 2"""
    return zlit(int(n)) if n == int(n) else ("1" if n < 2 else zlit(int(n)))


class DrawRecorder:
    """replacement for numpy.random.normal during Weaver.noise: returns a fixed dyadic draw, records the arguments"""

    def __init__(self, rng):
        self.rng = rng
        self.calls = []

    def __call__(self, loc=0.0, scale=1.0, size=None):
        n = int(np.prod(size)) if size is not None else 1
        d = np.array([self.rng.randint(-16, 16) / 8 for _ in range(n)], dtype=float).reshape(size)
        self.calls.append({"loc": loc, "scale": np.asarray(scale, dtype=float).tolist(), "size": size, "draw": d.tolist()})
        return d


def snapshot(w):
    def one(a):
        try:
            return np.asarray(a, dtype=float).reshape(-1).tolist()
        except Exception:
            return None
    fields = [w.x, w.y, w.original_x, w.original_y, w.reference_x, w.reference_y]
    return {"state": [one(a) for a in fields], "kinds": [type(a).__name__ for a in fields],
            "ndim": [int(np.ndim(a)) if a is not None else -1 for a in fields]}


class WeaverUnit(Unit):
    name = "weaver_prog"
    imports = ["Model.Weaver"]
    case_timeout = 60
    preamble = """
Definition al := approx_list.
Definition state_match (tol : Qc) (s : wstate) (o : list (list Qc)) : bool :=
  match o with
  | [a; b; c; d; e; f] => al tol (wx s) a && al tol (wy s) b && al tol (wox s) c && al tol (woy s) d && al tol (wrx s) e && al tol (wry s) f
  | _ => false
  end.
Definition outcome_match (r : res unit) (e : option exn) : bool :=
  match r, e with
  | Ok _, None => true
  | Raise a, Some b => exn_eqb a b
  | _, _ => false
  end.
Inductive stp :=
| SOp (o : op) (e : option exn) (tol : Qc) (st : list (list Qc))
| SQIdx (start : Z) (stop : option Z) (step : Z) (tol : Qc) (r : obs (list Qc * list Qc))
| SQVal (start stop : option Qc) (step : Z) (tol : Qc) (r : obs (list Qc * list Qc)).
Definition q_match (tol : Qc) (m : res (list Qc * list Qc)) (o : obs (list Qc * list Qc)) : bool :=
  res_match (pair_match (al tol) (al tol)) m o.
(* index of the first step at which model and implementation disagree, or None *)
Fixpoint check_prog (i : nat) (s : wstate) (steps : list stp) : option nat :=
  match steps with
  | [] => None
  | SOp o e tol st :: rest =>
      let (s', r) := step s o in
      if outcome_match r e && state_match tol s' st then check_prog (S i) s' rest else Some i
  | SQIdx a b c tol r :: rest => if q_match tol (slice_by_index s a b c) r then check_prog (S i) s rest else Some i
  | SQVal a b c tol r :: rest => if q_match tol (slice_by_value s a b c) r then check_prog (S i) s rest else Some i
  end.
Definition prog_ok (x : option (list Qc)) (y : list Qc) (e : option exn) (steps : list stp) : bool :=
  match init x y, e with
  | Ok s, None => match check_prog 0 s steps with None => true | Some _ => false end
  | Raise a, Some b => exn_eqb a b
  | _, _ => false
  end.
"""

    def __init__(self, aspects, ops=None, max_len=8, exhaustive_domain=False, invalid=False, queries=True, invalid_kinds=None):
        self.aspects = set(aspects)
        # invalid requests of these classes are issued IN THE MIDDLE of programs (the program goes on afterwards): what a
        # refused request leaves behind is what the next valid operation of this property works on
        self.invalid_kinds = list(invalid_kinds) if invalid_kinds else None
        self.ops = ops
        self.max_len = max_len
        self.exhaustive_domain = exhaustive_domain
        self.invalid = invalid
        self.queries = queries
        self._held = []

    # ------------------------------------------------------------------ generation
    def gen(self, rng, tier):
        cases = []
        k = 70 if tier == "quick" else 700
        pool = self.ops or (DOMAIN_OPS + RESHAPE_OPS + ["restore"])
        for _ in range(k):
            m = rng.randint(4, 10) if rng.random() < 0.85 else rng.randint(11, 40 if tier != "quick" else 16)
            c = {"x": gens.sorted_x(rng, m), "y": gens.values(rng, m), "seed": rng.randrange(1 << 30),
                 "len": rng.randint(0, self.max_len), "pool": pool, "as_list": rng.random() < 0.3, "int_x": False,
                 "x_none": rng.random() < 0.05, "invalid": self.invalid}
            if rng.random() < 0.12:
                # integer-typed values (packet counts): every operation must treat them as numbers, not keep the integer dtype
                c["y"] = [float(rng.randint(-9, 9)) for _ in c["y"]]
                c["int_y"] = True
            if rng.random() < 0.15:
                c["x"] = [float(round(v)) + i for i, v in enumerate(c["x"])]
                c["x"] = sorted(set(c["x"]))
                c["y"] = c["y"][:len(c["x"])]
                c["int_x"] = True
            cases.append(c)
        if not self.exhaustive_domain:
            # aliasing probes: every operation as the FIRST writer of a Weaver built from the caller's float arrays, directly and
            # after operations that leave y (resp. x) untouched — the moment at which an in-place write would reach caller data
            keep_y = ["shift_x", "scale_x", "normalize_x", "truncate_by_index"]
            keep_x = ["shift_y", "scale_y", "normalize_y"]
            for name in [p for p in pool if p != "restore"]:
                for pre in ([], [rng.choice(keep_y)], [rng.choice(keep_x)], [rng.choice(keep_y), rng.choice(keep_y)]):
                    pre = [p for p in pre if p in pool]
                    m = rng.randint(5, 9)
                    cy_ = {"x": gens.sorted_x(rng, m), "y": gens.values(rng, m), "seed": rng.randrange(1 << 30),
                           "len": len(pre) + 1, "first_ops": pre + [name], "pool": pool, "as_list": False, "int_x": False,
                           "x_none": False, "invalid": self.invalid}
                    if rng.random() < 0.4 and not any(p_ in ("shift_y", "scale_y", "normalize_y") for p_ in pre):
                        # ... and from integer-typed values: the first writer sees an int64 array
                        cy_["y"] = [float(rng.randint(-9, 9)) for _ in range(m)]
                        cy_["int_y"] = True
                    cases.append(cy_)
        if "smooth" in pool and "append" in pool:
            # closed series (first value = last value, as append_one_sample(make_periodic=True) produces) that are far from
            # mirror-symmetric: an abrupt change right after the start, a calm end — smoothed with several conditions
            for _ in range(12 if tier == "quick" else 120):
                m = rng.randint(7, 12)
                base = gens.dyadic(rng, -4, 4, 2)
                jump = rng.choice([-1, 1]) * rng.choice([4.0, 6.0, 8.0, 3.5])
                ys = [base, base + jump] + [base + jump * (1 - (i + 1) / (m - 1)) + rng.choice([0.0, 0.125, -0.125, 0.25]) for i in range(m - 2)]
                xs = [float(i) for i in range(m)] if rng.random() < 0.5 else gens.sorted_x(rng, m)
                for sv in rng.sample([0.5, 1.0, 10.0, 0.01, 2.0, 5.0], 3):
                    cases.append({"x": xs, "y": ys, "script": [{"op": "append", "periodic": True}, {"op": "smooth", "s": sv}], "seed": 1, "len": 2,
                                  "pool": [], "as_list": False, "int_x": False, "x_none": False, "invalid": False})
        if "restore" in pool and not self.exhaustive_domain:
            # the same request before and after restore_original, with the values changed in between: whatever the object remembers
            # about the first request (a fitted spline, a grid, a window table) must not answer the second one
            again = [{"op": "smooth", "s": 0.5}, {"op": "smooth", "s": None}, {"op": "smooth", "s": 0.0},
                     {"op": "interpolate", "n": 7, "method": "linear"}, {"op": "interpolate", "n": 6, "method": "cubic"},
                     {"op": "recreate", "n": 4, "strategy": "linfixed", "alpha": 1.0, "a": None, "beta": 0.5, "exp": 2.0, "smooth": 1.0},
                     {"op": "recreate", "n": 3, "strategy": "pc", "alpha": 1.0, "a": None, "beta": 0.5, "exp": 2.0, "smooth": 1.0},
                     {"op": "recreate", "n": 4, "strategy": "cubic", "alpha": 1.0, "a": None, "beta": 0.5, "exp": 2.0, "smooth": 1.0},
                     {"op": "trend", "coef": [0, 1], "normalized": True}, {"op": "repeat", "r": 2}, {"op": "append", "periodic": True}]
            changers = [{"op": "shift_y", "v": 5.0}, {"op": "scale_y", "v": -2.0}, {"op": "shift_x", "v": 2.5}, {"op": "scale_x", "v": 4.0}]
            for req in again:
                if req["op"] not in pool:
                    continue
                # (every changer for the requests that fit something to the data — what a change of units leaves behind in the object,
                #  an accumulated scale factor for instance, must not reach a request made after the restore; one at random for the others)
                for chg in (changers if req["op"] in ("smooth", "trend", "interpolate") else [rng.choice(changers)]):
                    if chg["op"] not in pool:
                        continue
                    m = rng.randint(6, 9)
                    script = [dict(chg), dict(req), {"op": "restore"}, dict(req)]
                    cases.append({"x": gens.sorted_x(rng, m, rng.choice(["uniform", "dyadic", "int"])), "y": gens.values(rng, m), "script": script, "seed": 1,
                                  "len": len(script), "pool": [], "as_list": False, "int_x": False, "x_none": False, "invalid": False})
                    # ... and without the first request: change of units, restore, request
                    script = [dict(chg), {"op": "restore"}, dict(req)]
                    cases.append({"x": gens.sorted_x(rng, m, rng.choice(["uniform", "dyadic", "int"])), "y": gens.values(rng, m), "script": script, "seed": 1,
                                  "len": len(script), "pool": [], "as_list": False, "int_x": False, "x_none": False, "invalid": False})
        if "interpolate" in pool and not self.exhaustive_domain:
            # the coarsest grids: n = 2 and an explicit grid of the two end points, for every method
            for meth in ("linear", "constant", "cubic", "spline"):
                for kind in ("n", "grid"):
                    m = rng.randint(6, 9)
                    xs_ = gens.sorted_x(rng, m, rng.choice(["uniform", "int", "dyadic"]))
                    op_ = {"op": "interpolate", "n": 2, "method": meth} if kind == "n" else {"op": "interpolate", "new_x": [xs_[0], xs_[-1]], "as_list": False, "method": meth}
                    cases.append({"x": xs_, "y": [float(v) for v in rng.sample(range(-8, 9), m)], "script": [op_], "seed": 1, "len": 1, "pool": [], "as_list": False,
                                  "int_x": False, "x_none": False, "invalid": False})
            # an explicit grid with exactly as many points as the original series, handed in as the caller's own array, then restore:
            # the grid is the caller's, nothing may be written into it
            for meth in ("linear", "cubic"):
                m = rng.randint(6, 9)
                xs_ = gens.sorted_x(rng, m, rng.choice(["int", "dyadic", "ratio"]))
                grid = [xs_[0] + (xs_[-1] - xs_[0]) * i / (m - 1) for i in range(m)]
                grid[-1] = xs_[-1]
                script = [{"op": "interpolate", "new_x": grid, "as_list": False, "method": meth}, {"op": "shift_y", "v": 1.5}, {"op": "restore"}]
                cases.append({"x": xs_, "y": [float(v) for v in rng.sample(range(-8, 9), m)], "script": script, "seed": 1, "len": len(script), "pool": [],
                              "as_list": False, "int_x": False, "x_none": False, "invalid": False})
        if "repeat" in pool and "truncate_by_index" in pool:
            # a series given without abscissae (x = sample numbers), cut from the left, then repeated: the copies continue from where the
            # cut series stands
            for start in (1, 3):
                m = rng.randint(7, 10)
                script = [{"op": "truncate_by_index", "start": start, "stop": None}, {"op": "repeat", "r": 2}]
                cases.append({"x": [float(v) for v in range(m)], "y": [float(v) for v in rng.sample(range(-8, 9), m)], "script": script, "seed": 1,
                              "len": 2, "pool": [], "as_list": False, "int_x": True, "x_none": True, "invalid": False})
        if "trend" in pool and not self.exhaustive_domain:
            # a trend callable that adjusts its own parameter in place (`t -= 1.0`), as the first writer of a Weaver built from the
            # caller's float arrays and after an explicit grid handed in as an array: whatever it is handed, it is not the caller's data
            tr_ = {"op": "trend", "coef": [0, 1, 0.5], "normalized": False, "fn_kind": "augassign"}
            for pre in ([], [{"op": "shift_y", "v": 1.5}]):
                m = rng.randint(5, 8)
                cases.append({"x": gens.sorted_x(rng, m, rng.choice(["uniform", "dyadic"])), "y": [float(v) for v in rng.sample(range(-8, 9), m)],
                              "script": [dict(p_) for p_ in pre] + [dict(tr_)], "seed": 1, "len": len(pre) + 1, "pool": [], "as_list": False, "int_x": False,
                              "x_none": False, "invalid": False})
            if "interpolate" in pool:
                m = rng.randint(6, 9)
                xs_ = gens.sorted_x(rng, m, rng.choice(["int", "dyadic"]))
                grid = [xs_[0] + (xs_[-1] - xs_[0]) * i / 8 for i in range(9)]
                grid[-1] = xs_[-1]
                cases.append({"x": xs_, "y": [float(v) for v in rng.sample(range(-8, 9), m)],
                              "script": [{"op": "interpolate", "new_x": grid, "as_list": False, "method": "linear"}, dict(tr_)], "seed": 1, "len": 2, "pool": [],
                              "as_list": False, "int_x": False, "x_none": False, "invalid": False})
        if "trend" in pool and "scale_x" in pool:
            # a trend after a change of the time unit (also after a restore): f is evaluated on the abscissae as they are now
            for pre in ([{"op": "scale_x", "v": 3.0}], [{"op": "scale_x", "v": 0.25}], [{"op": "scale_x", "v": 2.0}, {"op": "restore"}] if "restore" in pool else [{"op": "scale_x", "v": 1.5}]):
                m = rng.randint(5, 8)
                script = [dict(p_) for p_ in pre] + [{"op": "trend", "coef": [0, 1, 0.5], "normalized": False, "fn_kind": "array"}]
                cases.append({"x": gens.sorted_x(rng, m, rng.choice(["uniform", "int", "dyadic"])), "y": [float(v) for v in rng.sample(range(-8, 9), m)],
                              "script": script, "seed": 1, "len": len(script), "pool": [], "as_list": False, "int_x": False, "x_none": False, "invalid": False})
        if "integral_match" in pool:
            # a matching while the working ordinates are still the array the caller handed in (ndarray input; nothing, or only
            # operations on the abscissae / cuts, before it): the caller's array and the original stay what they were
            for pre in ([], [{"op": "truncate_by_index", "start": 1, "stop": None}, {"op": "scale_x", "v": 2.0}, {"op": "shift_x", "v": 3.0}]):
                for al_ in (1.0, 0.5):
                    m = rng.randint(6, 9)
                    script = [dict(p_) for p_ in pre if p_["op"] in pool] + [{"op": "integral_match", "rt": "trapezoid", "rr": "rectangle", "alpha": al_}]
                    cases.append({"x": gens.sorted_x(rng, m, rng.choice(["uniform", "int", "dyadic"])), "y": [float(v) for v in rng.sample(range(-8, 9), m)],
                                  "script": script, "seed": 1, "len": len(script), "pool": [], "as_list": False, "int_x": False, "x_none": False, "invalid": False})
        if "append" in pool:
            # the periodic flag given as a NumPy bool (y[0] != y[-1] on arrays) and as an integer
            for fk_ in ("np_bool", "int"):
                m = rng.randint(5, 8)
                cases.append({"x": gens.sorted_x(rng, m, rng.choice(["uniform", "int", "dyadic"])), "y": [float(v) for v in rng.sample(range(-8, 9), m)],
                              "script": [{"op": "append", "periodic": True, "flag_kind": fk_}], "seed": 1, "len": 1, "pool": [], "as_list": False,
                              "int_x": False, "x_none": False, "invalid": False})
        if "normalize_x" in pool and "normalize_y" in pool:
            # an axis held in a narrow integer type (slot numbers as int16, percentages as uint8) normalised to plain integer bounds
            # whose span times the data range exceeds that type: the numbers are normalised, not their machine representation
            for xd, yd, script in (("int16", None, [{"op": "normalize_x", "lo": 0, "hi": 1440}]),
                                   (None, "uint8", [{"op": "normalize_y", "lo": 0, "hi": 200}]),
                                   ("int16", "int16", [{"op": "normalize_y", "lo": -500, "hi": 500}, {"op": "normalize_x", "lo": 0, "hi": 3600}])):
                m = rng.randint(8, 12)
                cn_ = {"x": [float(v) for v in sorted(rng.sample(range(0, 288), m))], "y": [float(v) for v in rng.sample(range(0, 200), m)], "script": script, "seed": 1,
                       "len": len(script), "pool": [], "as_list": False, "int_x": True, "int_y": True, "x_none": False, "invalid": False}
                if xd:
                    cn_["x_dtype"] = xd
                if yd:
                    cn_["y_dtype"] = yd
                cases.append(cn_)
            # both axes normalised to the SAME range, in either order, and the values normalised to the range the abscissae happen to
            # span: each axis is mapped onto the requested range whatever the other axis looks like
            for script in ([{"op": "normalize_x", "lo": 0.0, "hi": 1.0}, {"op": "normalize_y", "lo": 0.0, "hi": 1.0}],
                           [{"op": "normalize_y", "lo": -1.0, "hi": 1.0}, {"op": "normalize_x", "lo": -1.0, "hi": 1.0}],
                           [{"op": "normalize_x", "lo": -2.0, "hi": 6.0}, {"op": "normalize_y", "lo": -2.0, "hi": 6.0}, {"op": "normalize_x", "lo": -2.0, "hi": 6.0}]):
                m = rng.randint(5, 8)
                cases.append({"x": gens.sorted_x(rng, m, rng.choice(["uniform", "int", "dyadic"])), "y": [float(v) for v in rng.sample(range(-8, 9), m)],
                              "script": script, "seed": 1, "len": len(script), "pool": [], "as_list": False, "int_x": False, "x_none": False, "invalid": False})
            m = rng.randint(5, 8)
            cases.append({"x": [float(4 * i) for i in range(m)], "y": [float(v) for v in rng.sample(range(-8, 9), m)],
                          "script": [{"op": "normalize_y", "lo": 0.0, "hi": float(4 * (m - 1))}], "seed": 1, "len": 1, "pool": [], "as_list": False,
                          "int_x": False, "x_none": False, "invalid": False})
        if self.invalid and "interpolate" in pool:
            # an unknown interpolation method asked of a series of two or three samples (one or two intervals; a longer series cut down
            # first): refused like on any other series, the series untouched
            bad_m = lambda nm: {"op": "interpolate", "n": 5, "method": nm, "invalid": "method"}
            for xs_, pre in (([0.0, 1.0], []), ([0.5, 2.0, 3.0], []), ([0.0, 1.0, 2.0, 4.0, 5.0, 7.0], [{"op": "truncate_by_index", "start": 1, "stop": 4}]),
                             ([0.0, 1.0, 2.0, 4.0, 5.0, 7.0], [{"op": "truncate_by_index", "start": 2, "stop": 4}])):
                for nm in ("quadratic", "Linear", ""):
                    script = [dict(p_) for p_ in pre] + [bad_m(nm)]
                    cases.append({"x": xs_, "y": [float(v) for v in rng.sample(range(-8, 9), len(xs_))], "script": script, "seed": 1, "len": len(script), "pool": [],
                                  "as_list": False, "int_x": False, "x_none": False, "invalid": False})
        if "recreate" in pool and not self.exhaustive_domain:
            # options whose value is exactly zero (falsy in Python) are options like any others: no straight piece (beta = 0), the
            # smallest window (a = 0 / alpha = 0, raised to 2 samples)
            for strat, kw_ in (("linfixed", {"a": 0, "alpha": None}), ("linfixed", {"a": None, "alpha": 0.0}), ("expfixed", {"a": None, "alpha": 1.0, "beta": 0.0}),
                               ("expfixed", {"a": 0, "alpha": None, "beta": 1.0}), ("expadapt", {"a": None, "alpha": 1.0, "beta": 0.0}), ("linadapt", {"a": 0, "alpha": None})):
                m = rng.randint(5, 8)
                rec_ = {"op": "recreate", "n": 8, "strategy": strat, "alpha": 1.0, "a": None, "beta": 0.5, "exp": 2.0, "smooth": 1.0}
                rec_.update(kw_)
                ys_ = [float(v) for v in rng.sample(range(-8, 9), m)]
                xs_ = gens.sorted_x(rng, m, rng.choice(["uniform", "int", "ratio"]))
                if strat in ("linadapt", "expadapt") and not rfa_units.adaptive_windows_exact(dict(rec_, x=xs_, y=ys_))[2]:
                    continue      # the rounded window split takes another int() branch than the exact one (DESIGN 3.6)
                cases.append({"x": xs_, "y": ys_, "script": [rec_], "seed": 1, "len": 1, "pool": [],
                              "as_list": False, "int_x": False, "x_none": False, "invalid": False})
        if "truncate_by_index" in pool and not self.exhaustive_domain:
            # truncate_by_index with the stop omitted when reference and working series have different lengths (after down-sampling the
            # reference is longer, after a recreation shorter): all series are cut at the same abscissae ... by Python's slice rule
            for pre in ([{"op": "interpolate", "n": 5, "method": "linear"}], [{"op": "interpolate", "n": 4, "method": "constant"}],
                        [{"op": "recreate", "n": 3, "strategy": "pc", "alpha": 1.0, "a": None, "beta": 0.5, "exp": 2.0, "smooth": 1.0}]):
                if pre[0]["op"] not in pool:
                    continue
                m = rng.randint(8, 11)
                for start in (1, 2):
                    script = pre + [{"op": "truncate_by_index", "start": start, "stop": None}]
                    cases.append({"x": gens.sorted_x(rng, m, rng.choice(["uniform", "dyadic", "int"])), "y": gens.values(rng, m), "script": script, "seed": 1,
                                  "len": len(script), "pool": [], "as_list": False, "int_x": False, "x_none": False, "invalid": False})
        if "truncate_by_value" in pool and "interpolate" in pool and not self.exhaustive_domain:
            # the working series resampled onto as many points and the same end points as the reference, but other interior abscissae —
            # then cut by value: each series is cut at its own samples (a "same grid" test that looks at length and end points only
            # would cut the reference at the working series' positions)
            for _ in range(4):
                m = rng.randint(8, 11)
                xs_ = gens.sorted_x(rng, m, rng.choice(["dyadic", "int", "ratio"]))
                span = xs_[-1] - xs_[0]
                l_, r_ = xs_[0] + span * rng.choice([0.25, 0.125, 0.375]), xs_[0] + span * rng.choice([0.75, 0.625, 0.875])
                script = [{"op": "interpolate", "n": m, "method": "linear"}, {"op": "truncate_by_value", "l": l_, "r": r_, "lr": False, "rr": False}]
                cases.append({"x": xs_, "y": gens.values(rng, m), "script": script, "seed": 1, "len": 2, "pool": [], "as_list": False, "int_x": False,
                              "x_none": False, "invalid": False})
        if "truncate_by_value" in pool:
            # a truncation bound of exactly 0 (falsy in Python) strictly inside the range, on either side, also after a shift
            zx_ = [-3.0, -2.0, -1.0, 0.5, 1.0, 2.0, 3.0]
            zy_ = [4.0, 7.5, 1.25, 9.0, 3.5, 6.0, 2.0]
            for script in ([{"op": "truncate_by_value", "l": 0.0, "r": 2.0, "lr": False, "rr": False}],
                           [{"op": "truncate_by_value", "l": -2.0, "r": 0.0, "lr": False, "rr": False}],
                           [{"op": "truncate_by_value", "l": 0, "r": 2.5, "lr": False, "rr": False}],
                           [{"op": "shift_x", "v": -0.25}, {"op": "truncate_by_value", "l": -2.5, "r": 0.0, "lr": False, "rr": False}],
                           [{"op": "truncate_by_value", "l": 0.0, "r": 0.75, "lr": False, "rr": True}]):
                if all(s_["op"] in pool for s_ in script):
                    cases.append({"x": zx_, "y": zy_, "script": script, "seed": 1, "len": len(script), "pool": [], "as_list": False, "int_x": False,
                                  "x_none": False, "invalid": False})
        if self.queries or self.invalid:
            # zero as a bound (falsy in Python): on a series straddling 0, and as a value that is not a sample
            zx = [-3.0, -2.0, -1.0, 0.0, 1.0, 2.0, 3.0]
            zy = [4.0, 7.5, 1.25, 9.0, 3.5, 6.0, 2.0]
            qs = [{"op": "slice_by_value", "start": 0.0, "stop": 2.0, "step": 1}, {"op": "slice_by_value", "start": None, "stop": 0.0, "step": 1},
                  {"op": "slice_by_value", "start": 0.0, "stop": None, "step": 2}, {"op": "slice_by_value", "start": -1.0, "stop": 0.0, "step": 1},
                  {"op": "slice_by_value", "start": 0.0, "stop": 0.0, "step": 1}, {"op": "slice_by_index", "start": 0, "stop": 0, "step": 1},
                  {"op": "truncate_by_value", "l": 0.0, "r": 2.0, "lr": False, "rr": False}, {"op": "slice_by_value", "start": 0.0, "stop": 2.0, "step": 1}]
            cases.append({"x": zx, "y": zy, "script": qs, "seed": 1, "len": len(qs), "pool": [], "as_list": False, "int_x": False, "x_none": False, "invalid": False})
            hx = [-1.5, -0.5, 0.5, 1.5, 2.5]
            bad = [{"op": "slice_by_value", "start": 0.0, "stop": 1.5, "step": 1, "invalid": "slice_value_absent"},
                   {"op": "slice_by_value", "start": -0.5, "stop": 0.0, "step": 1, "invalid": "slice_value_absent"}]
            cases.append({"x": hx, "y": zy[:5], "script": bad, "seed": 1, "len": 2, "pool": [], "as_list": False, "int_x": False, "x_none": False, "invalid": False})
        if self.exhaustive_domain:
            # exhaustively all sequences up to length L over a fixed argument alphabet (DESIGN C08)
            alpha = self.alphabet()
            L = 2 if tier == "quick" else 3
            base_x, base_y = [0.0, 1.0, 2.0, 4.0, 5.0, 7.0], [1.0, 3.0, 3.0, -2.0, 0.5, 4.0]
            for n in range(0, L + 1):
                for seq in itertools.product(range(len(alpha)), repeat=n):
                    cases.append({"x": base_x, "y": base_y, "script": [alpha[i] for i in seq], "seed": 1, "len": n, "pool": [],
                                  "as_list": False, "int_x": False, "x_none": False, "invalid": False})
        if self.invalid:
            # fixed points that are not samples of an INTEGER-typed x (sample numbers, x=None): 4.5 is not the sample 4
            for x_none in (False, True):
                m = rng.randint(8, 11)
                xs_ = [float(v) for v in range(m)] if x_none else [float(v) for v in sorted(rng.sample(range(0, 40), m))]
                for frac in (0.5, 0.25):
                    bad_ = {"op": "integral_match", "rt": "trapezoid", "rr": "rectangle", "alpha": 1.0,
                            "fixed_values": [xs_[0], xs_[m // 2] + frac, xs_[-1]], "invalid": "fixed_not_in_x"}
                    for pre in ([], [{"op": "shift_y", "v": -1.0}, {"op": "truncate_by_index", "start": 1, "stop": None}]):
                        script = [dict(p_) for p_ in pre] + [dict(bad_)]
                        if pre:      # (after the index truncation the first sample is xs_[1])
                            script[-1]["fixed_values"] = [xs_[1], xs_[m // 2] + frac, xs_[-1]]
                        cases.append({"x": xs_, "y": gens.values(rng, m), "script": script, "seed": 1, "len": len(script), "pool": [], "as_list": False,
                                      "int_x": True, "x_none": x_none, "invalid": False})
            cases.append({"x": [0.0, 1.0, 2.0], "y": [1.0, 2.0], "seed": 1, "len": 0, "pool": [], "as_list": False, "int_x": False,
                          "x_none": False, "invalid": False, "ctor": "len-mismatch"})
            cases.append({"x": [0.0, 1.0, 2.0], "y": [1.0, 2.0, 3.0], "seed": 1, "len": 0, "pool": [], "as_list": False, "int_x": False,
                          "x_none": False, "invalid": False, "ctor": "3d"})
            cases.append({"x": [0.0, 1.0, 2.0], "y": [1.0, 2.0, 3.0], "seed": 1, "len": 0, "pool": [], "as_list": False, "int_x": False,
                          "x_none": False, "invalid": False, "ctor": "3cols"})
            # further shapes that are not (N, 2): flat arrays (of 2, 3, 4 elements: two elements are not "one row of two columns"),
            # a single column, a 0-d array
            for kind in ("1d_len2", "1d_len3", "1d_len4", "1col", "0d", "1d_len2_int"):
                cases.append({"x": [0.0, 1.0, 2.0], "y": [1.0, 2.0, 3.0], "seed": 1, "len": 0, "pool": [], "as_list": False, "int_x": False,
                              "x_none": False, "invalid": False, "ctor": kind})
        return cases

    @staticmethod
    def alphabet():
        return [
            {"op": "append", "periodic": False}, {"op": "append", "periodic": True},
            {"op": "shift_x", "v": 1.5}, {"op": "shift_y", "v": -2.0},
            {"op": "scale_x", "v": 2.0}, {"op": "scale_y", "v": -0.5},
            {"op": "normalize_x", "lo": 0.0, "hi": 8.0}, {"op": "normalize_y", "lo": -1.0, "hi": 1.0},
            {"op": "repeat", "r": 2},
            {"op": "truncate_by_value", "l": 0.25, "r": 0.75, "lr": True, "rr": True},
            {"op": "truncate_by_value", "l": 0.5, "r": 4.5, "lr": False, "rr": False},
            {"op": "truncate_by_index", "start": 1, "stop": None},
        ]

    # ------------------------------------------------------------------ op argument choice on the live object
    def choose(self, rng, w, name):
        x = np.asarray(w.x, dtype=float)
        n = len(x)
        exact = is_exact(x)
        if name == "append":
            # (the flag as a Python bool, a NumPy bool — the result of a comparison on arrays — or an integer: truthiness decides)
            return {"op": "append", "periodic": rng.random() < 0.5, "flag_kind": rng.choice(["bool", "bool", "np_bool", "int"])}
        if name in ("shift_x", "shift_y"):
            return {"op": name, "v": gens.dyadic(rng, -4, 4, 2)}
        if name == "scale_x":
            return {"op": name, "v": rng.choice([0.5, 2.0, 4.0, 0.25, 1.5, 3.0])}
        if name == "scale_y":
            return {"op": name, "v": rng.choice([0.5, 2.0, -1.0, -2.0, 3.0, 0.25])}
        if name in ("normalize_x", "normalize_y"):
            v_ = x if name == "normalize_x" else np.asarray(w.y, dtype=float)
            for arr_ in (v_, np.asarray(w.reference_x if name == "normalize_x" else w.reference_y, dtype=float),
                         np.asarray(w.original_x if name == "normalize_x" else w.original_y, dtype=float)):
                sp_ = float(np.max(arr_) - np.min(arr_)) if len(arr_) else 0.0
                if sp_ > 0 and float(np.max(np.abs(arr_))) / sp_ > 2.0 ** 20 and not is_exact(arr_):
                    # a tiny spread on a large offset that already carries rounding (e.g. 2.25 + 1e-9 after a shift): normalising
                    # magnifies that rounding by offset / spread; the exact model and the floats then differ legitimately (DESIGN 3.6)
                    return None
            lo = gens.dyadic(rng, -4, 4, 1)
            return {"op": name, "lo": lo, "hi": lo + rng.choice([1.0, 2.0, 8.0, 0.5, 10.0])}
        if name == "repeat":
            r = rng.choice([1, 2, 2, 3])
            if n * r > MAXLEN or len(w.reference_x) * r > MAXLEN:
                r = 1
            return {"op": "repeat", "r": r, "n_np": rng.random() < 0.15}
        if name == "truncate_by_value":
            if n < 6:
                return None
            i = rng.randint(0, n - 5)
            j = rng.randint(i + 4, n - 1)
            lr, rr = rng.random() < 0.3, rng.random() < 0.3
            span = x[-1] - x[0]

            def bound(idx, ratio, side):
                # strictly between samples unless the abscissae are exact dyadics (DESIGN 3.6: margins)
                if exact and not ratio and rng.random() < 0.5:
                    return float(x[idx])
                k = idx - 1 if side == "l" else idx
                k = min(max(k, 0), n - 2)
                v = (x[k] + x[k + 1]) / 2
                if ratio:
                    v = (v - x[0]) / span
                    v = round(v * 64) / 64
                return float(v)
            l, r = bound(i + 1, lr, "l"), bound(j, rr, "r")
            if x[0] < 0 < x[-1] and rng.random() < 0.5:
                # a bound of exactly 0 (falsy in Python) strictly inside the range: it is a bound like any other
                if not lr and (rr or r > 0) and rng.random() < 0.5:
                    l = 0.0
                elif not rr and (lr or l < 0):
                    r = 0.0
            # ratios refer to each series' own span: on a reshaped Weaver the same request may denote an empty / inverted range
            # of the REFERENCE series (legitimately refused); such requests are not drawn as valid ones
            rx_ = np.asarray(w.reference_x, dtype=float)
            if len(rx_) >= 2:
                rspan = rx_[-1] - rx_[0]
                la = l * rspan + rx_[0] if lr else l
                ra = r * rspan + rx_[0] if rr else r
                if not (la + 1e-9 * (1 + abs(la)) < ra):
                    return None
                # margin (DESIGN 3.6): a bound within rounding of a sample of either series whose abscissae are not exact dyadics —
                # the midpoint of two working samples can coincide, in floats, with a reference sample that is 1e-16 away from it in
                # exact arithmetic, and `>=` then goes either way
                if not (exact and is_exact(rx_)):
                    lx = l * span + x[0] if lr else l
                    rx2 = r * span + x[0] if rr else r
                    for arr_, bs_ in ((rx_, (la, ra)) if not is_exact(rx_) else (rx_, ()), (np.asarray(x, dtype=float), (lx, rx2) if not exact else ())):
                        for b_ in bs_:
                            if np.any(np.abs(arr_ - b_) < 1e-9 * (1 + abs(b_))):
                                return None
            return {"op": name, "l": l, "r": r, "lr": lr, "rr": rr, "bounds_0d": rng.random() < 0.2}
        if name == "truncate_by_index":
            if n < 6:
                return None
            a = rng.randint(0, n - 5)
            b = rng.choice([None, rng.randint(a + 4, n)])
            return {"op": name, "start": a, "stop": b}
        if name == "recreate":
            nn = rng.choice([2, 2, 3, 4])
            if (n - 1) * nn + 1 > MAXLEN or n < 2:
                return None
            c = rfa_units.RfaUnit(()).mk(rng, rng.choice(rfa_units.STRATS), m=2, n=nn)
            c = {k: v for k, v in c.items() if k not in ("x", "y", "int_x")}
            c["op"] = "recreate"
            if c["strategy"] == "cubic" and n < 2:
                return None
            if c["strategy"] == "function":
                c["coef"] = [0.5, 1.0]
                c["fn_kind"] = "poly"
            if c["strategy"] in ("linadapt", "expadapt") and not adaptive_stable(c, np.asarray(w.y, dtype=float), rng):
                return None    # the integer window split is not robust against the rounding already present in y (DESIGN 3.6)
            return c
        if name == "integral_match":
            if not closest_ties_safe(x, np.asarray(w.reference_x, dtype=float), exact and is_exact(w.reference_x)):
                return None    # a reference point (nearly) midway between two samples: the rounded comparison may go either way (DESIGN 3.6)
            return {"op": name, "rt": rng.choice(["trapezoid", "rectangle"]), "rr": rng.choice(["rectangle", "rectangle", "trapezoid"]),
                    "alpha": rng.choice([1.0, 1.0, 2.0, 0.5])}
        if name == "interpolate":
            method = rng.choice(["linear", "linear", "constant", "cubic", "spline"])
            if method == "spline" and n < 4:
                method = "linear"
            # an explicit grid is compared with == against the current end points: only when they are exact dyadics (DESIGN 3.6)
            if rng.random() < 0.5 or not exact:
                nn = rng.randint(2, min(MAXLEN, 2 * n + 3))
                if method == "constant" and not constant_grid_safe(x, nn, exact):
                    method = "linear"      # a grid point within rounding of a sample: `<=` may go either way in floats (DESIGN 3.6)
                return {"op": name, "n": nn, "method": method, "n_np": rng.random() < 0.15}
            M = rng.randint(2, min(MAXLEN, n + 6))
            inner = sorted({float(x[0] + (x[-1] - x[0]) * rng.randint(1, 63) / 64) for _ in range(M - 2)})
            g = [float(x[0])] + [v for v in inner if x[0] < v < x[-1]] + [float(x[-1])]
            # "new_x ... overrides the n parameter": sometimes both are given (a wrapper that always forwards n)
            return {"op": name, "new_x": g, "as_list": rng.random() < 0.5, "method": method,
                    "also_n": rng.choice([None, None, len(g), 5, 2, len(g) + 3])}
        if name == "trend":
            return {"op": name, "coef": rng.choice(POLYS), "normalized": rng.random() < 0.5, "fn_kind": rng.choice(["array", "array", "scalar_only", "branching", "augassign"])}
        if name == "smooth":
            if n < 5:
                return None
            return {"op": name, "s": rng.choice([0.0, 0.5, 10.0, None]), "s_type": rng.choice([None, None, None, "np_int", "np_f32", "zero_d", "fraction"])}
        if name == "noise":
            return {"op": name, "snr": rng.choice([10.0, 20.0, 0.0]), "in_db": rng.random() < 0.7, "omit_default": rng.random() < 0.5}
        if name == "restore":
            return {"op": "restore"}
        if name == "slice_by_index":
            a = rng.randint(0, max(0, n - 1))
            # (negative stops count from the end, also beyond the start of the series: Python then gives the empty slice)
            return {"op": name, "start": a, "stop": rng.choice([None, rng.randint(0, n), -1, -2, -n, -n - 1, -n - 4]), "step": rng.choice([1, 1, 2, 3, -1])}
        if name == "slice_by_value":
            i = rng.randint(0, n - 1)
            j = rng.randint(i, n - 1)
            # explicit values are looked up with ==: only when the abscissae are exact dyadics (DESIGN 3.6)
            start = rng.choice([None, float(x[i]), float(x[0])]) if exact else None
            stop = rng.choice([None, float(x[j]), float(x[-1])]) if exact else None
            if start is not None and stop is not None and start > stop:
                start, stop = stop, start
            return {"op": name, "start": start, "stop": stop, "step": rng.choice([1, 1, 2])}
        raise AssertionError(name)

    def choose_invalid(self, rng, w, kinds=None):
        x = np.asarray(w.x, dtype=float)
        n = len(x)
        kind = rng.choice(kinds) if kinds else rng.choice(["n_below_2", "rule_t", "rule_r", "strategy", "method", "fixed_not_in_x", "fixed_too_many", "trunc_inverted",
                           "trunc_inverted_ratio", "index_start", "index_stop", "slice_start", "slice_stop", "slice_value_absent",
                           "grid_ends", "grid_ends_permuted", "grid_ends_near", "slice_value_near", "interp_none"])
        mid = float((x[0] + x[1]) / 2) if n >= 2 else 0.5

        def near(v):
            return max(abs(float(v)) * 2.0 ** -20, 2.0 ** -30)
        d = {"n_below_2": {"op": "recreate", "n": rng.choice([1, 0, -3, 1.5, 1.75, 0, 1]), "strategy": rng.choice(["pc", "linfixed", "linadapt", "expfixed", "expadapt", "cubic"]),
                           "alpha": 1.0, "a": None, "beta": 0.5, "exp": 2.0, "smooth": 1.0},
             "rule_t": {"op": "integral_match", "rt": rng.choice(["simpson", "rect", "trap", "", "zoid"]), "rr": "rectangle", "alpha": 1.0},
             # (unknown names, among them fragments of the two valid ones and the empty name)
             "rule_r": {"op": "integral_match", "rt": "trapezoid", "rr": rng.choice(["simpson", "rect", "trap", "", "angle", "Rectangle"]), "alpha": 1.0},
             "strategy": {"op": "integral_match", "rt": "trapezoid", "rr": "rectangle", "alpha": 1.0, "strategy": "nearest"},
             "method": {"op": "interpolate", "n": 5, "method": "quadratic"},
             "fixed_not_in_x": {"op": "integral_match", "rt": "trapezoid", "rr": "rectangle", "alpha": 1.0, "fixed_values": [float(x[0]), mid, float(x[-1])]},
             "fixed_too_many": {"op": "integral_match", "rt": "trapezoid", "rr": "rectangle", "alpha": 1.0, "fixed_indices": list(range(n)) + [0]},
             "trunc_inverted": {"op": "truncate_by_value", "l": float(x[-1]), "r": float(x[0]) if rng.random() < 0.5 else float(x[-1]), "lr": False, "rr": False},
             "trunc_inverted_ratio": {"op": "truncate_by_value", "l": 0.75, "r": rng.choice([0.25, 0.75]), "lr": True, "rr": True},
             "index_start": {"op": "truncate_by_index", "start": -1, "stop": None},
             "index_stop": {"op": "truncate_by_index", "start": 0, "stop": n + 1},
             "slice_start": {"op": "slice_by_index", "start": -2, "stop": None, "step": 1},
             "slice_stop": {"op": "slice_by_index", "start": 0, "stop": n + 3, "step": 1},
             "slice_value_absent": {"op": "slice_by_value", "start": mid if rng.random() < 0.5 else None, "stop": None if rng.random() < 0.5 else float(x[-1]) + 1.0, "step": 1},
             "grid_ends": {"op": "interpolate", "new_x": [float(x[0]), mid, float(x[-1]) + 0.5] if rng.random() < 0.5 else [float(x[0]) - 0.5, mid, float(x[-1])],
                           "as_list": rng.random() < 0.5, "method": "linear"},
             # the same set of values as a valid grid, but the first / last ELEMENT is not the first / last abscissa
             "grid_ends_permuted": {"op": "interpolate", "new_x": rng.choice([[float(x[0]), float(x[-1]), mid], [mid, float(x[0]), float(x[-1])],
                                                                               [float(x[-1]), mid, float(x[0])]]),
                                    "as_list": rng.random() < 0.5, "method": rng.choice(["linear", "constant"])},
             # a grid that misses an end point by a hair (relative 2^-20: inside np.isclose's default tolerance, far outside rounding)
             "grid_ends_near": {"op": "interpolate",
                                "new_x": ([float(x[0]), mid, float(x[-1]) - near(x[-1])] if rng.random() < 0.5 else [float(x[0]) + near(x[0]), mid, float(x[-1])]),
                                "as_list": rng.random() < 0.5, "method": rng.choice(["linear", "constant"])},
             # a slicing value a hair off a sample
             "slice_value_near": {"op": "slice_by_value", "start": float(x[0]) + near(x[0]) if rng.random() < 0.5 else None,
                                  "stop": float(x[-1]) - near(x[-1]), "step": 1},
             "interp_none": {"op": "interpolate", "method": "linear"},
             # a keyword the chosen strategy does not take (left over from another strategy): Python refuses the call with TypeError.
             # Not a request the model knows (harness_only: the step is left out of the in-Coq comparison, which goes on from the
             # unchanged state); judged here — the refusal leaves nothing behind
             "recreate_kwarg": {"op": "recreate", "n": rng.choice([2, 3, 4]), "strategy": rng.choice(["linfixed", "linadapt", "cubic"]),      # (the piecewise-constant strategy takes any keyword)
                                "alpha": 1.0, "a": None, "beta": 0.5, "exp": 2.0, "smooth": 1.0,
                                "extra_kw": rng.choice([{"beta": 0.5}, {"exp": 2.0}, {"beta": 0.5, "exp": 3.0}]),
                                "harness_only": True, "expect_exc": "TypeError"},
             }[kind]
        if kind in ("grid_ends", "grid_ends_permuted", "grid_ends_near") and rng.random() < 0.4:
            d["also_n"] = rng.choice([len(d["new_x"]), 5])      # the explicit grid still overrides n, and is still checked
        if kind == "slice_value_absent" and d["start"] is None and d["stop"] is None:
            d["start"] = mid
        d["invalid"] = kind
        return d

    # ------------------------------------------------------------------ execution on the real class
    def apply(self, w, o, rec):
        import traffic_weaver.rfa as R
        name = o["op"]
        om = bool(o.get("omit"))       # rely on the documented defaults: leave out every optional argument that has its default value
        if name == "append":
            if om and not o["periodic"]:
                w.append_one_sample()
            else:
                fk_ = o.get("flag_kind", "bool")
                w.append_one_sample(make_periodic=np.bool_(o["periodic"]) if fk_ == "np_bool" else int(o["periodic"]) if fk_ == "int" else o["periodic"])
        elif name in ("shift_x", "shift_y", "scale_x", "scale_y"):
            getattr(w, name)(o["v"])
        elif name in ("normalize_x", "normalize_y"):
            getattr(w, name)(o["lo"], o["hi"])
        elif name == "repeat":
            w.repeat(np.int64(o["r"]) if o.get("n_np") else o["r"])
        elif name == "truncate_by_value":
            l_, r_ = o["l"], o["r"]
            if o.get("bounds_0d"):
                l_, r_ = np.asarray(float(l_)), np.asarray(float(r_))     # the bounds as 0-d arrays (an element taken with arr[()], np.asarray(cfg))
            if om:
                kw = {k_: True for k_, f_ in (("x_left_as_ratio", o["lr"]), ("x_right_as_ratio", o["rr"])) if f_}
                w.truncate_by_value(l_, r_, **kw)
            else:
                w.truncate_by_value(l_, r_, o["lr"], o["rr"])
            if o.get("bounds_0d") and (float(l_) != float(o["l"]) or float(r_) != float(o["r"])):
                raise AssertionError("bound objects handed in by the caller were modified: %s %s" % (l_, r_))
        elif name == "truncate_by_index":
            if om and o["stop"] is None:
                w.truncate_by_index(o["start"]) if o["start"] != 0 else w.truncate_by_index()
            else:
                w.truncate_by_index(o["start"], o["stop"])
        elif name == "recreate":
            nn = np.int64(o["n"]) if o.get("n_np") and isinstance(o["n"], int) else o["n"]     # (a NumPy integer scalar is an integer)
            if o.get("all_defaults"):
                w.recreate_from_average(nn)          # the documented default strategy with its default parameters
            else:
                w.recreate_from_average(nn, rfa_class=rfa_units.cls_of(o["strategy"]), **rfa_units.kwargs_of(o), **o.get("extra_kw", {}))
        elif name == "integral_match":
            kw = {"alpha": o["alpha"]}
            if "strategy" in o:
                kw["fixed_points_finding_strategy"] = o["strategy"]
            if "fixed_values" in o:
                kw["fixed_points_in_x"] = o["fixed_values"]
            if "fixed_indices" in o:
                kw["fixed_points_indices_in_x"] = o["fixed_indices"]
            if om and o["rt"] == "trapezoid" and o["rr"] == "rectangle":
                w.integral_match(**kw)
            elif om and o["rt"] == "trapezoid":
                w.integral_match(reference_function_integral_method=o["rr"], **kw)
            else:
                w.integral_match(target_function_integral_method=o["rt"], reference_function_integral_method=o["rr"], **kw)
        elif name == "interpolate":
            mkw = {} if (om and o["method"] == "linear") else {"method": o["method"]}
            if "n" in o:
                nn = np.int64(o["n"]) if o.get("n_np") else o["n"]
                w.interpolate(n=nn, **mkw) if not om else w.interpolate(nn, **mkw)
            elif "new_x" in o:
                g = list(o["new_x"]) if o["as_list"] else np.array(o["new_x"], dtype=float)
                if not o["as_list"]:
                    self._held.append((g, g.copy()))       # the caller's own array: watched until the end of the program
                if o.get("also_n") is not None:
                    w.interpolate(n=o["also_n"], new_x=g, **mkw) if not om else w.interpolate(o["also_n"], g, **mkw)
                else:
                    w.interpolate(new_x=g, **mkw)
            else:
                w.interpolate(method=o["method"])
        elif name == "trend":
            fn = poly_kind(o["coef"], o.get("fn_kind", "array"))     # a vectorised callable or one that takes one abscissa only
            if om and not o["normalized"]:
                w.trend(fn)
            else:
                w.trend(fn, normalized=o["normalized"])
        elif name == "smooth":
            # record what FITPACK returns for this call: the model stores exactly that answer, evaluated at x
            import traffic_weaver.process as P
            from scipy.interpolate import BSpline
            real = P.splrep
            got = []

            def rec_splrep(*a, **k):
                r = real(*a, **k)
                got.append(r)
                return r
            P.splrep = rec_splrep
            xb = np.asarray(w.x, dtype=float).copy()
            yb = np.asarray(w.y, dtype=float).copy()
            s_arg = o["s"]
            if o.get("s_type") and s_arg is not None:
                # the same number as another numeric type (an element of np.arange, a float32 from a config array, a 0-d array, a Fraction)
                from fractions import Fraction as _Fr
                s_arg = {"np_int": (np.int64(int(s_arg)) if float(s_arg).is_integer() else np.float32(s_arg) if float(np.float32(s_arg)) == float(s_arg) else s_arg),
                         "np_f32": (np.float32(s_arg) if float(np.float32(s_arg)) == float(s_arg) else s_arg),
                         "zero_d": np.asarray(float(s_arg)), "fraction": _Fr(s_arg)}[o["s_type"]]
            try:
                w.smooth(s_arg)
            finally:
                P.splrep = real
            if len(got) == 1:
                o["_fitpack_answer"] = np.asarray(BSpline(*got[0])(xb), dtype=float).tolist()
            else:
                # FITPACK was not asked exactly once (a memoised fit, a second fit): how often it is asked is not judged, but the model is
                # then given FITPACK's answer for *these* data and this smoothing condition (s = n var(y) when omitted: C16), asked here —
                # a remembered fit of other data does not pass for it
                with warnings.catch_warnings():
                    warnings.simplefilter("ignore")
                    s_ = o["s"] if o["s"] is not None else len(yb) * float(np.std(yb)) ** 2
                    o["_fitpack_answer"] = np.asarray(BSpline(*real(xb, yb, s=s_))(xb), dtype=float).tolist()
        elif name == "noise":
            old = np.random.normal
            np.random.normal = rec
            try:
                if o["in_db"] and o.get("omit_default"):
                    w.noise(o["snr"])                      # decibels are the documented default: rely on it
                else:
                    w.noise(o["snr"], snr_in_db=o["in_db"])
            finally:
                np.random.normal = old
        elif name == "restore":
            w.restore_original()
        else:
            raise AssertionError(name)

    def query(self, w, o):
        if o.get("omit") and o["step"] == 1:
            if o["op"] == "slice_by_index":
                return w.slice_by_index(o["start"], o["stop"]) if o["stop"] is not None else (w.slice_by_index(o["start"]) if o["start"] != 0 else w.slice_by_index())
            kw = {k_: o[k_] for k_ in ("start", "stop") if o[k_] is not None}
            return w.slice_by_value(**kw)
        if o["op"] == "slice_by_index":
            return w.slice_by_index(o["start"], o["stop"], o["step"])
        return w.slice_by_value(o["start"], o["stop"], o["step"])

    def run(self, c):
        from traffic_weaver import Weaver
        rng = random.Random(c["seed"])
        rec = DrawRecorder(rng)
        xin = np.array(c["x"], dtype=np.dtype(c["x_dtype"]) if c.get("x_dtype") else (np.int64 if c["int_x"] else float))
        yin = np.array(c["y"], dtype=np.dtype(c["y_dtype"]) if c.get("y_dtype") else (np.int64 if c.get("int_y") else float))
        cx, cy = xin.copy(), yin.copy()
        out = {"steps": [], "ctor": None}
        try:
            if c.get("ctor") == "3d":
                w = Weaver.from_2d_array(np.zeros((3, 2, 1)))
            elif c.get("ctor") == "3cols":
                w = Weaver.from_2d_array(np.zeros((3, 3)))
            elif c.get("ctor") in CTOR_SHAPES:
                w = Weaver.from_2d_array(CTOR_SHAPES[c["ctor"]]())
            elif c.get("via_2d"):
                # the same series handed in as one (N, 2) table of (x, y) rows — also when N = 2
                w = Weaver.from_2d_array(np.column_stack((np.asarray(xin, dtype=float), np.asarray(yin, dtype=float))))
            elif c["x_none"]:
                w = Weaver(None, list(c["y"]) if c["as_list"] else yin)
            elif c["as_list"]:
                w = Weaver(list(c["x"]), list(c["y"]))
            else:
                w = Weaver(xin, yin)
        except Exception as e:
            out["ctor"] = exn_name(e)
            return out
        out["init"] = snapshot(w)
        # a second object built from the very same caller data: nothing done to the first may show in it
        try:
            twin = (Weaver(None, list(c["y"]) if c["as_list"] else yin) if c["x_none"] else
                    Weaver(list(c["x"]), list(c["y"])) if c["as_list"] else Weaver(xin, yin))
            twin0 = snapshot(twin)["state"]
        except Exception:
            twin = None
        script = c.get("script")
        issued = []
        fresh = None
        self._held = []
        nsteps = len(script) if script is not None else c["len"]
        with warnings.catch_warnings():
            warnings.simplefilter("ignore")
            for k in range(nsteps + (1 if c["invalid"] else 0)):
                if script is not None:
                    o = dict(script[k])
                elif c["invalid"] and k == nsteps:
                    o = self.choose_invalid(rng, w)
                elif self.invalid_kinds and k > 0 and rng.random() < 0.3 and len(np.asarray(w.x)) >= 2:
                    o = self.choose_invalid(rng, w, self.invalid_kinds)
                elif issued and rng.random() < 0.12 and len(np.asarray(w.x)) >= 5:
                    # the very same request as an earlier one, on what the object has become since: a result remembered per
                    # (object, arguments) — a memoised fit, a cached grid — is then stale
                    o = dict(rng.choice(issued))
                else:
                    o = None
                    for _ in range(5):
                        pool = c["pool"] + (QUERY_OPS if self.queries else [])
                        names = c.get("first_ops") or []
                        o = self.choose(rng, w, names[k] if k < len(names) else rng.choice(pool))
                        if o is not None:
                            o["omit"] = rng.random() < 0.4
                            if o["op"] == "recreate" and o["strategy"] == "expadapt" and rng.random() < 0.5:
                                # the documented default: ExpAdaptiveRFA(alpha=1.0, beta=0.5, adaptive_smooth=1.0, exp=2.0)
                                o2 = dict(o, alpha=1.0, a=None, beta=0.5, smooth=1.0, exp=2.0)
                                if adaptive_stable(o2, np.asarray(w.y, dtype=float), rng):
                                    o = dict(o2, all_defaults=True)
                            break
                    if o is None:
                        continue
                if "invalid" not in o and o["op"] in ("smooth", "shift_x", "shift_y", "scale_x", "scale_y", "trend", "noise"):
                    issued.append(o)      # requests whose precondition does not depend on the state (smooth: >= 5 samples)
                st = {"op": o}
                before = snapshot(w)
                o_fresh = {k_: v_ for k_, v_ in o.items() if not k_.startswith("_")}
                if o["op"] in QUERY_OPS:
                    try:
                        rx, ry = self.query(w, o)
                        st["result"] = [np.asarray(rx, dtype=float).tolist(), np.asarray(ry, dtype=float).tolist()]
                    except Exception as e:
                        st["exc"] = exn_name(e)
                        st["exc_msg"] = str(e)[:120]
                    st.update(snapshot(w))
                else:
                    ncalls = len(rec.calls)
                    try:
                        with warnings.catch_warnings(record=True) as wl:
                            warnings.simplefilter("always")
                            self.apply(w, o, rec)
                        st["warned"] = [str(x.message)[:60] for x in wl][:3]
                    except Exception as e:
                        st["exc"] = exn_name(e)
                        st["exc_msg"] = "%s: %s" % (type(e).__name__, str(e)[:120])
                    st.update(snapshot(w))
                    if len(rec.calls) > ncalls:
                        st["normal_call"] = rec.calls[-1]
                    # recreate_from_average(n, rfa_class=C, **options) is the strategy C applied to the working series with exactly those
                    # options: the same class called directly on the series as it was must give the same arrays, bit for bit
                    if o["op"] == "recreate" and "exc" not in st and "invalid" not in o and not o.get("all_defaults") \
                            and o.get("strategy") in ("pc", "linfixed", "linadapt", "expfixed", "expadapt", "cubic"):
                        try:
                            with warnings.catch_warnings():
                                warnings.simplefilter("ignore")
                                dx_, dy_ = rfa_units.cls_of(o["strategy"])(np.array(before["state"][0], dtype=float), np.array(before["state"][1], dtype=float),
                                                                           int(o["n"]), **rfa_units.kwargs_of(o)).rfa()
                            st["direct_equal"] = bool(np.array_equal(np.asarray(dx_, dtype=float), np.asarray(w.x, dtype=float)) and
                                                      np.array_equal(np.asarray(dy_, dtype=float).reshape(-1), np.asarray(w.y, dtype=float).reshape(-1)))
                        except Exception as e:
                            st["direct_equal"] = "direct call raised %s" % exn_name(e)
                    # "after restore_original the object behaves, for every subsequent operation, exactly like a newly constructed one
                    # on the data get_original() returns": from a restore on, a new object gets the same requests (until noise, whose
                    # draws are not replayed); the two must stay in the same state, bit for bit, and raise alike
                    if o["op"] == "restore" and "exc" not in st:
                        try:
                            ox_, oy_ = w.get_original()
                            fresh = Weaver(np.array(ox_, dtype=float), np.array(oy_, dtype=float))
                        except Exception:
                            fresh = None
                    elif o["op"] == "noise":
                        fresh = None
                    elif fresh is not None:
                        exc_f = None
                        try:
                            with warnings.catch_warnings():
                                warnings.simplefilter("ignore")
                                self.apply(fresh, o_fresh, rec)
                        except Exception as e:
                            exc_f = exn_name(e)
                        if exc_f != st.get("exc") or (exc_f is None and snapshot(fresh)["state"] != st["state"]):
                            st["fresh_differs"] = "raised %s / %s" % (st.get("exc"), exc_f) if exc_f != st.get("exc") else "states differ"
                            fresh = None
                st["before"] = before["state"]
                st["caller_changed"] = not (np.array_equal(xin, cx) and np.array_equal(yin, cy)) or any(not np.array_equal(a_, b_) for a_, b_ in self._held)
                out["steps"].append(st)
                bad_state = any(s is None for s in st["state"]) or not all_finite(*[s for s in st["state"] if s is not None]) \
                    or any(k_ != "ndarray" for k_ in st["kinds"]) \
                    or (script is None and min(len(s) for s in st["state"] if s is not None) < 4)   # (scripted programs run to their end: C02 speaks of series of 2 points too)
                if bad_state:
                    break   # nothing sensible can follow (the oracle judges this step)
        if twin is not None:
            caller_ok = np.array_equal(xin, cx) and np.array_equal(yin, cy)
            # (if the caller's arrays themselves were modified that is reported per step; the twin shares them by design)
            out["twin_changed"] = bool(caller_ok and snapshot(twin)["state"] != twin0)
        return out

    # ------------------------------------------------------------------ model side
    def coq_op(self, o, st):
        n = o["op"]
        if n == "append":
            return "OAppend %s" % cb(o["periodic"])
        if n in ("shift_x", "shift_y", "scale_x", "scale_y"):
            return "%s %s" % ({"shift_x": "OShiftX", "shift_y": "OShiftY", "scale_x": "OScaleX", "scale_y": "OScaleY"}[n], q(o["v"]))
        if n in ("normalize_x", "normalize_y"):
            return "%s %s %s" % ("ONormX" if n == "normalize_x" else "ONormY", q(o["lo"]), q(o["hi"]))
        if n == "repeat":
            return "ORepeat %s" % zlit(o["r"])
        if n == "truncate_by_value":
            return "OTruncVal %s %s %s %s" % (q(o["l"]), q(o["r"]), cb(o["lr"]), cb(o["rr"]))
        if n == "truncate_by_index":
            return "OTruncIdx %s %s" % (zlit(o["start"]), optz(o["stop"]))
        if n == "recreate":
            if o["strategy"] == "cubic":
                return "ORecreateOracle %s %s" % (nlit(o["n"]), qlist(st["state"][1] or []))
            stc, pw, gp = rfa_units.RfaUnit(()).coq_strategy(o)
            return "ORecreate %s (%s) (%s) %s" % (nlit(o["n"]), pw.replace("id", "fun t => t"), gp.replace("id", "fun t => t"), stc)
        if n == "integral_match":
            if "fixed_values" in o:
                mode = "(ByValues %s)" % qlist(o["fixed_values"])
            elif "fixed_indices" in o:
                mode = "(ByIndices %s)" % natlist(o["fixed_indices"])
            else:
                mode = "(ByStrategy %s)" % {"closest": "Closest", "lower": "Lower", "higher": "Higher"}.get(o.get("strategy", "closest"), "UnknownStrategy")
            rc = lambda r: {"trapezoid": "Trapezoid", "rectangle": "Rectangle"}.get(r, "UnknownRule")
            return "OMatch (pw_quarter %d) %s %s %s" % (round(4 * o["alpha"]), mode, rc(o["rt"]), rc(o["rr"]))
        if n == "interpolate":
            m = o["method"]
            if m in ("cubic", "spline") and "exc" not in st:
                ans = "(IOracle %s)" % qlist(st["state"][1] or [])
            else:
                ans = "(IOwn %s)" % {"linear": "MLinear", "constant": "MConstant", "cubic": "MCubic", "spline": "MSpline"}.get(m, "MUnknown")
            if "n" in o:
                return "OInterpN %s %s" % (zlit(o["n"]), ans)
            if "new_x" in o:
                return "OInterpGrid %s %s" % (qlist(o["new_x"]), ans)
            return "OInterpNone %s" % ans
        if n == "trend":
            return "OTrend %s %s" % (coq_poly(o["coef"]), cb(o["normalized"]))
        if n == "smooth":
            ans = o.get("_fitpack_answer")
            return "OSmooth %s" % qlist(ans if ans is not None else (st["state"][1] or []))
        if n == "noise":
            return "ONoise %s" % qlist(st["normal_call"]["draw"] if "normal_call" in st else [])
        if n == "restore":
            return "ORestore"
        raise AssertionError(n)

    def coq(self, c, o):
        if c.get("ctor") in ("3d", "3cols") or c.get("ctor") in CTOR_SHAPES:
            a_ = np.zeros((3, 2, 1)) if c["ctor"] == "3d" else np.zeros((3, 3)) if c["ctor"] == "3cols" else CTOR_SHAPES[c["ctor"]]()
            return "match from_2d %d %d [] [] with Raise e => %s | Ok _ => false end" % (
                a_.ndim, a_.shape[1] if a_.ndim >= 2 else 0,
                "exn_eqb e %s" % o["ctor"] if o["ctor"] else "false")
        X = "None" if c["x_none"] else "(Some %s)" % qlist(c["x"])
        if o["ctor"]:
            return "prog_ok %s %s (Some %s) []" % (X, qlist(c["y"]), o["ctor"])
        steps = []
        for st in o["steps"]:
            op = st["op"]
            if any(k != "ndarray" for k in st["kinds"]):
                return "false (* the model holds every field as an ndarray; the implementation holds %s *)" % st["kinds"]
            if any(s is None for s in st["state"]) or not all_finite(*st["state"]):
                break
            if op.get("harness_only") and st["state"] == st["before"]:
                continue
            if op["op"] in QUERY_OPS:
                r = "(OExn %s)" % st["exc"] if "exc" in st else "(OVal (%s, %s))" % (qlist(st["result"][0], qa), qlist(st["result"][1], qa))
                tolq = tol_for([v for s_ in st["state"][:2] for v in s_], rel=2.0 ** -26)
                if op["op"] == "slice_by_index":
                    steps.append("SQIdx %s %s %s %s %s" % (zlit(op["start"]), optz(op["stop"]), zlit(op["step"]), tolq, r))
                else:
                    steps.append("SQVal %s %s %s %s %s" % (optq(op["start"]), optq(op["stop"]), zlit(op["step"]), tolq, r))
                continue
            vals = [v for s in st["state"] for v in s] + [v for s in st["before"] if s for v in s]
            tol = tol_for(vals, rel=2.0 ** -26)
            if op["op"] == "integral_match" and op.get("alpha", 1.0) < 1 and "exc" not in st and st["before"][1] and len(st["before"][1]) == len(st["state"][1]):
                # conditioning (DESIGN 3.6, 12.23): t^alpha with alpha < 1 is not Lipschitz at the centre of a window — a centre that is a
                # sample in exact arithmetic and one ulp off in floats (or the other way round) moves the weight by (2^-50)^alpha,
                # times the displacement applied
                disp = max(abs(a_ - b_) for a_, b_ in zip(st["state"][1], st["before"][1]))
                tol = "(%s + %s)" % (tol, q(Fraction(8 * disp * (2.0 ** -50) ** op["alpha"])))
            e = "(Some %s)" % st["exc"] if "exc" in st else "None"
            steps.append("SOp (%s) %s %s [%s]" % (self.coq_op(op, st), e, tol, "; ".join(qlist(s, qa) for s in st["state"])))
        return "prog_ok %s %s None [%s]" % (X, qlist(c["y"]), ";\n ".join(steps))

    # ------------------------------------------------------------------ oracles
    def oracle(self, c, o):
        F = []

        def fail(prop, aspect, what, **sig):
            if prop in self.aspects:
                d = {"aspect": aspect}
                d.update(sig)
                F.append(Failure(aspect=aspect, what=what + " (program: x=%s y=%s ops=%s)" % (c["x"], c["y"], [s["op"] for s in o.get("steps", [])]), signature=d))

        if c.get("ctor"):
            if o["ctor"] != "ValueError":
                fail("C20", "rejection-ctor", "constructor accepted %s (outcome %s)" % (c["ctor"], o["ctor"]))
            return F
        if o["ctor"]:
            fail("C09", "ctor-raises", "constructor raised %s on valid data" % o["ctor"])
            return F
        if o.get("twin_changed"):
            fail("C09" if "C09" in self.aspects else sorted(self.aspects)[0], "twin-changed",
                 "a second Weaver built from the same data changed although only the first one was operated on")
        reshaped = False
        expect = [np.array(c["x"], dtype=float) if not c["x_none"] else np.arange(len(c["y"]), dtype=float), np.array(c["y"], dtype=float)]
        orig0 = [list(expect[0]), list(expect[1])]
        normed = False
        for i, st in enumerate(o["steps"]):
            op = st["op"]
            name = op["op"]
            S, B = st["state"], st["before"]
            # ---------- C20: rejected request
            if "invalid" in op:
                rp = "C20" if ("C20" in self.aspects or not self.invalid_kinds) else sorted(self.aspects)[0]
                if st.get("exc") != op.get("expect_exc", "ValueError"):
                    fail(rp, "rejection-" + op["invalid"], "step %d: invalid request %s gave %s, not %s" % (i, op, st.get("exc_msg") or "no exception", op.get("expect_exc", "ValueError")), cls=op["invalid"])
                elif S != B:
                    fail(rp, "rejected-but-changed", "step %d: rejected %s changed the object (the next operation works on a corrupted series)" % (i, op), cls=op["invalid"])
                continue
            if "exc" in st:
                if st["exc"] == "ValueError" and S != B:
                    fail("C20", "rejected-but-changed", "step %d: %s raised ValueError but changed the object" % (i, op))
                # (a valid request that is refused or crashes: for C09 in the general programs, for the unit's own property in the
                #  programs restricted to its operations — "interpolate(n) produces exactly n points" is not met by a StopIteration)
                fail("C09" if "C09" in self.aspects else sorted(self.aspects)[0], "valid-op-raises", "step %d: valid operation %s raised %s" % (i, op, st.get("exc_msg")), op=name)
                continue
            if name in QUERY_OPS:
                if S != B:
                    fail("C09", "query-mutates", "step %d: query %s changed the object" % (i, op))
                self.slice_oracle(op, st, B, fail, i)
                continue
            # ---------- C09: well-formedness
            if st["caller_changed"]:
                fail("C09", "caller-mutated", "step %d: %s modified the arrays handed in by the caller" % (i, op), op=name)
            if any(k != "ndarray" for k in st["kinds"][:2]) or st["ndim"][:2] != [1, 1]:
                fail("C09", "container", "step %d: after %s the series is held as %s (ndim %s)" % (i, op, st["kinds"][:2], st["ndim"][:2]), op=name)
                break
            if S[0] is None or S[1] is None or len(S[0]) != len(S[1]):
                fail("C09", "length", "step %d: after %s x and y have lengths %s/%s" % (i, op, S[0] and len(S[0]), S[1] and len(S[1])), op=name)
                break
            if not all_finite(S[0], S[1]):
                if not (name.startswith("normalize") and min(B[0 if name.endswith("x") else 1]) == max(B[0 if name.endswith("x") else 1])):
                    fail("C09", "finite", "step %d: non-finite values after %s" % (i, op), op=name)
                break
            if any(b <= a for a, b in zip(S[0][:-1], S[0][1:])):
                fail("C09", "sorted", "step %d: abscissae not strictly increasing after %s" % (i, op), op=name)
            if st.get("direct_equal") not in (None, True):
                recp = next((p_ for p_ in ("C06", "C05", "C04", "C09") if p_ in self.aspects), None)
                if recp:
                    fail(recp, "recreate-direct", "step %d: recreate_from_average(%s) differs from the strategy class called directly on the working series with the same options (%s)" % (
                        i, {k_: v_ for k_, v_ in op.items() if not k_.startswith("_") and k_ not in ("op", "omit")}, st["direct_equal"]), op=name)
            if st.get("fresh_differs"):
                fail("C09", "restore-behaviour", "step %d: after restore_original, %s on the restored object and on a new Weaver(get_original()) differ (%s)" % (i, {k_: v_ for k_, v_ in op.items() if not k_.startswith("_")}, st["fresh_differs"]), op=name)
            if name.startswith("normalize"):
                normed = True
            elif S[2] != B[2] or S[3] != B[3]:
                fail("C09", "original-changed", "step %d: %s changed the stored original" % (i, op), op=name)
            # ---------- C08: reference tracking
            if name in RESHAPE_OPS:
                reshaped = True
                if S[4] != B[4] or S[5] != B[5]:
                    fail("C08", "reference-changed-by-reshape", "step %d: reshaping operation %s altered the reference" % (i, op), op=name)
            elif name == "restore":
                reshaped = False
                if S[0] != S[2] or S[1] != S[3]:
                    fail("C09", "restore", "step %d: restore_original did not restore the working series" % i)
                if S[4] != S[2] or S[5] != S[3]:
                    fail("C09", "restore-reference", "step %d: after restore_original the reference is not the original (a new Weaver on get_original() would have it)" % i)
            elif not reshaped:
                if S[0] != S[4] or S[1] != S[5]:
                    fail("C08", "reference-diverged", "step %d: after domain operation %s working and reference series differ" % (i, op), op=name)
            self.op_oracle(op, st, B, S, fail, i)
        return F

    def slice_oracle(self, op, st, B, fail, i):
        x, y = B[0], B[1]
        if op["op"] == "slice_by_value":
            a, b = op["start"], op["stop"]
            if (a is not None and a not in x) or (b is not None and b not in x):
                if st.get("exc") != "ValueError":
                    fail("C20", "rejection-slice_value_absent", "step %d: slicing value that is not a sample gave %s" % (i, st.get("exc") or "a result"))
                return
            lo = a if a is not None else x[0]
            hi = b if b is not None else x[-1]
            if "exc" in st:
                fail("C11", "slice-by-value", "step %d: slice_by_value(%s, %s) raised %s: %s" % (i, a, b, st["exc"], st.get("exc_msg")))
                return
            idx = [k for k in range(len(x)) if lo <= x[k] <= hi][::op["step"]]
            if st["result"] != [[x[k] for k in idx], [y[k] for k in idx]]:
                fail("C11", "slice-by-value", "step %d: slice_by_value(%s, %s, %s) returned %s, samples in range are %s" % (i, a, b, op["step"], st["result"][0], [x[k] for k in idx]))
        else:
            n = len(x)
            stop = op["stop"] if op["stop"] is not None else n
            if op["start"] < 0 or stop > n:
                if st.get("exc") != "ValueError":
                    fail("C20", "rejection-index", "step %d: out-of-range index bounds gave %s" % (i, st.get("exc") or "a result"))
                return
            if "exc" in st:
                fail("C11", "slice-by-index", "step %d: slice_by_index%s raised %s" % (i, (op["start"], op["stop"], op["step"]), st["exc"]))
                return
            if st["result"] != [x[op["start"]:stop:op["step"]], y[op["start"]:stop:op["step"]]]:
                fail("C11", "slice-by-index", "step %d: slice_by_index disagrees with Python slicing" % i)

    def op_oracle(self, op, st, B, S, fail, i):
        name = op["op"]
        close = lambda a, b: len(a) == len(b) and (len(a) == 0 or float(np.max(np.abs(np.array(a) - np.array(b)))) <= 1e-9 * (1 + float(np.max(np.abs(np.array(b))))))
        # what each domain operation does is the subject of C11 / C12 / C14 / C17 — and of C08, which says that working and reference
        # series "equal the original with exactly those transformations applied": when the unit runs for C08 these oracles judge for it
        dom = lambda p: p if p in self.aspects else ("C02" if "C02" in self.aspects and "C08" not in self.aspects else "C08")      # (C02's pipeline names the append step)
        if name == "append":
            for kx, ky in ((0, 1), (4, 5)):
                x, y = B[kx], B[ky]
                if len(x) < 2:
                    continue
                if S[kx] != x + [x[-1] + (x[-1] - x[-2])] or S[ky] != y + [y[0] if op["periodic"] else y[-1]]:
                    fail(dom("C17"), "append", "step %d: append_one_sample(periodic=%s) of the %s series is not the series continued by its last step and its %s value"
                         % (i, op["periodic"], "working" if kx == 0 else "reference", "first" if op["periodic"] else "last"))
        elif name in ("normalize_x", "normalize_y"):
            k = 0 if name.endswith("x") else 1
            for kk in (k, 2 + k, 4 + k):
                v = B[kk]
                lo_, hi_ = min(v), max(v)
                if hi_ == lo_:
                    continue
                exp = [float(Fraction(op["lo"]) + (Fraction(a) - Fraction(lo_)) / (Fraction(hi_) - Fraction(lo_)) * (Fraction(op["hi"]) - Fraction(op["lo"]))) for a in v]
                if not close(S[kk], exp):
                    fail(dom("C14"), "normalize", "step %d: %s did not map the %s series affinely onto [%s, %s]" % (i, name, ("working", "original", "reference")[kk // 2], op["lo"], op["hi"]))
            if S[1 - k] != B[1 - k] or S[5 - k] != B[5 - k]:
                fail(dom("C14"), "normalize", "step %d: %s changed the other axis" % (i, name))
        elif name in ("shift_x", "shift_y", "scale_x", "scale_y"):
            k = 0 if name.endswith("x") else 1
            f = (lambda v: v + op["v"]) if name.startswith("shift") else (lambda v: v * op["v"])
            if S[k] != [f(v) for v in B[k]] or S[4 + k] != [f(v) for v in B[4 + k]] or S[1 - k] != B[1 - k] or S[5 - k] != B[5 - k]:
                fail(dom("C14"), "shift-scale", "step %d: %s is not the point-wise map on working and reference" % (i, op))
        elif name == "trend":
            f = poly(op["coef"])
            span = B[0][-1] - B[0][0]
            exp = [yi + f(xi / span if op["normalized"] else xi) for xi, yi in zip(B[0], B[1])]
            if S[0] != B[0] or not close(S[1], exp):
                fail("C14", "trend", "step %d: trend is not y_i + f(x_i)" % i)
        elif name == "truncate_by_index":
            stop = op["stop"] if op["stop"] is not None else len(B[0])
            if S[0] != B[0][op["start"]:stop] or S[1] != B[1][op["start"]:stop] or S[4] != B[4][op["start"]:stop]:
                fail(dom("C11"), "truncate-by-index", "step %d: truncate_by_index disagrees with Python slicing" % i)
        elif name == "truncate_by_value":
            for kx, ky in ((0, 1), (4, 5)):
                x, y = B[kx], B[ky]
                span = Fraction(x[-1]) - Fraction(x[0])
                l = Fraction(op["l"]) * span + Fraction(x[0]) if op["lr"] else Fraction(op["l"])
                r = Fraction(op["r"]) * span + Fraction(x[0]) if op["rr"] else Fraction(op["r"])
                lows = [k for k in range(len(x)) if x[k] <= l]
                highs = [k for k in range(len(x)) if x[k] >= r]
                a = max(lows) if lows else 0
                b = min(highs) if highs else len(x) - 1
                if S[kx] != x[a:b + 1] or S[ky] != y[a:b + 1]:
                    # C11 (the requested range) — and C08: the series are no longer the original "with exactly those transformations applied"
                    fail("C11" if "C11" in self.aspects else "C08", "truncate-by-value",
                         "step %d: %s series cut to %s, smallest covering run is %s" % (i, "working" if kx == 0 else "reference", S[kx], x[a:b + 1]))
        elif name == "repeat":
            r = op["r"]
            for kx, ky in ((0, 1), (4, 5)):
                x = B[kx]
                if len(x) < 2:
                    continue
                P = (x[-1] - x[0]) + (x[-1] - x[-2])
                exp = [x[j] + t * P for t in range(r) for j in range(len(x))]
                if not close(S[kx], exp) or S[ky] != B[ky] * r:
                    fail(dom("C12"), "repeat", "step %d: repeat(%d) of the %s series is not the periodic extension" % (i, r, "working" if kx == 0 else "reference"))
        elif name == "interpolate" and "exc" not in st:
            x = B[0]
            if "n" in op:
                n = op["n"]
                g = S[0]
                if len(g) != n or g[0] != x[0] or g[-1] != x[-1]:
                    fail("C13", "interp-grid", "step %d: interpolate(n=%d) produced %d points from %s to %s (range %s..%s)" % (i, n, len(g), g[0], g[-1], x[0], x[-1]))
                else:
                    d = (x[-1] - x[0]) / (n - 1)
                    if any(abs((b - a) - d) > 1e-9 * (abs(d) + abs(a)) for a, b in zip(g[:-1], g[1:])):
                        fail("C13", "interp-grid", "step %d: interpolate(n=%d) grid is not equally spaced" % (i, n))
            else:
                if S[0] != [float(v) for v in op["new_x"]]:
                    fail("C13", "interp-grid", "step %d: explicit grid not stored as given" % i)
            # values at original abscissae that are on the new grid
            tolv = 0.0 if op["method"] in ("linear", "constant") else 1e-7
            for xv, yv in zip(B[0], B[1]):
                if xv in S[0]:
                    got = S[1][S[0].index(xv)]
                    if abs(got - yv) > tolv * (1 + abs(yv)):
                        fail("C13", "interp-nodes", "step %d: %s interpolation at original abscissa %s gives %s, sample is %s" % (i, op["method"], xv, got, yv))
                        break
        elif name == "noise":
            call = st.get("normal_call")
            if S[0] != B[0] or len(S[1]) != len(B[1]):
                fail("C15", "noise-additive", "step %d: noise changed x or the length" % i)
            elif call is None:
                fail("C15", "noise-additive", "step %d: noise did not draw from numpy.random.normal" % i)
            else:
                d = np.array(call["draw"]).reshape(-1)
                if not close(S[1], (np.array(B[1]) + d).tolist()):
                    fail("C15", "noise-additive", "step %d: y' - y is not the drawn Gaussian term" % i)
                sp = float(np.mean(np.array(B[1]) ** 2))
                lin = 10 ** (op["snr"] / 10) if op["in_db"] else op["snr"]
                if lin > 0:
                    exp = (sp / lin) ** 0.5
                    sc = np.asarray(call["scale"], dtype=float).reshape(-1)
                    if call["loc"] != 0 or np.any(np.abs(sc - exp) > 1e-9 * (1 + exp)):
                        fail("C15", "noise-scale", "step %d: scale %s reached the generator, sqrt(mean(y^2)/SNR) = %s" % (i, call["scale"], exp))
        elif name == "smooth":
            if S[0] != B[0] or len(S[1]) != len(B[1]):
                fail("C16", "smooth-shape", "step %d: smoothing changed x or the length" % i)
            elif st.get("warned"):
                pass      # FITPACK reported non-convergence: discarded, not judged
            else:
                y = np.array(B[1])
                s = op["s"] if op["s"] is not None else len(y) * float(np.var(y))
                res = float(np.sum((np.array(S[1]) - y) ** 2))
                if res > s * 1.001 + 1e-9 * (1 + float(np.sum(y ** 2))):
                    fail("C16", "smooth-residual", "step %d: summed squared deviation %g exceeds s = %g" % (i, res, s))

    def key(self, c, o):
        return (tuple(c["x"]), tuple(c["y"]), str([s["op"] for s in o.get("steps", [])]), c.get("ctor"))

    def label(self, c, o):
        if o.get("ctor"):
            return "ctor:" + o["ctor"]
        return "len=%d" % len(o.get("steps", []))

    def op_histogram(self, results):
        h = {}
        for o in results:
            for st in o.get("steps", []):
                k = st["op"]["op"] + (":invalid" if "invalid" in st["op"] else "") + (":exc" if "exc" in st else "")
                h[k] = h.get(k, 0) + 1
        return h


# ------------------------------------------------------------------------------------------
class BigIntAbscissaeUnit(Unit):
    """C09 on integer abscissae beyond 2^53 held in an int64 array (epoch nanoseconds): neighbouring samples are different integers but the
    same double.  Construction, integer shifts, index truncation and restore_original only copy or add integers: the abscissae stay the
    integers they were (strictly increasing, original = the data handed in).  Oracle only: the observations are exact Python integers."""
    name = "weaver_bigint"

    def gen(self, rng, tier):
        cases = []
        for _ in range(6 if tier == "quick" else 40):
            m = rng.randint(5, 9)
            xs = [2 ** 53 + 1 + 2 * rng.randint(0, 1000)]
            for _k in range(m - 1):
                xs.append(xs[-1] + rng.choice([1, 1, 2, 3]))
            cases.append({"x": xs, "y": gens.values(rng, m), "shift": rng.choice([5, -3, 1]), "start": rng.randint(1, 2)})
        return cases

    def run(self, c):
        from traffic_weaver import Weaver
        x = np.array(c["x"], dtype=np.int64)
        y = np.array(c["y"], dtype=float)
        out = {}

        def ints(a):
            a = np.asarray(a)
            return [int(v) for v in a.tolist()] if a.dtype.kind in "iu" else [float(v) for v in a.tolist()]
        try:
            w = Weaver(x, y)
            out["ctor"] = ints(w.get()[0])
            out["orig"] = ints(w.get_original()[0])
            w.shift_x(c["shift"])
            out["shifted"] = ints(w.get()[0])
            w.truncate_by_index(c["start"])
            out["cut"] = ints(w.get()[0])
            w.restore_original()
            out["restored"] = ints(w.get()[0])
            out["caller_changed"] = bool(x.tolist() != c["x"])
        except Exception as e:
            out["exc"] = exn_name(e)
            out["exc_msg"] = str(e)[:160]
        return out

    def coq(self, c, o):
        return None

    def oracle(self, c, o):
        F = []

        def fail(aspect, what):
            F.append(Failure(aspect=aspect, what="%s (int64 abscissae %s)" % (what, c["x"]), signature={"aspect": aspect}))
        if "exc" in o:
            fail("valid-op-raises", "a valid operation raised %s" % o.get("exc_msg"))
            return F
        x = c["x"]
        exp = {"ctor": x, "orig": x, "shifted": [v + c["shift"] for v in x], "cut": [v + c["shift"] for v in x][c["start"]:], "restored": x}
        for k in ("ctor", "orig", "shifted", "cut", "restored"):
            got = o[k]
            if any(b <= a for a, b in zip(got[:-1], got[1:])):
                fail("sorted", "abscissae not strictly increasing after %s: %s" % (k, got))
            elif [Fraction(v) for v in got] != [Fraction(v) for v in exp[k]]:
                fail("original-changed" if k in ("orig", "restored") else "abscissae-changed", "after %s the abscissae are %s, expected %s" % (k, got, exp[k]))
        if o.get("caller_changed"):
            fail("caller-mutated", "the caller's array was modified")
        return F

    def label(self, c, o):
        return "bigint:%d" % len(c["x"])
