"""C02 — recreate + match preserves every original average (averaging round trip)."""
import os
from fractions import Fraction

import numpy as np

from tools.harness import gens
from tools.harness.core import Property, Failure, REPO
from tools.props import rfa_units
from tools.props.weaver_units import WeaverUnit


def bundled():
    d = os.path.join(REPO, "src", "traffic_weaver", "datasets", "data", "sandvine")
    out = []
    if os.path.isdir(d):
        for f in sorted(os.listdir(d)):
            if f.endswith(".csv"):
                try:
                    a = np.loadtxt(os.path.join(d, f), delimiter=",", dtype=float)
                    out.append((f, a[:, 0].tolist(), a[:, 1].tolist()))
                except Exception:
                    pass
    return out


class PipelineUnit(WeaverUnit):
    name = "pipeline"

    def __init__(self):
        super().__init__(("C02",), queries=False)

    def gen(self, rng, tier):
        cases = []
        k = 12 if tier == "quick" else 150
        mk = rfa_units.RfaUnit(()).mk

        def prog(x, y, s, n, periodic, rt, tag=None, m_for_mk=3):
            c = mk(rng, s, m=m_for_mk, n=n)
            rec = {kk: v for kk, v in c.items() if kk not in ("x", "y", "int_x")}
            rec["op"] = "recreate"
            if s == "function":
                rec["coef"] = [0.5, 1.0]
                rec["fn_kind"] = "poly"
                if max(abs(v) for v in x) >= 2.0 ** 20:
                    # margin (DESIGN 3.6): on abscissae of order 1e9 the sampling function 0.5 + t has values of order 1e9, and matching
                    # them down to averages of order 1 multiplies the 1e-7 relative resolution of the abscissae by 1e9 — the result is
                    # right to about 1e2 only, in the implementation and in any other float computation. A bounded function there.
                    rec["coef"] = [0.5]
            script = ([{"op": "append", "periodic": periodic}] if periodic is not None else []) + [
                rec, {"op": "integral_match", "rt": rt, "rr": "rectangle", "alpha": rng.choice([1.0, 1.0, 2.0, 0.5])}]
            return {"x": x, "y": y, "script": script, "seed": rng.randrange(1 << 30), "len": len(script), "pool": [], "as_list": False,
                    "int_x": False, "x_none": False, "invalid": False, "tag": tag}
        for s in rfa_units.STRATS:
            for _ in range(k):
                m = rng.randint(2, 10) if tier == "quick" or rng.random() < 0.8 else rng.randint(11, 60)
                n = rng.choice([2, 3, 4, 5, 8]) if tier == "quick" or rng.random() < 0.8 else rng.randint(2, 64)
                if (m - 1) * n > 600:
                    n = 4
                if s == "cubic" and m < 3:
                    m = 3
                yk = "burst" if (s not in ("cubic", "linadapt", "expadapt") and m >= 4 and rng.random() < 0.15) else None
                # (burst: one or two huge averages followed by small non-dyadic ones — every later interval is still matched to
                #  its own average with local accuracy; the cubic spline is global and the adaptive splits need exact ratios)
                c = prog(gens.sorted_x(rng, m), gens.values(rng, m, yk), s, n, rng.choice([None, None, True, False]), rng.choice(["trapezoid", "rectangle"]))
                if c["script"][-2]["strategy"] in ("linadapt", "expadapt"):
                    chk = dict(c["script"][-2]); chk["x"], chk["y"] = c["x"], c["y"]
                    if c["script"][0]["op"] == "append":
                        chk["y"] = c["y"] + [c["y"][0] if c["script"][0]["periodic"] else c["y"][-1]]
                    if not rfa_units.adaptive_windows_exact(chk)[2]:
                        continue
                cases.append(c)
        # a burst of huge averages followed by small non-dyadic ones, every run (every later interval is matched to its own average
        # with local accuracy — running totals must not leak into it)
        for s in ("pc", "linfixed", "expfixed", "function"):
            m = rng.randint(5, 9)
            c = prog(gens.sorted_x(rng, m), gens.values(rng, m, "burst"), s, rng.choice([2, 4, 8]), rng.choice([None, True]), rng.choice(["trapezoid", "rectangle"]), m_for_mk=m)
            cases.append(c)
        # the shortest series the property names — two points, one interval — for every strategy and both target rules, without the
        # append_one_sample step (with it the series has two intervals)
        for s in rfa_units.STRATS:
            if s == "cubic":
                continue
            for rt in ("trapezoid", "rectangle"):
                c = prog(gens.sorted_x(rng, 2), gens.values(rng, 2, "int"), s, rng.choice([3, 4, 8]), None, rt, m_for_mk=2)
                c["via_2d"] = rt == "rectangle"        # (half of them through Weaver.from_2d_array: a (2, 2) table of (x, y) rows)
                if c["script"][-2]["strategy"] in ("linadapt", "expadapt"):
                    chk = dict(c["script"][-2]); chk["x"], chk["y"] = c["x"], c["y"]
                    if not rfa_units.adaptive_windows_exact(chk)[2]:
                        continue
                cases.append(c)
        # a profile that ends at the level it started (y[-1] == y[0]) with the documented periodic append: the appended interval exists
        # and carries the average y[-1] like any other
        for s in rfa_units.STRATS:
            m = rng.randint(4, 7)
            ys_ = gens.values(rng, m, "int")
            ys_[-1] = ys_[0]
            c = prog(gens.sorted_x(rng, m), ys_, s, rng.choice([2, 4, 8]), True, rng.choice(["trapezoid", "rectangle"]), m_for_mk=m)
            if c["script"][-2]["strategy"] in ("linadapt", "expadapt"):
                chk = dict(c["script"][-2]); chk["x"], chk["y"] = c["x"], c["y"] + [c["y"][0]]
                if not rfa_units.adaptive_windows_exact(chk)[2]:
                    continue
            cases.append(c)
        # a refused recreate request (a factor below 2, fractional or not) on the same object first: the refusal leaves nothing behind,
        # the pipeline that follows is the one a fresh object would run
        for i, s in enumerate(rfa_units.STRATS):
            m = rng.randint(3, 6)
            c = prog(gens.sorted_x(rng, m), gens.values(rng, m, "int"), s, rng.choice([2, 4]), rng.choice([None, True]), rng.choice(["trapezoid", "rectangle"]), m_for_mk=m)
            if c["script"][-2]["strategy"] in ("linadapt", "expadapt"):
                chk = dict(c["script"][-2]); chk["x"], chk["y"] = c["x"], c["y"] + ([c["y"][0]] if c["script"][0]["op"] == "append" else [])
                if not rfa_units.adaptive_windows_exact(chk)[2]:
                    continue
            bad = dict(c["script"][-2]); bad["n"] = [1.5, 1.75, 1, 0, -3, 1.5][i % 6]; bad["invalid"] = "n_below_2"
            if s in ("linfixed", "cubic"):
                # ... or refused by Python itself: a keyword this strategy does not take, left over from another one (TypeError)
                bad = dict(c["script"][-2]); bad.update({"invalid": "recreate_kwarg", "extra_kw": {"beta": 0.5}, "harness_only": True, "expect_exc": "TypeError"})
            c["script"].insert(len(c["script"]) - 2, bad)
            c["len"] = len(c["script"])
            cases.append(c)
        for c_ in cases:
            if "via_2d" not in c_ and rng.random() < 0.15:
                c_["via_2d"] = True       # the series handed in as one (N, 2) table through Weaver.from_2d_array
        # every bundled dataset (model comparison is skipped for them in the quick tier: long series)
        for name, bx, by in bundled():
            s = rng.choice(["expadapt", "linfixed", "pc", "expfixed", "linadapt"])
            c = prog(bx, by, s, rng.choice([2, 4]), True, rng.choice(["trapezoid", "rectangle"]), tag="bundled:" + name)
            c["script"][-2].update({"alpha": 1.0, "a": None, "beta": 0.5, "exp": 2.0, "smooth": 1.0})
            cases.append(c)
        return cases

    def coq(self, c, o):
        if c.get("tag") and len(c["x"]) > 40:
            return None
        return super().coq(c, o)

    def oracle(self, c, o):
        F = super().oracle(c, o)
        steps = o.get("steps", [])
        raised = [s_ for s_ in steps if "exc" in s_ and "invalid" not in s_["op"]]
        if o.get("ctor") or not steps or raised or steps[-1]["op"]["op"] != "integral_match":
            if raised:       # any step of the valid pipeline, not only the last one
                F.append(Failure(aspect="pipeline-raises", what="%s of the recreate + match pipeline raised %s (x=%s y=%s script=%s)" % (
                    raised[0]["op"]["op"], raised[0].get("exc_msg"), c["x"], c["y"], c["script"]), signature={"aspect": "pipeline-raises"}))
            return F
        st = steps[-1]
        n = steps[-2]["op"]["n"]
        xs, ys = st["state"][0], st["state"][1]
        rx, ry = st["state"][4], st["state"][5]
        rt = st["op"]["rt"]
        m = len(rx)
        if len(xs) != (m - 1) * n + 1:
            return F
        # conditioning of the matching step: the stretch profile is computed from differences of the abscissae, known only to
        # ulp(|x|) / spacing in relative terms, and is multiplied by the displacement D the matching applies. With epoch-second abscissae
        # and a sampling function whose values are of the order of the abscissae themselves (1.7e9) matched down to averages of order 1,
        # that is 1.7e9 * 1e-7: "up to rounding" is relative to what was moved
        before = steps[-2]["state"][1]
        disp = float(np.max(np.abs(np.array(before, dtype=float) - np.array(ys, dtype=float)))) if before is not None and len(before) == len(ys) else 0.0
        cond = float(np.spacing(np.max(np.abs(xs))) / np.min(np.diff(xs)))
        slack = 16 * cond * disp
        for k in range(m - 1):
            bx = [Fraction(v) for v in xs[k * n:(k + 1) * n + 1]]
            by = [Fraction(v) for v in ys[k * n:(k + 1) * n + 1]]
            if rt == "trapezoid":
                integ = sum((by[i] + by[i + 1]) / 2 * (bx[i + 1] - bx[i]) for i in range(n))
            else:
                integ = sum(by[i] * (bx[i + 1] - bx[i]) for i in range(n))
            w = Fraction(rx[k + 1]) - Fraction(rx[k])
            mean = integ / w
            scale = 1 + abs(Fraction(ry[k])) + max(abs(v) for v in by)
            # (the conditioning term is local, like the matching itself: what was moved IN THIS interval)
            slack_k = slack
            if before is not None and len(before) == len(ys):
                slack_k = 16 * cond * float(np.max(np.abs(np.array(before[k * n:(k + 1) * n + 1], dtype=float) - np.array(ys[k * n:(k + 1) * n + 1], dtype=float))))
            if abs(mean - Fraction(ry[k])) > Fraction(1, 10 ** 8) * scale + Fraction(slack_k):
                F.append(Failure(aspect="block-mean", what="interval %d: %s mean of the matched series is %.12g, original average is %.12g (strategy %s n=%d; x=%s y=%s)" % (
                    k, rt, float(mean), ry[k], steps[-2]["op"].get("strategy"), n, c["x"][:12], c["y"][:12]), signature={"aspect": "block-mean", "rt": rt}))
                break
        if rt == "rectangle":
            from traffic_weaver.process import average
            ax, ay = average(np.array(xs), np.array(ys), n)
            if ax.tolist() != rx:
                F.append(Failure(aspect="average-x", what="block averaging does not return the original abscissae exactly", signature={"aspect": "average-x"}))
            elif np.max(np.abs(ay[:m - 1] - np.array(ry[:m - 1]))) > 1e-8 * (1 + np.max(np.abs(ry))) + 1e-13 * np.max(np.abs(ys)) + slack:
                # (second term: the recreated samples themselves may be huge next to their averages — a sampling function evaluated at
                #  epoch-second abscissae — and their mean is then only known to about eps * max|ys|)
                F.append(Failure(aspect="average-y", what="block averages %s differ from the original averages %s" % (ay[:m - 1].tolist()[:8], ry[:m - 1][:8]), signature={"aspect": "average-y"}))
        return F

    def label(self, c, o):
        s = [st["op"] for st in o.get("steps", []) if st["op"]["op"] == "recreate"]
        return (s[0]["strategy"] if s else "?") + (":bundled" if c.get("tag") else "")


class P(Property):
    id = "C02"
    gen_targets = ["Funfit", "Bundled", "Registry", "DocTables"]

    def units(self, tier):
        return [PipelineUnit()]


PROPERTY = P()
