"""C20 — invalid requests are refused with ValueError and leave the Weaver untouched."""
from tools.harness.core import Property
from tools.props.weaver_units import WeaverUnit
from tools.props.match_units import MatchUnit


class InvalidUnit(WeaverUnit):
    name = "weaver_invalid"


class P(Property):
    id = "C20"
    gen_targets = ["Funfit"]

    def units(self, tier):
        return [InvalidUnit(("C20",), max_len=6, invalid=True), MatchUnit(("C20",))]


PROPERTY = P()
