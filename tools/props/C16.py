"""C16 — smoothing and the spline function respect the smoothing condition."""
from tools.harness.core import Property
from tools.props.lib_args_units import SmoothArgsUnit
from tools.props.weaver_units import WeaverUnit


class SmoothProgUnit(WeaverUnit):
    name = "weaver_smooth"


class P(Property):
    id = "C16"
    gen_targets = ["Funfit", "Defaults", "Kernels"]
    assumptions = ["FITPACK honouring the smoothing condition s is an oracle contract (spot-checked by the oracle, runs where it warns of non-convergence are discarded)"]

    def units(self, tier):
        return [SmoothArgsUnit(), SmoothProgUnit(("C16",), ops=["smooth", "smooth", "append", "append", "shift_y", "scale_y", "scale_y", "scale_x", "interpolate", "repeat", "restore"], max_len=5, queries=False)]


PROPERTY = P()
