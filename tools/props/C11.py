"""C11 — truncation and slicing select exactly the requested range."""
from tools.harness.core import Property
from tools.props.proc_units import TruncateUnit


class C11(Property):
    id = "C11"

    def units(self, tier):
        return [TruncateUnit()]


PROPERTY = C11()
