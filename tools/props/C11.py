"""C11 — truncation and slicing select exactly the requested range."""
from tools.harness.core import Property
from tools.props.weaver_units import WeaverUnit
from tools.props.proc_units import TruncateUnit


class WC11(WeaverUnit):
    name = "weaver_c11"


class C11(Property):
    id = "C11"
    gen_targets = ["Funfit", "Kernels", "WeaverGlue", "ProcessGlue"]

    def units(self, tier):
        return [TruncateUnit(), WC11(("C11",), ops=['truncate_by_value','truncate_by_value','truncate_by_index','truncate_by_index','shift_x','scale_x','recreate','append','interpolate'], max_len=6, queries=True)]


PROPERTY = C11()
