"""C08, last sentence: shifting or scaling commutes with the recreate + match pipeline (through the Weaver).
Oracle-only unit: two real runs per case — transformation first, pipeline first — compared sample by sample.
Exactly representable maps (power-of-two scales, integer shifts of integer-valued series) so that the integer window sizes
of the adaptive strategies are the same on both sides and the comparison can be tight (cf. the quantifier of C07)."""
import warnings

import numpy as np

from tools.harness.core import Unit, Failure, exn_name
from tools.harness import gens
from tools.props.rfa_units import cls_of, kwargs_of, RfaUnit, adaptive_windows_exact

MAPS = ([("scale_y", 2.0 ** k) for k in (-30, -30, -20, -1, 1, 3, 12, 20)] + [("scale_y", -2.0), ("scale_y", -(2.0 ** -30))] +
        [("shift_y", float(b)) for b in (-3, 1, 5, 2 ** 20, -(2 ** 22))] +
        [("scale_x", 2.0 ** k) for k in (-20, -1, 2, 10)] + [("shift_x", float(d)) for d in (-4, 3, 1000)])


class CommuteUnit(Unit):
    name = "weaver_commute"
    case_timeout = 30

    def gen(self, rng, tier):
        base = RfaUnit(())
        cases = []
        k = 120 if tier == "quick" else 1500
        while len(cases) < k:
            s = rng.choice(["pc", "linfixed", "linadapt", "expfixed", "expadapt", "linadapt", "expadapt"])
            m = rng.choice([3, 4, 5, 6, 8])
            c = base.mk(rng, s, m=m)
            c["x"] = [float(v) for v in sorted(rng.sample(range(-6, 30), m))]
            c["y"] = [float(rng.randint(-8, 8)) for _ in range(m)]
            if c.get("a") is not None and c["a"] > c["n"]:
                c["a"] = int(c["n"])
            if c.get("alpha") is not None and c["alpha"] > 1:
                c["alpha"] = 1.0
            c["map"] = list(rng.choice(MAPS))
            c["rt"] = rng.choice(["trapezoid", "rectangle"])
            c["rr"] = rng.choice(["rectangle", "trapezoid"])
            c["append"] = rng.random() < 0.5
            if s in ("linadapt", "expadapt") and not adaptive_windows_exact(c)[2]:
                continue
            cases.append(c)
        # a shift that moves an interior (or the last) sample to exactly 0.0 — every run, every non-adaptive strategy: an abscissa of
        # 0.0 is an abscissa like any other (it is falsy in Python)
        for s in ("pc", "linfixed", "expfixed"):
            for _ in range(3):
                m = rng.choice([4, 5, 6])
                c = base.mk(rng, s, m=m)
                c["x"] = [float(v) for v in sorted(rng.sample(range(1, 30), m))]
                c["y"] = [float(rng.randint(-8, 8)) for _ in range(m)]
                if c.get("a") is not None and c["a"] > c["n"]:
                    c["a"] = int(c["n"])
                if c.get("alpha") is not None and c["alpha"] > 1:
                    c["alpha"] = 1.0
                c["map"] = ["shift_x", -c["x"][rng.randint(1, m - 1)]]
                c["rt"] = rng.choice(["trapezoid", "rectangle"])
                c["rr"] = rng.choice(["rectangle", "trapezoid"])
                c["append"] = rng.random() < 0.5
                cases.append(c)
        return cases

    def pipeline(self, c, first):
        from traffic_weaver import Weaver
        w = Weaver(np.array(c["x"], dtype=float), np.array(c["y"], dtype=float))
        op, v = c["map"]
        if c["append"]:
            w.append_one_sample(make_periodic=False)
        if first:
            getattr(w, op)(v)
        w.recreate_from_average(int(c["n"]), cls_of(c["strategy"]), **kwargs_of(c))
        w.integral_match(target_function_integral_method=c["rt"], reference_function_integral_method=c["rr"])
        if not first:
            getattr(w, op)(v)
        x, y = w.get()
        rx, ry = w.get_reference()
        return [np.asarray(a, dtype=float).tolist() for a in (x, y, rx, ry)]

    def run(self, c):
        with warnings.catch_warnings():
            warnings.simplefilter("ignore")
            try:
                return {"first": self.pipeline(c, True), "after": self.pipeline(c, False)}
            except Exception as e:
                return {"exc": exn_name(e), "exc_msg": str(e)[:200]}

    def oracle(self, c, o):
        if "exc" in o:
            return [Failure(aspect="commute-raises", what="pipeline raised %s: %s (case %s)" % (o["exc"], o.get("exc_msg"), c),
                            signature={"aspect": "commute-raises"})]
        F = []
        names = ["working x", "working y", "reference x", "reference y"]
        for nm, a, b in zip(names, o["first"], o["after"]):
            if len(a) != len(b):
                F.append(Failure(aspect="commute", what="%s: lengths %d / %d (case %s)" % (nm, len(a), len(b), c), signature={"aspect": "commute", "map": c["map"][0]}))
                break
            if not a:
                continue
            spread = max(b) - min(b)
            tol = 2.0 ** -30 * (spread if spread > 0 else max(abs(v) for v in b) or 1.0) + 2.0 ** -44 * max(abs(v) for v in b)
            bad = [i for i, (u, v) in enumerate(zip(a, b)) if abs(u - v) > tol]
            if bad:
                i = bad[0]
                F.append(Failure(aspect="commute", what="%s(%r) before recreate+match gives %s[%d] = %r, after it %r (strategy %s n=%s params=%s x=%s y=%s rules=%s/%s append=%s)" % (
                    c["map"][0], c["map"][1], nm, i, a[i], b[i], c["strategy"], c["n"], kwargs_of(c), c["x"], c["y"], c["rt"], c["rr"], c["append"]),
                    signature={"aspect": "commute", "map": c["map"][0]}))
                break
        return F

    def label(self, c, o):
        return "%s:%s" % (c["map"][0], c["strategy"])
