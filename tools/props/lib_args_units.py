"""C15 / C16: what the repository hands to NumPy's generator and to FITPACK (argument recorders), and what it does
with what comes back."""
import math
import warnings
from fractions import Fraction

import numpy as np

from tools.harness import gens
from tools.harness.core import Unit, Failure, q, qa, qlist, exn_name, tol_for, all_finite


class NoiseArgsUnit(Unit):
    name = "noise_args"
    imports = ["Model.Process"]
    preamble = """
Definition rel_close (a b : Qc) : bool := Qc_leb (Qc_abs (a - b)) (Q2Qc (1 # 1000000000) * (1 + Qc_abs b)).
"""

    def gen(self, rng, tier):
        cases = []
        k = 150 if tier == "quick" else 1500
        for _ in range(k):
            n = rng.randint(1, 30)
            a = gens.values(rng, n, rng.choice(["dyadic", "int", "big", "dyadic"]))
            if all(v == 0 for v in a):
                a[0] = 1.0
            mode = rng.choice(["db", "db", "lin", "std", "db_array", "lin_array"])
            c = {"a": a, "mode": mode, "list_input": rng.random() < 0.2}
            if mode == "db":
                c["snr"] = float(rng.choice([0, 10, 20, 30, -10, 40]))
            elif mode == "lin":
                c["snr"] = rng.choice([1.0, 2.0, 4.0, 10.0, 0.5, 100.0, 3.0])
            elif mode == "std":
                c["std"] = rng.choice([1.0, 0.5, 2.0, 0.0])
            elif mode == "db_array":
                c["snr"] = [float(rng.choice([0, 10, 20, -10])) for _ in range(n)]
            else:
                c["snr"] = [rng.choice([1.0, 2.0, 4.0, 0.5]) for _ in range(n)]
            if mode != "std" and rng.random() < 0.3:
                c["also_std"] = rng.choice([3.0, 1.0, 0.25, 0.0])
            if mode == "db" and rng.random() < 0.4:
                # an earlier call in this process with the same scalar snr and a flag that EQUALS True without being it (1, np.True_:
                # the linear branch, by the `is True` test): the decibel call that follows is decided on its own arguments
                c["earlier_flag"] = rng.choice(["int1", "np_true"])     # "the given std when NO SNR is given": with an snr, std plays no part
            cases.append(c)
        # a per-sample snr / std given as a ONE-element array-like for a longer signal (np.atleast_1d(cfg), a one-row column): it
        # broadcasts — every sample gets its own draw with that scale (size is the signal's shape, not the scale's)
        for _ in range(12 if tier == "quick" else 60):
            n = rng.randint(2, 12)
            a = gens.values(rng, n, rng.choice(["dyadic", "int"]))
            if all(v == 0 for v in a):
                a[0] = 1.0
            mode = rng.choice(["db_array", "lin_array", "std"])
            c = {"a": a, "mode": mode, "list_input": rng.random() < 0.4}
            if mode == "db_array":
                c["snr"] = [float(rng.choice([0, 10, 20, -10]))]
            elif mode == "lin_array":
                c["snr"] = [rng.choice([1.0, 2.0, 4.0, 0.5])]
            else:
                c["std"] = rng.choice([1.0, 0.5, 2.0])
                c["std_array"] = True
            cases.append(c)
        # integer-typed signals whose squares are large (still exact in int64 and in float64 sums)
        for vals in ([3000000000, -3000000000, 1, 2], [2 ** 31, 2 ** 31, -(2 ** 31)], [10 ** 9] * 12):
            cases.append({"a": [float(v) for v in vals], "mode": "lin", "snr": 4.0, "list_input": False, "int64": True})
            cases.append({"a": [float(v) for v in vals], "mode": "db", "snr": 20.0, "list_input": False, "int64": True})
        return cases

    def run(self, c):
        import traffic_weaver.process as P
        calls = []
        old = np.random.normal

        def rec(loc=0.0, scale=1.0, size=None):
            d = np.full(size, 0.25) if size is not None else 0.25
            calls.append({"loc": loc, "scale": np.asarray(scale, dtype=float).reshape(-1).tolist(), "size": list(size) if size is not None else None})
            return d
        a = list(c["a"]) if c["list_input"] else np.array(c["a"], dtype=float)
        if c.get("int64"):
            a = np.array([int(v) for v in c["a"]], dtype=np.int64)
        a0 = np.array(c["a"], dtype=float)
        snr = c.get("snr")
        if isinstance(snr, list) and not c["list_input"]:
            snr = np.array(snr, dtype=float)       # the caller's own per-sample array
        snr0 = np.array(snr, dtype=float).copy() if snr is not None else None
        np.random.normal = rec
        try:
            with warnings.catch_warnings():
                warnings.simplefilter("ignore")
                if c["mode"] == "std":
                    r = P.noise_gauss(a, std=(np.array([c["std"]]) if c.get("std_array") and not c["list_input"] else [c["std"]] if c.get("std_array") else c["std"]))
                else:
                    kw_ = {"std": c["also_std"]} if "also_std" in c else {}
                    if c.get("earlier_flag"):
                        P.noise_gauss(a, snr=snr, snr_in_db=1 if c["earlier_flag"] == "int1" else np.True_)
                        del calls[:]
                    r = P.noise_gauss(a, snr=snr, snr_in_db=c["mode"].startswith("db"), **kw_)
                    P.noise_gauss(a, snr=snr, snr_in_db=c["mode"].startswith("db"), **kw_)     # same arguments again: same scale expected
            return {"out": np.asarray(r, dtype=float).reshape(-1).tolist(), "out_shape": list(np.shape(r)), "calls": calls[:1], "second": calls[1:],
                    "input_changed": not np.array_equal(np.asarray(a, dtype=float), a0) or (snr0 is not None and not np.array_equal(np.asarray(snr, dtype=float), snr0))}
        except Exception as e:
            return {"exc": exn_name(e), "exc_msg": str(e)[:100]}
        finally:
            np.random.normal = old

    def lin(self, c):
        if c["mode"] in ("db", "db_array"):
            s = c["snr"] if isinstance(c["snr"], list) else [c["snr"]]
            return [Fraction(10) ** int(v // 10) for v in s]
        s = c["snr"] if isinstance(c["snr"], list) else [c["snr"]]
        return [Fraction(v) for v in s]

    def coq(self, c, o):
        if "exc" in o or len(o["calls"]) != 1:
            return "false"
        sc = o["calls"][0]["scale"]
        if c["mode"] == "std":
            return "Qc_eqb %s %s" % (q(c["std"]), q(sc[0]))
        lins = self.lin(c)
        parts = []
        for s_, l in zip(sc, lins):
            parts.append("rel_close (%s * %s) (noise_var %s %s)" % (qa(s_, 60), qa(s_, 60), qlist(c["a"]), q(l)))
        return " && ".join(parts) if parts else "false"

    def oracle(self, c, o):
        F = []

        def fail(aspect, what):
            F.append(Failure(aspect=aspect, what="noise_gauss: %s (a=%s mode=%s snr=%s)" % (what, c["a"][:8], c["mode"], c.get("snr")), signature={"aspect": aspect}))
        if "exc" in o:
            fail("raises", o["exc_msg"])
            return F
        if o.get("out_shape") != [len(c["a"])]:
            fail("shape", "the result has shape %s for a signal of %d samples" % (o.get("out_shape"), len(c["a"])))
            return F
        if len(o["calls"]) != 1:
            fail("generator-calls", "numpy.random.normal was called %d times" % len(o["calls"]))
            return F
        call = o["calls"][0]
        a = np.array(c["a"], dtype=float)
        if o["input_changed"]:
            fail("input-mutated", "an array handed in by the caller (signal or per-sample snr) was modified")
        if o.get("second") and o["second"][0]["scale"] != call["scale"]:
            fail("reproducible", "the same call repeated with the same arguments uses another scale: %s then %s" % (call["scale"][:4], o["second"][0]["scale"][:4]))
        if call["loc"] != 0:
            fail("zero-mean", "noise drawn with loc=%s" % call["loc"])
        if call["size"] != [len(a)]:
            fail("shape", "noise drawn with size %s for a signal of %d samples" % (call["size"], len(a)))
        if len(o["out"]) != len(a) or not np.allclose(np.array(o["out"]) - a, 0.25, atol=1e-12):
            fail("additive", "result is not signal + draw")
        sp = float(np.mean(a ** 2))
        if c["mode"] == "std":
            exp = [c["std"]]
        else:
            lin = [10 ** (v / 10) for v in (c["snr"] if isinstance(c["snr"], list) else [c["snr"]])] if c["mode"].startswith("db") else \
                (c["snr"] if isinstance(c["snr"], list) else [c["snr"]])
            exp = [math.sqrt(sp / l) for l in lin]
        sc = call["scale"]
        if len(sc) != len(exp) or any(abs(s_ - e) > 1e-9 * (1 + abs(e)) for s_, e in zip(sc, exp)):
            fail("scale", "scale %s reached the generator, sqrt(mean(y^2)/SNR) is %s" % (sc[:6], exp[:6]))
        return F

    def label(self, c, o):
        return c["mode"]


class NoiseStatUnit(Unit):
    """thorough only: reproducibility under a seed and empirical SNR of a long series (tests of NumPy's generator path)"""
    name = "noise_statistics"

    def gen(self, rng, tier):
        if tier == "quick":
            return [{"seed": 1, "n": 20000, "snr": 10.0}]
        return [{"seed": s, "n": 200000, "snr": snr} for s in (1, 2, 3) for snr in (0.0, 10.0, 20.0)]

    def run(self, c):
        import traffic_weaver.process as P
        t = np.linspace(0, 50, c["n"])
        a = 3 * np.sin(t) + 0.5 * np.cos(7 * t) - 1.0
        np.random.seed(c["seed"])
        r1 = P.noise_gauss(a, snr=c["snr"])
        np.random.seed(c["seed"])
        r2 = P.noise_gauss(a, snr=c["snr"])
        nz = r1 - a
        return {"repro": bool(np.array_equal(r1, r2)), "emp_snr_db": float(10 * np.log10(np.mean(a ** 2) / np.mean(nz ** 2))), "mean": float(np.mean(nz)),
                "std": float(np.std(nz)), "sp": float(np.mean(a ** 2))}

    def oracle(self, c, o):
        F = []
        if not o["repro"]:
            F.append(Failure(aspect="reproducible", what="same NumPy seed gave different noise", signature={"aspect": "reproducible"}))
        if abs(o["emp_snr_db"] - c["snr"]) > 0.2:
            F.append(Failure(aspect="empirical-snr", what="empirical SNR %.3f dB for requested %.1f dB (n=%d)" % (o["emp_snr_db"], c["snr"], c["n"]), signature={"aspect": "empirical-snr"}))
        if abs(o["mean"]) > 5 * o["std"] / math.sqrt(c["n"]):
            F.append(Failure(aspect="zero-mean", what="noise mean %.4g is not compatible with zero (std %.4g, n %d)" % (o["mean"], o["std"], c["n"]), signature={"aspect": "zero-mean"}))
        return F


class SmoothArgsUnit(Unit):
    name = "smooth_args"
    imports = ["Model.Process"]
    preamble = """
Definition rel_close (a b : Qc) : bool := Qc_leb (Qc_abs (a - b)) (Q2Qc (1 # 100000000) * (1 + Qc_abs b)).
"""

    def gen(self, rng, tier):
        cases = []
        k = 120 if tier == "quick" else 1200
        for _ in range(k):
            n = rng.randint(5, 30)
            x = gens.sorted_x(rng, n)
            kind = rng.choice(["noisy", "smooth", "affine", "values"])
            if kind == "affine":
                a, b = gens.dyadic(rng, -3, 3, 2), gens.dyadic(rng, -3, 3, 2)
                y = [a * v + b for v in x]
            elif kind == "smooth":
                y = [math.sin(v / 3) for v in x]
            elif kind == "noisy":
                y = [math.sin(v / 3) + rng.uniform(-0.3, 0.3) for v in x]
            else:
                y = gens.values(rng, n, "dyadic")
            cases.append({"x": x, "y": y, "kind": kind, "scale": rng.choice([None, None, 4.0, -3.0, 0.5]),
                          "entry": rng.choice(["weaver.smooth", "weaver.to_function", "weaver.to_function_default", "spline_smooth", "match_s"]),
                          "s": rng.choice([0.0, 0.0, None, 1e-4, 0.01, 1.0, 100.0]),
                          # the same request made earlier in the object's life, before a change of the abscissae only
                          "history": rng.choice([None, None, "shift_x", "scale_x", "shift_x+scale_y"])})
        # values centred on their own mean (the samples add up to a rounding residue, not to zero) and a sine over whole periods:
        # nothing about a fit depends on what the samples happen to add up to
        for _ in range(8 if tier == "quick" else 50):
            n = rng.randint(8, 24)
            x = gens.sorted_x(rng, n, rng.choice(["uniform", "dyadic", "int"]))
            if rng.random() < 0.6:
                v = [math.sin(i / 2.0) * 3 + rng.uniform(-1.0, 1.0) + 0.1 * i for i in range(n)]
                mu = math.fsum(v) / n
                y = [a - mu for a in v]
            else:
                y = [3 * math.sin(2 * math.pi * i / n * 2) for i in range(n)]
            cases.append({"x": x, "y": y, "kind": "noisy", "scale": None, "entry": rng.choice(["weaver.smooth", "weaver.to_function", "spline_smooth"]),
                          "s": rng.choice([0.0, 0.01, 1.0, None]), "history": None})
        # values on a large baseline (2.5e8 + noise of order 1; 4e7 + noise): the default smoothing condition is n times the variance of
        # *these* values — single-pass formulas (sum of squares minus squared sum) cancel catastrophically here
        for _ in range(10 if tier == "quick" else 60):
            n = rng.randint(8, 20)
            basev = rng.choice([2.5e8, 4.0e7, -1.0e9])
            x = gens.sorted_x(rng, n, rng.choice(["uniform", "dyadic", "int"]))
            y = [basev + math.sin(i / 2.0) + rng.uniform(-1.0, 1.0) for i in range(n)]
            cases.append({"x": x, "y": y, "kind": "noisy", "scale": None, "entry": rng.choice(["weaver.smooth", "spline_smooth", "weaver.to_function_default"]),
                          "s": None, "history": None})
        # abscissae with gaps far below 1e-8 in absolute terms — a whole series on a 2^-30 scale (time in a large unit), and a regular
        # series with a few extra readings 2^-28 after a regular one: every sample is a sample ("de-duplication" with np.isclose's
        # absolute tolerance drops them)
        for _ in range(10 if tier == "quick" else 60):
            n = rng.randint(9, 14)
            if rng.random() < 0.5:
                ks = sorted(rng.sample(range(0, 6 * n), n))
                x = [k_ * 2.0 ** -30 for k_ in ks]
            else:
                base = [float(i) for i in range(n - 3)]
                extra = [v + 2.0 ** -28 for v in rng.sample(base[1:-1], 3)]
                x = sorted(base + extra)
            y = [math.sin(i / 2.0) + rng.uniform(-0.3, 0.3) for i in range(len(x))]
            cases.append({"x": x, "y": y, "kind": "noisy", "scale": None, "entry": rng.choice(["weaver.smooth", "weaver.to_function", "spline_smooth"]),
                          "s": rng.choice([0.0, None, 0.01, 1.0]), "history": None})
        for i, c in enumerate(cases):
            if i % 6 == 0 and not c.get("history"):
                c["earlier_gappy"] = ["nan", "inf"][(i // 6) % 2]
        return cases

    def run(self, c):
        import traffic_weaver.process as P
        import traffic_weaver.match as M
        from traffic_weaver import Weaver
        calls = []
        real = P.splrep

        def rec(x, y, *a, **k):
            with warnings.catch_warnings(record=True) as wlist:
                warnings.simplefilter("always")
                r = real(x, y, *a, **k)
            calls.append({"x": np.asarray(x, dtype=float).tolist(), "y": np.asarray(y, dtype=float).tolist(), "args": [repr(v) for v in a],
                          "kwargs": {kk: (float(v) if isinstance(v, (int, float, np.floating)) else repr(v)) for kk, v in k.items()},
                          "warned": any("fp" in str(w.message) or "iter" in str(w.message).lower() or "s too small" in str(w.message) for w in wlist)})
            return r
        P.splrep = rec
        x = np.array(c["x"], dtype=float)
        y = np.array(c["y"], dtype=float)
        try:
            def mk():
                # the smoothing condition is stated on the series as it is when smooth / to_function is called:
                # an earlier scale_y (of the unscaled values) must not change what reaches FITPACK
                k = c.get("scale")
                h = c.get("history")
                if not h:
                    return Weaver(x, y / k).scale_y(k) if k else Weaver(x, y)
                # exact inverse maps (dyadic abscissae): the object ends in the state (x, y) after having answered the same
                # request in an earlier state
                x0 = (x - 4.0) if h.startswith("shift_x") else (x / 2.0) if h == "scale_x" else (x - x[0]) / (x[-1] - x[0])
                w = Weaver(x0, y / 2.0 if h.endswith("scale_y") else y)
                if c["entry"] == "weaver.smooth":
                    w.to_function(c["s"] if c["s"] is not None else 0)
                elif c["entry"] == "weaver.to_function_default":
                    w.to_function()
                else:
                    w.to_function(c["s"])
                if h.startswith("shift_x"):
                    w.shift_x(4.0)
                elif h == "scale_x":
                    w.scale_x(2.0)
                else:
                    w.normalize_x(float(x[0]), float(x[-1]))
                if h.endswith("scale_y"):
                    w.scale_y(2.0)
                del calls[:]
                return w
            if c.get("earlier_gappy"):
                # an earlier request in the same process on another series of the same length with a missing reading (NaN) or an
                # overflowed one (inf): however that request ends, it leaves nothing behind for this one
                yg = y[::-1].copy()
                yg[len(yg) // 2] = float("nan") if c["earlier_gappy"] == "nan" else float("inf")
                for attempt in (lambda: P.spline_smooth(x, yg, c["s"]), lambda: Weaver(x, yg).smooth(c["s"]), lambda: Weaver(x, yg).to_function()):
                    try:
                        with warnings.catch_warnings():
                            warnings.simplefilter("ignore")
                            attempt()
                    except Exception:
                        pass
                del calls[:]
            if c["entry"] == "weaver.smooth":
                w = mk().smooth(c["s"])
                out = {"x": w.x.tolist(), "y": w.y.tolist()}
            elif c["entry"] == "weaver.to_function":
                f = mk().to_function(c["s"])
                out = {"x": x.tolist(), "y": np.asarray(f(x), dtype=float).tolist()}
            elif c["entry"] == "weaver.to_function_default":
                f = mk().to_function()
                out = {"x": x.tolist(), "y": np.asarray(f(x), dtype=float).tolist()}
            elif c["entry"] == "spline_smooth":
                f = P.spline_smooth(x, y, c["s"])
                out = {"x": x.tolist(), "y": np.asarray(f(x), dtype=float).tolist()}
            else:
                s = c["s"] if c["s"] is not None else 0.5
                r = M._integral_matching_stretch(x, y, integral_value=float(np.sum((y[:-1] + y[1:]) / 2 * np.diff(x))), s=s)
                out = {"x": x.tolist(), "y": np.asarray(r, dtype=float).tolist()}
            out["calls"] = calls
            return out
        except Exception as e:
            return {"exc": exn_name(e), "exc_msg": str(e)[:100], "calls": calls}
        finally:
            P.splrep = real

    def s_expected(self, c):
        if c["entry"] == "weaver.to_function_default":
            return "(Some 0)", 0.0
        if c["entry"] == "match_s":
            s = c["s"] if c["s"] is not None else 0.5
            return "(Some %s)" % q(s), s
        if c["s"] is None:
            return "None", None
        return "(Some %s)" % q(c["s"]), c["s"]

    def coq(self, c, o):
        if "exc" in o or len(o["calls"]) != 1:
            return "false"
        call = o["calls"][0]
        if set(call["kwargs"]) != {"s"} or call["args"]:
            return "false (* unexpected arguments reach splrep: %s %s *)" % (call["args"], sorted(call["kwargs"]))
        sopt, _ = self.s_expected(c)
        # y forwarded: for match_s the stretched y (delta_p = 0 up to rounding) equals the input to rounding
        return "rel_close %s (smoothing_s %s %s) && exact_list %s %s" % (qa(call["kwargs"]["s"], 60), qlist(c["y"]), sopt, qlist(call["x"]), qlist(c["x"]))

    def oracle(self, c, o):
        F = []

        def fail(aspect, what):
            F.append(Failure(aspect=aspect, what="%s(s=%s): %s (x=%s.. y=%s..)" % (c["entry"], c["s"], what, c["x"][:5], c["y"][:5]), signature={"aspect": aspect, "entry": c["entry"]}))
        if "exc" in o:
            fail("raises", o["exc_msg"])
            return F
        # how often FITPACK is entered is not part of the property (a correct memoisation would enter it 0 times; the model
        # comparison, not this oracle, notices a changed call pattern): what reached it is judged on the last call, the
        # returned values are judged in every case
        call = o["calls"][-1] if o["calls"] else None
        y = np.array(c["y"])
        _, s = self.s_expected(c)
        s_exp = s if s is not None else len(y) * float(np.var(y))
        if call is not None:
            got = call["kwargs"].get("s")
            if got is None or abs(got - s_exp) > 1e-9 * (1 + abs(s_exp)) or set(call["kwargs"]) != {"s"} or call["args"]:
                fail("smoothing-condition", "s = %s (args %s, kwargs %s) reached FITPACK, expected s = %s only" % (got, call["args"], call["kwargs"], s_exp))
        if o["x"] != c["x"] or len(o["y"]) != len(c["y"]):
            fail("shape", "x or the length changed")
            return F
        if any(k["warned"] for k in o["calls"]):
            return F      # FITPACK reports non-convergence: discarded, not judged
        res = float(np.sum((np.array(o["y"]) - y) ** 2))
        if res > s_exp * 1.001 + 1e-9 * (1 + float(np.sum(y ** 2))):
            fail("residual", "summed squared deviation %g exceeds s = %g" % (res, s_exp))
        if (s_exp == 0 or c["kind"] == "affine") and np.max(np.abs(np.array(o["y"]) - y)) > 1e-7 * (1 + np.max(np.abs(y))):
            fail("identity", "s = 0 / affine data should be returned unchanged (max deviation %g)" % np.max(np.abs(np.array(o["y"]) - y)))
        return F

    def label(self, c, o):
        return "%s:%s" % (c["entry"], "None" if c["s"] is None else ("0" if c["s"] == 0 else "pos"))
