"""C18 — every documented dataset is reachable by name and well-formed."""
from tools.harness.core import Property
from tools.props.dataset_units import DatasetLookupUnit, RegistryScanUnit


class P(Property):
    id = "C18"
    gen_targets = ["Registry", "DocTables", "Bundled", "Dispatch"]
    rule = "exhaustive: all 95 documented names x 2 spellings x 2 unpack flags, plus data-home and unknown-name cases; distinct = (name, unpack, env); one scan of all remote datasets for pairwise distinct remote files, URLs and checksums"

    def units(self, tier):
        return [DatasetLookupUnit(), RegistryScanUnit()]


PROPERTY = P()
