"""C19 — remote dataset cache is never corrupt, stale-crossed or fed unchecked data."""
from tools.harness.core import Property
from tools.props.cache_units import RemoteSeqUnit, RemoteCrashUnit, RemoteConcUnit, DatasetOrderUnit


class P(Property):
    id = "C19"
    gen_targets = ["Registry", "CacheSkeleton"]
    assumptions = ["atomicity of os.rename, CPython closing the pickle file before the rename, and real parallelism are assumed by the model's step granularity "
                   "and observed by the crash (killed subprocesses) and gated-thread runs"]

    def units(self, tier):
        return [RemoteSeqUnit(), RemoteCrashUnit(), RemoteConcUnit(), DatasetOrderUnit()]


PROPERTY = P()
