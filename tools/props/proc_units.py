"""Correspondence units for process.py functions (shared by C11, C12, C13, C14)."""
from fractions import Fraction

import numpy as np

from tools.harness import gens
from tools.harness.core import Unit, Failure, q, qa, qlist, zlit, exn_name, tol_for, all_finite


def close(a, b, tol=1e-9):
    a = np.asarray(a, dtype=float)
    b = np.asarray(b, dtype=float)
    if a.shape != b.shape:
        return False
    if a.size == 0:
        return True
    return bool(np.all(np.abs(a - b) <= tol * (1 + np.max(np.abs(b)))))


def cb(b):
    return "true" if b else "false"


# ------------------------------------------------------------------------------------------
def reuse_probe(call, arrays):
    """call(*arrays) on float64 ndarrays that the caller keeps: the arrays must not be modified, and the same call on the same
    arrays must give the same result again (a function that writes into its inputs fails one or the other).  Returns
    (result of the first call, notes)."""
    held = [a.copy() for a in arrays]
    first = call(*held)
    notes = {"input_mutated": not all(np.array_equal(h, a) for h, a in zip(held, arrays))}
    try:
        second = call(*held)
        flat = lambda r: [np.asarray(v, dtype=float).tolist() for v in (r if isinstance(r, tuple) else (r,))]
        notes["second_call_differs"] = flat(first) != flat(second)
    except Exception as e:   # noqa: BLE001
        notes["second_call_differs"] = "raised %s" % type(e).__name__
    return first, notes


def as_container(vals, kind):
    """the same numbers as a float64 array, an int64 array (integral values only) or a plain Python list"""
    if kind == "int64" and all(float(v).is_integer() for v in vals):
        return np.array([int(v) for v in vals], dtype=np.int64)
    if kind == "list":
        return [float(v) for v in vals]
    if kind == "float32" and all(float(np.float32(v)) == float(v) for v in vals):
        return np.array(vals, dtype=np.float32)       # single-precision input holding exactly these numbers
    if kind == "strided":
        # a non-contiguous view (a column of an (n, 2) table, every second element of a longer array): the same numbers
        big = np.empty(2 * len(vals), dtype=float)
        big[0::2] = vals
        big[1::2] = -12345.678
        return big[0::2]
    return np.array(vals, dtype=float)


def pick_container(rng):
    return rng.choice(["float64"] * 6 + ["int64", "int64", "list", "strided", "strided"])


def reuse_failures(o, fail):
    if o.get("input_mutated"):
        fail("input-mutated", "an array handed in by the caller was modified")
    if o.get("second_call_differs"):
        fail("second-call", "the same call on the same arrays gave another result the second time (%s)" % o["second_call_differs"])


class RepeatUnit(Unit):
    name = "repeat"
    imports = ["Model.Process"]

    def gen(self, rng, tier):
        cases = []
        nrand = 150 if tier == "quick" else 1500
        for N in range(2, 7):
            for r in range(1, 5 if tier == "quick" else 13):
                kind = rng.choice(["int", "dyadic", "ratio", "uniform"])
                cases.append({"x": gens.sorted_x(rng, N, kind), "y": gens.values(rng, N), "r": r, "int": kind == "int"})
        for _ in range(nrand):
            N = rng.randint(2, 40) if rng.random() < 0.2 else rng.randint(2, 9)
            r = rng.randint(1, 12) if rng.random() < 0.3 else rng.randint(1, 4)
            kind = rng.choice(["int", "dyadic", "ratio", "uniform"])
            cases.append({"x": gens.sorted_x(rng, N, kind), "y": gens.values(rng, N), "r": r, "int": kind == "int" and rng.random() < 0.7})
        for _ in range(12):      # nearly-uniform / decimal abscissae: "looks regular" shortcuts show up here
            N = rng.randint(3, 8)
            cases.append({"x": gens.loose_x(rng, N), "y": gens.values(rng, N), "r": rng.randint(1, 4), "int": False})
        cases.append({"x": [0.0, 1e-9, 3e-9, 7e-9, 8e-9, 11e-9], "y": gens.values(rng, 6), "r": 3, "int": False})
        # decimal sampling steps (not binary fractions) with EVERY repeat count 1..12: "r copies" must not depend on how r * period
        # happens to round (np.arange with a float step yields one element too many for period 0.3, r = 7; period 0.1, r = 3, 6, 12)
        for step in (0.1, 0.3, 0.05, 0.025, 0.7, 0.2):
            N = rng.randint(3, 5)
            xs = [rng.choice([0.0, 0.0, 1.7]) + i * step for i in range(N)] if rng.random() < 0.6 else \
                 [0.0, step / 2] + [step / 2 + i * step / 2 for i in range(1, N - 1)][:N - 2] + [step * (N - 1) / 2 + step / 2]
            xs = sorted(set(xs))
            for r in range(1, 13):
                cases.append({"x": xs, "y": gens.values(rng, len(xs)), "r": r, "int": False})
        # integer abscissae held in a narrow integer type (hour of day as uint8, second of hour as int16): the extended range
        # leaves the type's range long before it leaves the range of floats
        for dt, top in (("uint8", 24), ("int8", 24), ("int16", 3600), ("uint16", 3600), ("int32", 86400)):
            for _ in range(2 if tier == "quick" else 10):
                N = rng.randint(3, 8)
                xs = sorted(rng.sample(range(0, top), N))
                period = xs[-1] - xs[0] + (xs[-1] - xs[-2])
                lim = {"uint8": 255, "int8": 127, "int16": 32767, "uint16": 65535, "int32": 2 ** 31 - 1}[dt]
                r = min(12, lim // max(period, 1) + 2) if dt != "int32" else rng.randint(2, 6)
                cases.append({"x": [float(v) for v in xs], "y": gens.values(rng, N), "r": max(2, r), "int": True, "x_dtype": dt})
        # pairs of different series with the same first abscissa, last abscissa, length and repeat count (but another last step), run one
        # after the other in this process: nothing may be carried over from one call to the next
        for _ in range(6 if tier == "quick" else 40):
            N = rng.randint(4, 7)
            first = float(rng.randint(-3, 3))
            last = first + rng.randint(2 * N, 3 * N)
            r = rng.randint(2, 4)
            for _k in range(2):
                inner = sorted(rng.sample(range(int(first) + 1, int(last)), N - 2))
                cases.append({"x": [first] + [float(v) for v in inner] + [last], "y": gens.values(rng, N), "r": r, "int": False})
        # composition cases
        for a in range(1, 5):
            for b in range(1, 13 // a):
                N = rng.randint(2, 6)
                cases.append({"x": gens.sorted_x(rng, N), "y": gens.values(rng, N), "r": a, "r2": b, "int": False})
        cases.append({"x": gens.sorted_x(rng, 4), "y": gens.values(rng, 4), "r": 0, "int": False})
        for c_ in cases:
            if not c_.get("int") and not c_.get("x_dtype") and rng.random() < 0.2:
                c_["strided"] = True
        return cases

    def run(self, c):
        from traffic_weaver.process import repeat
        dt = np.dtype(c["x_dtype"]) if c.get("x_dtype") else (np.int64 if c.get("int") else float)
        x = np.array(c["x"], dtype=dt)
        y = np.array(c["y"], dtype=float)
        if c.get("strided") and dt is float:
            x, y = as_container(c["x"], "strided"), as_container(c["y"], "strided")      # columns of a table, not arrays of their own
        x0, y0 = x.copy(), y.copy()
        try:
            rx, ry = repeat(x, y, c["r"])
            out = {"x": np.asarray(rx, dtype=float).tolist(), "y": np.asarray(ry, dtype=float).tolist(),
                   "kinds": [type(rx).__name__, type(ry).__name__], "dtypes": [str(rx.dtype), str(ry.dtype)],
                   "input_changed": not (np.array_equal(x, x0) and np.array_equal(y, y0))}
            if "r2" in c:
                rx2, ry2 = repeat(rx, ry, c["r2"])
                cx, cy = repeat(x, y, c["r"] * c["r2"])
                out.update({"x2": rx2.tolist(), "y2": ry2.tolist(), "cx": cx.tolist(), "cy": cy.tolist()})
            return out
        except Exception as e:
            return {"exc": exn_name(e), "exc_msg": str(e)[:200]}

    def coq(self, c, o):
        if "exc" in o:
            return "false"
        tol = tol_for(list(o["x"]) + c["y"])
        e = "let r := repeat_series %s %s %d in approx_list %s (fst r) %s && approx_list %s (snd r) %s" % (
            qlist(c["x"]), qlist(c["y"]), c["r"], tol, qlist(o["x"], qa), tol, qlist(o["y"], qa))
        if "r2" in c:
            tol2 = tol_for(list(o["x2"]) + c["y"])
            e = "(%s) && (let r := repeat_series %s %s %d in let r2 := repeat_series (fst r) (snd r) %d in approx_list %s (fst r2) %s && approx_list %s (snd r2) %s)" % (
                e, qlist(c["x"]), qlist(c["y"]), c["r"], c["r2"], tol2, qlist(o["x2"], qa), tol2, qlist(o["y2"], qa))
        return e

    def oracle(self, c, o):
        F = []
        x, y, r = c["x"], c["y"], c["r"]
        N = len(x)

        def fail(aspect, what):
            F.append(Failure(aspect=aspect, what="repeat: %s (x=%s r=%s)" % (what, x, r), signature={"aspect": aspect}))

        if "exc" in o:
            fail("raises", "raised %s %s" % (o["exc"], o.get("exc_msg")))
            return F
        rx, ry = o["x"], o["y"]
        if len(rx) != r * N or len(ry) != r * N:
            fail("length", "lengths %d/%d, expected %d" % (len(rx), len(ry), r * N))
            return F
        if o["input_changed"]:
            fail("input-mutated", "caller arrays were modified")
        if ry != y * r:
            fail("values-tiled", "y is not the input tiled")
        if r >= 1 and (rx[:N] != x):
            fail("first-copy", "first copy differs from the input")
        P = (x[-1] - x[0]) + (x[-1] - x[-2])
        exp = [x[j] + i * P for i in range(r) for j in range(N)]
        if not close(rx, exp, 1e-12):
            fail("closed-form", "abscissae %s, expected x_j + i*P = %s" % (rx, exp))
        if any(b <= a for a, b in zip(rx[:-1], rx[1:])):
            fail("increasing", "abscissae not strictly increasing")
        if "r2" in c:
            if not close(o["x2"], o["cx"], 1e-12) or o["y2"] != o["cy"]:
                fail("composition", "repeat(repeat(.,%d),%d) differs from repeat(.,%d)" % (r, c["r2"], r * c["r2"]))
        return F

    def label(self, c, o):
        return "r=%d%s%s" % (c["r"], ",comp" if "r2" in c else "", ",int" if c.get("int") else "")


# ------------------------------------------------------------------------------------------
POLYS = [[0], [1], [0, 1], [1, -2], [0, 0, 1], [3, 0.5, -0.25], [0, 0, 0, 1]]


def poly(coef):
    return lambda v: sum(cf * v ** k for k, cf in enumerate(coef))


def poly_kind(coef, kind):
    """the same polynomial as a callable of another kind: the documented signature is (x) -> y_shift for one abscissa, so a callable
    that only takes a scalar (float(v) refuses arrays with TypeError; a Python `if` on an array raises ValueError) is as valid as a
    vectorised one"""
    f = poly(coef)
    if kind == "scalar_only":
        return lambda v: f(float(v))
    if kind == "branching":
        return lambda v: (f(v) if v >= 0 else f(v) + 0.0)
    if kind == "math":
        import math
        return lambda v: f(math.fsum([v]))
    if kind == "augassign":
        # a callable that adjusts its own parameter with an augmented assignment — harmless on the scalar it is documented to get,
        # an in-place write if it is handed the library's (or the caller's) array
        def g(v):
            v -= 1.0
            return f(v + 1.0)
        return g
    return f


def coq_poly(coef):
    terms = " + ".join("%s * %s" % (q(cf), " * ".join(["v"] * k) if k else "1") for k, cf in enumerate(coef))
    return "(fun v : Qc => %s)" % terms


class TrendUnit(Unit):
    name = "trend"
    imports = ["Model.Process"]

    def gen(self, rng, tier):
        cases = []
        n = 120 if tier == "quick" else 1200
        for _ in range(n):
            N = rng.randint(1, 12)
            c = {"x": gens.sorted_x(rng, N), "y": gens.values(rng, N), "coef": rng.choice(POLYS), "normalized": rng.random() < 0.5,
                 "linear": rng.random() < 0.3}
            if c["linear"]:
                c["coef"] = [0, gens.dyadic(rng, -4, 4, 2)]
            if c["normalized"] and N == 1:
                c["normalized"] = False
            if rng.random() < 0.2:        # the formula is stated for any abscissae: decreasing / unsorted x too
                c["x"] = c["x"][::-1] if rng.random() < 0.7 else rng.sample(c["x"], len(c["x"]))
                if c["normalized"] and c["x"][-1] == c["x"][0]:
                    c["normalized"] = False
            if rng.random() < 0.3:
                c["coef2"] = rng.choice(POLYS)
            c["container"] = pick_container(rng)
            if rng.random() < 0.15:
                c["container"] = "float32"      # (trend converts its input to double precision: single-precision arrays holding these numbers exactly)
            c["fn_kind"] = rng.choice(["array", "array", "scalar_only", "branching", "math", "augassign"])
            cases.append(c)
        return cases

    def run(self, c):
        from traffic_weaver.process import trend, linear_trend
        poly = lambda coef: poly_kind(coef, c.get("fn_kind", "array"))     # noqa: the callable handed to trend()
        x = np.array(c["x"], dtype=float)
        y = np.array(c["y"], dtype=float)
        try:
            if c.get("container", "float64") != "float64":
                # the same numbers handed in as an int64 array / a Python list
                xa, ya = as_container(c["x"], c["container"]), as_container(c["y"], c["container"])
                (rx, ry), notes = (linear_trend(xa, ya, c["coef"][1], c["normalized"]) if c["linear"]
                                   else trend(xa, ya, poly(c["coef"]), c["normalized"])), {}
            elif c["linear"]:
                (rx, ry), notes = reuse_probe(lambda a, b: linear_trend(a, b, c["coef"][1], c["normalized"]), [x, y])
            else:
                (rx, ry), notes = reuse_probe(lambda a, b: trend(a, b, poly(c["coef"]), c["normalized"]), [x, y])
            out = {"x": np.asarray(rx, dtype=float).tolist(), "y": np.asarray(ry, dtype=float).tolist()}
            out.update(notes)
            if "coef2" in c:
                a1x, a1y = trend(rx.copy(), ry.copy(), poly(c["coef2"]), c["normalized"])
                both = [a + b for a, b in zip(c["coef"] + [0] * 4, c["coef2"] + [0] * 4)]
                sx, sy = trend(x.copy(), y.copy(), poly(both), c["normalized"])
                out.update({"seq_y": a1y.tolist(), "sum_y": sy.tolist()})
            return out
        except Exception as e:
            return {"exc": exn_name(e), "exc_msg": str(e)[:200]}

    def coq(self, c, o):
        if "exc" in o or not all_finite(o["y"]):
            return "negb (trend_defined %s %s)" % (cb(c["normalized"]), qlist(c["x"]))
        tol = tol_for(o["y"] + c["y"])
        return "let r := trend %s %s %s %s in trend_defined %s %s && exact_list (fst r) %s && approx_list %s (snd r) %s" % (
            coq_poly(c["coef"]), cb(c["normalized"]), qlist(c["x"]), qlist(c["y"]), cb(c["normalized"]), qlist(c["x"]),
            qlist(o["x"]), tol, qlist(o["y"], qa))

    def oracle(self, c, o):
        F = []

        def fail(aspect, what):
            F.append(Failure(aspect=aspect, what="trend: %s (x=%s coef=%s normalized=%s)" % (what, c["x"], c["coef"], c["normalized"]),
                             signature={"aspect": aspect}))
        if "exc" in o:
            fail("raises", "raised %s" % o["exc"])
            return F
        x, y = c["x"], c["y"]
        if o["x"] != x:
            fail("x-changed", "x was modified")
        f = poly(c["coef"])
        span = x[-1] - x[0]
        exp = [yi + f(xi / span if c["normalized"] else xi) for xi, yi in zip(x, y)]
        if not close(o["y"], exp):
            fail("pointwise", "y' = %s, expected y_i + f(.) = %s" % (o["y"], exp))
        if c["coef"] == [0] and o["y"] != y:
            fail("zero-trend", "zero trend is not the identity")
        if "seq_y" in o and not close(o["seq_y"], o["sum_y"]):
            fail("additive", "trend f then g differs from trend (f+g)")
        reuse_failures(o, fail)
        return F

    def label(self, c, o):
        return "deg%d,%s" % (len(c["coef"]) - 1, "norm" if c["normalized"] else "abs")


class NormalizeUnit(Unit):
    name = "normalize"
    imports = ["Model.Process"]

    def gen(self, rng, tier):
        cases = []
        n = 100 if tier == "quick" else 1000
        for _ in range(n):
            N = rng.randint(1, 12)
            a = gens.values(rng, N) if rng.random() < 0.6 else gens.sorted_x(rng, N)
            lo = gens.dyadic(rng, -8, 8, 2)
            hi = lo + rng.randint(1, 64) / 4
            cases.append({"a": a, "lo": lo, "hi": hi, "container": pick_container(rng)})
        return cases

    def run(self, c):
        from traffic_weaver.process import normalize
        import warnings
        try:
            with warnings.catch_warnings():
                warnings.simplefilter("ignore")
                if c.get("container", "float64") != "float64":      # the same numbers as an int64 array / a Python list
                    r, notes = normalize(as_container(c["a"], c["container"]), c["lo"], c["hi"]), {}
                else:
                    r, notes = reuse_probe(lambda a_: normalize(a_, c["lo"], c["hi"]), [np.array(c["a"], dtype=float)])
            out = {"out": np.asarray(r, dtype=float).tolist()}
            out.update(notes)
            return out
        except Exception as e:
            return {"exc": exn_name(e)}

    def coq(self, c, o):
        if "exc" in o or not all_finite(o["out"]):
            return "negb (normalize_defined %s)" % qlist(c["a"])
        tol = tol_for(c["a"] + [c["lo"], c["hi"]])
        return "normalize_defined %s && approx_list %s (normalize %s %s %s) %s" % (qlist(c["a"]), tol, qlist(c["a"]), q(c["lo"]), q(c["hi"]), qlist(o["out"], qa))

    def oracle(self, c, o):
        F = []
        a, lo, hi = c["a"], c["lo"], c["hi"]

        def fail(aspect, what):
            F.append(Failure(aspect=aspect, what="normalize: %s (a=%s lo=%s hi=%s)" % (what, a, lo, hi), signature={"aspect": aspect}))
        if "exc" in o:
            fail("raises", o["exc"])
            return F
        reuse_failures({k: v for k, v in o.items() if k == "input_mutated"}, fail)
        if max(a) == min(a):
            return F  # undefined by design (0/0)
        reuse_failures(o, fail)
        out = o["out"]
        if len(out) != len(a):
            fail("length", "length changed")
            return F
        if abs(out[a.index(min(a))] - lo) > 1e-9 * (1 + abs(lo)) or abs(out[a.index(max(a))] - hi) > 1e-9 * (1 + abs(hi)):
            fail("ends", "min -> %s, max -> %s" % (out[a.index(min(a))], out[a.index(max(a))]))
        al = (hi - lo) / (max(a) - min(a))
        exp = [(v - min(a)) * al + lo for v in a]
        if not close(out, exp):
            fail("affine", "not the increasing affine map: %s vs %s" % (out, exp))
        for i in range(len(a)):
            for j in range(len(a)):
                if a[i] < a[j] and not out[i] < out[j]:
                    fail("order", "order not preserved")
                    return F
        return F


# ------------------------------------------------------------------------------------------
class TruncateUnit(Unit):
    name = "truncate"
    imports = ["Model.Process"]
    preamble = """
Definition tr_match (tol : Qc) (m : res (list Qc * list Qc)) (o : obs (list Qc * list Qc)) : bool :=
  res_match (pair_match (exact_list) (exact_list)) m o.
"""

    def gen(self, rng, tier):
        cases = []
        n = 300 if tier == "quick" else 3000
        for _ in range(n):
            N = rng.randint(1, 10)
            x = gens.epoch_x(rng, N) if rng.random() < 0.12 else gens.sorted_x(rng, N)   # epoch: spacing tiny relative to the magnitude
            y = gens.values(rng, N)
            lr, rr = rng.random() < 0.3, rng.random() < 0.3

            def bound(ratio):
                if ratio:
                    return rng.choice([0.0, 1.0, 0.25, 0.5, 0.75, 0.125, -0.25, 1.25])
                k = rng.randint(0, 5)
                if k == 0:
                    return rng.choice(x)
                if k == 1:
                    return x[0]
                if k == 2:
                    return x[-1]
                if k == 3:
                    return x[0] - rng.randint(1, 8) / 4
                if k == 4:
                    return x[-1] + rng.randint(1, 8) / 4
                i = rng.randrange(N)
                return x[i] + 0.0625
            l, r = bound(lr), bound(rr)
            if not lr and not rr and l > r and rng.random() < 0.7:
                l, r = r, l
            cases.append({"x": x, "y": y, "l": l, "r": r, "lr": lr, "rr": rr, "container": pick_container(rng)})
        # integer abscissae beyond 2^53 (epoch nanoseconds, sampled every 100 ns) held in an int64 array, integer bounds: neighbouring
        # samples are different integers but the same float64 — the run is selected among the samples as they are
        for _ in range(8 if tier == "quick" else 60):
            N = rng.randint(4, 9)
            base = 1_700_000_000_000_000_000 + rng.randint(0, 10 ** 6)
            xs = [base]
            for _k in range(N - 1):
                xs.append(xs[-1] + 100 * rng.randint(1, 3))
            i = rng.randint(0, N - 3)
            j = rng.randint(i + 1, N - 1)
            l = xs[i] + rng.choice([0, 0, 50, -50])
            r = xs[j] + rng.choice([0, 0, 50, -50])
            if l >= r:
                l, r = xs[i], xs[j]
            cases.append({"x": xs, "y": gens.values(rng, N), "l": l, "r": r, "lr": False, "rr": False, "container": "bigint"})
        return cases

    def run(self, c):
        from traffic_weaver.process import truncate
        x = np.array(c["x"], dtype=float)
        y = np.array(c["y"], dtype=float)
        try:
            if c.get("container") == "bigint":
                rx, ry = truncate(np.array(c["x"], dtype=np.int64), y, c["l"], c["r"], c["lr"], c["rr"])
                return {"x": [int(v) for v in np.asarray(rx).tolist()], "y": np.asarray(ry, dtype=float).tolist()}
            if c.get("container", "float64") != "float64":          # the same numbers as int64 arrays / Python lists
                (rx, ry), notes = truncate(as_container(c["x"], c["container"]), as_container(c["y"], c["container"]),
                                           c["l"], c["r"], c["lr"], c["rr"]), {}
            else:
                (rx, ry), notes = reuse_probe(lambda a, b: truncate(a, b, c["l"], c["r"], c["lr"], c["rr"]), [x, y])
            out = {"x": np.asarray(rx, dtype=float).tolist(), "y": np.asarray(ry, dtype=float).tolist()}
            out.update(notes)
            return out
        except Exception as e:
            return {"exc": exn_name(e)}

    def coq(self, c, o):
        m = "truncate %s %s %s %s %s %s" % (qlist(c["x"]), qlist(c["y"]), q(c["l"]), q(c["r"]), cb(c["lr"]), cb(c["rr"]))
        if "exc" in o:
            return "tr_match 0 (%s) (OExn %s)" % (m, o["exc"])
        return "tr_match 0 (%s) (OVal (%s, %s))" % (m, qlist(o["x"]), qlist(o["y"]))

    def oracle(self, c, o):
        F = []
        x, y = c["x"], c["y"]
        span = Fraction(x[-1]) - Fraction(x[0])
        l = Fraction(c["l"]) * span + Fraction(x[0]) if c["lr"] else Fraction(c["l"])
        r = Fraction(c["r"]) * span + Fraction(x[0]) if c["rr"] else Fraction(c["r"])

        def fail(aspect, what):
            F.append(Failure(aspect=aspect, what="truncate: %s (x=%s l=%s r=%s ratios=%s/%s)" % (what, x, c["l"], c["r"], c["lr"], c["rr"]),
                             signature={"aspect": aspect}))
        if l >= r:
            if o.get("exc") != "ValueError":
                fail("inverted-range", "empty/inverted range gave %s, not ValueError" % (o.get("exc") or "a result"))
            return F
        if "exc" in o:
            fail("raises", "valid range raised %s" % o["exc"])
            return F
        lows = [i for i in range(len(x)) if x[i] <= l]
        highs = [i for i in range(len(x)) if x[i] >= r]
        i = max(lows) if lows else 0
        j = min(highs) if highs else len(x) - 1
        if o["x"] != x[i:j + 1] or o["y"] != y[i:j + 1]:
            fail("covering-run", "kept %s, expected the smallest covering run %s" % (o["x"], x[i:j + 1]))
        reuse_failures(o, fail)
        return F

    def label(self, c, o):
        return ("exc:" + o["exc"]) if "exc" in o else "ok:%s%s" % ("R" if c["lr"] else "a", "R" if c["rr"] else "a")


# ------------------------------------------------------------------------------------------
class InterpUnit(Unit):
    """linear and constant interpolation (own logic + numpy.interp model)"""
    name = "interp"
    imports = ["Model.Process"]

    def gen(self, rng, tier):
        cases = []
        n = 250 if tier == "quick" else 2500
        for _ in range(n):
            N = rng.randint(1, 10)
            x = gens.sorted_x(rng, N)
            y = gens.values(rng, N)
            M = rng.randint(1, 12)
            nx = []
            for _ in range(M):
                k = rng.randint(0, 4)
                if k == 0:
                    nx.append(rng.choice(x))
                elif k == 1:
                    nx.append(x[0] - rng.randint(1, 16) / 8)
                elif k == 2:
                    nx.append(x[-1] + rng.randint(1, 16) / 8)
                else:
                    i = rng.randrange(N)
                    nx.append(x[i] + rng.randint(0, 16) / 16 * ((x[i + 1] - x[i]) if i + 1 < N else 1.0))
            method = rng.choice(["linear", "constant"])
            c = {"x": x, "y": y, "new_x": sorted(nx), "method": method}
            if method == "constant" and rng.random() < 0.3:
                c["left"] = gens.dyadic(rng, -8, 8, 2)
            elif method == "constant" and rng.random() < 0.4:
                c["left_none_explicit"] = True
            if rng.random() < 0.15:
                c["new_x"] = list(x)  # at the nodes
            if rng.random() < 0.1:
                a, b = gens.dyadic(rng, -4, 4, 2), gens.dyadic(rng, -4, 4, 2)
                c["y"] = [a * v + b for v in x]  # affine data
                c["affine"] = [a, b]
            if rng.random() < 0.2:
                # an integer-typed grid (np.arange, a list of ints, the default abscissae of Weaver(None, y)) with non-integral values
                c["new_x"] = sorted(float(round(v)) for v in c["new_x"])
                c["grid_kind"] = rng.choice(["int64", "intlist", "floatlist"])
                if rng.random() < 0.5:
                    c["x"] = sorted(set(float(round(v)) + i for i, v in enumerate(x)))
                    c["y"] = c["y"][:len(c["x"])]
                    c["x_kind"] = "int64"
                    c.pop("affine", None)
            cases.append(c)
        return cases

    def run(self, c):
        from traffic_weaver.process import interpolate
        kw = {}
        if "left" in c:
            kw["left"] = c["left"]
        elif c.get("left_none_explicit"):
            kw["left"] = None          # the documented default handed in explicitly (a wrapper forwarding its own left=None)
        gk = c.get("grid_kind", "float")
        grid = (np.array(c["new_x"], dtype=np.int64) if gk == "int64" else [int(v) for v in c["new_x"]] if gk == "intlist"
                else list(c["new_x"]) if gk == "floatlist" else np.array(c["new_x"], dtype=float))
        xin = np.array(c["x"], dtype=np.int64 if c.get("x_kind") == "int64" else float)
        try:
            if c.get("x_kind") == "int64":
                r = interpolate(xin, np.array(c["y"], dtype=float), grid, method=c["method"], **kw)
                notes = {}
            else:
                r, notes = reuse_probe(lambda a, b: interpolate(a, b, grid, method=c["method"], **kw), [xin, np.array(c["y"], dtype=float)])
            out = {"out": np.asarray(r, dtype=float).tolist()}
            out.update(notes)
            return out
        except Exception as e:
            return {"exc": exn_name(e)}

    def coq(self, c, o):
        if "exc" in o:
            return "false"
        tol = tol_for(c["y"] + [c.get("left", 0)])
        if c["method"] == "linear":
            return "approx_list %s (interp_linear %s %s %s) %s" % (tol, qlist(c["x"]), qlist(c["y"]), qlist(c["new_x"]), qlist(o["out"], qa))
        left = "(Some %s)" % q(c["left"]) if "left" in c else "None"
        return "res_match (approx_list %s) (interp_constant %s %s %s %s) (OVal %s)" % (tol, qlist(c["x"]), qlist(c["y"]), qlist(c["new_x"]), left, qlist(o["out"], qa))

    def oracle(self, c, o):
        F = []
        x, y, nx = c["x"], c["y"], c["new_x"]

        def fail(aspect, what):
            F.append(Failure(aspect=aspect, what="interpolate(%s): %s (x=%s y=%s new_x=%s)" % (c["method"], what, x, y, nx), signature={"aspect": aspect, "method": c["method"]}))
        if "exc" in o:
            fail("raises", o["exc"])
            return F
        out = o["out"]
        if len(out) != len(nx):
            fail("length", "wrong length")
            return F
        reuse_failures(o, fail)
        for v, r in zip(nx, out):
            if c["method"] == "constant":
                lows = [i for i in range(len(x)) if x[i] <= v]
                exp = y[max(lows)] if lows else c.get("left", y[0])
                if r != exp:
                    fail("constant-spec", "at %s returned %s, last sample at or before it is %s" % (v, r, exp))
                    break
            else:
                if v <= x[0]:
                    exp = y[0]
                elif v >= x[-1]:
                    exp = y[-1]
                else:
                    i = max(i for i in range(len(x)) if x[i] <= v)
                    exp = y[i] + (y[i + 1] - y[i]) * (v - x[i]) / (x[i + 1] - x[i])
                if v in x and r != y[x.index(v)]:
                    fail("at-nodes", "at node %s returned %s, sample is %s" % (v, r, y[x.index(v)]))
                    break
                if abs(r - exp) > 1e-9 * (1 + abs(exp)):
                    fail("linear-spec", "at %s returned %s, straight line gives %s" % (v, r, exp))
                    break
        if "affine" in c and c["method"] == "linear":
            a, b = c["affine"]
            for v, r in zip(nx, out):
                if x[0] <= v <= x[-1] and abs(r - (a * v + b)) > 1e-9 * (1 + abs(a * v + b)):
                    fail("affine", "affine data not reproduced at %s" % v)
                    break
        return F

    def label(self, c, o):
        return c["method"]


# ------------------------------------------------------------------------------------------
class InterpOracleUnit(Unit):
    """'cubic' and 'spline': SciPy does the mathematics; the repository's part is forwarding x, y, the keyword arguments and the
    new grid, and returning SciPy's values.  Oracle only (argument recorders around CubicSpline / splrep / BSpline)."""
    name = "interp_oracle"

    def gen(self, rng, tier):
        cases = []
        k = 80 if tier == "quick" else 800
        for _ in range(k):
            N = rng.randint(4, 14)
            x = gens.sorted_x(rng, N)
            y = gens.values(rng, N, rng.choice(["dyadic", "int", "ties"]))
            M = rng.randint(1, 12)
            nx = sorted(x[0] + (x[-1] - x[0]) * rng.randint(-8, 72) / 64 for _ in range(M))
            method = rng.choice(["cubic", "spline"])
            kw = {}
            if method == "cubic" and rng.random() < 0.4:
                kw = {"bc_type": rng.choice(["natural", "clamped", "not-a-knot"])}
            if method == "spline" and rng.random() < 0.4:
                kw = {"k": rng.choice([1, 2, 3])} if rng.random() < 0.5 else {"s": 0.0}
            c = {"x": x, "y": y, "new_x": nx, "method": method, "kw": kw}
            if rng.random() < 0.25:
                c["new_x"] = list(x)
            if rng.random() < 0.2:
                a, b = gens.dyadic(rng, -4, 4, 2), gens.dyadic(rng, -4, 4, 2)
                c["y"] = [a * v + b for v in x]
                c["affine"] = [a, b]
            cases.append(c)
        # the same array objects asked twice, their contents rewritten in place between the two calls (the second call is judged)
        for i, c in enumerate(cases):
            if i % 4 == 0:
                c["kw"] = {}
                c["prior_edit"] = ["y", "x", "both"][(i // 4) % 3]
        return cases

    def run(self, c):
        import traffic_weaver.process as P
        import scipy.interpolate as SI
        calls = []
        saved = (P.CubicSpline, P.splrep, P.BSpline)

        def rec_cubic(x, y, **kw):
            calls.append({"fn": "CubicSpline", "x": np.asarray(x, dtype=float).tolist(), "y": np.asarray(y, dtype=float).tolist(), "kw": {k: repr(v) for k, v in kw.items()}})
            return saved[0](x, y, **kw)

        def rec_splrep(x, y, **kw):
            calls.append({"fn": "splrep", "x": np.asarray(x, dtype=float).tolist(), "y": np.asarray(y, dtype=float).tolist(), "kw": {k: repr(v) for k, v in kw.items()}})
            return saved[1](x, y, **kw)
        P.CubicSpline, P.splrep = rec_cubic, rec_splrep
        x = np.array(c["x"], dtype=float)
        y = np.array(c["y"], dtype=float)
        nx = np.array(c["new_x"], dtype=float)
        try:
            import warnings
            with warnings.catch_warnings():
                warnings.simplefilter("ignore")
                if c.get("prior_edit"):
                    if c["prior_edit"] in ("y", "both"):
                        y[:] = y[::-1] * 2.0 - 5.0
                    if c["prior_edit"] in ("x", "both"):
                        x[:] = x * 2.0 - 1.0
                    try:
                        P.interpolate(x, y, nx, method=c["method"])
                    except Exception:
                        pass
                    x[:] = c["x"]
                    y[:] = c["y"]
                    del calls[:]
                r = P.interpolate(x, y, nx, method=c["method"], **c["kw"])
                if c["method"] == "cubic":
                    exp = SI.CubicSpline(x, y, **c["kw"])(nx)
                else:
                    exp = SI.BSpline(*SI.splrep(x, y, **c["kw"]))(nx)
            return {"out": np.asarray(r, dtype=float).tolist(), "expected": np.asarray(exp, dtype=float).tolist(), "calls": calls}
        except Exception as e:
            return {"exc": exn_name(e), "exc_msg": str(e)[:100], "calls": calls}
        finally:
            P.CubicSpline, P.splrep, P.BSpline = saved

    def oracle(self, c, o):
        F = []

        def fail(aspect, what):
            F.append(Failure(aspect=aspect, what="interpolate(%s, %s)%s: %s (x=%s y=%s new_x=%s)" % (c["method"], c["kw"], " [second call on the same array objects, %s rewritten in place after the first]" % c["prior_edit"] if c.get("prior_edit") else "", what, c["x"], c["y"], c["new_x"]),
                             signature={"aspect": aspect, "method": c["method"]}))
        if "exc" in o:
            fail("raises", o["exc_msg"])
            return F
        if len(o["calls"]) != 1:
            fail("forwarding", "library constructor called %d times" % len(o["calls"]))
            return F
        call = o["calls"][0]
        if call["x"] != c["x"] or call["y"] != c["y"]:
            fail("forwarding", "x / y not handed to SciPy unchanged")
        if call["kw"] != {k: repr(v) for k, v in c["kw"].items()}:
            fail("forwarding", "keyword arguments %s reached SciPy, %s were given" % (call["kw"], c["kw"]))
        if len(o["out"]) != len(c["new_x"]) or not close(o["out"], o["expected"], 1e-12):
            fail("values", "returned values are not SciPy's values at the new grid")
            return F
        interp_like = c["method"] == "cubic" or c["kw"].get("s", 0.0) == 0.0
        if interp_like and c["kw"].get("k", 3) >= 1:
            for v, r in zip(c["new_x"], o["out"]):
                if v in c["x"]:
                    yv = c["y"][c["x"].index(v)]
                    if abs(r - yv) > 1e-7 * (1 + max(abs(t) for t in c["y"])):
                        fail("at-nodes", "at node %s returned %r, sample is %r" % (v, r, yv))
                        break
        # clamped end conditions force zero end slopes: affine data is then NOT reproduced (SciPy's semantics, not a defect)
        if "affine" in c and interp_like and c["kw"].get("bc_type", "not-a-knot") != "clamped":
            a, b = c["affine"]
            for v, r in zip(c["new_x"], o["out"]):
                if c["x"][0] <= v <= c["x"][-1] and abs(r - (a * v + b)) > 1e-7 * (1 + abs(a * v + b) + max(abs(t) for t in c["y"])):
                    fail("affine", "affine data not reproduced at %s: %r vs %r" % (v, r, a * v + b))
                    break
        return F

    def label(self, c, o):
        return c["method"] + (":kw" if c["kw"] else "") + (":again-after-edit" if c.get("prior_edit") else "")
