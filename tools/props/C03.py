"""C03 — integral matching; see DESIGN.md section 7."""
from tools.harness.core import Property
from tools.props.match_units import MatchUnit


class P(Property):
    id = "C03"
    gen_targets = ["MatchGlue"]

    def units(self, tier):
        return [MatchUnit(("C03",))]


PROPERTY = P()
