#!/bin/bash
# usage: tools/try_patch_iso.sh <patch.diff> <ID> [tier]
# Like try_patch.sh, but touches neither /repo nor this directory: a scratch git worktree of /repo gets the patch, a scratch copy of
# this directory (with its compiled .vo files, so the build is incremental) runs the check against it (VERIF_REPO), both are removed.
# Several of these can run at the same time.
set -u
patch="$(realpath "$1")"; id="$2"; tier="${3:-quick}"
here="$(cd "$(dirname "$0")/.." && pwd)"
w=$(mktemp -d /tmp/iso.XXXXXX)
trap 'git -C /repo worktree remove --force "$w/repo" >/dev/null 2>&1; rm -rf "$w"; git -C /repo worktree prune' EXIT
git -C /repo worktree add --detach "$w/repo" HEAD >/dev/null 2>&1 || { echo "worktree failed"; exit 2; }
git -C "$w/repo" apply "$patch" || { echo "patch does not apply"; exit 2; }
mkdir "$w/verif"
( cd "$here" && tar cf - --exclude=.git --exclude=_build --exclude=seeded --exclude=replay . ) | tar xf - -C "$w/verif"
mkdir -p "$w/verif/replay"
out=$(cd "$w/verif" && VERIF_REPO="$w/repo" ./check "$id" --tier "$tier" 2>&1); rc=$?
echo "$out" | grep -E "^VIOLATION|^KNOWN|aspect=|broken|^C[0-9]+ " | cut -c1-260
echo "exit=$rc"
