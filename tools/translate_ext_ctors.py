# Extension target "CtorsGlue": the constructors that Gen/RfaGlue.v and Gen/WeaverGlue.v leave out.
# Executed inside tools/translate.py's namespace (target, _src, _gexpr, _gstmts, _cstr, _glist, _dotted, _CTX, TranslateError, ast).
#
#   rfa.py     every `__init__` of the strategy classes and FunctionRFA._get_sampling_function        -> ctors_rfa_methods
#              the class table (bases, methods defined in the class body)                              -> ctors_rfa_classes
#   weaver.py  the three static constructors from_2d_array / from_dataframe / from_csv                 -> ctors_weaver_static
#
# Fail-closed: the whole body of every listed function goes through _gstmts; nothing is skipped or defaulted.  Constructs that
# _gexpr cannot express are first rewritten, on the ast, into an *equivalent Python form that keeps every sub-expression*:
#
#   {}                                   ->  dict()                                   (only the empty literal)
#   if e: / (a if e else b), e not a     ->  if bool(e): / (a if bool(e) else b)      (Python's truth test made explicit; a test is
#     comparison / not / and-or of such                                                 left alone when it is syntactically boolean)
#   self.attr(args, **kw), attr a data   ->  __call__(self.attr, args, **kw)           (calling the value stored in the attribute;
#     attribute stored by a constructor                                                 a method of the same name anywhere in the
#                                                                                       file makes the translation fail)
#   a[i]          (weaver.py only)       ->  getitem(a, i)                             (operator.getitem; inside the index a slice
#   a[lo:hi:st], a[:, k]                 ->  getitem(a, slice(lo, hi, st)), getitem(a, (slice(None, None, None), k))
#                                                                                       l:u:s is slice(l, u, s), omitted = None)
#   def f(.., p=lambda x, y: CubicSpline(x, y))   the default is the *name* "lambda x, y: CubicSpline(x, y)" (an opaque value whose
#                                                  text is pinned: any other lambda default is rejected)
#
# `super().__init__(args)` is accepted only as a top-level statement of an `__init__` (zero-argument super, positional
# arguments); it is emitted as  SExpr (GMeth (GCall "super" [] []) "__init__" [args])  and given its meaning (the run of the
# parent's regenerated body, found through ctors_rfa_classes) by Model/GlueLeaves_Ctors.v -- it is not a leaf.
# `self` may occur only as `self.attr`.  Parameter annotations (xy: np.ndarray, file_name: str) have no effect on a call and
# are not part of the term.

_CTORS_RFA_WITH_INIT = ["AbstractRFA", "FunctionRFA", "CubicSplineRFA", "LinearFixedRFA", "LinearAdaptiveRFA", "ExpFixedRFA", "ExpAdaptiveRFA"]
_CTORS_RFA_WITHOUT_INIT = ["PiecewiseConstantRFA", "IntervalRFA"]        # they inherit AbstractRFA.__init__ (checked below)
_CTORS_RFA_EXTRA = [("FunctionRFA", "_get_sampling_function")]
_CTORS_LAMBDA_DEFAULTS = ["lambda x, y: CubicSpline(x, y)"]
_CTORS_WEAVER_STATIC = ["from_2d_array", "from_dataframe", "from_csv"]
_CTORS_BUILTINS = {"len", "range", "zip", "int", "abs", "min", "max", "float", "super", "dict", "bool", "__call__", "getitem", "slice", "self"}


def _ctors_is_boolean(e):
    if isinstance(e, ast.Compare):
        return True
    if isinstance(e, ast.UnaryOp) and isinstance(e.op, ast.Not):
        return True
    if isinstance(e, ast.Constant) and isinstance(e.value, bool):
        return True
    if isinstance(e, ast.BoolOp):
        return all(_ctors_is_boolean(v) for v in e.values)
    return False


def _ctors_name(id_):
    return ast.Name(id=id_, ctx=ast.Load())


class _CtorsRewrite(ast.NodeTransformer):
    """the rewrites listed in the header; every node that is not rewritten is kept (and later translated or rejected by _gexpr)"""

    def __init__(self, where, data_attrs, method_names, subscripts):
        self.where = where
        self.data_attrs = data_attrs
        self.method_names = method_names
        self.subscripts = subscripts

    def _truth(self, test):
        test = self.visit(test)
        if _ctors_is_boolean(test):
            return test
        return ast.Call(func=_ctors_name("bool"), args=[test], keywords=[])

    def visit_If(self, node):
        node.test = self._truth(node.test)
        node.body = [self.visit(s) for s in node.body]
        node.orelse = [self.visit(s) for s in node.orelse]
        return node

    def visit_IfExp(self, node):
        node.test = self._truth(node.test)
        node.body = self.visit(node.body)
        node.orelse = self.visit(node.orelse)
        return node

    def visit_Dict(self, node):
        if node.keys or node.values:
            raise TranslateError("%s: non-empty dict literal outside the glue grammar" % self.where)
        return ast.Call(func=_ctors_name("dict"), args=[], keywords=[])

    def visit_Call(self, node):
        f = node.func
        if isinstance(f, ast.Attribute) and isinstance(f.value, ast.Name) and f.value.id == "self":
            if f.attr in self.method_names or f.attr not in self.data_attrs:
                raise TranslateError("%s: call of self.%s: not a data attribute stored by a constructor (or also the name of a method)" % (self.where, f.attr))
            args = [self.visit(a) for a in node.args]
            kws = [ast.keyword(arg=k.arg, value=self.visit(k.value)) for k in node.keywords]
            return ast.Call(func=_ctors_name("__call__"), args=[f] + args, keywords=kws)
        return self.generic_visit(node)

    def _index(self, s):
        if isinstance(s, ast.Slice):
            parts = [self.visit(p) if p is not None else ast.Constant(value=None) for p in (s.lower, s.upper, s.step)]
            return ast.Call(func=_ctors_name("slice"), args=parts, keywords=[])
        if isinstance(s, ast.Tuple):
            return ast.Tuple(elts=[self._index(x) for x in s.elts], ctx=ast.Load())
        return self.visit(s)

    def visit_Subscript(self, node):
        if not self.subscripts:
            return self.generic_visit(node)
        if not isinstance(node.ctx, ast.Load):
            raise TranslateError("%s: subscript target outside the glue grammar" % self.where)
        return ast.Call(func=_ctors_name("getitem"), args=[self.visit(node.value), self._index(node.slice)], keywords=[])


def _ctors_check_self_and_super(fn, where, is_init):
    """`self` only as self.attr; `super` only in top-level statements `super().__init__(positional args)` of an __init__"""
    ok_self, ok_super = set(), set()
    for sub in ast.walk(fn):
        if isinstance(sub, ast.Attribute) and isinstance(sub.value, ast.Name) and sub.value.id == "self":
            ok_self.add(id(sub.value))
    if is_init:
        for st in fn.body:
            if isinstance(st, ast.Expr) and isinstance(st.value, ast.Call):
                c = st.value
                if isinstance(c.func, ast.Attribute) and c.func.attr == "__init__" and isinstance(c.func.value, ast.Call) \
                        and isinstance(c.func.value.func, ast.Name) and c.func.value.func.id == "super":
                    if c.func.value.args or c.func.value.keywords:
                        raise TranslateError("%s: super(...) with arguments outside the glue grammar" % where)
                    if c.keywords or any(isinstance(a, ast.Starred) for a in c.args):
                        raise TranslateError("%s: super().__init__ with keyword / starred arguments outside the glue grammar" % where)
                    ok_super.add(id(c.func.value.func))
    for sub in ast.walk(fn):
        if isinstance(sub, ast.Name) and sub.id == "self" and id(sub) not in ok_self:
            raise TranslateError("%s: `self` used other than as self.attr" % where)
        if isinstance(sub, ast.Name) and sub.id == "super" and id(sub) not in ok_super:
            raise TranslateError("%s: `super` used other than in a top-level statement super().__init__(args) of an __init__" % where)
        if isinstance(sub, ast.Attribute) and sub.attr == "__init__" and not (isinstance(sub.value, ast.Call) and isinstance(sub.value.func, ast.Name)
                                                                               and id(sub.value.func) in ok_super):
            raise TranslateError("%s: explicit call of another __init__ outside the glue grammar" % where)


def _ctors_row(rowname, fn, params_args, fname, bound, rewrite):
    """parameters (with defaults, **kwargs) and the whole body of fn, after the rewrites"""
    a = fn.args
    if a.vararg or a.kwonlyargs or a.posonlyargs:
        raise TranslateError("%s: parameter kinds of %s outside the glue grammar" % (fname, rowname))
    names = [x.arg for x in params_args]
    if len(set(names)) != len(names):
        raise TranslateError("%s: duplicate parameter in %s" % (fname, rowname))
    all_defaults = [None] * (len(a.args) - len(a.defaults)) + list(a.defaults)
    defaults = all_defaults[len(a.args) - len(params_args):]
    if any(d is not None for d in all_defaults[:len(a.args) - len(params_args)]):
        raise TranslateError("%s: default on self in %s" % (fname, rowname))
    params = []
    for nm, d in zip(names, defaults):
        if d is None:
            params.append("(%s, None)" % _cstr(nm))
        elif isinstance(d, ast.Lambda):
            text = ast.unparse(d)
            if text not in _CTORS_LAMBDA_DEFAULTS:
                raise TranslateError("%s: lambda default of %s.%s is not the pinned one: %s" % (fname, rowname, nm, text[:80]))
            params.append("(%s, Some (GVar %s))" % (_cstr(nm), _cstr(text)))
        else:
            if not isinstance(d, ast.Constant):
                raise TranslateError("%s: default of %s.%s is not a constant" % (fname, rowname, nm))
            params.append("(%s, Some %s)" % (_cstr(nm), _gexpr(d, "%s:%s default" % (fname, rowname))))
    if a.kwarg is not None:
        params.append("(%s, None)" % _cstr("**" + a.kwarg.arg))
    local_names = set(names) | ({a.kwarg.arg} if a.kwarg is not None else set())
    for sub in (n for st in fn.body for n in ast.walk(st)):
        if isinstance(sub, ast.Name) and isinstance(sub.ctx, (ast.Store, ast.Del)):
            local_names.add(sub.id)
        if isinstance(sub, (ast.FunctionDef, ast.AsyncFunctionDef, ast.Lambda, ast.ClassDef, ast.Import, ast.ImportFrom, ast.Global, ast.Nonlocal,
                            ast.With, ast.Try, ast.While, ast.For, ast.NamedExpr, ast.ListComp, ast.SetComp, ast.DictComp, ast.GeneratorExp,
                            ast.Delete, ast.Await, ast.Yield, ast.YieldFrom, ast.Starred)):
            raise TranslateError("%s:%d: %s in %s outside the glue grammar" % (fname, getattr(sub, "lineno", fn.lineno), type(sub).__name__, rowname))
    clash = local_names & bound
    if clash:
        raise TranslateError("%s: %s rebinds %s" % (fname, rowname, sorted(clash)))
    body = [rewrite.visit(st) for st in fn.body]
    for st in body:
        ast.fix_missing_locations(st)
    save = dict(_CTX)
    try:
        _CTX["self_attrs"] = True
        _CTX["locals"] = set(local_names)
        _CTX["allow_while"] = False
        text = _gstmts(body, "%s:%s" % (fname, rowname))
    finally:
        _CTX.update(save)
    return "  (%s, (%s,\n     %s))" % (_cstr(rowname), _glist(params), text)


def _ctors_module(fname):
    """module-level imports and classes; anything else at module level is rejected (it could rebind a name)"""
    tree = ast.parse(_src(fname))
    imports, classes = [], {}
    for node in tree.body:
        if isinstance(node, ast.Expr) and isinstance(node.value, ast.Constant) and isinstance(node.value.value, str):
            continue
        if isinstance(node, ast.Import):
            for al in node.names:
                imports.append(("", al.name, al.asname or al.name))
        elif isinstance(node, ast.ImportFrom):
            for al in node.names:
                if al.name == "*":
                    raise TranslateError("%s:%d: star import" % (fname, node.lineno))
                imports.append(("." * node.level + (node.module or ""), al.name, al.asname or al.name))
        elif isinstance(node, ast.ClassDef):
            if node.decorator_list or node.keywords:
                raise TranslateError("%s: decorator / metaclass on class %s" % (fname, node.name))
            if node.name in classes:
                raise TranslateError("%s: class %s defined twice" % (fname, node.name))
            classes[node.name] = node
        else:
            raise TranslateError("%s:%d: module-level statement outside the glue grammar: %s" % (fname, node.lineno, ast.unparse(node)[:80].split("\n")[0]))
    clash = set(classes) & {b for _, _, b in imports}
    if clash:
        raise TranslateError("%s: classes shadow imports: %s" % (fname, sorted(clash)))
    return imports, classes


def _ctors_class_methods(fname, cname, c):
    meths = {}
    for sub in c.body:
        if isinstance(sub, ast.FunctionDef):
            if sub.name in meths:
                raise TranslateError("%s: %s.%s defined twice" % (fname, cname, sub.name))
            meths[sub.name] = sub
        elif (isinstance(sub, ast.Expr) and isinstance(sub.value, ast.Constant)) or isinstance(sub, ast.Pass):
            continue
        else:
            raise TranslateError("%s:%d: class-level statement in %s outside the glue grammar" % (fname, sub.lineno, cname))
    return meths


def _ctors_imports_def(defname, imports):
    return "Definition %s : list (string * string * string) := [\n" % defname + \
        ";\n".join("  (%s, %s, %s)" % (_cstr(a), _cstr(b), _cstr(c)) for a, b, c in imports) + "\n].\n"


def _ctors_rfa():
    fname = "rfa.py"
    imports, classes = _ctors_module(fname)
    bound = {b for _, _, b in imports} | set(classes) | _CTORS_BUILTINS
    hier, methods = [], {}
    for cname, c in classes.items():
        bases = []
        for b in c.bases:
            nm = _dotted(b)
            if nm is None:
                raise TranslateError("%s: base of %s outside the glue grammar" % (fname, cname))
            bases.append(nm)
        if len(bases) > 1:
            raise TranslateError("%s: class %s has several bases (super() is resolved along single inheritance only)" % (fname, cname))
        methods[cname] = _ctors_class_methods(fname, cname, c)
        for b in bases:
            if b not in classes and b != "ABC":
                raise TranslateError("%s: base %s of %s is neither a class of the file nor ABC" % (fname, b, cname))
        hier.append("  (%s, (%s, %s))" % (_cstr(cname), _glist(_cstr(b) for b in bases), _glist(_cstr(m) for m in methods[cname])))
    # which classes define their own __init__: exactly the expected ones (a new constructor is not silently left out)
    with_init = sorted(cn for cn in classes if "__init__" in methods[cn])
    if with_init != sorted(_CTORS_RFA_WITH_INIT):
        raise TranslateError("%s: classes defining __init__ are %s, expected %s" % (fname, with_init, sorted(_CTORS_RFA_WITH_INIT)))
    without = sorted(cn for cn in classes if "__init__" not in methods[cn])
    if without != sorted(_CTORS_RFA_WITHOUT_INIT):
        raise TranslateError("%s: classes without own __init__ are %s, expected %s" % (fname, without, sorted(_CTORS_RFA_WITHOUT_INIT)))
    # no class may customise object creation or attribute access in another way
    for cn in classes:
        for m in methods[cn]:
            if m in ("__new__", "__setattr__", "__getattr__", "__getattribute__", "__init_subclass__", "__post_init__", "__call__"):
                raise TranslateError("%s: %s.%s outside the glue grammar" % (fname, cn, m))
    method_names = {m for cn in classes for m in methods[cn]}
    # data attributes: what some __init__ stores (self.attr = ...)
    data_attrs = set()
    for cn in classes:
        fn = methods[cn].get("__init__")
        if fn is not None:
            for sub in ast.walk(fn):
                if isinstance(sub, ast.Attribute) and isinstance(sub.ctx, ast.Store) and isinstance(sub.value, ast.Name) and sub.value.id == "self":
                    data_attrs.add(sub.attr)
    clash = data_attrs & method_names
    if clash:
        raise TranslateError("%s: attributes stored by a constructor are also method names: %s" % (fname, sorted(clash)))
    rows = []
    todo = [(cn, "__init__") for cn in classes if "__init__" in methods[cn]] + list(_CTORS_RFA_EXTRA)
    for cname, mname in todo:
        if cname not in classes or mname not in methods[cname]:
            raise TranslateError("%s: %s.%s not found" % (fname, cname, mname))
        fn = methods[cname][mname]
        rowname = cname + "." + mname
        if fn.decorator_list:
            raise TranslateError("%s: decorator on %s" % (fname, rowname))
        if fn.returns is not None:
            raise TranslateError("%s: return annotation on %s" % (fname, rowname))
        if not fn.args.args or fn.args.args[0].arg != "self":
            raise TranslateError("%s: %s has no self" % (fname, rowname))
        _ctors_check_self_and_super(fn, "%s:%s" % (fname, rowname), mname == "__init__")
        rw = _CtorsRewrite("%s:%s" % (fname, rowname), data_attrs, method_names, subscripts=False)
        rows.append(_ctors_row(rowname, fn, fn.args.args[1:], fname, bound, rw))
    return imports, hier, rows


def _ctors_weaver():
    fname = "weaver.py"
    imports, classes = _ctors_module(fname)
    if list(classes) != ["Weaver"]:
        raise TranslateError("%s: classes are %s, expected only Weaver" % (fname, list(classes)))
    c = classes["Weaver"]
    if c.bases:
        raise TranslateError("%s: class Weaver has bases" % fname)
    meths = {}
    for sub in c.body:
        if isinstance(sub, ast.Expr) and isinstance(sub.value, ast.Constant):
            continue
        if not isinstance(sub, ast.FunctionDef):
            raise TranslateError("%s:%d: class-level statement outside the glue grammar" % (fname, sub.lineno))
        if sub.name in meths:
            raise TranslateError("%s: Weaver.%s defined twice" % (fname, sub.name))
        meths[sub.name] = sub
    for m in ("__new__", "__setattr__", "__getattr__", "__getattribute__", "__init_subclass__", "__call__"):
        if m in meths:
            raise TranslateError("%s: Weaver.%s outside the glue grammar" % (fname, m))
    static_found = sorted(nm for nm, fn in meths.items() if fn.decorator_list)
    if static_found != sorted(_CTORS_WEAVER_STATIC):
        raise TranslateError("%s: decorated methods of Weaver are %s, expected the static constructors %s" % (fname, static_found, sorted(_CTORS_WEAVER_STATIC)))
    bound = {b for _, _, b in imports} | {"Weaver"} | _CTORS_BUILTINS
    rows = []
    for name in _CTORS_WEAVER_STATIC:
        fn = meths[name]
        if len(fn.decorator_list) != 1 or not (isinstance(fn.decorator_list[0], ast.Name) and fn.decorator_list[0].id == "staticmethod"):
            raise TranslateError("%s: %s is expected to be a plain staticmethod" % (fname, name))
        if fn.args.args and fn.args.args[0].arg == "self":
            raise TranslateError("%s: static method %s takes self" % (fname, name))
        if fn.returns is not None:
            raise TranslateError("%s: return annotation on %s" % (fname, name))
        for sub in ast.walk(fn):
            if isinstance(sub, ast.Name) and sub.id in ("self", "super"):
                raise TranslateError("%s: %s in static method %s" % (fname, sub.id, name))
        rw = _CtorsRewrite("%s:%s" % (fname, name), set(), set(), subscripts=True)
        rows.append(_ctors_row(name, fn, fn.args.args, fname, bound, rw))
    return imports, rows


@target("CtorsGlue")
def gen_ctors_glue():
    rfa_imports, hier, rfa_rows = _ctors_rfa()
    wv_imports, wv_rows = _ctors_weaver()
    out = ["(** GENERATED by tools/translate.py (tools/translate_ext_ctors.py) from /repo/src/traffic_weaver/rfa.py and weaver.py — do not edit.",
           "    The constructors: every `__init__` of the strategy classes of rfa.py and FunctionRFA._get_sampling_function",
           "    (`self.attr` is the variable \"self.attr\"; `super().__init__(args)` is the statement",
           "    SExpr (GMeth (GCall \"super\" [] []) \"__init__\" [args]), run by Model/GlueLeaves_Ctors.v as the parent's body),",
           "    and the three static constructors of class Weaver (a[i] is written getitem(a, i), a[:, k] getitem(a, (slice(None, None, None), k))).",
           "    Rewrites applied before translation: {} -> dict(); a non-boolean test e -> bool(e); self.attr(args) for a stored attribute ->",
           "    __call__(self.attr, args); a lambda default -> the name carrying its text. *)",
           "From TW Require Export Lib.Glue.", "Open Scope string_scope.", "",
           _ctors_imports_def("ctors_rfa_imports", rfa_imports),
           "(** classes of rfa.py: (name, (bases, methods defined in the class body)) *)",
           "Definition ctors_rfa_classes : list (string * (list string * list string)) := [\n" + ";\n".join(hier) + "\n].\n",
           "Definition ctors_rfa_methods : list (string * (list (string * option gexpr) * list gstmt)) := [\n" + ";\n".join(rfa_rows) + "\n].\n",
           _ctors_imports_def("ctors_weaver_imports", wv_imports),
           "Definition ctors_weaver_static : list (string * (list (string * option gexpr) * list gstmt)) := [\n" + ";\n".join(wv_rows) + "\n].\n"]
    return "\n".join(out)
