#!/bin/bash
# usage: tools/keep_seeded.sh <id> <check-id> [name-under-seeded] [worktree] — confirm a seeded change and store it under /verif/seeded/
id="$1"; chk="$2"; name="${3:-$id}"; wt="${4:-/tmp/wt-$id}"
cd $wt || exit 2
run_tests() { PYTHONPATH=$wt/src /venv/bin/python -m pytest -q -p no:cacheprovider --timeout=900 --continue-on-collection-errors 2>&1 | tail -1; }
run_demo() { PYTHONPATH=$wt/src /venv/bin/python $wt/demo_$id.py >/dev/null 2>&1; echo $?; }
# the worktrees share one refs/stash: never use git stash here. Normalise the worktree to exactly the agent's patch file.
git checkout -q -- src
git apply $wt/patch_$id.diff || { echo "patch_$id.diff does not apply"; exit 2; }
git diff --quiet -- src && { echo "no change applied in $wt"; exit 2; }
t_with=$(run_tests); d_with=$(run_demo)
git diff -- src > /tmp/keep_$id.diff
git apply -R /tmp/keep_$id.diff
t_without=$(run_tests); d_without=$(run_demo)
git apply /tmp/keep_$id.diff
echo "tests with: $t_with | without: $t_without | demo with: $d_with without: $d_without"
out=$(cd /verif && VERIF_SKIP_COQCHK=1 tools/try_patch_iso.sh /tmp/keep_$id.diff $chk 2>&1)
echo "$out" | tail -4 | cut -c1-200
mkdir -p /verif/seeded/$name
cp /tmp/keep_$id.diff /verif/seeded/$name/patch.diff
cp $wt/demo_$id.py /verif/seeded/$name/demo.py
/venv/bin/python - "$id" "$chk" "$t_with" "$t_without" "$d_with" "$d_without" "$name" "$wt" <<PY
import json,sys,subprocess
id_,chk,tw,two,dw,dwo,name=sys.argv[1:8]
m=json.load(open('%s/meta_%s.json'%(sys.argv[8],id_)))
out=open('/dev/stdin').read() if False else ""
m.update({"breaks_property":m.get("property",id_),"checked_with":"./check %s --tier quick (patch applied to a scratch worktree of /repo, check run from a scratch copy of /verif: tools/try_patch_iso.sh)"%chk,
 "confirmed":{"tests_with_change":tw.strip(),"tests_without_change":two.strip(),"demo_exit_with_change":int(dw),"demo_exit_without_change":int(dwo),
              "how":"ran the repository test suite and the demonstration in a scratch worktree with and without the change (PYTHONPATH=<worktree>/src)"}})
json.dump(m,open('/verif/seeded/%s/meta.json'%name,'w'),indent=1)
PY
echo "$out" | grep -E "^VIOLATION|aspect=|exit=" | head -6 > /verif/seeded/$name/check_output.txt
