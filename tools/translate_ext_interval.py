# Extension target "IntervalGlue": the methods of class IntervalArray (interval.py) as glue terms -> coq/Gen/IntervalGlue.v.
# Executed inside tools/translate.py's namespace (target, _src, _gexpr, _gstmts, _fun_row, _cstr, _glist, _dotted, _CTX,
# TranslateError, ast).
#
# The object is two variables of the environment: `self.a` is the variable "self.a", `self.n` the variable "self.n" (reads GVar,
# writes LVar, `self.a[k] = v` is LIdx "self.a" k); the caller of the interpreter binds them (and "self", the object value, used
# only as the receiver of a self-call) -- see Model/GlueLeaves_Interval.v and Proofs/GlueIntervalProofs.v.
#
# Fail-closed: the whole body of every listed method goes through _gstmts; nothing is skipped or defaulted.  The class body may
# contain only a docstring, the methods listed in _IVL_METHODS (all of them, once each) and the two methods of _IVL_SKIPPED
# (__iter__, __repr__: not translated, no theorem); any other method or class-level statement, a base class, a decorator other
# than exactly `@property` on `array`, a module-level statement other than an import / the class make the translation fail.
# Constructs that _gexpr / _glhs cannot express are first rewritten, on the ast, into an *equivalent Python form that keeps
# every sub-expression*:
#
#   self.a, self.n (read or written)     ->  the name "self.a" / "self.n"              (any other self.<attr> is rejected)
#   a // b,  a % b                       ->  floordiv(a, b),  mod(a, b)                (operator.floordiv / operator.mod: the
#                                                                                       interpreter's GBin has no integer division)
#   v[lo:hi:st],  v[lo:hi, lo':hi']      ->  getitem(v, slice(lo, hi, st)),  getitem(v, (slice(lo, hi, None), slice(lo', hi', None)))
#                                                                                      (operator.getitem with Python's own slice
#                                                                                       objects, omitted bound = None; a plain
#                                                                                       index v[k] stays GIdx)
#   p(args), p a parameter / local       ->  __call__(p, args)                         (calling the value bound to the name; keyword
#                                                                                       arguments are rejected)
#
# `self` may occur only as self.a / self.n or as the receiver of a call self.m(...) of a translated method m that is not a
# property and not __init__.  Value semantics of the interpreter: the receiver of a self-call is the object as it was when the
# method was entered, and a self-call returns a value only.  Both are exact under the two syntactic conditions checked here:
# a method that contains a self-call does not write self.a / self.n / self.a[...], and a method reached by a self-call does not
# either.  Expression statements (v.sort(), ...) could mutate an array in place and are rejected.
# Parameter annotations have no effect on a call and are not part of the term.

_IVL_FILE = "interval.py"
_IVL_CLASS = "IntervalArray"
_IVL_METHODS = ["__init__", "__getitem__", "__setitem__", "extend_linspace", "extend_constant", "nr_of_full_intervals", "__len__",
                "array", "to_2d_array", "to_2d_array_closed_intervals", "oversample", "oversample_linspace", "oversample_piecewise"]
_IVL_SKIPPED = ["__iter__", "__repr__"]
_IVL_PROPERTIES = ["array"]
_IVL_ATTRS = ["a", "n"]
_IVL_BUILTINS = {"len", "range", "zip", "int", "float", "abs", "min", "max", "iter", "next", "isinstance",
                 "floordiv", "mod", "getitem", "slice", "__call__", "self"}


def _ivl_name(id_, ctx=None):
    return ast.Name(id=id_, ctx=ctx if ctx is not None else ast.Load())


def _ivl_is_self(node):
    return isinstance(node, ast.Name) and node.id == "self"


def _ivl_writes_self(fn):
    """does the method assign self.<attr>, self.<attr>[...] (or delete / augment them)?"""
    for sub in (n for st in fn.body for n in ast.walk(st)):
        if isinstance(sub, ast.Attribute) and _ivl_is_self(sub.value) and isinstance(sub.ctx, (ast.Store, ast.Del)):
            return True
        if isinstance(sub, ast.Subscript) and isinstance(sub.ctx, (ast.Store, ast.Del)):
            v = sub.value
            while isinstance(v, (ast.Subscript, ast.Attribute)):
                if isinstance(v, ast.Attribute) and _ivl_is_self(v.value):
                    return True
                v = v.value
    return False


def _ivl_self_calls(fn):
    out = []
    for sub in (n for st in fn.body for n in ast.walk(st)):
        if isinstance(sub, ast.Call) and isinstance(sub.func, ast.Attribute) and _ivl_is_self(sub.func.value):
            out.append(sub.func.attr)
    return out


class _IvlRewrite(ast.NodeTransformer):
    """the rewrites listed in the header; every node that is not rewritten is kept (and later translated or rejected by _gexpr)"""

    def __init__(self, where, callable_names):
        self.where = where
        self.callable_names = callable_names

    def _fail(self, node, what):
        raise TranslateError("%s:%d: %s: %s" % (self.where, getattr(node, "lineno", 0), what, ast.unparse(node)[:80]))

    def visit_Name(self, node):
        if node.id == "self":
            self._fail(node, "`self` outside self.a / self.n / self.m(...)")
        if node.id.startswith("self."):
            self._fail(node, "reserved name")
        return node

    def visit_Attribute(self, node):
        if _ivl_is_self(node.value):
            if node.attr not in _IVL_ATTRS:
                self._fail(node, "unknown attribute of self")
            return ast.copy_location(_ivl_name("self." + node.attr, node.ctx), node)
        node.value = self.visit(node.value)
        return node

    def visit_Call(self, node):
        if any(isinstance(a, ast.Starred) for a in node.args) or any(k.arg is None for k in node.keywords):
            self._fail(node, "* / ** in a call")
        args = [self.visit(a) for a in node.args]
        kws = [ast.keyword(arg=k.arg, value=self.visit(k.value)) for k in node.keywords]
        if isinstance(node.func, ast.Attribute) and _ivl_is_self(node.func.value):
            m = node.func.attr
            if m not in _IVL_METHODS or m in _IVL_PROPERTIES or m == "__init__":
                self._fail(node, "self-call of a method that is not translated (or is a property)")
            return ast.copy_location(ast.Call(func=node.func, args=args, keywords=kws), node)      # receiver stays `self`
        if isinstance(node.func, ast.Name) and node.func.id in self.callable_names:
            if kws:
                self._fail(node, "keyword arguments in a call of a parameter / local")
            return ast.copy_location(ast.Call(func=_ivl_name("__call__"), args=[node.func] + args, keywords=[]), node)
        return ast.copy_location(ast.Call(func=self.visit(node.func), args=args, keywords=kws), node)

    def visit_BinOp(self, node):
        left, right = self.visit(node.left), self.visit(node.right)
        if isinstance(node.op, ast.FloorDiv):
            return ast.copy_location(ast.Call(func=_ivl_name("floordiv"), args=[left, right], keywords=[]), node)
        if isinstance(node.op, ast.Mod):
            return ast.copy_location(ast.Call(func=_ivl_name("mod"), args=[left, right], keywords=[]), node)
        return ast.copy_location(ast.BinOp(left=left, op=node.op, right=right), node)

    def visit_AugAssign(self, node):
        if isinstance(node.op, (ast.FloorDiv, ast.Mod)):
            self._fail(node, "augmented // or %")
        return self.generic_visit(node)

    def _slice_obj(self, s):
        none = ast.Constant(value=None)
        parts = [self.visit(x) if x is not None else none for x in (s.lower, s.upper, s.step)]
        return ast.Call(func=_ivl_name("slice"), args=parts, keywords=[])

    def visit_Subscript(self, node):
        s = node.slice
        has_slice = isinstance(s, ast.Slice) or (isinstance(s, ast.Tuple) and any(isinstance(x, ast.Slice) for x in s.elts))
        if not has_slice:
            return self.generic_visit(node)
        if not isinstance(node.ctx, ast.Load):
            self._fail(node, "assignment to a slice")
        if isinstance(s, ast.Slice):
            idx = self._slice_obj(s)
        else:
            idx = ast.Tuple(elts=[self._slice_obj(x) if isinstance(x, ast.Slice) else self.visit(x) for x in s.elts], ctx=ast.Load())
        return ast.copy_location(ast.Call(func=_ivl_name("getitem"), args=[self.visit(node.value), idx], keywords=[]), node)


def _ivl_no_expr_statements(stmts, where):
    for st in stmts:
        if isinstance(st, ast.Expr):
            if isinstance(st.value, ast.Constant) and isinstance(st.value.value, str):
                continue
            raise TranslateError("%s:%d: expression statement (possible in-place mutation): %s" % (where, st.lineno, ast.unparse(st)[:80]))
        for fld in ("body", "orelse"):
            if isinstance(getattr(st, fld, None), list):
                _ivl_no_expr_statements(getattr(st, fld), where)


@target("IntervalGlue")
def gen_interval_glue():
    fname = _IVL_FILE
    tree = ast.parse(_src(fname))
    imports, cls = [], None
    for node in tree.body:
        if isinstance(node, ast.Expr) and isinstance(node.value, ast.Constant) and isinstance(node.value.value, str):
            continue
        if isinstance(node, ast.Import):
            for al in node.names:
                imports.append(("", al.name, al.asname or al.name))
        elif isinstance(node, ast.ImportFrom):
            for al in node.names:
                if al.name == "*":
                    raise TranslateError("%s:%d: star import" % (fname, node.lineno))
                imports.append(("." * node.level + (node.module or ""), al.name, al.asname or al.name))
        elif isinstance(node, ast.ClassDef) and node.name == _IVL_CLASS and cls is None:
            cls = node
        else:
            raise TranslateError("%s:%d: module-level statement outside the glue grammar: %s"
                                 % (fname, node.lineno, ast.unparse(node)[:80].split("\n")[0]))
    if cls is None:
        raise TranslateError("%s: class %s not found" % (fname, _IVL_CLASS))
    if cls.bases or cls.keywords or cls.decorator_list:
        raise TranslateError("%s: base / metaclass / decorator on class %s" % (fname, _IVL_CLASS))
    bound_names = [b for _, _, b in imports]
    if len(set(bound_names)) != len(bound_names) or _IVL_CLASS in bound_names:
        raise TranslateError("%s: a name is imported twice (or the class name is)" % fname)
    # the class body: exactly the known methods
    defs = {}
    order = []
    for sub in cls.body:
        if isinstance(sub, ast.Expr) and isinstance(sub.value, ast.Constant) and isinstance(sub.value.value, str):
            continue
        if not isinstance(sub, ast.FunctionDef):
            raise TranslateError("%s:%d: class-level statement in %s outside the glue grammar: %s"
                                 % (fname, sub.lineno, _IVL_CLASS, ast.unparse(sub)[:80].split("\n")[0]))
        if sub.name in defs:
            raise TranslateError("%s: %s.%s is defined twice" % (fname, _IVL_CLASS, sub.name))
        if sub.name not in _IVL_METHODS and sub.name not in _IVL_SKIPPED:
            raise TranslateError("%s:%d: method %s.%s is not known to the translator" % (fname, sub.lineno, _IVL_CLASS, sub.name))
        decos = [ast.unparse(d) for d in sub.decorator_list]
        want = ["property"] if sub.name in _IVL_PROPERTIES else []
        if decos != want:
            raise TranslateError("%s:%d: decorators of %s.%s are %s, expected %s" % (fname, sub.lineno, _IVL_CLASS, sub.name, decos, want))
        defs[sub.name] = sub
        order.append(sub.name)
    missing = [m for m in _IVL_METHODS if m not in defs]
    if missing:
        raise TranslateError("%s: methods of %s not found: %s" % (fname, _IVL_CLASS, missing))
    # self-calls: neither the caller nor the callee writes the object
    for m in _IVL_METHODS:
        callees = _ivl_self_calls(defs[m])
        if callees and _ivl_writes_self(defs[m]):
            raise TranslateError("%s: %s.%s both writes self and calls self.%s" % (fname, _IVL_CLASS, m, callees[0]))
        for c in callees:
            if c in defs and _ivl_writes_self(defs[c]):
                raise TranslateError("%s: %s.%s calls self.%s, which writes self" % (fname, _IVL_CLASS, m, c))
    bound = set(bound_names) | {_IVL_CLASS} | _IVL_BUILTINS
    rows = []
    save = dict(_CTX)
    try:
        _CTX["self_attrs"] = False
        _CTX["locals"] = set()
        _CTX["allow_while"] = False
        for m in _IVL_METHODS:
            fn = defs[m]
            where = "%s:%s.%s" % (fname, _IVL_CLASS, m)
            a = fn.args
            if a.vararg or a.kwonlyargs or a.posonlyargs or a.kwarg:
                raise TranslateError("%s: parameter kinds outside the glue grammar" % where)
            names = [x.arg for x in a.args]
            if names[:1] != ["self"] or "self" in names[1:]:
                raise TranslateError("%s: first parameter is not self" % where)
            if m in _IVL_PROPERTIES and len(names) != 1:
                raise TranslateError("%s: a property with parameters" % where)
            local_names = set(names[1:])
            for sub in (n for st in fn.body for n in ast.walk(st)):
                if isinstance(sub, ast.Name) and isinstance(sub.ctx, (ast.Store, ast.Del)):
                    local_names.add(sub.id)
            if "self" in local_names:
                raise TranslateError("%s: self is rebound" % where)
            _ivl_no_expr_statements(fn.body, where)
            rw = _IvlRewrite(where, local_names)
            body = [rw.visit(st) for st in fn.body]
            defaults = [rw.visit(d) for d in a.defaults]
            clone = ast.FunctionDef(name=m, args=ast.arguments(posonlyargs=[], args=a.args[1:], vararg=None, kwonlyargs=[], kw_defaults=[],
                                                               kwarg=None, defaults=defaults),
                                    body=body, decorator_list=[], lineno=fn.lineno)
            ast.fix_missing_locations(clone)
            rows.append(_fun_row(clone, fname, bound))
    finally:
        _CTX.update(save)
    text_rows = ";\n".join(rows)
    for bad in ("GSelf", "LSelf", "SWhile", "SBreak", "SExpr"):
        if bad in text_rows:
            raise TranslateError("%s: %s in the generated table" % (fname, bad))
    out = ["(** GENERATED by tools/translate.py (tools/translate_ext_interval.py) from /repo/src/traffic_weaver/interval.py — do not edit.",
           "    The methods of class IntervalArray as terms of the glue language of Lib/Glue.v.  `self.a` / `self.n` are the variables",
           "    \"self.a\" / \"self.n\" (bound by the caller of the interpreter); `a // b`, `a % b` are floordiv(a, b), mod(a, b);",
           "    `v[lo:hi]` is getitem(v, slice(lo, hi, None)); a call of a parameter p is __call__(p, ...). *)",
           "From TW Require Export Lib.Glue.", "Open Scope string_scope.", "",
           "Definition interval_imports : list (string * string * string) := [\n" +
           ";\n".join("  (%s, %s, %s)" % (_cstr(a_), _cstr(b_), _cstr(c_)) for a_, b_, c_ in imports) + "\n].\n",
           "Definition interval_class : string := %s.\n" % _cstr(_IVL_CLASS),
           "(** every method defined in the class body, in source order *)",
           "Definition interval_defined : list string := %s.\n" % _glist(_cstr(d) for d in order),
           "(** defined but not translated (no theorem is about them) *)",
           "Definition interval_skipped : list string := %s.\n" % _glist(_cstr(d) for d in order if d in _IVL_SKIPPED),
           "(** methods decorated with exactly @property (read as an attribute: x.array); every other method has no decorator *)",
           "Definition interval_properties : list string := %s.\n" % _glist(_cstr(d) for d in order if d in _IVL_PROPERTIES),
           "(** (method, (parameters after self with their defaults, body)) *)",
           "Definition interval_methods : list (string * (list (string * option gexpr) * list gstmt)) := [\n" + text_rows + "\n].\n"]
    return "\n".join(out)
