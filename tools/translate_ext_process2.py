# Extension of tools/translate.py (executed in its namespace): Gen/Process2Glue.v
#
#   process.py            _piecewise_constant_interpolate, noise_gauss, average
#   sorted_array_utils.py sum_over_indices, oversample_linspace
#
# as terms of the glue language (Lib/Glue.v), fail-closed: the whole body of every listed function is translated by
# `_gstmts` / `_gexpr`, statement by statement.  Five constructs of these bodies are outside what `_gexpr` / `_glhs`
# (or the interpreter Model/GlueFun.v behind them) can express; they are rewritten on the `ast` first, to a form that
# keeps every sub-expression.  Nothing else is touched; a construct that is neither in the grammar nor one of the five
# raises TranslateError as before.
#
#   (R1) [elt for a, b in it]        ->  [elt' for (a, b) in it]   one loop variable whose NAME is the text "(a, b)";
#                                        in elt every read of a / b becomes "(a, b)"[0] / "(a, b)"[1]
#   (R2) e is True / e is False      ->  is_(e, True)              (operator.is_: the interpreter's `is` knows only None)
#   (R3) e[:, k]                     ->  getitem[:,k](e, k)        column k of a 2-D array
#   (R4) e[i], i not an int literal  ->  getitem(e, i)             NumPy indexing by a mask / an index array (an int too)
#        e[lo:hi], e not a name      ->  getslice(e, lo, hi)       a slice of a computed (possibly 2-D) array
#   (R5) v[m] = rhs, m a name        ->  v = setitem!(v, m, rhs)   NumPy boolean-mask assignment; as for `v.append(..)`
#                                        statements ("append!") the name is rebound to the array the leaf answers
#
# The introduced callee names are not Python identifiers (or are checked not to be bound in the module / the function),
# so they cannot collide with a name of the source.

_P2_INTRODUCED = {"is_", "getitem", "getitem[:,k]", "getslice", "setitem!"}


class _P2Subst(ast.NodeTransformer):
    """elt of a comprehension: reads of the unpacked names become subscripts of the single loop variable"""

    def __init__(self, var, names, where):
        self.var, self.names, self.where = var, names, where

    def visit_Name(self, node):
        if node.id in self.names:
            if not isinstance(node.ctx, ast.Load):
                raise TranslateError("%s: comprehension variable %s is rebound" % (self.where, node.id))
            return ast.copy_location(ast.Subscript(value=ast.Name(id=self.var, ctx=ast.Load()),
                                                   slice=ast.Constant(value=self.names.index(node.id)), ctx=ast.Load()), node)
        return node

    def generic_visit(self, node):
        if isinstance(node, (ast.ListComp, ast.SetComp, ast.DictComp, ast.GeneratorExp, ast.Lambda, ast.NamedExpr)):
            raise TranslateError("%s: nested scope inside a comprehension element" % self.where)
        return super().generic_visit(node)


def _p2_is_int_literal(e):
    if isinstance(e, ast.Constant) and isinstance(e.value, int) and not isinstance(e.value, bool):
        return True
    return isinstance(e, ast.UnaryOp) and isinstance(e.op, ast.USub) and _p2_is_int_literal(e.operand)


def _p2_call(name, args, at):
    return ast.copy_location(ast.Call(func=ast.Name(id=name, ctx=ast.Load()), args=args, keywords=[]), at)


class _P2Rewrite(ast.NodeTransformer):
    def __init__(self, where):
        self.where = where

    # (R1)
    def visit_ListComp(self, node):
        if len(node.generators) == 1 and isinstance(node.generators[0].target, ast.Tuple):
            g = node.generators[0]
            if g.ifs or g.is_async or not all(isinstance(t, ast.Name) for t in g.target.elts):
                raise TranslateError("%s: comprehension outside the glue grammar: %s" % (self.where, ast.unparse(node)[:100]))
            names = [t.id for t in g.target.elts]
            if len(set(names)) != len(names):
                raise TranslateError("%s: repeated comprehension variable" % self.where)
            var = "(" + ", ".join(names) + ")"
            elt = _P2Subst(var, names, self.where).visit(node.elt)
            node = ast.copy_location(ast.ListComp(elt=elt, generators=[ast.comprehension(
                target=ast.Name(id=var, ctx=ast.Store()), iter=g.iter, ifs=[], is_async=0)]), node)
        return self.generic_visit(node)

    # (R2)
    def visit_Compare(self, node):
        node = self.generic_visit(node)
        if len(node.ops) == 1 and isinstance(node.ops[0], ast.Is) and isinstance(node.comparators[0], ast.Constant) \
                and isinstance(node.comparators[0].value, bool):
            return _p2_call("is_", [node.left, node.comparators[0]], node)
        return node

    # (R3), (R4)
    def visit_Subscript(self, node):
        node = self.generic_visit(node)
        if not isinstance(node.ctx, ast.Load):
            return node
        s = node.slice
        if isinstance(s, ast.Tuple):
            if len(s.elts) == 2 and isinstance(s.elts[0], ast.Slice) and s.elts[0].lower is None and s.elts[0].upper is None \
                    and s.elts[0].step is None and not isinstance(s.elts[1], (ast.Slice, ast.Tuple)):
                return _p2_call("getitem[:,k]", [node.value, s.elts[1]], node)
            raise TranslateError("%s: subscript outside the glue grammar: %s" % (self.where, ast.unparse(node)[:100]))
        if isinstance(s, ast.Slice):
            if isinstance(node.value, ast.Name):
                return node
            if s.step is not None:
                raise TranslateError("%s: stepped slice of a computed value: %s" % (self.where, ast.unparse(node)[:100]))
            none = ast.Constant(value=None)
            return _p2_call("getslice", [node.value, s.lower if s.lower is not None else none,
                                         s.upper if s.upper is not None else none], node)
        if _p2_is_int_literal(s):
            return node
        return _p2_call("getitem", [node.value, s], node)

    # (R5)
    def visit_Assign(self, node):
        if len(node.targets) == 1 and isinstance(node.targets[0], ast.Subscript) and isinstance(node.targets[0].value, ast.Name) \
                and not isinstance(node.targets[0].slice, (ast.Slice, ast.Tuple)) and not _p2_is_int_literal(node.targets[0].slice):
            t = node.targets[0]
            if not isinstance(t.slice, ast.Name):
                # Python evaluates the right-hand side before the index expression; only a name (no effect, no exception) may
                # be moved in front of it
                raise TranslateError("%s: indexed assignment outside the glue grammar: %s" % (self.where, ast.unparse(t)[:100]))
            value = self.visit(node.value)
            return ast.copy_location(ast.Assign(
                targets=[ast.Name(id=t.value.id, ctx=ast.Store())],
                value=_p2_call("setitem!", [ast.Name(id=t.value.id, ctx=ast.Load()), t.slice, value], node)), node)
        return self.generic_visit(node)


def _p2_table(fname, funcs, defname):
    tree = ast.parse(_src(fname))
    imports, defs = _module_imports(tree, fname, funcs)
    bound = {b for _, _, b in imports} | set(defs) | {"len", "range", "zip", "int", "abs", "min", "max", "next", "iter"}
    if bound & _P2_INTRODUCED:
        raise TranslateError("%s: the module binds %s" % (fname, sorted(bound & _P2_INTRODUCED)))
    rows = []
    save = dict(_CTX)
    try:
        for name in funcs:
            fn = _find_fun(tree, name)
            if fn.decorator_list:
                raise TranslateError("%s: decorator on %s" % (fname, name))
            local_names = {x.arg for x in fn.args.args}
            for sub in (n for st in fn.body for n in ast.walk(st)):
                if isinstance(sub, ast.Name) and isinstance(sub.ctx, (ast.Store, ast.Del)):
                    local_names.add(sub.id)
            if local_names & _P2_INTRODUCED:
                raise TranslateError("%s: %s binds %s" % (fname, name, sorted(local_names & _P2_INTRODUCED)))
            clone = ast.FunctionDef(name=fn.name, args=fn.args, body=[_P2Rewrite("%s:%s" % (fname, name)).visit(st) for st in fn.body],
                                    decorator_list=[], lineno=fn.lineno)
            ast.fix_missing_locations(clone)
            _CTX["self_attrs"] = False
            _CTX["allow_while"] = False
            _CTX["locals"] = set(local_names)      # `a.shape` is an attribute read of the local a, not a global dotted name
            rows.append(_fun_row_rfa(clone, fname, bound - {name}))
    finally:
        _CTX.clear()
        _CTX.update(save)
    return ["Definition %s_imports : list (string * string * string) := [\n" % defname +
            ";\n".join("  (%s, %s, %s)" % (_cstr(a), _cstr(b), _cstr(c)) for a, b, c in imports) + "\n].\n",
            "(** every function defined at module level (a call of one of these names resolves to it) *)",
            "Definition %s_defined : list string := %s.\n" % (defname, _glist(_cstr(d) for d in defs)),
            "Definition %s_functions : list (string * (list (string * option gexpr) * list gstmt)) := [\n" % defname + ";\n".join(rows) + "\n].\n"]


@target("Process2Glue")
def gen_process2_glue():
    out = ["(** GENERATED by tools/translate.py (tools/translate_ext_process2.py) from /repo/src/traffic_weaver/process.py and",
           "    /repo/src/traffic_weaver/sorted_array_utils.py — do not edit.",
           "    _piecewise_constant_interpolate, noise_gauss, average (process.py) and sum_over_indices, oversample_linspace",
           "    (sorted_array_utils.py): parameters (with defaults) and bodies in the glue language of Lib/Glue.v.",
           "    Rewrites applied before translation (see the translator): [e for a, b in it] has the one loop variable \"(a, b)\";",
           "    `e is True` is is_(e, True); e[:, k] is getitem[:,k](e, k); e[i] with i not an integer literal is getitem(e, i);",
           "    a slice e[lo:hi] of a computed value is getslice(e, lo, hi); v[m] = rhs with m a name is v = setitem!(v, m, rhs). *)",
           "From TW Require Export Lib.Glue.", "Open Scope string_scope.", ""]
    out += _p2_table("process.py", ["_piecewise_constant_interpolate", "noise_gauss", "average"], "process2")
    out += _p2_table("sorted_array_utils.py", ["sum_over_indices", "oversample_linspace"], "utils2")
    return "\n".join(out)
