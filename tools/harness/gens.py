"""Structured generators. Inputs are drawn from small dyadic lattices so that the branch
quantities (comparisons, int() truncations) are computed exactly by IEEE arithmetic and the
exact model and the float implementation take the same branches (DESIGN 3.6)."""
from fractions import Fraction


def dyadic(rng, lo=-8, hi=8, bits=3):
    """k / 2^bits in [lo, hi]"""
    return rng.randint(lo * (1 << bits), hi * (1 << bits)) / (1 << bits)


def sorted_x(rng, m, kind=None):
    """strictly increasing abscissae; kinds: uniform, nonuniform dyadic, integer, wide-ratio"""
    kind = kind or rng.choice(["uniform", "uniform", "dyadic", "dyadic", "int", "ratio", "uniform", "dyadic", "dyadic", "int", "ratio", "epoch", "nearly"])
    if kind == "epoch":
        return epoch_x(rng, m)
    if kind == "nearly":
        # almost uniform: interior points off the regular grid by 2^-20..2^-18 of the step (all values are still short dyadics, so the
        # float arithmetic on them stays exact); tolerance-based "evenly spaced" tests (np.allclose) call this uniform
        step = rng.choice([1.0, 0.5, 256.0])
        x0 = dyadic(rng, -4, 4, 2)
        return [x0 + i * step + (step * rng.choice([-4, -2, -1, 1, 2, 4]) * 2.0 ** -20 if 0 < i < m - 1 else 0.0) for i in range(m)]
    if kind == "uniform":
        x0 = dyadic(rng, -4, 4, 2)
        step = rng.choice([0.25, 0.5, 1.0, 2.0, 3.0])
        return [x0 + i * step for i in range(m)]
    if kind == "int":
        x0 = rng.randint(-5, 5)
        out = [float(x0)]
        for _ in range(m - 1):
            out.append(out[-1] + rng.randint(1, 4))
        return out
    if kind == "ratio":  # gaps with ratios up to 1:16
        out = [dyadic(rng, -4, 4, 2)]
        for _ in range(m - 1):
            out.append(out[-1] + rng.choice([0.25, 0.5, 1.0, 2.0, 4.0]))
        return out
    out = [dyadic(rng, -4, 4, 3)]
    for _ in range(m - 1):
        out.append(out[-1] + rng.randint(1, 24) / 8)
    return out


def epoch_x(rng, m):
    """integer abscissae on a large offset (epoch seconds, a counter at 10^6): exact in floats, spacing tiny relative to the
    magnitude — relative-tolerance comparisons (np.isclose, rtol 1e-5) treat neighbouring samples as equal here"""
    x0, step = rng.choice([(1.7e9, 60.0), (1.7e9, 300.0), (1.0e6, 1.0), (86.4e6, 30.0), (1.7e9, 1.0)])
    out = [x0]
    for _ in range(m - 1):
        out.append(out[-1] + step * rng.choice([1, 1, 1, 2, 3]))
    return out


def loose_x(rng, m):
    """abscissae that are NOT small dyadics: decimal grids (k*0.1) and uniform grids with a tiny jitter.
    Only for units whose code never compares abscissae with == or <= against derived values."""
    if rng.random() < 0.5:
        step = rng.choice([0.1, 0.3, 0.05, 300.0])
        x0 = rng.choice([0.0, 1.7, -2.3]) if step < 1 else rng.choice([0.0, 1.7e6])    # keep differences well above the ulp of the level
        return [x0 + i * step for i in range(m)]
    x0 = rng.choice([0.0, 5.0, 1.7e6])
    step = rng.choice([1.0, 300.0, 0.5])
    return [x0 + i * step + (rng.randint(-8, 8) * 2.0 ** -14 if 0 < i < m - 1 else 0.0) for i in range(m)]


def values(rng, m, kind=None):
    kind = kind or rng.choice(["dyadic", "dyadic", "int", "ties", "big", "const", "baseline", "tiny"])
    if kind == "baseline":   # small integer variation on a large level: absolute-magnitude shortcuts show up here
        base = float(rng.choice([2 ** 20, 10 ** 6, -(2 ** 22)]))
        return [base + rng.randint(-6, 6) for _ in range(m)]
    if kind == "burst":      # a huge sample first, small non-dyadic ones after it: running totals lose the small ones
        big = rng.choice([4.1e11, 1.0e16, 3.3e12])
        h = 1 if m <= 2 else rng.choice([1, 2])
        return ([big * rng.choice([1.0, 0.8]) for _ in range(h)] + [round(rng.uniform(1, 6), 3) for _ in range(m - h)])[:m]
    if kind == "tiny":       # the same shape at a tiny scale
        return [rng.randint(-8, 8) * 2.0 ** -30 for _ in range(m)]
    if kind == "int":
        return [float(rng.randint(-10, 10)) for _ in range(m)]
    if kind == "ties":  # neighbouring equal values
        out = [dyadic(rng, -8, 8, 2)]
        for _ in range(m - 1):
            out.append(out[-1] if rng.random() < 0.4 else dyadic(rng, -8, 8, 2))
        return out
    if kind == "big":
        return [rng.choice([1.0, 3.0, 1000.0, -1000.0, 0.0, 0.5]) * rng.choice([1, 1, 2]) for _ in range(m)]
    if kind == "const":
        c = dyadic(rng, -8, 8, 2)
        return [c] * m
    return [dyadic(rng, -8, 8, 4) for _ in range(m)]


def frac(v):
    return Fraction(v)
