"""Core of the verification harness.

One check = (1) regenerate Gen/*.v from /repo, (2) rebuild the property's theorems
(obligations) with Coq, (3) run the correspondence units (implementation vs model, compared
inside Coq), (4) evaluate the property oracle on the implementation's outputs, (5) report.

Run under /venv/bin/python; /repo/src is forced to the front of sys.path.
"""
import fcntl
import hashlib
import json
import math
import os
import random
import re
import shutil
import signal
import subprocess
import sys
import time
import traceback
from concurrent.futures import ThreadPoolExecutor
from fractions import Fraction

VERIF = os.path.dirname(os.path.dirname(os.path.dirname(os.path.abspath(__file__))))
REPO = os.environ.get("VERIF_REPO", "/repo")
COQ = os.path.join(VERIF, "coq")
NCPU = min(16, os.cpu_count() or 4)

TRUSTED_BASE = [
    "Coq 8.16.1 kernel incl. vm_compute conversion (no native_compute)",
    "tools/translate.py (Python ast -> coq/Gen/*.v, fail-closed)",
    "coq/Model/*.v are hand-written models tied to /repo only by the correspondence run of this check",
    "correspondence harness: generators, dyadic encodings, tolerance 2^-30*(1+max|v|), coqtop output parsing",
    "floating-point rounding of the implementation is not modelled (theorems are over exact rationals)",
]


def force_repo_path():
    src = os.path.join(REPO, "src")
    sys.path[:] = [p for p in sys.path if os.path.abspath(p or ".") != src]
    sys.path.insert(0, src)
    os.environ["PYTHONPATH"] = src
    os.environ.setdefault("PYTHONHASHSEED", "0")


# ----------------------------------------------------------------------------------------
# number encodings
# ----------------------------------------------------------------------------------------
def _ispow2(n):
    return n > 0 and (n & (n - 1)) == 0


def zlit(z):
    z = int(z)
    return str(z) if z >= 0 else "(%d)" % z


def q(v):
    """exact Coq Qc term for an int / float / Fraction"""
    if isinstance(v, bool):
        raise TypeError("bool is not a number here")
    fr = Fraction(v)
    if fr.denominator == 1:
        return "(qz %s)" % zlit(fr.numerator)
    if _ispow2(fr.denominator):
        return "(dy %s %d)" % (zlit(fr.numerator), fr.denominator.bit_length() - 1)
    return "(qf %s %d)" % (zlit(fr.numerator), fr.denominator)


def qa(v, bits=40):
    """Coq Qc term approximating a float output to 2^-bits (absolute)"""
    fr = Fraction(float(v))
    n = round(fr * (1 << bits))
    return "(dy %s %d)" % (zlit(n), bits)


def qlist(vs, f=q):
    return "[" + "; ".join(f(v) for v in vs) + "]"


def zlist(vs):
    return "[" + "; ".join(zlit(v) for v in vs) + "]%Z"


def natlist(vs):
    return "[" + "; ".join(str(int(v)) for v in vs) + "]%nat"


def coq_bool(b):
    return "true" if b else "false"


def tol_for(values, rel=2.0 ** -30):
    """absolute tolerance (exact dyadic): rel * (1 + spread of the values) + 2^-44 * max|v| (float noise of the
    magnitude).  Spread-based so that a series sitting on a large baseline is still compared tightly."""
    vs = []
    for v in values:
        try:
            a = float(v)
        except Exception:
            continue
        if math.isfinite(a):
            vs.append(a)
    if not vs:
        return q(Fraction(rel))
    spread = max(vs) - min(vs)
    m = max(abs(v) for v in vs)
    t = rel * (1.0 + min(spread, m)) + 2.0 ** -44 * m
    return q(Fraction(t).limit_denominator(1 << 80))


EXN_NAMES = {"ValueError", "IndexError", "TypeError", "OSError", "AttributeError", "StopIteration"}


def exn_name(e):
    n = type(e).__name__
    if n in EXN_NAMES:
        return n
    for k in type(e).__mro__:
        if k.__name__ in EXN_NAMES:
            return k.__name__
    return "OtherExn"


def all_finite(*arrs):
    import numpy as np
    for a in arrs:
        try:
            if not np.all(np.isfinite(np.asarray(a, dtype=float))):
                return False
        except Exception:
            return False
    return True


# ----------------------------------------------------------------------------------------
# failures / findings
# ----------------------------------------------------------------------------------------
class Failure(dict):
    """an oracle failure: {'aspect':..., 'what':..., 'unit':..., 'case':..., 'observed':...}"""


def load_known_findings():
    p = os.path.join(VERIF, "known_findings.json")
    if not os.path.exists(p):
        return []
    return json.load(open(p)).get("findings", [])


def _match_clause(val, clause):
    if isinstance(clause, dict):
        for op, ref in clause.items():
            if op == "eq" and not val == ref:
                return False
            if op == "in" and val not in ref:
                return False
            if op == "lt" and not (val is not None and val < ref):
                return False
            if op == "le" and not (val is not None and val <= ref):
                return False
            if op == "gt" and not (val is not None and val > ref):
                return False
        return True
    return val == clause


def finding_matches(finding, prop, failure):
    if finding.get("property") != prop:
        return False
    sig = failure.get("signature", {})
    for k, clause in finding.get("signature", {}).items():
        if k not in sig:
            return False
        if not _match_clause(sig[k], clause):
            return False
    return True


# ----------------------------------------------------------------------------------------
# per-case time limit
# ----------------------------------------------------------------------------------------
class CaseTimeout(Exception):
    pass


def _alarm(signum, frame):
    raise CaseTimeout()


def with_timeout(fn, seconds, *a, **k):
    old = signal.signal(signal.SIGALRM, _alarm)
    signal.alarm(seconds)
    try:
        return fn(*a, **k)
    finally:
        signal.alarm(0)
        signal.signal(signal.SIGALRM, old)


# ----------------------------------------------------------------------------------------
# Coq side
# ----------------------------------------------------------------------------------------
class CoqLock:
    def __enter__(self):
        self.f = open(os.path.join(COQ, ".lock"), "w")
        fcntl.flock(self.f, fcntl.LOCK_EX)
        return self

    def __exit__(self, *a):
        fcntl.flock(self.f, fcntl.LOCK_UN)
        self.f.close()


def run(cmd, timeout, cwd=None, env=None):
    try:
        p = subprocess.run(cmd, cwd=cwd, env=env, timeout=timeout, stdout=subprocess.PIPE,
                           stderr=subprocess.STDOUT, text=True, errors="replace")
        return p.returncode, p.stdout
    except subprocess.TimeoutExpired as e:
        out = e.stdout if isinstance(e.stdout, str) else (e.stdout or b"").decode("utf8", "replace")
        return 124, out + "\n[timeout after %ss]" % timeout


def write_coqproject():
    """_CoqProject lists every .v under coq/ (coq_makefile orders them with coqdep)."""
    files = []
    for d in ("Lib", "Model", "Gen", "Proofs", "Properties"):
        dd = os.path.join(COQ, d)
        if os.path.isdir(dd):
            for f in sorted(os.listdir(dd)):
                if f.endswith(".v"):
                    files.append("%s/%s" % (d, f))
    text = "-R . TW\n" + "\n".join(files) + "\n"
    p = os.path.join(COQ, "_CoqProject")
    old = open(p).read() if os.path.exists(p) else None
    if old != text or not os.path.exists(os.path.join(COQ, "Makefile")):
        open(p, "w").write(text)
        rc, out = run(["coq_makefile", "-f", "_CoqProject", "-o", "Makefile"], 120, cwd=COQ)
        if rc != 0:
            raise RuntimeError("coq_makefile failed:\n" + out)


def gen_closure(prop_id, declared=()):
    """names of the Gen/*.v files reachable from Properties/<id>.v through `From TW Require Import/Export` lines"""
    seen, todo, gens = set(), ["Properties/%s.v" % prop_id], set()
    pat = re.compile(r"\b(Lib|Model|Gen|Proofs|Properties)\.([A-Za-z0-9_]+)")
    while todo:
        f = todo.pop()
        if f in seen:
            continue
        seen.add(f)
        path = os.path.join(COQ, f)
        if not os.path.exists(path):
            continue
        for line in open(path):
            if "Require" not in line:
                continue
            for d, m in pat.findall(line):
                if d == "Gen":
                    gens.add(m)
                todo.append("%s/%s.v" % (d, m))
    order = [g for g in declared if g in gens or True]
    return list(dict.fromkeys(list(order) + sorted(gens)))


AXIOM_ALLOW = set()  # the development is axiom-free; anything printed is reported


def parse_assumptions(out):
    """returns list of (closed:bool, axioms:list[str]) in order of Print Assumptions outputs"""
    res = []
    lines = out.splitlines()
    i = 0
    while i < len(lines):
        ln = lines[i]
        if ln.startswith("Closed under the global context"):
            res.append((True, []))
        elif ln.startswith("Axioms:"):
            ax = []
            i += 1
            while i < len(lines) and lines[i].strip() and not lines[i].startswith(("Closed under", "Axioms:")):
                m = re.match(r"^(\S+)\s*:", lines[i])
                if m:
                    ax.append(m.group(1))
                i += 1
            res.append((False, ax))
            continue
        i += 1
    return res


def count_statements(vfile):
    src = open(vfile).read()
    src = re.sub(r"\(\*.*?\*\)", "", src, flags=re.S)
    thms = re.findall(r"^\s*(Theorem|Lemma|Example|Corollary)\s+(\w+)", src, flags=re.M)
    prints = re.findall(r"^\s*Print Assumptions\s+(\w+)", src, flags=re.M)
    return [n for _, n in thms], prints


def build_property(prop, timeout=1500):
    """make the property's .vo (full build of its cone), then re-run coqc on the statements
    file to capture Print Assumptions.  Returns dict(ok, obligations, discharged, axioms, log)."""
    vfile = os.path.join(COQ, "Properties", prop + ".v")
    info = {"ok": False, "obligations": 0, "discharged": 0, "axioms": [], "log": "", "theorems": []}
    if not os.path.exists(vfile):
        info["log"] = "no statements file " + vfile
        return info
    thms, prints = count_statements(vfile)
    info["theorems"] = thms
    info["obligations"] = len(thms)
    with CoqLock():
        write_coqproject()
        t0 = time.time()
        rc, out = run(["make", "-j%d" % NCPU, "Properties/%s.vo" % prop], timeout, cwd=COQ)
        info["make_s"] = round(time.time() - t0, 1)
        if rc != 0:
            info["log"] = out[-6000:]
            m = re.findall(r'File "\./([^"]+)", line (\d+)', out)
            info["broken_at"] = ["%s:%s" % fl for fl in m][-3:]
            return info
        rc, out = run(["coqc", "-R", ".", "TW", "Properties/%s.v" % prop], 600, cwd=COQ)
        if rc != 0:
            info["log"] = out[-6000:]
            return info
    pa = parse_assumptions(out)
    axioms = sorted({a for closed, ax in pa for a in ax})
    info["axioms"] = axioms
    info["print_assumptions"] = len(pa)
    info["discharged"] = len(thms)
    info["ok"] = True
    info["log"] = out[-2000:]
    if len(pa) < len(prints):
        info["ok"] = False
        info["log"] = "Print Assumptions output missing (%d of %d)\n" % (len(pa), len(prints)) + out[-3000:]
    return info


def hygiene():
    """no Admitted / admit / Axiom / Parameter ... anywhere in the development"""
    bad = []
    pat = re.compile(r"\b(Admitted|admit|Axiom|Axioms|Parameter|Parameters|Conjecture|Unset Guard|bypass_check|"
                     r"Admit Obligations|type-in-type|impredicative-set)\b")
    for root, _, fs in os.walk(COQ):
        for f in fs:
            if f.endswith(".v"):
                src = open(os.path.join(root, f)).read()
                src = re.sub(r"\(\*.*?\*\)", "", src, flags=re.S)
                for m in pat.finditer(src):
                    bad.append("%s: %s" % (os.path.relpath(os.path.join(root, f), COQ), m.group(0)))
    return bad


_LIST_RE = re.compile(r"=\s*\[(.*?)\]\s*:\s*list nat", re.S)


def coq_eval_shard(path):
    rc, out = run(["coqtop", "-R", COQ, "TW", "-batch", "-l", path], 900, cwd=os.path.dirname(path))
    m = _LIST_RE.search(out)
    if rc != 0 or not m:
        return None, out[-3000:]
    body = m.group(1).replace("\n", " ").strip()
    if not body:
        return [], ""
    return [int(t) for t in body.replace("%nat", "").split(";") if t.strip()], ""


def coq_eval_bools(imports, exprs, builddir, tag, shard_bytes=120_000, shard_cases=400, preamble=""):
    """exprs: list of Coq bool expressions.  Returns (failing_indices, error_log)."""
    shards, cur, size = [], [], 0
    for i, e in enumerate(exprs):
        if cur and (size + len(e) > shard_bytes or len(cur) >= shard_cases):
            shards.append(cur)
            cur, size = [], 0
        cur.append((i, e))
        size += len(e)
    if cur:
        shards.append(cur)
    paths = []
    for k, sh in enumerate(shards):
        p = os.path.join(builddir, "cases_%s_%d.v" % (tag, k))
        with open(p, "w") as f:
            f.write("From TW Require Import Lib.Corr %s.\nOpen Scope Qc_scope.\n%s\n" % (" ".join(imports), preamble))
            f.write("Definition cases : list bool := [\n")
            f.write(";\n".join("(%s)" % e for _, e in sh))
            f.write("\n].\nEval vm_compute in (failing cases).\n")
        paths.append(p)
    failing, errs = [], []
    with ThreadPoolExecutor(max_workers=NCPU) as ex:
        for sh, (idxs, err) in zip(shards, ex.map(coq_eval_shard, paths)):
            if idxs is None:
                errs.append(err)
                failing.extend(i for i, _ in sh)
            else:
                failing.extend(sh[j][0] for j in idxs)
    return sorted(failing), "\n".join(errs)


# ----------------------------------------------------------------------------------------
# units
# ----------------------------------------------------------------------------------------
class Unit:
    """A correspondence unit. Subclasses define:
       name, imports (Coq modules), gen(rng, tier) -> cases (JSON-able dicts),
       run(case) -> observation dict, coq(case, obs) -> Coq bool expr (or None to skip),
       oracle(case, obs) -> list[Failure] (property evaluated on the implementation's outputs),
       key(case, obs) -> hashable describing the case's behaviour class (None = trivial)."""
    name = "unit"
    imports = []
    preamble = ""
    case_timeout = 20

    def gen(self, rng, tier):
        return []

    def run(self, case):
        raise NotImplementedError

    def coq(self, case, obs):
        return None

    def oracle(self, case, obs):
        return []

    def key(self, case, obs):
        return json.dumps(case, sort_keys=True, default=str)

    def label(self, case, obs):
        """coarse label for the distribution histogram"""
        return "case"


def jsonable(o):
    import numpy as np
    if isinstance(o, dict):
        return {str(k): jsonable(v) for k, v in o.items()}
    if isinstance(o, (list, tuple)):
        return [jsonable(v) for v in o]
    if isinstance(o, np.ndarray):
        return jsonable(o.tolist())
    if isinstance(o, (np.integer,)):
        return int(o)
    if isinstance(o, (np.floating,)):
        return float(o)
    if isinstance(o, Fraction):
        return str(o)
    if isinstance(o, float) and not math.isfinite(o):
        return repr(o)
    if isinstance(o, (str, int, float, bool)) or o is None:
        return o
    return repr(o)


def corpus_cases(unit):
    d = os.path.join(VERIF, "corpus", unit.name)
    out = []
    if os.path.isdir(d):
        for f in sorted(os.listdir(d)):
            if f.endswith(".json"):
                try:
                    out.append(json.load(open(os.path.join(d, f))))
                except Exception:
                    pass
    return out


def run_unit(unit, rng, tier, builddir, extra_cases=None):
    """returns dict with cases, obs, mismatches (case indices), failures (oracle), stats"""
    t0 = time.time()
    cases = corpus_cases(unit) + list(extra_cases or []) + list(unit.gen(rng, tier))
    obs = []
    for c in cases:
        try:
            o = with_timeout(unit.run, unit.case_timeout, c)
        except CaseTimeout:
            o = {"exc": "Timeout"}
        except Exception as e:  # harness-level failure of run(): treat as observation
            o = {"exc": exn_name(e), "exc_msg": "%s: %s" % (type(e).__name__, e), "harness_trace": traceback.format_exc()[-800:]}
        obs.append(o)
    exprs, idxmap = [], []
    for i, (c, o) in enumerate(zip(cases, obs)):
        try:
            e = unit.coq(c, o)
        except Exception:
            e = "false (* encoding failed: %s *)" % traceback.format_exc()[-300:].replace("*)", "* )")
        if e is not None:
            exprs.append(e)
            idxmap.append(i)
    mism, err = ([], "")
    if exprs:
        bad, err = coq_eval_bools(unit.imports, exprs, builddir, unit.name, preamble=unit.preamble)
        mism = [idxmap[j] for j in bad]
    failures = []
    for i, (c, o) in enumerate(zip(cases, obs)):
        try:
            for f in unit.oracle(c, o) or []:
                f = Failure(f)
                f.setdefault("unit", unit.name)
                f["case"] = jsonable(c)
                f.setdefault("observed", jsonable({k: v for k, v in o.items() if k != "harness_trace"}))
                failures.append(f)
        except Exception:
            failures.append(Failure(aspect="oracle-crashed", what=traceback.format_exc()[-600:], unit=unit.name,
                                    case=jsonable(c), signature={"aspect": "oracle-crashed"}))
    keys, hist = set(), {}
    for c, o in zip(cases, obs):
        k = unit.key(c, o)
        if k is not None:
            keys.add(k)
        lb = unit.label(c, o)
        hist[lb] = hist.get(lb, 0) + 1
    return {"unit": unit.name, "cases": cases, "obs": obs, "compared": len(exprs), "mismatches": mism,
            "coq_error": err, "failures": failures, "distinct": len(keys), "hist": hist,
            "wall_s": round(time.time() - t0, 1)}


# ----------------------------------------------------------------------------------------
# the check
# ----------------------------------------------------------------------------------------
class Property:
    """Subclasses: id, units() -> [Unit], gen_files -> list of translator targets,
       extra_obligations(ctx) -> list of (name, ok, detail) for generated-file obligations."""
    id = "C00"
    gen_targets = []
    assumptions = []

    def units(self, tier):
        return []

    def replay(self, rep):
        """re-run one recorded case; returns list of failures"""
        for u in self.units("quick"):
            if u.name == rep.get("unit"):
                o = u.run(rep["case"])
                return u.oracle(rep["case"], o) or []
        return []


def write_replay(prop, n, payload):
    d = os.path.join(VERIF, "replay")
    os.makedirs(d, exist_ok=True)
    p = os.path.join(d, "%s-%d.json" % (prop, n))
    json.dump(jsonable(payload), open(p, "w"), indent=1)
    return p


def run_check(prop, tier, seed):
    from tools import translate
    t0 = time.time()
    force_repo_path()
    rng = random.Random(seed)
    builddir = os.path.join(VERIF, "_build", "%s.%d" % (prop.id, os.getpid()))
    os.makedirs(builddir, exist_ok=True)
    lines = []
    violations = 0
    broken = []          # obligations / correspondence units that no longer check
    try:
        # 1. translate
        tr_errors = []
        # every generated file the property's theorems depend on (transitively, through the proof files they import) is
        # regenerated from the current source: a file left over from an earlier run on another tree must never be used
        prop.gen_targets = gen_closure(prop.id, prop.gen_targets)
        with CoqLock():
            for tgt in prop.gen_targets:
                try:
                    translate.generate(tgt)
                except translate.TranslateError as e:
                    tr_errors.append("translator:%s: %s" % (tgt, e))
        for e in tr_errors:
            broken.append({"kind": "obligation", "name": e})
        # 2. obligations
        b = build_property(prop.id)
        if not b["ok"]:
            broken.append({"kind": "obligation", "name": "Properties/%s.v" % prop.id,
                           "broken_at": b.get("broken_at"), "log": b["log"][-3000:]})
        # thorough tier: independent re-check of the compiled theorems and of everything they depend on
        coqchk_axioms = None
        if tier == "thorough" and b["ok"] and os.environ.get("VERIF_SKIP_COQCHK") != "1":
            with CoqLock():
                rc_, out_ = run(["coqchk", "-R", ".", "TW", "-o", "TW.Properties.%s" % prop.id], 1500, cwd=COQ)
            m_ = re.search(r"\* Axioms:(.*?)\n\s*\n\s*\*", out_, re.S)
            coqchk_axioms = (m_.group(1).strip() if m_ else "coqchk output not understood (rc=%s)" % rc_)
            if rc_ != 0 or "Modules were successfully checked" not in out_:
                print("CHECK-BROKEN: coqchk failed on Properties/%s.vo: %s" % (prop.id, out_[-400:]))
                return 2
            if coqchk_axioms != "<none>":
                print("CHECK-BROKEN: coqchk reports axioms: " + coqchk_axioms[:300])
                return 2
        hy = hygiene()
        if hy:
            print("CHECK-BROKEN: hygiene: " + "; ".join(hy[:5]))
            return 2
        if b["axioms"] and set(b["axioms"]) - AXIOM_ALLOW:
            print("CHECK-BROKEN: unexpected axioms: " + ", ".join(b["axioms"]))
            return 2
        # 3+4. units
        results = []
        for u in prop.units(tier):
            r = run_unit(u, rng, tier, builddir)
            results.append((u, r))
            if r["mismatches"] or r["coq_error"]:
                broken.append({"kind": "correspondence", "name": u.name,
                               "cases": [jsonable({"case": r["cases"][i], "observed": {k: v for k, v in r["obs"][i].items() if k != "harness_trace"}})
                                         for i in r["mismatches"][:5]],
                               "n_mismatches": len(r["mismatches"]), "coq_error": r["coq_error"][-1500:]})
        failures = [f for _, r in results for f in r["failures"]]
        # escalate once if something broke and no failing input is known yet
        if broken and not failures and tier == "quick":
            rng2 = random.Random(seed + 7919)
            for u in prop.units("thorough"):
                extra = []
                for bb in broken:
                    if bb["kind"] == "correspondence" and bb["name"] == u.name:
                        extra = [c["case"] for c in bb["cases"]]
                r = run_unit(u, rng2, "escalate", builddir, extra_cases=extra)
                failures.extend(r["failures"])
                if failures:
                    break
        # 5. report
        known = load_known_findings()
        seen_known, unlisted = {}, []
        for f in failures:
            hit = None
            for k in known:
                if finding_matches(k, prop.id, f):
                    hit = k
                    break
            if hit:
                seen_known.setdefault(hit["id"], (hit, f))
            else:
                unlisted.append(f)
        for kid, (k, f) in seen_known.items():
            print("KNOWN-FINDING: property=%s %s" % (prop.id, k.get("what", kid)))
        # group unlisted by aspect, one replay per aspect (first = smallest case)
        by_aspect = {}
        for f in unlisted:
            by_aspect.setdefault((f.get("unit"), f.get("aspect")), []).append(f)
        n = 0
        for (unit, aspect), fs in sorted(by_aspect.items(), key=lambda kv: str(kv[0])):
            # (cases that carry their own history — an earlier request in the same process, an edit between two calls — first: they
            #  fail when replayed alone; a case that failed only because an earlier case poisoned the process would not)
            fs.sort(key=lambda f: (0 if isinstance(f.get("case"), dict) and any(str(k_).startswith(("earlier", "prior")) and v_ for k_, v_ in f["case"].items()) else 1,
                                   len(json.dumps(f.get("case"), default=str))))
            p = write_replay(prop.id, n, {"property": prop.id, "kind": "impl-violation", "unit": unit,
                                          "aspect": aspect, "what": fs[0].get("what"), "case": fs[0].get("case"),
                                          "observed": fs[0].get("observed"), "count": len(fs),
                                          "broken": broken})
            print("VIOLATION property=%s replay=%s" % (prop.id, p))
            print("  aspect=%s unit=%s: %s" % (aspect, unit, str(fs[0].get("what"))[:300]))
            n += 1
            violations += 1
        if broken and not unlisted:
            p = write_replay(prop.id, n, {"property": prop.id, "kind": broken[0]["kind"],
                                          "broken": broken,
                                          "note": "theorem or correspondence no longer checks; the search found no failing input"})
            print("VIOLATION property=%s replay=%s no-failing-input-found" % (prop.id, p))
            for bb in broken:
                print("  broken %s: %s %s" % (bb["kind"], bb["name"], bb.get("broken_at") or ""))
            violations += 1
        # evidence
        evaluations = sum(len(r["cases"]) for _, r in results)
        compared = sum(r["compared"] for _, r in results)
        distinct = sum(r["distinct"] for _, r in results)
        samples = []
        for u, r in results:
            for c, o in list(zip(r["cases"], r["obs"]))[:2]:
                samples.append({"unit": u.name, "case": jsonable(c),
                                "observed": jsonable({k: v for k, v in o.items() if k != "harness_trace"})})
        gen_obl = len(prop.gen_targets)
        ev = {
            "property_id": prop.id, "tier": "thorough" if tier == "thorough" else "quick", "seed": seed, "level": "proof",
            "coverage": {
                "obligations": b["obligations"] + gen_obl,
                "discharged": (b["discharged"] if b["ok"] else 0) + (gen_obl - len(tr_errors)),
                "theorems": b.get("theorems", []),
                "generated_file_obligations": list(prop.gen_targets),
                "checker_cmd": "cd /verif/coq && make Properties/%s.vo && coqc -R . TW Properties/%s.v  (Print Assumptions parsed: %s outputs, axioms: %s)"
                               % (prop.id, prop.id, b.get("print_assumptions", 0), b["axioms"] or "none"),
                "trusted_base": TRUSTED_BASE + list(prop.assumptions),
                "evaluations": max(evaluations, 1),
                "compared_in_coq": compared,
                "distinct_nontrivial": distinct,
                "rule": getattr(prop, "rule", "cases drawn by the unit generators from one PRNG (seed); distinct = distinct unit keys"),
                "samples": samples[:8] or [{"note": "no correspondence unit; obligations only", "theorems": b.get("theorems", [])[:5]}],
                "units": {u.name: {"cases": len(r["cases"]), "compared_in_coq": r["compared"], "mismatches": len(r["mismatches"]),
                                   "oracle_failures": len(r["failures"]), "distinct": r["distinct"], "distribution": r["hist"],
                                   "wall_s": r["wall_s"]} for u, r in results},
                "broken": [{"kind": bb["kind"], "name": bb["name"]} for bb in broken],
                "known_findings_seen": sorted(seen_known),
                "make_s": b.get("make_s"),
                "coqchk_axioms": coqchk_axioms,
            },
            "assumptions": list(prop.assumptions),
            "wall_s": round(time.time() - t0, 1),
            "violations": violations,
        }
        os.makedirs(os.path.join(VERIF, "evidence"), exist_ok=True)
        json.dump(jsonable(ev), open(os.path.join(VERIF, "evidence", prop.id + ".json"), "w"), indent=1)
        print("%s %s: obligations %d/%d, units %s, cases %d (compared in Coq %d), mismatches %d, oracle failures %d, %.1fs"
              % (prop.id, tier, ev["coverage"]["discharged"], ev["coverage"]["obligations"],
                 ",".join(u.name for u, _ in results), evaluations, compared,
                 sum(len(r["mismatches"]) for _, r in results), len(failures), time.time() - t0))
        return 1 if violations else 0
    finally:
        shutil.rmtree(builddir, ignore_errors=True)


def run_replay(prop, path):
    force_repo_path()
    rep = json.load(open(path))
    fs = prop.replay(rep)
    known = load_known_findings()
    bad = 0
    for f in fs:
        if any(finding_matches(k, prop.id, f) for k in known):
            print("KNOWN-FINDING: property=%s %s" % (prop.id, f.get("what")))
            continue
        print("VIOLATION property=%s replay=%s" % (prop.id, path))
        print("  " + str(f.get("what"))[:400])
        bad += 1
        break
    if rep.get("kind") != "impl-violation" and not fs:
        print("replay file records a broken %s (%s); re-run the check to re-test it" %
              (rep.get("kind"), [b.get("name") for b in rep.get("broken", [])]))
    return 1 if bad else 0
