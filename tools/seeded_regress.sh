#!/bin/bash
# usage: [VERIF_SEED=n] tools/seeded_regress.sh [jobs] [ids...] — every seeded change (or the listed ones) through its quick check, in isolation
# (tools/try_patch_iso.sh), `jobs` at a time. One line per change; a change is *caught* when exit=1 with a VIOLATION line, and
# caught *with an input* when that line does not end in no-failing-input-found.
cd "$(dirname "$0")/.."
jobs="${1:-5}"; shift
ids="$*"; [ -z "$ids" ] && ids=$(ls seeded)
one() {
  id="$1"; prop="${id%%-*}"
  res=$(VERIF_SKIP_COQCHK=1 tools/try_patch_iso.sh "seeded/$id/patch.diff" "$prop" quick 2>&1)
  ex=$(echo "$res" | grep -o "exit=[0-9]*")
  nf=$(echo "$res" | grep -c "no-failing-input-found")
  vio=$(echo "$res" | grep -c "^VIOLATION")
  echo "$id $ex violations=$vio nofail=$nf $(echo "$res" | grep -E "aspect=" | head -n 1 | cut -c1-140)"
}
export -f one
echo $ids | tr ' ' '\n' | xargs -P "$jobs" -I{} bash -c 'one {}'
