"""Regenerate MANIFEST.json from the table below (run: python3 tools/manifest.py)."""
import json
import os

VERIF = os.path.dirname(os.path.dirname(os.path.abspath(__file__)))

# property -> (level text, level note, technique)
CLAIMED = {
    "C10": (
        "Coq theorems: for every strictly increasing x (any length >= 1) and every non-decreasing query list the three scans equal "
        "the per-query specification, and the specification is the unique neighbour the property names (all sizes, all values). "
        "The model is tied to the code by exhaustive small-lattice + random-float correspondence evaluated inside Coq on every run.",
        "hand-written model coq/Model/Search.v tied by correspondence (sampled); float near-ties of 'closest' (exact margin < 1e-9 of the gap, non-zero) are dropped",
        "Coq proof (induction over the scans) + in-Coq correspondence"),
}

NOT_YET = "check not built yet (work in progress; see DESIGN.md section 10 order of work)"


def main():
    props = [json.loads(l) for l in open(os.path.join(VERIF, "properties.jsonl"))]
    checks = []
    for p in props:
        pid = p["id"]
        if pid in CLAIMED:
            text, note, tech = CLAIMED[pid]
            checks.append({
                "property_id": pid,
                "quick_cmd": "./check %s --tier quick" % pid,
                "thorough_cmd": "./check %s --tier thorough" % pid,
                "evidence_file": "/verif/evidence/%s.json" % pid,
                "replay_cmd_template": "./check %s --replay {path}" % pid,
                "engine": "coq-proof+correspondence",
                "level_claimed": {"category": "proof", "text": text, "design_ref": "DESIGN.md section 7 (%s)" % pid},
                "level_note": note,
                "technique": tech,
            })
    m = {
        "version": 1,
        "setup_cmd": "./setup.sh",
        "hooks": {
            "guard": "TRAFFIC_WEAVER_VERIF",
            "enable": "no source hooks are needed: the harness rebinds names inside the imported modules from its own process",
            "baseline_off_cmd": "cd /repo && /venv/bin/python -m pytest -ra -q -p no:cacheprovider --timeout=900 --continue-on-collection-errors",
            "source_commits": [],
            "add_only": True,
        },
        "engines": [{
            "name": "coq-proof+correspondence", "path": "check",
            "serves_properties": sorted(CLAIMED),
            "kind_free_text": "Coq 8.16 theorems over a Qc model (coq/), fail-closed translator tools/translate.py for the regenerated parts, "
                              "in-Coq correspondence against the real implementation, Python oracles only for failing-input search",
        }],
        "checks": checks,
        "notes": "see DESIGN.md; known findings and fixed defects are in known_findings.json",
        "not_applicable": [{"property_id": p["id"], "reason": NOT_YET} for p in props if p["id"] not in CLAIMED],
    }
    json.dump(m, open(os.path.join(VERIF, "MANIFEST.json"), "w"), indent=1)


if __name__ == "__main__":
    main()
