"""Regenerate MANIFEST.json from the table below (run: python3 tools/manifest.py)."""
import json
import os

VERIF = os.path.dirname(os.path.dirname(os.path.abspath(__file__)))

# property -> (level text, level note, technique)
CLAIMED = {
    "C01": ("Coq theorems (any length, any values, both rules on both sides, every power function meeting PwOk, all three fixed-point modes): the "
            "stretching kernel hits its target integral exactly, sequential in-place window stretching gives every window its own reference "
            "integral, the total follows; integer exponents satisfy PwOk with no assumption. The arithmetic of _integral_matching_stretch is REGENERATED from match.py on every run "
            "(Gen/Kernels.v) and proved equal to the model's kernel, so a formula edit breaks an obligation; the control flow is tied by in-Coq correspondence.",
            "tools/translate.py (Kernels target); hand-written control flow of coq/Model/Match.v tied by sampled correspondence; real t^alpha meeting PwOk is pen-and-paper; floats not modelled",
            "Coq proof (linearity of the integral, window induction) + in-Coq correspondence"),
    "C02": ("Coq theorems, strategy-independent (any fine series of the right length, hence every strategy and parameter choice): default "
            "fixed points are every n-th sample, every block integral equals average*width under both target rules, rectangle block averaging "
            "returns the original abscissae exactly and every average. Tied by Weaver-program correspondence incl. all bundled datasets.",
            "models Match/Search/SortedUtils/Interval tied by sampled correspondence; floats not modelled",
            "Coq proof composing C01+C04+C10 theorems + in-Coq correspondence"),
    "C03": ("Coq theorems: samples outside the fixed span and the fixed points are unchanged (Leibniz), the displacement inside a window is one "
            "scalar times the documented profile 1-(2|x-c|/w)^alpha (zero at ends, symmetric, largest at centre), the kernel is jointly affine, "
            "matching is idempotent (exact equality).",
            "as C01", "Coq proof + in-Coq correspondence"),
    "C04": ("Coq theorems for all six strategies and every parameter value: length (m-1)n+1 for x and y, x-part is exactly the n-fold linspace "
            "oversampling (every n-th abscissa an original, equal spacing d_k/n), strictly increasing, n<2 rejected; the one-interval extension is "
            "cut off exactly. Container kind / bit-exactness / finiteness are observed on the implementation by the correspondence run and oracle.",
            "model coq/Model/Rfa.v tied by sampled correspondence; ndarray kind, -0.0 and finiteness are runtime observations, not theorems",
            "Coq proof + in-Coq correspondence"),
    "C05": ("Coq theorems: the four window strategies' output lists EQUAL the documented closed forms sample by sample (link theorems, all sizes, "
            "every pw/gpow, proved through the sequential last-write-wins loop); on the closed forms: every sample lies between its interval's "
            "average and the neighbour's on its side, plateau samples equal the average exactly (so at most al+ar-1 <= a-1 differ), adaptive windows "
            "satisfy al+ar <= a <= n for any smoothing, linear transitions are monotone, exp transitions are monotone for exponent >= 1 (every integer "
            "exponent outright) and for the concave bundle; the FULL monotone claim is refuted in Coq (C05_monotone_exp_refuted) = known finding F1; "
            "piecewise-constant exact, constant series constant; strategy-level corollaries (C05_*_bounded, C05_final_sample) state all of this about the "
            "actual output lists. Cubic spline through points: oracle contract + check.",
            "closed forms Model/RfaSpec.v linked to Model/Rfa.v in Coq; Rfa.v tied to rfa.py by sampled correspondence; real t^alpha meeting the "
            "bundles is pen-and-paper; cubic spline is SciPy's; known finding F1 (monotonicity for exponent < 0.1330)",
            "Coq proof (refinement of the write loop to closed forms + real-closed-field reasoning) + in-Coq correspondence"),
    "C06": ("Coq theorems: the five GENERATED shape functions equal their documented closed forms for every power function and hit both end points; "
            "the fixed-window border value is the linear interpolation at the border between the plateau ends (jump divided in the ratio of the "
            "interval widths); adaptive windows are adaptive_pair on the neighbouring jumps: proportional split for adaptive_smooth=1, the larger jump "
            "never gets the larger window, tie cases. Transition shapes are the closed forms of Model/RfaSpec.v (link theorems in C05).",
            "Gen/Funfit.v regenerated from funfit.py on every run; model coq/Model/Rfa.v tied by sampled correspondence incl. direct calls of "
            "get_adaptive_transition_points; cases where the float int() branch differs from the exact one are dropped (counted)",
            "Coq proof over generated definitions + in-Coq correspondence"),
    "C07": ("Coq theorems on the closed forms the strategies compute: y -> a*y+b and x -> c*x+d equivariance of borders, shapes and adaptive windows "
            "(windows depend on values only through ratios of absolute jumps), locality (radius 1 fixed, 2 adaptive), additivity and monotonicity "
            "in the values for the fixed strategies, piecewise-constant linearity; transported through the link theorems to the strategies' output lists "
            "(C07_strategies_y_affine / _x_affine); plus metamorphic pairs of real runs. Cubic spline: oracle only.",
            "closed forms of Model/RfaSpec.v (linked to the model in C05); cubic spline is SciPy's",
            "Coq proof + in-Coq correspondence + metamorphic oracle"),
    "C15": ("Coq theorems: noise changes y only, additively by the draw; scale^2 * SNR = mean(y^2) (signal power, not squared mean). Partial: zero "
            "mean / Gaussian shape / seed reproducibility / empirical SNR are NumPy's and are tested, not proved. The arguments reaching "
            "numpy.random.normal are recorded and compared with the model on every run.",
            "sqrt and 10**(snr/10) are oracles; NumPy generator statistics are tests", "Coq proof (thin) + argument-recorder correspondence"),
    "C16": ("Coq theorems: the s reaching FITPACK is the explicit one or len(y)*var(y); smoothing stores FITPACK's answer in y only and keeps x and "
            "the length; residual bound / identity for s=0 hold for every answer meeting the FITPACK contract; to_function's default s=0 is read "
            "from the GENERATED defaults. Partial (thin): FITPACK honouring s is an oracle contract, spot-checked.",
            "FITPACK is an oracle; Gen/Defaults.v regenerated on every run", "Coq proof (thin) + argument-recorder correspondence"),
    "C18": ("Coq theorems by vm_compute over the GENERATED registry, description tables and bundled CSVs (finite domain, bound = the 95 generated "
            "names, lifted with forallb_forall): every documented name in both spellings resolves to a loader of its family, urls / checksums / "
            "remote files / normalised cache slots pairwise distinct, checksum validation on, bundled CSVs well-formed, unknown names rejected.",
            "tools/translate.py (registry, tables, CSVs); hand model of load_dataset's lookup tied by exhaustive correspondence with a network recorder",
            "Coq proof (finite, vm_compute) over regenerated definitions + exhaustive correspondence"),
    "C19": ("Coq theorems over a small-step model of the loader with any number of processes: retries absorbed / exhausted, checksum gate, the cache "
            "invariant (every entry absent or a complete copy of verified data) is preserved by every step of every process incl. crashes and "
            "network events, hence for all schedules; cache hit needs no network; later load succeeds; frame / independence across slots. "
            "Partial: rename atomicity, file closing and real parallelism are assumed by the step granularity and observed by killed-subprocess "
            "and gated-thread runs.",
            "coq/Model/Cache.v tied by fault-script, crash-point (os._exit at 8 boundaries) and gated-thread correspondence; sha/parse/network are oracles",
            "Coq proof (inductive invariant over interleavings) + fault-injection correspondence"),
    "C08": ("Coq theorems over the Weaver state machine: working = reference is an invariant of every domain operation, hence of every history "
            "of any length (induction), and both equal the fold of the pure transformations; reshaping operations never touch the reference "
            "(also when they raise). Tied by exhaustive short + random program correspondence with state comparison after every step.",
            "model coq/Model/Weaver.v tied by sampled program correspondence; external libraries enter as recorded oracle answers",
            "Coq proof (invariant + induction over histories) + in-Coq program correspondence"),
    "C09": ("Coq theorems: WF (equal lengths, strictly increasing x, for working series and original) is preserved by every valid successful "
            "operation, hence by every program; the original changes only under normalisation and then exactly by it; after restore_original the "
            "state IS the freshly constructed one (Leibniz), so every continuation behaves identically. Partial: buffer aliasing (caller arrays), "
            "container kind and finiteness are NumPy runtime facts observed by the correspondence run, not theorems.",
            "model coq/Model/Weaver.v; NumPy object model (aliasing, kinds, dtypes) observed not proved; library answers are oracles",
            "Coq proof (preservation lemma per operation, induction) + in-Coq program correspondence"),
    "C10": ("Coq theorems: for every strictly increasing x (any length >= 1) and every non-decreasing query list the three scans equal "
            "the per-query specification, and the specification is the unique neighbour the property names (all sizes, all values). "
            "The model is tied to the code by exhaustive small-lattice + random-float correspondence evaluated inside Coq on every run.",
            "hand-written model coq/Model/Search.v tied by correspondence (sampled); float near-ties of 'closest' (exact margin < 1e-9 of the gap, non-zero) are dropped",
            "Coq proof (induction over the scans) + in-Coq correspondence"),
    "C11": ("Coq theorems: truncate returns the contiguous run from the unique lower neighbour of the left bound to the unique higher neighbour "
            "of the right bound (C10's characterisations), minimal, x and y cut identically; inverted range rejected; ratios converted with the "
            "series' own span; Weaver-level index/value slicing is part of the Weaver model (py_slice) checked by correspondence.",
            "models Process/Weaver tied by sampled correspondence",
            "Coq proof + in-Coq correspondence"),
    "C12": ("Coq theorems: closed form x_j + i*P, tiled values, strict monotonicity, first copy = input, junction step, repeat-once identity and "
            "repeat a then b = repeat a*b (Leibniz), for all series of >= 2 points and all r.",
            "model coq/Model/Process.v tied by sampled correspondence", "Coq proof (loop invariant over the in-place fold) + in-Coq correspondence"),
    "C13": ("Coq theorems for 'linear' (numpy.interp model) and 'constant' (through C10's scan): exact at nodes, straight line between neighbours, "
            "clamping outside, affine data reproduced, last-sample-at-or-before semantics. Partial: 'cubic'/'spline' values are SciPy's; their "
            "argument forwarding and the Weaver grid construction are checked by correspondence, node reproduction by the oracle.",
            "numpy.interp semantics modelled (trusted model of NumPy); SciPy splines are oracles",
            "Coq proof + in-Coq correspondence"),
    "C14": ("Coq theorems: trend is the point-wise map y_i + f(.) leaving x, zero trend is the identity, trends add (Leibniz); normalisation is an "
            "increasing affine map sending min to lo and max to hi, keeps sortedness; shift/scale are point-wise maps in the Weaver model (C08).",
            "models Process/Weaver tied by sampled correspondence", "Coq proof + in-Coq correspondence"),
    "C17": ("Coq theorems for every helper: oversampling (length, every n-th element, linear fill), extension (n per side, closed forms, middle kept), "
            "append, interval get/set at flat index i*n+j, row layout with padding, integration rules, and averaging an n-fold piecewise-constant "
            "oversampling returns the input (Leibniz).",
            "models SortedUtils/Interval (incl. the NumPy primitives they use) tied by sampled correspondence",
            "Coq proof + in-Coq correspondence"),
    "C20": ("Coq theorems: one rejection lemma per class (13 classes) and, for every state with non-empty fields and every operation, a ValueError "
            "outcome leaves all six series unchanged (this proof attempt exposed defect D10, since repaired).",
            "model coq/Model/Weaver.v tied by program correspondence with an invalid-request stream after random valid histories",
            "Coq proof (case analysis over the state machine) + in-Coq correspondence"),
}

NOT_YET = "check not built yet (work in progress; see DESIGN.md section 10 order of work)"


# what is REGENERATED from the source on every run and proved equal to the model (appended to the level text)
REGENERATED = {
    "C01": " The whole body of integral_matching_reference_stretch (argument checks, the three ways of fixing points, reference integrals, call of the "
           "window loop, defaults) is REGENERATED from match.py as a term of the glue language (Gen/MatchGlue.v) and proved equal to the model's match_ref "
           "(C01_glue_match_ref, C01_glue_match_defaults).",
    "C03": " The window loop of _interval_integral_matching_stretch (zip over targets and consecutive fixed points, end+1, in-place slice assignment) is "
           "REGENERATED (Gen/MatchGlue.v) and proved equal to the model's interval_match (C03_glue_interval_loop); so is the whole stretching kernel "
           "_integral_matching_stretch (method check, two-point special case, rule dispatch, final update: C03_glue_stretch_kernel).",
    "C04": " The rfa() bodies of PiecewiseConstantRFA / FunctionRFA and the oversampling helpers are REGENERATED (Gen/RfaGlue.v) and proved equal to the model. Every strategy constructor (`__init__` incl. super() chains, defaults, the pinned CubicSpline supplier) and _get_sampling_function are REGENERATED (Gen/CtorsGlue.v); constructor followed by rfa() is proved equal to the model recreate for the piecewise-constant strategy (C04_glue_*_init, C04_glue_piecewise_ctor_then_rfa).",
    "C05": " The strategy constructors' window computations are REGENERATED (Gen/Kernels.v) and proved equal to the model's window functions; the rfa() "
           "bodies of the two fixed-window strategies (nested write loops over IntervalArrays) are REGENERATED (Gen/RfaGlue.v) and proved equal to the "
           "write-loop model that the link theorems refine to the closed forms. The whole constructors of the fixed-window strategies are REGENERATED (Gen/CtorsGlue.v): the attributes they store are the model's window parameters, and constructor followed by rfa() equals the model recreate (C05_glue_*_init, C05_glue_*_ctor_then_rfa).",
    "C06": " The generic branch of get_adaptive_transition_points is REGENERATED (Gen/Kernels.v) and proved equal to adaptive_pair; the rfa() bodies of the "
           "two adaptive strategies and the whole of get_adaptive_transition_points (tie tests, int(a/2), the smoothed split with both clips) are REGENERATED "
           "(Gen/RfaGlue.v) and proved equal to the write-loop model / adaptive_windows. The whole constructors of the adaptive strategies are REGENERATED (Gen/CtorsGlue.v); constructor followed by rfa() equals the model recreate (C06_glue_*_init, C06_glue_*_ctor_then_rfa).",
    "C08": " Every method body of class Weaver is REGENERATED from weaver.py as a term of the glue language (Gen/WeaverGlue.v) and running it is proved equal to "
           "one step of the model for every operation (C09_glue_generated; domain corollary C08_glue_domain); the per-method write footprint is REGENERATED "
           "too (Gen/WeaverFootprint.v) and the reference is assigned iff the working series is.",
    "C09": " Every method body of class Weaver (incl. the constructor and the getters, parameter lists and defaults, the module's imports) is REGENERATED from "
           "weaver.py (Gen/WeaverGlue.v) and running it under the interpreter of Model/GlueSem.v is proved equal to the model's step / init / queries for every "
           "operation, state and argument — also the partial state an exception leaves behind (C09_glue_generated, C09_glue_init, C09_glue_getters, "
           "C09_glue_imports); footprint theorems over Gen/WeaverFootprint.v. The three static constructors from_2d_array / from_csv / from_dataframe are REGENERATED (Gen/CtorsGlue.v) and proved equal to init on the two columns (C09_glue_from_*).",
    "C10": " The three two-pointer scans themselves (while loops over explicit iterators) are REGENERATED (Gen/ScanGlue.v) and, run by the fuelled interpreter of "
           "Model/GlueWhile.v, proved equal to the scans of Model/Search.v (C10_glue_find_lower / _higher / _closest, explicit fuel bound); the dispatcher "
           "find_closest_element_indices_to_values likewise (Gen/UtilsGlue.v).",
    "C11": " The bodies of process.truncate, Weaver.slice_by_index / slice_by_value / truncate_by_* are REGENERATED (Gen/ProcessGlue.v, Gen/WeaverGlue.v) and proved "
           "equal to the model (C11_glue_truncate, C11_glue_slice_*).",
    "C12": " The body of process.repeat (tiling, the loop over the copies, the in-place slice update with the junction gap) is REGENERATED (Gen/ProcessGlue.v) and "
           "proved equal to the model's repeat_series (C12_glue_repeat).",
    "C13": " The dispatcher process.interpolate is REGENERATED (Gen/ProcessGlue.v) and proved to select the model's linear / constant interpolation and to reject "
           "every other method name except 'cubic' / 'spline' (C13_glue_interpolate). _piecewise_constant_interpolate (masks, the lower-neighbour search as the already regenerated scan, the `left` fill) is REGENERATED (Gen/Process2Glue.v) and proved equal to interp_constant (C13_glue_piecewise_constant, C13_glue_piecewise_constant_scan_leaf).",
    "C14": " The bodies of process.trend (the per-sample loop, both branches of `normalized`) and process.normalize are REGENERATED (Gen/ProcessGlue.v) and proved equal "
           "to the model (C14_glue_trend, C14_glue_normalize).",
    "C15": " The whole body of noise_gauss is REGENERATED (Gen/Process2Glue.v): which of std, sqrt(mean(a^2)/snr), sqrt(mean(a^2)/10^(snr/10)) - scalar or "
           "per sample - reaches numpy.random.normal(loc=0, scale, size=a.shape), and that the result is a + draw (C15_glue_noise_scale_db / _linear / _std; "
           "`**` is an abstract power of which only v**2 = v*v is assumed, as a hypothesis of the theorems).",
    "C20": " The n < 2 check is proved on the REGENERATED constructors of every class of rfa.py's class table (Gen/CtorsGlue.v: C20_glue_rfa_init_refuses_small_n, "
           "C20_glue_rfa_class_names) and the (N,2) shape check on the REGENERATED from_2d_array (C20_glue_from_2d_array_refuses).",
    "C17": " The bodies of append_one_sample, integral, the two integration rules, extend_constant, extend_linspace and oversample_piecewise_constant are "
           "REGENERATED (Gen/UtilsGlue.v) and proved equal to the model. So are oversample_linspace, sum_over_indices and process.average (Gen/Process2Glue.v: C17_glue_oversample_linspace, C17_glue_sum_over_indices, C17_glue_average) and every method of class IntervalArray except __iter__/__repr__ (Gen/IntervalGlue.v: indexing incl. IndexError and negative wrap-around, 2-D layouts with NaN padding, oversample*, extend_*: C17_glue_interval_*), which are also proved to be the IntervalArray leaves the RFA glue proofs rest on.",
    "C18": " The name dispatch of load_dataset and the data-home resolution are REGENERATED from datasets/_base.py (Gen/Dispatch.v) and proved equal to the model.",
    "C19": " The loader's guards (download / refuse / read cache), the retry give-up test and counter update, the checksum rejection, and the order and scoping of "
           "its effects (fresh TemporaryDirectory inside the dataset directory; download, parse source, pickle target and rename source all inside it; rename "
           "to data_home/folder/file as the only write to the slot) are REGENERATED from datasets/_base.py (Gen/CacheSkeleton.v) and proved to be what the "
           "small-step model is built from (C19_generated_*).",
}


def main():
    for k, extra in REGENERATED.items():
        text, note, tech = CLAIMED[k]
        CLAIMED[k] = (text + extra, note, tech)
    props = [json.loads(l) for l in open(os.path.join(VERIF, "properties.jsonl"))]
    checks = []
    for p in props:
        pid = p["id"]
        if pid in CLAIMED:
            text, note, tech = CLAIMED[pid]
            checks.append({
                "property_id": pid,
                "quick_cmd": "./check %s --tier quick" % pid,
                "thorough_cmd": "./check %s --tier thorough" % pid,
                "evidence_file": "/verif/evidence/%s.json" % pid,
                "replay_cmd_template": "./check %s --replay {path}" % pid,
                "engine": "coq-proof+correspondence",
                "level_claimed": {"category": "proof", "text": text, "design_ref": "DESIGN.md section 7 (%s)" % pid},
                "level_note": note,
                "technique": tech,
            })
    m = {
        "version": 1,
        "setup_cmd": "./setup.sh",
        "hooks": {
            "guard": "TRAFFIC_WEAVER_VERIF",
            "enable": "no source hooks are needed: the harness rebinds names inside the imported modules from its own process",
            "baseline_off_cmd": "cd /repo && /venv/bin/python -m pytest -ra -q -p no:cacheprovider --timeout=900 --continue-on-collection-errors",
            "source_commits": [],
            "add_only": True,
        },
        "engines": [{
            "name": "coq-proof+correspondence", "path": "check",
            "serves_properties": sorted(CLAIMED),
            "kind_free_text": "Coq 8.16 theorems over a Qc model (coq/), fail-closed translator tools/translate.py for the regenerated parts, "
                              "in-Coq correspondence against the real implementation, Python oracles only for failing-input search",
        }],
        "checks": checks,
        "notes": "see DESIGN.md; known findings and fixed defects are in known_findings.json",
        "not_applicable": [{"property_id": p["id"], "reason": NOT_YET} for p in props if p["id"] not in CLAIMED],
    }
    json.dump(m, open(os.path.join(VERIF, "MANIFEST.json"), "w"), indent=1)


if __name__ == "__main__":
    main()
