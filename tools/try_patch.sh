#!/bin/bash
# usage: tools/try_patch.sh <patch.diff> <ID> [tier] — applies a seeded change to /repo, runs the check, reverts.
# The evidence file of the check is saved and restored: the committed evidence must describe a run on the unchanged tree.
set -u
patch="$1"; id="$2"; tier="${3:-quick}"
cd /repo || exit 2
if ! git diff --quiet; then echo "repo dirty"; exit 2; fi
git apply "$patch" || { echo "patch does not apply"; exit 2; }
bak=$(mktemp -d /tmp/evbak.XXXXXX)
cp /verif/evidence/$id.json $bak/ 2>/dev/null
cd /verif && ./check "$id" --tier "$tier" 2>&1 | grep -E "^VIOLATION|^KNOWN|aspect=|broken|^C[0-9]+ " | cut -c1-260
rc=${PIPESTATUS[0]}
git -C /repo checkout -- .
[ -f $bak/$id.json ] && cp $bak/$id.json /verif/evidence/$id.json
rm -rf $bak
echo "exit=$rc"
