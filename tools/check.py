"""Entry point: ./check <ID> [--tier quick|thorough] [--replay file] [--seed N]"""
import argparse
import importlib
import os
import sys


def main(argv):
    ap = argparse.ArgumentParser()
    ap.add_argument("prop")
    ap.add_argument("--tier", default=os.environ.get("VERIF_TIER", "quick"))
    ap.add_argument("--replay")
    ap.add_argument("--seed", type=int, default=int(os.environ.get("VERIF_SEED", "20260930")))
    a = ap.parse_args(argv)
    from tools.harness import core
    core.force_repo_path()
    mod = importlib.import_module("tools.props." + a.prop)
    prop = mod.PROPERTY
    if a.replay:
        return core.run_replay(prop, a.replay)
    tier = "thorough" if a.tier == "thorough" else "quick"
    return core.run_check(prop, tier, a.seed)
