(** Power functions.  The models take  t |-> t^alpha  as a parameter [pw];
    theorems are proved for every [pw] meeting a hypothesis bundle.
    [pw_int k] is the exact integer power; [pw_quarter k] approximates
    t^(k/4) to better than 2^-90 for evaluation in correspondence runs. *)
From TW Require Export Lib.Base.
Open Scope Qc_scope.

Record PwOk (pw : Qc -> Qc) : Prop := {
  pw_one : pw 1 = 1;
  pw_range : forall t, 0 <= t -> t <= 1 -> 0 <= pw t /\ pw t <= 1;
  pw_lt1 : forall t, 0 <= t -> t < 1 -> pw t < 1;
  pw_mono : forall s t, 0 <= s -> s <= t -> t <= 1 -> pw s <= pw t
}.
Record PwEnds (pw : Qc -> Qc) : Prop := { pe_zero : pw 0 = 0; pe_one : pw 1 = 1 }.
Definition PwConvexLike (pw : Qc -> Qc) : Prop :=
  PwOk pw /\ forall t, 0 <= t -> t <= 1 -> pw t <= t.

Fixpoint pw_int (k : nat) (t : Qc) : Qc :=
  match k with O => 1 | S k' => t * pw_int k' t end.

(** evaluation-only approximations *)
Definition sqrt_approx (t : Qc) : Qc :=
  (* sqrt(a/b) = sqrt(a*b)/b ; 2^-100 relative resolution *)
  let a := Qnum t in
  let b := Zpos (Qden t) in
  let P := (2 ^ 100)%Z in
  if (a <=? 0)%Z then 0
  else Q2Qc (Qmake (Z.sqrt (a * b * P * P)) (Z.to_pos (b * P))).
Definition pw_quarter (k : nat) (t : Qc) : Qc :=
  match (k mod 4)%nat with
  | O => pw_int (k / 4) t
  | 2%nat => pw_int (k / 2) (sqrt_approx t)
  | _ => pw_int k (sqrt_approx (sqrt_approx t))
  end.
