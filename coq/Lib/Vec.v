(** A tiny semantics of the NumPy vector expressions that occur in the arithmetic kernels of
    traffic_weaver: the target language of the "Kernels" translator (tools/translate.py).
    A value is a scalar or a 1-D array; binary operators broadcast a scalar over an array and
    zip two arrays (equal lengths in every use; numpy would raise otherwise).
    Definitions only. *)
From TW Require Export Lib.Base.
Open Scope Qc_scope.

Inductive val := VS (s : Qc) | VV (v : list Qc).

Definition lift2 (f : Qc -> Qc -> Qc) (a b : val) : val :=
  match a, b with
  | VS x, VS y => VS (f x y)
  | VS x, VV w => VV (map (f x) w)
  | VV v, VS y => VV (map (fun e => f e y) v)
  | VV v, VV w => VV (map2 f v w)
  end.
Definition lift1 (f : Qc -> Qc) (a : val) : val :=
  match a with VS x => VS (f x) | VV v => VV (map f v) end.

Definition vadd := lift2 Qcplus.
Definition vsub := lift2 Qcminus.
Definition vmul := lift2 Qcmult.
Definition vdiv := lift2 Qcdiv.
Definition vneg := lift1 Qcopp.
Definition vabs := lift1 Qc_abs.
(** e ** alpha with the power function as a parameter; e ** 2 etc. use pw_int *)
Definition vpow (pw : Qc -> Qc) := lift1 pw.

Definition as_list (a : val) : list Qc := match a with VS x => [x] | VV v => v end.
Definition as_scalar (a : val) : Qc := match a with VS x => x | VV v => headq v end.

(** np.diff, slices [:-1] and [1:], np.sum, np.mean, .min(), .max(), len *)
Definition vdiff (a : val) : val := VV (diffs (as_list a)).
Definition vinit (a : val) : val := VV (removelast (as_list a)).
Definition vtail (a : val) : val := VV (tl (as_list a)).
Definition vsum (a : val) : val := VS (sumq (as_list a)).
Definition vmean (a : val) : val := VS (sumq (as_list a) / Qc_of_nat (length (as_list a))).
Definition vmin (a : val) : val := VS (minq (as_list a)).
Definition vmax (a : val) : val := VS (maxq (as_list a)).
Definition vlen (a : val) : val := VS (Qc_of_nat (length (as_list a))).
(** population variance; np.std(y) is sqrt of it (sqrt is an oracle parameter of the generated code) *)
Definition vvar (a : val) : Qc :=
  let l := as_list a in
  let m := sumq l / Qc_of_nat (length l) in
  sumq (map (fun v => (v - m) * (v - m)) l) / Qc_of_nat (length l).

(** a[i] with a Python integer index (negative counts from the end); out of range -> 0 *)
Definition vidx (a : val) (i : Z) : val :=
  let l := as_list a in
  let n := Z.of_nat (length l) in
  VS (if (0 <=? i)%Z then nthq (Z.to_nat i) l else nthq (Z.to_nat (n + i)) l).

(** np.append(a, v) *)
Definition vappend (a v : val) : val := VV (as_list a ++ as_list v).
(** np.array([c1, c2, ...]) *)
Definition varray (l : list Qc) : val := VV l.

(** Python int() (truncation towards zero), min(a, b), max(a, b) on scalars *)
Definition vtrunc (a : val) : val := VS (Qc_of_Z (Qc_trunc (as_scalar a))).
Definition vmin2 := lift2 Qc_min.
Definition vmax2 := lift2 Qc_max.
