(** Helpers used by generated correspondence case files: comparisons between
    what the model computes and what the implementation returned, done inside
    Coq so that only a list of failing case numbers has to be parsed. *)
From TW Require Export Lib.Base.
Open Scope Qc_scope.

Definition Z_list_eqb := list_eqb Z.eqb.
Definition nat_list_eqb := list_eqb Nat.eqb.

(** |a - b| <= tol *)
Definition approx (tol a b : Qc) : bool := Qc_leb (Qc_abs (a - b)) tol.
Definition approx_list (tol : Qc) := list_eqb (approx tol).
Definition exact_list := list_eqb Qc_eqb.

(** model result vs implementation observation *)
Inductive obs (A : Type) := OVal (a : A) | OExn (e : exn).
Arguments OVal {A} a.
Arguments OExn {A} e.

Definition res_match {A B} (cmp : A -> B -> bool) (m : res A) (o : obs B) : bool :=
  match m, o with
  | Ok a, OVal b => cmp a b
  | Raise e, OExn e' => exn_eqb e e'
  | _, _ => false
  end.

Fixpoint failing_from (i : nat) (l : list bool) : list nat :=
  match l with
  | [] => []
  | b :: l' => if b then failing_from (S i) l' else i :: failing_from (S i) l'
  end.
Definition failing (l : list bool) : list nat := failing_from 0 l.

Definition pair_match {A B C D} (f : A -> C -> bool) (g : B -> D -> bool) (p : A * B) (q : C * D) : bool :=
  f (fst p) (fst q) && g (snd p) (snd q).

Definition option_match {A B} (f : A -> B -> bool) (a : option A) (b : option B) : bool :=
  match a, b with
  | Some x, Some y => f x y
  | None, None => true
  | _, _ => false
  end.
