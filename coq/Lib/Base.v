(** Shared vocabulary of the executable models: result type with Python
    exception classes, list helpers.  Definitions only (no proofs). *)
From TW Require Export Lib.QcTactics.
Open Scope Qc_scope.

Inductive exn : Type :=
| ValueError | IndexError | TypeError | OSError | AttributeError
| StopIteration | NonFinite | OtherExn.

Inductive res (A : Type) : Type :=
| Ok (a : A)
| Raise (e : exn).
Arguments Ok {A} a.
Arguments Raise {A} e.

Definition bind {A B} (r : res A) (f : A -> res B) : res B :=
  match r with Ok a => f a | Raise e => Raise e end.
Notation "'let?' x ':=' r 'in' k" := (bind r (fun x => k))
  (at level 200, x pattern, r at level 100, k at level 200, right associativity).

Definition exn_eqb (a b : exn) : bool :=
  match a, b with
  | ValueError, ValueError | IndexError, IndexError | TypeError, TypeError
  | OSError, OSError | AttributeError, AttributeError | StopIteration, StopIteration
  | NonFinite, NonFinite | OtherExn, OtherExn => true
  | _, _ => false
  end.

(** element access with default 0 (every use in a theorem is guarded by a
    length hypothesis, every use in a model by a definedness flag) *)
Definition nthq (i : nat) (l : list Qc) : Qc := nth i l 0.
Definition lastq (l : list Qc) : Qc := last l 0.
Definition headq (l : list Qc) : Qc := hd 0 l.

Fixpoint sumq (l : list Qc) : Qc :=
  match l with [] => 0 | a :: l' => a + sumq l' end.

Fixpoint map2 {A B C} (f : A -> B -> C) (l1 : list A) (l2 : list B) : list C :=
  match l1, l2 with
  | a :: l1', b :: l2' => f a b :: map2 f l1' l2'
  | _, _ => []
  end.

(** consecutive differences  np.diff *)
Fixpoint diffs (l : list Qc) : list Qc :=
  match l with
  | a :: (b :: _) as l' => (b - a) :: diffs l'
  | _ => []
  end.

(** strictly increasing / non-decreasing lists *)
Fixpoint ssorted (l : list Qc) : Prop :=
  match l with
  | a :: (b :: _) as l' => a < b /\ ssorted l'
  | _ => True
  end.
Fixpoint nondecr (l : list Qc) : Prop :=
  match l with
  | a :: (b :: _) as l' => a <= b /\ nondecr l'
  | _ => True
  end.
Fixpoint ssortedb (l : list Qc) : bool :=
  match l with
  | a :: (b :: _) as l' => Qc_ltb a b && ssortedb l'
  | _ => true
  end.
Fixpoint nondecrb (l : list Qc) : bool :=
  match l with
  | a :: (b :: _) as l' => Qc_leb a b && nondecrb l'
  | _ => true
  end.

(** replace the slice [start, start+len w) of l by w (numpy slice assignment
    with matching lengths) *)
Definition splice (l : list Qc) (start : nat) (w : list Qc) : list Qc :=
  firstn start l ++ w ++ skipn (start + length w) l.

Definition slice (l : list Qc) (start stop : nat) : list Qc :=
  firstn (stop - start) (skipn start l).

Fixpoint list_eqb {A} (eqb : A -> A -> bool) (l1 l2 : list A) : bool :=
  match l1, l2 with
  | [], [] => true
  | a :: l1', b :: l2' => eqb a b && list_eqb eqb l1' l2'
  | _, _ => false
  end.

Fixpoint repeatq (v : Qc) (n : nat) : list Qc :=
  match n with O => [] | S n' => v :: repeatq v n' end.

Definition minq (l : list Qc) : Qc := fold_left Qc_min (tl l) (headq l).
Definition maxq (l : list Qc) : Qc := fold_left Qc_max (tl l) (headq l).
