(** Transfer tactics: decide linear / non-linear order goals over [Qc] by
    pushing the [this] projection through the operations and calling
    [lra] / [nra] on [Q].  Axiom-free. *)
From Coq Require Export QArith Qcanon Lqa Lia ZArith List Bool.
Export ListNotations.
Open Scope Qc_scope.

Lemma this_add (x y : Qc) : (this (x + y) == this x + this y)%Q.
Proof. unfold Qcplus, Q2Qc; cbn [this]; apply Qred_correct. Qed.
Lemma this_mul (x y : Qc) : (this (x * y) == this x * this y)%Q.
Proof. unfold Qcmult, Q2Qc; cbn [this]; apply Qred_correct. Qed.
Lemma this_opp (x : Qc) : (this (- x) == - this x)%Q.
Proof. unfold Qcopp, Q2Qc; cbn [this]; apply Qred_correct. Qed.
Lemma this_sub (x y : Qc) : (this (x - y) == this x - this y)%Q.
Proof. unfold Qcminus. rewrite this_add, this_opp. reflexivity. Qed.
Lemma this_inv (x : Qc) : (this (/ x) == / this x)%Q.
Proof. unfold Qcinv, Q2Qc; cbn [this]; apply Qred_correct. Qed.
Lemma this_div (x y : Qc) : (this (x / y) == this x / this y)%Q.
Proof. unfold Qcdiv. rewrite this_mul, this_inv. reflexivity. Qed.
Lemma this_Q2Qc (q : Q) : (this (Q2Qc q) == q)%Q.
Proof. unfold Q2Qc; cbn [this]; apply Qred_correct. Qed.

Lemma Qc_eq_iff (x y : Qc) : x = y <-> (this x == this y)%Q.
Proof. split; [intros ->; reflexivity | apply Qc_is_canon]. Qed.
Lemma Qc_neq_iff (x y : Qc) : x <> y <-> ~ (this x == this y)%Q.
Proof. rewrite Qc_eq_iff; tauto. Qed.

Global Hint Rewrite this_add this_mul this_opp this_sub this_inv this_div this_Q2Qc : qc2q.

(** Turn every Qc (in)equality in the context and goal into a Q statement. *)
Ltac qc2q :=
  repeat match goal with
  | H : @eq Qc _ _ |- _ => apply Qc_eq_iff in H
  | H : not (@eq Qc _ _) |- _ => apply Qc_neq_iff in H
  | |- @eq Qc _ _ => apply Qc_eq_iff
  | |- not (@eq Qc _ _) => apply Qc_neq_iff
  end;
  unfold Qcle, Qclt, Qcdiv, Qcminus in *;
  autorewrite with qc2q in *.

Ltac qclra := qc2q; lra.
Ltac qcnra := qc2q; nra.

(** Boolean comparisons on Qc used by the executable models. *)
Definition Qc_leb (x y : Qc) : bool := Qle_bool x y.
Definition Qc_ltb (x y : Qc) : bool := negb (Qle_bool y x).
Definition Qc_eqb (x y : Qc) : bool := Qeq_bool x y.

Lemma Qc_leb_spec x y : reflect (x <= y) (Qc_leb x y).
Proof.
  unfold Qc_leb, Qcle. destruct (Qle_bool x y) eqn:E; constructor.
  - now apply Qle_bool_iff.
  - intro H. apply Qle_bool_iff in H. congruence.
Qed.
Lemma Qc_ltb_spec x y : reflect (x < y) (Qc_ltb x y).
Proof.
  unfold Qc_ltb, Qclt. destruct (Qle_bool y x) eqn:E; simpl; constructor.
  - apply Qle_bool_iff in E. now apply Qle_not_lt.
  - apply Qnot_le_lt. intro H. apply Qle_bool_iff in H. congruence.
Qed.
Lemma Qc_eqb_spec x y : reflect (x = y) (Qc_eqb x y).
Proof.
  unfold Qc_eqb. destruct (Qeq_bool x y) eqn:E; constructor.
  - apply Qc_is_canon. now apply Qeq_bool_iff.
  - intros ->. assert (Qeq_bool y y = true) by (apply Qeq_bool_iff; reflexivity). congruence.
Qed.

Lemma Qc_leb_true x y : Qc_leb x y = true <-> x <= y.
Proof. destruct (Qc_leb_spec x y); split; auto; discriminate. Qed.
Lemma Qc_leb_false x y : Qc_leb x y = false <-> y < x.
Proof.
  destruct (Qc_leb_spec x y) as [H|H]; split; auto; try discriminate.
  - intros H'. exfalso. revert H H'. unfold Qcle, Qclt. intros. now apply Qle_not_lt in H.
  - intros _. now apply Qcnot_le_lt.
Qed.
Lemma Qc_ltb_true x y : Qc_ltb x y = true <-> x < y.
Proof. destruct (Qc_ltb_spec x y); split; auto; discriminate. Qed.
Lemma Qc_ltb_false x y : Qc_ltb x y = false <-> y <= x.
Proof.
  destruct (Qc_ltb_spec x y) as [H|H]; split; auto; try discriminate.
  - intros H'. exfalso. revert H H'. unfold Qcle, Qclt. intros. now apply Qle_not_lt in H'.
  - intros _. now apply Qcnot_lt_le.
Qed.
Lemma Qc_eqb_true x y : Qc_eqb x y = true <-> x = y.
Proof. destruct (Qc_eqb_spec x y); split; auto; discriminate. Qed.
Lemma Qc_eqb_false x y : Qc_eqb x y = false <-> x <> y.
Proof. destruct (Qc_eqb_spec x y); split; auto; try discriminate; tauto. Qed.

(** Destruct every boolean Qc comparison appearing in the goal, leaving the
    corresponding order facts in the context. *)
Ltac qc_case b :=
  lazymatch b with
  | Qc_leb ?x ?y => let H := fresh "Hle" in destruct (Qc_leb x y) eqn:H;
                    [apply Qc_leb_true in H | apply Qc_leb_false in H]
  | Qc_ltb ?x ?y => let H := fresh "Hlt" in destruct (Qc_ltb x y) eqn:H;
                    [apply Qc_ltb_true in H | apply Qc_ltb_false in H]
  | Qc_eqb ?x ?y => let H := fresh "Heq" in destruct (Qc_eqb x y) eqn:H;
                    [apply Qc_eqb_true in H | apply Qc_eqb_false in H]
  end.

(** Constants *)
Definition Qc_of_Z (z : Z) : Qc := Q2Qc (inject_Z z).
Definition Qc_of_nat (n : nat) : Qc := Qc_of_Z (Z.of_nat n).
Definition Qc_half : Qc := Q2Qc (1 # 2).
Definition Qc_two : Qc := Q2Qc (2 # 1).
Definition Qc_abs (x : Qc) : Qc := if Qc_leb 0 x then x else - x.
Definition Qc_min (x y : Qc) : Qc := if Qc_leb x y then x else y.
Definition Qc_max (x y : Qc) : Qc := if Qc_leb x y then y else x.
(** Python int(): truncation towards zero *)
Definition Qc_trunc (x : Qc) : Z := Z.quot (Qnum x) (Zpos (Qden x)).
(** dyadic constructor used by generated case files: z / 2^k *)
Definition dy (z : Z) (k : positive) : Qc := Q2Qc (z # (2 ^ k)%positive).
Definition qz (z : Z) : Qc := Qc_of_Z z.
Definition qf (z : Z) (d : positive) : Qc := Q2Qc (z # d).

Lemma Qc_abs_nonneg x : 0 <= Qc_abs x.
Proof. unfold Qc_abs. qc_case (Qc_leb 0 x); qclra. Qed.
Lemma this_of_nat_S n : (this (Qc_of_nat (S n)) == this (Qc_of_nat n) + 1)%Q.
Proof.
  unfold Qc_of_nat, Qc_of_Z. rewrite !this_Q2Qc, Nat2Z.inj_succ.
  unfold Z.succ. rewrite inject_Z_plus. reflexivity.
Qed.
Lemma this_zero : (this 0 == 0)%Q.
Proof. reflexivity. Qed.
Lemma this_one : (this 1 == 1)%Q.
Proof. reflexivity. Qed.
Lemma this_of_nat_0 : (this (Qc_of_nat 0) == 0)%Q.
Proof. reflexivity. Qed.
Lemma Qc_of_nat_nonneg n : 0 <= Qc_of_nat n.
Proof. induction n; unfold Qcle in *; [rewrite this_of_nat_0|rewrite this_of_nat_S]; rewrite this_zero in *; lra. Qed.
Lemma Qc_of_nat_pos n : (0 < n)%nat -> 0 < Qc_of_nat n.
Proof. destruct n; [lia|]. intros _. pose proof (Qc_of_nat_nonneg n) as H. unfold Qcle, Qclt in *. rewrite this_of_nat_S. rewrite this_zero in *. lra. Qed.

(* probes *)
Goal forall x y t : Qc, 0 <= t -> t <= 1 -> x <= y -> x <= x + (y - x) * t /\ x + (y - x) * t <= y.
Proof. intros. split; qcnra. Qed.
Goal forall a b : Qc, b <> 0 -> a / b * b = a.
Proof. intros. field. assumption. Qed.
