(** The "glue language": the fragment of Python in which the methods of class Weaver are written
    (attribute assignments, calls of library / package functions, guards that raise, return).
    It is the target of the "WeaverGlue" and "WeaverFootprint" translators (tools/translate.py);
    its meaning is given by the interpreter of Model/GlueSem.v.  Syntax only. *)
From Coq Require Export String List ZArith.
Export ListNotations.

(** the attributes of a Weaver object *)
Inductive field := FX | FY | FOX | FOY | FRX | FRY | FXS | FYS.

Inductive gexpr :=
| GSelf (f : field)                                   (* self.f *)
| GVar (v : string)                                   (* a parameter, a local, or "self" *)
| GNone
| GBoolC (b : bool)
| GInt (z : Z)
| GStr (s : string)
| GCall (fn : string) (args : list gexpr) (kw : list (string * gexpr))   (* fn(args, k=v, **kwargs as ("**", kwargs)) *)
| GMeth (recv : gexpr) (m : string) (args : list gexpr)                  (* recv.m(args) *)
| GApply (f : gexpr) (args : list gexpr)                                 (* f(...)(args) *)
| GTuple (es : list gexpr)
| GBin (op : string) (a b : gexpr)                    (* + - * /  < > <= >= == !=  is isnot  and or *)
| GIdx (a i : gexpr)                                  (* a[i] *)
| GSlice (a lo hi st : gexpr)                         (* a[lo:hi:st]; an omitted bound is GNone *)
| GList (es : list gexpr)                             (* [e1, ..., ek] *)
| GIfExp (c a b : gexpr)                              (* a if c else b *)
| GFloat (num : Z) (den : positive)                   (* a float literal, as the exact rational it denotes *)
| GNeg (a : gexpr)                                    (* -a *)
| GListComp (body : gexpr) (v : string) (it : gexpr). (* [body for v in it] *)

Inductive glhs :=
| LSelf (f : field)                                   (* self.f = ... *)
| LVar (v : string)                                   (* v = ... *)
| LIdx (v : string) (i : gexpr)                       (* v[i] = ... *)
| LSlice (v : string) (lo hi : gexpr).                (* v[lo:hi] = ... *)

Inductive gstmt :=
| SAssign (l : list glhs) (e : gexpr)                 (* t = e   or   t1, t2 = e *)
| SIf (c : gexpr) (th el : list gstmt)
| SRaise (exn : string)
| SReturn (e : gexpr)
| SExpr (e : gexpr)                                   (* an expression statement: warnings.warn(...) *)
| SAug (l : glhs) (op : string) (e : gexpr)           (* t op= e *)
| SFor (vars : list string) (it : gexpr) (body : list gstmt)    (* for v1, ..., vk in it: body *)
| SWhile (c : gexpr) (body : list gstmt)                       (* while c: body   (run by Model/GlueWhile.v, with fuel) *)
| SBreak.
