(** STAGING: regenerated bodies of module-level functions (Gen/{Match,Process,Utils}Glue.v), run by the interpreter of
    Model/GlueFun.v with the leaves of Model/GlueLeaves.v, are the hand-written models of the same functions. *)
From TW Require Import Model.GlueLeaves Gen.MatchGlue Gen.ProcessGlue Gen.UtilsGlue Proofs.GlueMatchProofs Proofs.GlueProcessProofs Proofs.GlueUtilsProofs.
Open Scope Qc_scope.
Open Scope string_scope.

(** ---------------- C01 ---------------- *)
(** integral_matching_reference_stretch (no smoothing): argument checks, the three ways of fixing points, the reference
    integrals and the call of the interval loop — as regenerated — are the model's match_ref *)
Theorem C01_glue_match_ref : forall pw x y xr yr m rt rr,
  outcome_arr (call_fun (match_callf pw) array_methf no_apply no_pow match_functions "integral_matching_reference_stretch"
     ([("x", VArr x); ("y", VArr y); ("x_ref", VArr xr); ("y_ref", VArr yr);
       ("target_function_integral_method", VStrV (rule_name rt)); ("reference_function_integral_method", VStrV (rule_name rr));
       ("alpha", VOpaque "alpha")] ++ mode_args m))
  = match_ref pw x y xr yr m rt rr.
Proof. exact glue_match_ref. Qed.
Print Assumptions C01_glue_match_ref.

(** the defaults of the signature are the documented ones *)
Theorem C01_glue_match_defaults : forall pw x y xr yr,
  call_fun (match_callf pw) array_methf no_apply no_pow match_functions "integral_matching_reference_stretch"
     [("x", VArr x); ("y", VArr y); ("x_ref", VArr xr); ("y_ref", VArr yr); ("alpha", VOpaque "alpha")]
  = call_fun (match_callf pw) array_methf no_apply no_pow match_functions "integral_matching_reference_stretch"
     [("x", VArr x); ("y", VArr y); ("x_ref", VArr xr); ("y_ref", VArr yr); ("alpha", VOpaque "alpha");
      ("fixed_points_in_x", VNoneV); ("fixed_points_indices_in_x", VNoneV); ("fixed_points_finding_strategy", VStrV "closest");
      ("target_function_integral_method", VStrV "trapezoid"); ("reference_function_integral_method", VStrV "trapezoid"); ("s", VNoneV)].
Proof. exact glue_match_defaults. Qed.
Print Assumptions C01_glue_match_defaults.

(** ---------------- C03 ---------------- *)
(** the window loop of _interval_integral_matching_stretch (zip over the targets and consecutive fixed points, end + 1,
    in-place slice assignment) is the model's interval_match *)
Theorem C03_glue_interval_loop : forall pw x y targets fixed r, length x = length y ->
  outcome_arr (call_fun (match_callf pw) array_methf no_apply no_pow match_functions "_interval_integral_matching_stretch"
     [("x", VArr x); ("y", VArr y); ("integral_values", VArr targets); ("fixed_points_indices_in_x", VIdxArr (ints fixed));
      ("integral_method", VStrV (rule_name r)); ("alpha", VOpaque "alpha")])
  = interval_match pw r x y targets fixed.
Proof. exact glue_interval_loop. Qed.
Print Assumptions C03_glue_interval_loop.

(** ---------------- C11 ---------------- *)
Theorem C11_glue_truncate : forall x y xl xr lr rr, x <> [] ->
  outcome_arr_pair (call_fun (process_callf (fun v => v)) array_methf no_apply no_pow process_functions "truncate"
     [("x", VArr x); ("y", VArr y); ("x_left", VNum xl); ("x_right", VNum xr); ("x_left_as_ratio", VBoolV lr); ("x_right_as_ratio", VBoolV rr)])
  = truncate x y xl xr lr rr.
Proof. exact glue_truncate. Qed.
Print Assumptions C11_glue_truncate.

(** ---------------- C12 ---------------- *)
Theorem C12_glue_repeat : forall x y r, repeat_defined x = true -> (0 <= r)%Z ->
  outcome_arr_pair (call_fun (process_callf (fun v => v)) array_methf no_apply no_pow process_functions "repeat"
     [("x", VArr x); ("y", VArr y); ("repeats", VInt r)])
  = Ok (repeat_series x y (Z.to_nat r)).
Proof. exact glue_repeat. Qed.
Print Assumptions C12_glue_repeat.

(** ---------------- C13 ---------------- *)
Theorem C13_glue_interpolate : forall x y nx,
  outcome_arr (call_fun (process_callf (fun v => v)) array_methf no_apply no_pow process_functions "interpolate"
     [("x", VArr x); ("y", VArr y); ("new_x", VArr nx); ("method", VStrV "linear")]) = Ok (interp_linear x y nx) /\
  outcome_arr (call_fun (process_callf (fun v => v)) array_methf no_apply no_pow process_functions "interpolate"
     [("x", VArr x); ("y", VArr y); ("new_x", VArr nx)]) = Ok (interp_linear x y nx) /\
  outcome_arr (call_fun (process_callf (fun v => v)) array_methf no_apply no_pow process_functions "interpolate"
     [("x", VArr x); ("y", VArr y); ("new_x", VArr nx); ("method", VStrV "constant")]) = interp_constant x y nx None /\
  forall m, m <> "linear" -> m <> "constant" -> m <> "cubic" -> m <> "spline" ->
  outcome_arr (call_fun (process_callf (fun v => v)) array_methf no_apply no_pow process_functions "interpolate"
     [("x", VArr x); ("y", VArr y); ("new_x", VArr nx); ("method", VStrV m)]) = Raise ValueError.
Proof. exact glue_interpolate. Qed.
Print Assumptions C13_glue_interpolate.

(** ---------------- C14 ---------------- *)
Theorem C14_glue_trend : forall f x y nrm, x <> [] -> length x = length y ->
  outcome_arr_pair (call_fun (process_callf f) array_methf no_apply no_pow process_functions "trend"
     [("x", VArr x); ("y", VArr y); ("fun", VOpaque "fun"); ("normalized", VBoolV nrm)])
  = Ok (trend f nrm x y).
Proof. exact glue_trend. Qed.
Print Assumptions C14_glue_trend.

Theorem C14_glue_normalize : forall a lo hi, a <> [] ->
  outcome_arr (call_fun (process_callf (fun v => v)) array_methf no_apply no_pow process_functions "normalize"
     [("a", VArr a); ("min_val", VNum lo); ("max_val", VNum hi)])
  = Ok (normalize a lo hi).
Proof. exact glue_normalize. Qed.
Print Assumptions C14_glue_normalize.

(** ---------------- C17 ---------------- *)
Theorem C17_glue_append_one_sample : forall x y p, append_one_sample_defined x y = true ->
  outcome_arr_pair (call_fun utils_callf array_methf no_apply no_pow utils_functions "append_one_sample"
     [("x", VArr x); ("y", VArr y); ("make_periodic", VBoolV p)])
  = Ok (append_one_sample x y p).
Proof. exact glue_append_one_sample. Qed.
Print Assumptions C17_glue_append_one_sample.

Theorem C17_glue_integral : forall x y r,
  outcome_arr (call_fun utils_callf array_methf no_apply no_pow utils_functions "integral"
     [("x", VArr x); ("y", VArr y); ("method", VStrV (rule_name r))]) = integral x y r.
Proof. exact glue_integral. Qed.
Print Assumptions C17_glue_integral.

Theorem C17_glue_integral_rules : forall x y, length x = length y ->
  outcome_arr (call_fun utils_callf array_methf no_apply no_pow utils_functions "rectangle_integral" [("x", VArr x); ("y", VArr y)])
    = Ok (rectangle_integral x y) /\
  outcome_arr (call_fun utils_callf array_methf no_apply no_pow utils_functions "trapezoid_integral" [("x", VArr x); ("y", VArr y)])
    = Ok (trapezoid_integral x y).
Proof. exact glue_integral_rules. Qed.
Print Assumptions C17_glue_integral_rules.

(** ---------------- C10 ---------------- *)
Theorem C10_glue_find_dispatch : forall x lk s fill,
  outcome_idx (call_fun utils_callf array_methf no_apply no_pow utils_functions "find_closest_element_indices_to_values"
     [("x", VArr x); ("lookup", VArr lk); ("strategy", VStrV (strategy_name s)); ("fill_not_valid", VBoolV fill)])
  = find_indices x lk s fill.
Proof. exact glue_find_dispatch. Qed.
Print Assumptions C10_glue_find_dispatch.
