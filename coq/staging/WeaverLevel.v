(** STAGING: Weaver-level statements to be appended to Properties/C08, C11, C12, C13, C14 once proved.
    Each `Theorem Cxx_name` below is proved by `exact <lemma>` with the lemma in Proofs/WeaverLevelProofs.v. *)
From TW Require Import Model.WeaverSpec Model.Interval Proofs.WeaverLevelProofs.
Open Scope Qc_scope.

(** ---------------- C08 ---------------- *)
(** after any state with working = reference, recreate (any strategy, any parameters) followed by the default
    integral match reproduces every (transformed) average: block integral = average * width *)
Theorem C08_pipeline : forall pw pwr gpow k s n s1 rt, PwOk pw -> known_rule rt ->
  Inv s -> ssorted (wx s) -> (2 <= length (wx s))%nat -> length (wx s) = length (wy s) -> (2 <= n)%Z ->
  step s (ORecreate n pwr gpow k) = (s1, Ok tt) ->
  exists s2, step s1 (OMatch pw (ByStrategy Closest) rt Rectangle) = (s2, Ok tt) /\
    let N := Z.to_nat n in
    wx s2 = oversample_linspace (wx s) N /\ length (wy s2) = length (wx s2) /\
    wrx s2 = wrx s /\ wry s2 = wry s /\
    forall j, (j + 1 < length (wx s))%nat ->
      total rt (slice (wx s2) (j * N) ((j + 1) * N + 1)) (slice (wy s2) (j * N) ((j + 1) * N + 1))
      = nthq j (wry s) * (nthq (j + 1) (wrx s) - nthq j (wrx s)).
Proof. exact weaver_pipeline. Qed.
Print Assumptions C08_pipeline.

(** ---------------- C11 ---------------- *)
Theorem C11_truncate_weaver_same_bounds : forall s l r lr rr s', step s (OTruncVal l r lr rr) = (s', Ok tt) ->
  truncate (wx s) (wy s) l r lr rr = Ok (wx s', wy s') /\ truncate (wrx s) (wry s) l r lr rr = Ok (wrx s', wry s') /\
  wox s' = wox s /\ woy s' = woy s.
Proof. exact truncate_weaver_same_bounds. Qed.
Print Assumptions C11_truncate_weaver_same_bounds.

Theorem C11_py_slice_unit_step : forall l a b, (0 <= a)%Z -> (a <= b)%Z -> (b <= Z.of_nat (length l))%Z ->
  py_slice l a b 1 = Ok (slice l (Z.to_nat a) (Z.to_nat b)).
Proof. exact py_slice_unit_step. Qed.
Print Assumptions C11_py_slice_unit_step.

Theorem C11_truncate_by_index : forall s a b s', (0 <= a)%Z -> (a <= b)%Z -> (b <= Z.of_nat (length (wx s)))%Z ->
  length (wx s) = length (wy s) -> step s (OTruncIdx a (Some b)) = (s', Ok tt) ->
  wx s' = slice (wx s) (Z.to_nat a) (Z.to_nat b) /\ wy s' = slice (wy s) (Z.to_nat a) (Z.to_nat b).
Proof. exact truncate_by_index_spec. Qed.
Print Assumptions C11_truncate_by_index.

(** slicing by value returns precisely the samples with start <= x <= stop; an omitted bound is the respective end *)
Theorem C11_slice_by_value_exact : forall s a b, ssorted (wx s) -> length (wx s) = length (wy s) ->
  In a (wx s) -> In b (wx s) -> a <= b ->
  exists i j, slice_by_value s (Some a) (Some b) 1 = Ok (slice (wx s) i (j + 1), slice (wy s) i (j + 1)) /\
    (i <= j)%nat /\ (j < length (wx s))%nat /\ nthq i (wx s) = a /\ nthq j (wx s) = b /\
    forall k, (k < length (wx s))%nat -> ((a <= nthq k (wx s) /\ nthq k (wx s) <= b) <-> (i <= k /\ k <= j)%nat).
Proof. exact slice_by_value_exact. Qed.
Print Assumptions C11_slice_by_value_exact.

Theorem C11_slice_by_value_omitted : forall s, length (wx s) = length (wy s) -> slice_by_value s None None 1 = Ok (wx s, wy s).
Proof. exact slice_by_value_omitted. Qed.
Print Assumptions C11_slice_by_value_omitted.

(** ---------------- C12 ---------------- *)
Theorem C12_weaver_repeat : forall s r s', (0 <= r)%Z -> step s (ORepeat r) = (s', Ok tt) ->
  (wx s', wy s') = repeat_series (wx s) (wy s) (Z.to_nat r) /\
  (wrx s', wry s') = repeat_series (wrx s) (wry s) (Z.to_nat r) /\ wox s' = wox s /\ woy s' = woy s.
Proof. exact weaver_repeat. Qed.
Print Assumptions C12_weaver_repeat.

(** ---------------- C13 ---------------- *)
(** interpolate(n): exactly n equally spaced points spanning the same range *)
Theorem C13_weaver_interp_n : forall s n a s', (2 <= n)%Z -> step s (OInterpN n a) = (s', Ok tt) ->
  let N := Z.to_nat n in
  length (wx s') = N /\ headq (wx s') = headq (wx s) /\ lastq (wx s') = lastq (wx s) /\
  forall i, (i + 1 < N)%nat -> nthq (i + 1) (wx s') - nthq i (wx s') = (lastq (wx s) - headq (wx s)) / Qc_of_nat (N - 1).
Proof. exact weaver_interp_n. Qed.
Print Assumptions C13_weaver_interp_n.

(** an explicit grid is accepted iff it shares both end points; otherwise ValueError and nothing changes *)
Theorem C13_weaver_interp_grid : forall s g a,
  ((headq g = headq (wx s) /\ lastq g = lastq (wx s)) ->
     forall ys, interp_eval (wx s) (wy s) g a = Ok ys -> step s (OInterpGrid g a) = (set_xy s g ys, Ok tt)) /\
  ((headq g <> headq (wx s) \/ lastq g <> lastq (wx s)) -> step s (OInterpGrid g a) = (s, Raise ValueError)).
Proof. exact weaver_interp_grid. Qed.
Print Assumptions C13_weaver_interp_grid.

Theorem C13_weaver_interp_linear_values : forall s n s', step s (OInterpN n (IOwn MLinear)) = (s', Ok tt) ->
  wy s' = interp_linear (wx s) (wy s) (wx s').
Proof. exact weaver_interp_linear_values. Qed.
Print Assumptions C13_weaver_interp_linear_values.

(** ---------------- C14 ---------------- *)
Theorem C14_weaver_shift_scale : forall s v,
  step s (OShiftX v) = (set_rx (set_x s (map (fun a => a + v) (wx s))) (map (fun a => a + v) (wrx s)), Ok tt) /\
  step s (OShiftY v) = (set_ry (set_y s (map (fun a => a + v) (wy s))) (map (fun a => a + v) (wry s)), Ok tt) /\
  step s (OScaleX v) = (set_rx (set_x s (map (fun a => a * v) (wx s))) (map (fun a => a * v) (wrx s)), Ok tt) /\
  step s (OScaleY v) = (set_ry (set_y s (map (fun a => a * v) (wy s))) (map (fun a => a * v) (wry s)), Ok tt).
Proof. exact weaver_shift_scale. Qed.
Print Assumptions C14_weaver_shift_scale.

Theorem C14_weaver_trend : forall s f nrm s', step s (OTrend f nrm) = (s', Ok tt) ->
  wx s' = wx s /\ wy s' = snd (trend f nrm (wx s) (wy s)) /\ wrx s' = wrx s /\ wry s' = wry s /\ wox s' = wox s /\ woy s' = woy s.
Proof. exact weaver_trend. Qed.
Print Assumptions C14_weaver_trend.

Theorem C14_weaver_normalize : forall s lo hi s', step s (ONormX lo hi) = (s', Ok tt) ->
  wx s' = normalize (wx s) lo hi /\ wrx s' = normalize (wrx s) lo hi /\ wox s' = normalize (wox s) lo hi /\
  wy s' = wy s /\ wry s' = wry s /\ woy s' = woy s.
Proof. exact weaver_normalize_x. Qed.
Print Assumptions C14_weaver_normalize.
