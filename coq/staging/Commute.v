(** STAGING: C08, third sentence — shifting or scaling commutes with the recreate + match pipeline. *)
From TW Require Import Model.WeaverSpec Model.RfaSpec Proofs.CommuteProofs.
Open Scope Qc_scope.

Definition res_map {A B} (f : A -> B) (r : res A) : res B := match r with Ok v => Ok (f v) | Raise e => Raise e end.

(** strategies whose values are computed by the library (a user-supplied sampling function may depend on units arbitrarily) *)
Definition window_strategy_ok (n : nat) (gpow : Qc -> Qc) (k : rfa_kind) : Prop :=
  match k with
  | PiecewiseConstant => True
  | LinearFixed alpha a => (window_a n alpha a <= Z.of_nat n)%Z
  | LinearAdaptive alpha a => (window_a n alpha a <= Z.of_nat n)%Z /\ GpowPos gpow
  | ExpFixed alpha beta a => (window_a n alpha a <= Z.of_nat n)%Z /\ 0 <= beta /\ beta <= 1
  | ExpAdaptive alpha beta a => (window_a n alpha a <= Z.of_nat n)%Z /\ 0 <= beta /\ beta <= 1 /\ GpowPos gpow
  | FunctionSampled _ => False
  end.

Definition pipeline (n : Z) (pwr gpow : Qc -> Qc) (k : rfa_kind) (pw : Qc -> Qc) (rt : rule) : list op :=
  [ORecreate n pwr gpow k; OMatch pw (ByStrategy Closest) rt Rectangle].

Definition same_series (s1 s2 : wstate) : Prop :=
  wx s1 = wx s2 /\ wy s1 = wy s2 /\ wrx s1 = wrx s2 /\ wry s1 = wry s2.

(** matching is homogeneous in the values: scaling target and reference values scales the result (every mode, every rule) *)
Theorem C08_match_scale_y : forall pw x y xr yr m rt rr a, length x = length y -> length xr = length yr ->
  match_ref pw x (map (Qcmult a) y) xr (map (Qcmult a) yr) m rt rr = res_map (map (Qcmult a)) (match_ref pw x y xr yr m rt rr).
Proof. exact match_scale_y. Qed.
Print Assumptions C08_match_scale_y.

Theorem C08_commute_scale_y : forall pw pwr gpow k rt n s, PwOk pw -> known_rule rt -> (2 <= n)%Z -> window_strategy_ok (Z.to_nat n) gpow k ->
  Inv s -> ssorted (wx s) -> (2 <= length (wx s))%nat -> length (wx s) = length (wy s) ->
  forall a s1 s2, a <> 0 -> 
  run s (OScaleY a :: pipeline n pwr gpow k pw rt) = (s1, Ok tt) -> run s (pipeline n pwr gpow k pw rt ++ [OScaleY a]) = (s2, Ok tt) ->
  same_series s1 s2.
Proof. exact commute_scale_y. Qed.
Print Assumptions C08_commute_scale_y.

Theorem C08_commute_shift_y : forall pw pwr gpow k rt n s, PwOk pw -> known_rule rt -> (2 <= n)%Z -> window_strategy_ok (Z.to_nat n) gpow k ->
  Inv s -> ssorted (wx s) -> (2 <= length (wx s))%nat -> length (wx s) = length (wy s) ->
  forall b s1 s2, 
  run s (OShiftY b :: pipeline n pwr gpow k pw rt) = (s1, Ok tt) -> run s (pipeline n pwr gpow k pw rt ++ [OShiftY b]) = (s2, Ok tt) ->
  same_series s1 s2.
Proof. exact commute_shift_y. Qed.
Print Assumptions C08_commute_shift_y.

Theorem C08_commute_scale_x : forall pw pwr gpow k rt n s, PwOk pw -> known_rule rt -> (2 <= n)%Z -> window_strategy_ok (Z.to_nat n) gpow k ->
  Inv s -> ssorted (wx s) -> (2 <= length (wx s))%nat -> length (wx s) = length (wy s) ->
  forall c s1 s2, 0 < c -> 
  run s (OScaleX c :: pipeline n pwr gpow k pw rt) = (s1, Ok tt) -> run s (pipeline n pwr gpow k pw rt ++ [OScaleX c]) = (s2, Ok tt) ->
  same_series s1 s2.
Proof. exact commute_scale_x. Qed.
Print Assumptions C08_commute_scale_x.

Theorem C08_commute_shift_x : forall pw pwr gpow k rt n s, PwOk pw -> known_rule rt -> (2 <= n)%Z -> window_strategy_ok (Z.to_nat n) gpow k ->
  Inv s -> ssorted (wx s) -> (2 <= length (wx s))%nat -> length (wx s) = length (wy s) ->
  forall d s1 s2, 
  run s (OShiftX d :: pipeline n pwr gpow k pw rt) = (s1, Ok tt) -> run s (pipeline n pwr gpow k pw rt ++ [OShiftX d]) = (s2, Ok tt) ->
  same_series s1 s2.
Proof. exact commute_shift_x. Qed.
Print Assumptions C08_commute_shift_x.

