(** The write footprint of every Weaver method, REGENERATED from weaver.py (Gen/WeaverFootprint.v), against the
    model's step function: step changes no field outside the generated footprint of the corresponding method, and
    the structural facts C08 / C09 rely on are checked BY COMPUTATION on the generated table (nothing about the table
    is restated here; if e.g. "shift_x" loses FRX the corresponding lemma stops compiling). *)
From Coq Require Import String List Bool.
From TW Require Import Model.WeaverSpec Gen.WeaverFootprint.
Import ListNotations.
Open Scope string_scope.

(** ---------------- vocabulary (used verbatim by the statements in Footprint.v) ---------------- *)
Definition op_method (o : op) : string :=
  match o with
  | OAppend _ => "append_one_sample"
  | OShiftX _ => "shift_x" | OShiftY _ => "shift_y" | OScaleX _ => "scale_x" | OScaleY _ => "scale_y"
  | ONormX _ _ => "normalize_x" | ONormY _ _ => "normalize_y"
  | ORepeat _ => "repeat"
  | OTruncVal _ _ _ _ => "truncate_by_value" | OTruncIdx _ _ => "truncate_by_index"
  | ORecreate _ _ _ _ | ORecreateOracle _ _ => "recreate_from_average"
  | OMatch _ _ _ _ => "integral_match"
  | OInterpN _ _ | OInterpGrid _ _ | OInterpNone _ => "interpolate"
  | OTrend _ _ => "trend" | OSmooth _ => "smooth" | ONoise _ => "noise"
  | ORestore => "restore_original"
  end.
Definition getf (f : field) (s : wstate) : list Qc :=
  match f with FX => wx s | FY => wy s | FOX => wox s | FOY => woy s | FRX => wrx s | FRY => wry s | FXS | FYS => [] end.
Fixpoint lookup_writes (m : string) (l : list (string * list field)) : list field :=
  match l with [] => [] | (k, v) :: l' => if String.eqb m k then v else lookup_writes m l' end.
Definition writes_of (m : string) : list field := lookup_writes m method_writes.
Definition field_eqb (a b : field) : bool :=
  match a, b with FX, FX | FY, FY | FOX, FOX | FOY, FOY | FRX, FRX | FRY, FRY | FXS, FXS | FYS, FYS => true | _, _ => false end.
Definition writes (m : string) (f : field) : bool := existsb (field_eqb f) (writes_of m).

Definition domain_methods : list string :=
  ["append_one_sample"; "shift_x"; "shift_y"; "scale_x"; "scale_y"; "normalize_x"; "normalize_y"; "repeat";
   "truncate_by_value"; "truncate_by_index"].
Definition reshaping_methods : list string :=
  ["recreate_from_average"; "integral_match"; "interpolate"; "smooth"; "trend"; "noise"].
Definition query_methods : list string :=
  ["get"; "get_original"; "get_reference"; "slice_by_index"; "slice_by_value"; "to_function"; "to_2d_array"; "__len__"].

(** ---------------- the frame lemma ---------------- *)

(** expose every branch of [step]: destruct each scrutinee until the resulting state is a visible record update *)
Ltac split_step H :=
  repeat match type of H with
         | context [match ?e with _ => _ end] => destruct e eqn:?
         end.

(** for one operation and one field: either the generated table says the method assigns the field (the hypothesis
    computes to [true = false]), or every branch of the model leaves the field as it was *)
Ltac frame_case Hs Hw :=
  vm_compute in Hw;
  first
    [ discriminate Hw
    | cbv beta iota zeta delta [step fail done] in Hs;
      split_step Hs;
      injection Hs as <- _;
      reflexivity ].

Lemma frame_generated : forall s o s' r f,
  step s o = (s', r) -> writes (op_method o) f = false -> getf f s' = getf f s.
Proof.
  intros s o s' r f Hs Hw.
  destruct o; destruct f; frame_case Hs Hw.
Qed.

(** ---------------- facts checked on the generated table ---------------- *)

(** enumerate the members of a concrete list *)
Ltac in_cases H := simpl In in H; repeat (destruct H as [H | H]); [ .. | contradiction H ].

Lemma original_written_only_by_normalize : forall m ws, In (m, ws) method_writes ->
  existsb (field_eqb FOX) ws || existsb (field_eqb FOY) ws = true -> m = "__init__" \/ m = "normalize_x" \/ m = "normalize_y".
Proof.
  intros m ws H Hw.
  unfold method_writes in H.
  in_cases H; injection H as <- <-; vm_compute in Hw;
    first [ discriminate Hw | left; reflexivity | right; left; reflexivity | right; right; reflexivity ].
Qed.

Lemma queries_write_nothing : forall m, In m query_methods -> writes_of m = [].
Proof.
  intros m H. unfold query_methods in H.
  in_cases H; subst m; vm_compute; reflexivity.
Qed.

Lemma reference_assigned_with_working : forall m, In m domain_methods ->
  writes m FX = writes m FRX /\ writes m FY = writes m FRY /\ (writes m FX || writes m FY = true).
Proof.
  intros m H. unfold domain_methods in H.
  in_cases H; subst m; vm_compute; repeat split; reflexivity.
Qed.

Lemma reshaping_never_assigns_reference : forall m, In m reshaping_methods ->
  writes m FRX = false /\ writes m FRY = false /\ writes m FOX = false /\ writes m FOY = false.
Proof.
  intros m H. unfold reshaping_methods in H.
  in_cases H; subst m; vm_compute; repeat split; reflexivity.
Qed.
