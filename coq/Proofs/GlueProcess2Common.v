(** Shared prelude of the Process2 glue proofs (split out of the former GlueProcess2Proofs.v so that a change of one source
    function stops only the theorems about that function from compiling): computable copies of the leaves, the stepping
    tactics, list comprehensions as a top-level fixpoint, and the stand-in oracles of the concrete sanity runs. *)
From Coq Require Import Lia Bool.
From TW Require Import Model.GlueLeaves_Process2 Gen.Process2Glue.
From TW Require Import Proofs.ListLemmas Proofs.ListLemmas4 Proofs.ListLemmas7.
From TW Require Import Proofs.GlueFunLemmas.
Open Scope Qc_scope.
Open Scope string_scope.

(** ---------------- the symbolic execution ---------------- *)
Definition p2_callf_run := Eval cbv delta [p2_callf] in p2_callf.
Definition p2_methf_run := Eval cbv delta [p2_methf] in p2_methf.
Definition p2_powf_run := Eval cbv delta [p2_powf] in p2_powf.
Lemma p2_callf_run_eq : forall nm fn vs ks, p2_callf nm fn vs ks = p2_callf_run nm fn vs ks. Proof. reflexivity. Qed.
Lemma p2_methf_run_eq : forall r m vs, p2_methf r m vs = p2_methf_run r m vs. Proof. reflexivity. Qed.
Lemma p2_powf_run_eq : forall pw a b, p2_powf pw a b = p2_powf_run pw a b. Proof. reflexivity. Qed.

(** a list comprehension is a map over the items, as a top-level fixpoint *)
Section ListComp.
Variable cf : string -> list gval -> list (string * gval) -> res gval.
Variable mf : gval -> string -> list gval -> res gval.
Variable af : gval -> list gval -> res gval.
Variable pf : gval -> gval -> res gval.
Definition lc_each (en : fenv) (body : gexpr) (x : string) : list gval -> res (list gval) :=
  fix each (items : list gval) : res (list gval) :=
    match items with
    | [] => Ok []
    | item :: rest => let? v := feval cf mf af pf ((x, item) :: en) body in let? r := each rest in Ok (v :: r)
    end.
Lemma lc_each_nil : forall en body x, lc_each en body x [] = Ok []. Proof. reflexivity. Qed.
Lemma lc_each_cons : forall en body x item rest,
  lc_each en body x (item :: rest) =
  (let? v := feval cf mf af pf ((x, item) :: en) body in let? r := lc_each en body x rest in Ok (v :: r)).
Proof. reflexivity. Qed.
Lemma feval_listcomp : forall en body x it,
  feval cf mf af pf en (GListComp body x it) =
  (let? vi := feval cf mf af pf en it in
   match vals_of vi with
   | None => Raise TypeError
   | Some items => let? vs := lc_each en body x items in Ok (VTup vs)
   end).
Proof. reflexivity. Qed.
Lemma feval_call1 : forall en fn e,
  feval cf mf af pf en (GCall fn [e] []) = (let? v := feval cf mf af pf en e in fcall cf fn [v] []).
Proof.
  intros en fn e.
  change (feval cf mf af pf en (GCall fn [e] []))
    with (let? vs := (let? v := feval cf mf af pf en e in let? r := Ok [] in Ok (v :: r)) in
          let? ks := Ok [] in fcall cf fn vs ks).
  destruct (feval cf mf af pf en e); reflexivity.
Qed.
Lemma fexec1_return : forall en e,
  fexec1 cf mf af pf en (SReturn e) = match feval cf mf af pf en e with Raise x => (en, ORaise x) | Ok v => (en, OReturn v) end.
Proof. reflexivity. Qed.
End ListComp.

Ltac p2_cbn :=
  cbn -[Qcplus Qcmult Qcdiv Qcminus Qcopp Qcinv Q2Qc Qc_eqb Qc_ltb Qc_leb Qc_of_Z Qc_of_nat
        map map2 seq py_index length firstn skipn app nth nth_error removelast tl repeatq existsb
        find_lower interp_constant headq lastq nthq sumq meanq nanmean to_2d_array
        py_slice slice_val GlueFun.py_slice_step1 take_stride clampZ norm_bound range_list set_nth zip2 lc_each
        mask_take mask_store mask_fill count_true take_checked column rows_of row_val linspace2d transpose all_some concat
        np_random_normal
        Z.of_nat Z.to_nat Z.add Z.sub Z.mul Z.ltb Z.leb Z.eqb Z.max Z.min Nat.eqb
        fexec fexec_k floop process2_functions utils2_functions
        fbinop fcall store index_val fslice_val array_methf p2_callf p2_methf p2_powf].

Ltac p2_step :=
  match goal with
  | |- context [p2_callf ?nm ?fn ?vs ?ks] => rewrite (p2_callf_run_eq nm fn vs ks)
  | |- context [p2_methf ?r ?m ?vs] => rewrite (p2_methf_run_eq r m vs)
  | |- context [p2_powf ?pw ?a ?b] => rewrite (p2_powf_run_eq pw a b)
  | _ => pf_step
  end.
Ltac p2_run := repeat (p2_cbn; p2_step); p2_cbn.

Ltac p2_call tbl :=
  match goal with |- context [call_fun ?cf ?mf ?af ?pf tbl ?f ?a] =>
    let r := eval vm_compute in (assoc f tbl) in
    match r with Some (?fm, ?b) =>
      rewrite (call_fun_unfold cf mf af pf tbl f a fm b) by (vm_compute; reflexivity)
    end
  end.

Definition body_of (tbl : fun_table) (f : string) : list gstmt :=
  match assoc f tbl with Some (_, b) => b | None => [] end.



Definition res_arr_eqb (r : res (list Qc)) (l : list Qc) : bool :=
  match r with Ok l' => list_eqb Qc_eqb l' l | Raise _ => false end.
Definition res_is_raise {A} (r : res A) (e : exn) : bool := match r with Raise e' => exn_eqb e' e | Ok _ => false end.
(** stand-ins for the two oracles in the concrete runs: any functions do *)
Definition pw_ex : Qc -> Qc -> Qc := fun b e => b * b.
Definition normal_ex : Qc -> noise_scale -> nat -> list Qc :=
  fun loc sc n => map (fun i => match sc with ScaleAll s => s | ScaleEach l => nthq i l end) (seq 0 n).
Definition qzs (l : list Z) : list Qc := map qz l.

(** small facts about slices and number lists used by more than one function *)
Lemma slice1_init : forall {A} (l : list A), GlueFun.py_slice_step1 l 0 (-1) = removelast l.
Proof.
  intros A l. unfold GlueFun.py_slice_step1, norm_bound, clampZ. cbn [Z.ltb Z.compare].
  replace (Z.to_nat (Z.max 0 (Z.min 0 (Z.of_nat (length l))))) with O by lia.
  replace (Z.max 0 (Z.min (-1 + Z.of_nat (length l)) (Z.of_nat (length l))) - Z.max 0 (Z.min 0 (Z.of_nat (length l))))%Z
    with (Z.max 0 (Z.of_nat (length l) - 1)) by lia.
  cbn [skipn]. replace (Z.to_nat (Z.max 0 (Z.of_nat (length l) - 1))) with (pred (length l)) by lia.
  clear. induction l as [|a l IH]; [reflexivity|]. destruct l as [|b l]; [reflexivity|].
  change (removelast (a :: b :: l)) with (a :: removelast (b :: l)). rewrite <- IH. reflexivity.
Qed.

Lemma slice1_tail : forall (l : list Z), GlueFun.py_slice_step1 l 1 (Z.of_nat (length l)) = tl l.
Proof.
  intros l. unfold GlueFun.py_slice_step1, norm_bound, clampZ. cbn [Z.ltb Z.compare].
  destruct l as [|a l]; [reflexivity|].
  replace (Z.of_nat (length (a :: l)) <? 0)%Z with false by (symmetry; apply Z.ltb_ge; lia).
  replace (Z.to_nat (Z.max 0 (Z.min 1 (Z.of_nat (length (a :: l)))))) with 1%nat by (cbn [length]; lia).
  cbn [skipn tl]. apply firstn_all2. cbn [length]. lia.
Qed.

Lemma nums_of_nums : forall l, nums_of (map VNum l) = Some l.
Proof. induction l as [|a l IH]; [reflexivity|]. cbn [map nums_of as_num]. rewrite IH. reflexivity. Qed.

Lemma cells_of_cells : forall r, cells_of (map optQ r) = Some r.
Proof. induction r as [|[v|] r IH]; [reflexivity| |]; cbn [map cells_of optQ cell_of]; rewrite IH; reflexivity. Qed.

Lemma rows_of_rows : forall rows, rows_of (map row_val rows) = Some rows.
Proof.
  induction rows as [|r rows IH]; [reflexivity|]. cbn [map rows_of]. unfold row_val at 1. cbn [row_of].
  rewrite cells_of_cells, IH. reflexivity.
Qed.
