(** C05, adaptive window strategies: the window lists computed by
    get_adaptive_transition_points stay in range for every positive smoothing
    function, and LinearAdaptiveRFA / ExpAdaptiveRFA compute the documented
    closed forms (Model/RfaSpec.v). *)
From TW Require Import Model.RfaSpec Proofs.ListLemmas Proofs.ListLemmas2 Proofs.ListLemmas4
  Proofs.HelpersProofs Proofs.RfaGridProofs Proofs.ListLemmas8 Proofs.RfaLinkCore.
Open Scope Qc_scope.

(** ---------- one pair of adaptive windows ---------- *)

Lemma half_window_range : forall a, (0 <= a)%Z -> (0 <= half_window a <= a)%Z.
Proof.
  intros a Ha. unfold half_window. rewrite Z.quot_div_nonneg by lia.
  Z.div_mod_to_equations. lia.
Qed.

Lemma clip_sum : forall v1 v2 qa : Qc, 0 < v1 -> 0 < v2 -> v1 + v2 = qa -> 1 + 1 <= qa ->
  0 <= Qc_min (Qc_max v1 1) qa /\ 0 <= Qc_min (Qc_max v2 1) qa /\
  Qc_min (Qc_max v1 1) qa + Qc_min (Qc_max v2 1) qa < qa + 1.
Proof.
  intros v1 v2 qa H1 H2 H12 Hqa. unfold Qc_min, Qc_max.
  qc_case (Qc_leb v1 1); qc_case (Qc_leb v2 1);
  repeat match goal with |- context [Qc_leb ?a ?b] => qc_case (Qc_leb a b) end;
  repeat split; qclra.
Qed.

Lemma adaptive_pair_range : forall gpow a nom denom, GpowPos gpow -> (2 <= a)%Z ->
  0 <= nom -> 0 <= denom ->
  let p := adaptive_pair gpow a nom denom in
  (0 <= fst p)%Z /\ (0 <= snd p)%Z /\ (fst p + snd p <= a)%Z.
Proof.
  intros gpow a nom denom Hg Ha Hnom Hden. cbv zeta. unfold adaptive_pair.
  pose proof (half_window_range a ltac:(lia)) as Hh.
  qc_case (Qc_eqb nom 0); qc_case (Qc_eqb denom 0); cbn [andb fst snd]; try lia.
  set (gamma := gpow (nom / denom)).
  assert (Hgam : 0 < gamma).
  { apply Hg. apply Qc_div_pos; qclra. }
  set (qa := Qc_of_Z a).
  assert (Hqa : 1 + 1 <= qa).
  { subst qa. replace (1 + 1) with (Qc_of_Z 2) by (apply Qc_is_canon; reflexivity). apply (proj1 (qz_le 2 a)). exact Ha. }
  set (v1 := gamma * qa / (1 + gamma)). set (v2 := qa / (1 + gamma)).
  assert (H1g : 0 < 1 + gamma) by qclra.
  assert (Hv1 : 0 < v1) by (apply Qc_div_pos; [|exact H1g]; qcnra).
  assert (Hv2 : 0 < v2) by (apply Qc_div_pos; [|exact H1g]; qclra).
  assert (H12 : v1 + v2 = qa).
  { subst v1 v2. field. change (1 + gamma <> 0). intro E. clear - E Hgam. qclra. }
  destruct (clip_sum v1 v2 qa Hv1 Hv2 H12 Hqa) as (Hc1 & Hc2 & Hsum).
  unfold clip_trunc. fold qa.
  set (c1 := Qc_min (Qc_max v1 1) qa) in *. set (c2 := Qc_min (Qc_max v2 1) qa) in *.
  pose proof (trunc_le c1 Hc1) as Ht1. pose proof (trunc_le c2 Hc2) as Ht2.
  split; [now apply trunc_nonneg|]. split; [now apply trunc_nonneg|].
  assert (Hlt : Qc_of_Z (Qc_trunc c1 + Qc_trunc c2) < Qc_of_Z (a + 1)).
  { rewrite !qz_add, qz_1. fold qa. qclra. }
  apply qz_lt in Hlt. lia.
Qed.

(** ---------- the window lists ---------- *)

Lemma nthZ_windows : forall (f : Z -> Z) (Mz K : Z), (1 <= Mz)%Z -> (0 <= K <= Mz)%Z ->
  nthZ (1%Z :: map f (zrange 1 Mz) ++ [1%Z]) K
  = if (K =? 0)%Z then 1%Z else if (K =? Mz)%Z then 1%Z else f K.
Proof.
  intros f Mz K HM HK. unfold nthZ.
  destruct (Z.eqb_spec K 0) as [->|H0]; [reflexivity|].
  replace (Z.to_nat K) with (S (Z.to_nat (K - 1))) by lia. cbn [nth].
  assert (Hlen : length (map f (zrange 1 Mz)) = Z.to_nat (Mz - 1)) by (now rewrite map_length, zrange_length).
  destruct (Z.eqb_spec K Mz) as [->|H1].
  - rewrite app_nth2 by lia. rewrite Hlen, Nat.sub_diag. reflexivity.
  - rewrite app_nth1 by lia. rewrite (nth_map_in f _ _ _ 0%Z) by (rewrite zrange_length; lia).
    rewrite zrange_nth by lia. f_equal. lia.
Qed.

Theorem windows_in_range : forall gpow x y n a, GpowPos gpow -> (2 <= n)%nat -> (2 <= length x)%nat -> length x = length y ->
  (2 <= a)%Z -> (a <= Z.of_nat n)%Z ->
  let w := adaptive_windows gpow (prepare x y n) a in
  adaptive_ok n (length x) (fst w) (snd w) /\
  forall K, (0 <= K <= Z.of_nat (length x))%Z -> (nthZ (fst w) K + nthZ (snd w) K <= a)%Z.
Proof.
  intros gpow x y n a Hg Hn Hm Hxy Ha Han. cbv zeta.
  unfold adaptive_windows. cbv zeta. cbn [fst snd].
  rewrite (intervals_e x y n Hn Hm Hxy). rewrite !map_map.
  set (e := prepare x y n).
  set (F := fun k : Z => adaptive_pair gpow a (Qc_abs (Y e (k + 1) 0 - Y e k 0)) (Qc_abs (Y e k 0 - Y e (k - 1) 0))).
  assert (HF : forall k, (0 <= fst (F k))%Z /\ (0 <= snd (F k))%Z /\ (fst (F k) + snd (F k) <= a)%Z).
  { intros k. unfold F. apply adaptive_pair_range; [exact Hg|exact Ha|apply Qc_abs_nonneg|apply Qc_abs_nonneg]. }
  assert (Hnth : forall K, (0 <= K <= Z.of_nat (length x))%Z ->
    (0 <= nthZ (1%Z :: map (fun k => fst (F k)) (zrange 1 (Z.of_nat (length x))) ++ [1%Z]) K)%Z /\
    (0 <= nthZ (1%Z :: map (fun k => snd (F k)) (zrange 1 (Z.of_nat (length x))) ++ [1%Z]) K)%Z /\
    (nthZ (1%Z :: map (fun k => fst (F k)) (zrange 1 (Z.of_nat (length x))) ++ [1%Z]) K
     + nthZ (1%Z :: map (fun k => snd (F k)) (zrange 1 (Z.of_nat (length x))) ++ [1%Z]) K <= a)%Z).
  { intros K HK. rewrite !nthZ_windows by lia.
    destruct (Z.eqb_spec K 0); [lia|]. destruct (Z.eqb_spec K (Z.of_nat (length x))); [lia|].
    apply HF. }
  split.
  - unfold adaptive_ok. cbn [length]. rewrite !app_length, !map_length, zrange_length. cbn [length].
    split; [lia|]. split; [lia|].
    intros K HK. destruct (Hnth K HK) as (H1 & H2 & H3). split; [exact H1|]. split; [exact H2|].
    eapply Z.le_trans; [exact H3|exact Han].
  - intros K HK. destruct (Hnth K HK) as (_ & _ & H3). exact H3.
Qed.

(** ---------- the adaptive strategies compute the closed forms ---------- *)

Lemma window_a_ge2 : forall n alpha a, (2 <= window_a n alpha a)%Z.
Proof. intros. unfold window_a. lia. Qed.

Theorem link_linear_adaptive : forall gpow x y n alpha a, (2 <= n)%nat -> (2 <= length x)%nat -> length x = length y -> ssorted x ->
  GpowPos gpow -> (window_a n alpha a <= Z.of_nat n)%Z ->
  let w := adaptive_windows gpow (prepare x y n) (window_a n alpha a) in
  snd (rfa_linear_adaptive gpow x y n alpha a) = cf_linear_adaptive x y n (fst w) (snd w).
Proof.
  intros gpow x y n alpha a Hn Hm Hxy Hs Hg Ha. cbv zeta.
  unfold rfa_linear_adaptive. cbv zeta. cbn [snd].
  apply linear_general; try assumption.
  apply (windows_in_range gpow x y n (window_a n alpha a)); try assumption. apply window_a_ge2.
Qed.

Theorem link_exp_adaptive : forall pw gpow x y n alpha beta a, (2 <= n)%nat -> (2 <= length x)%nat -> length x = length y -> ssorted x ->
  GpowPos gpow -> (window_a n alpha a <= Z.of_nat n)%Z -> 0 <= beta -> beta <= 1 ->
  let w := adaptive_windows gpow (prepare x y n) (window_a n alpha a) in
  snd (rfa_exp_adaptive pw gpow x y n alpha beta a) = cf_exp_adaptive pw x y n beta (fst w) (snd w).
Proof.
  intros pw gpow x y n alpha beta a Hn Hm Hxy Hs Hg Ha Hb0 Hb1. cbv zeta.
  unfold rfa_exp_adaptive. cbv zeta. cbn [snd].
  apply exp_general; try assumption.
  apply (windows_in_range gpow x y n (window_a n alpha a)); try assumption. apply window_a_ge2.
Qed.

Print Assumptions windows_in_range.
Print Assumptions link_linear_adaptive.
Print Assumptions link_exp_adaptive.
