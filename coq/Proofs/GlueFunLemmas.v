(** Generic lemmas and tactics about the function-level interpreter of Model/GlueFun.v (with the leaves of
    Model/GlueLeaves.v).  Nothing here depends on a generated file: this file imports no Gen module that is specific to a
    Python source file, so the proof files about process.py, rfa.py, the search scans, ... can share it without depending
    on each other's generated tables.  (It was split off Proofs/GlueProcessProofs.v, which keeps the proofs about
    process.py; names and statements are unchanged.)

    Contents:
      - sequencing: [fexec_k], [floop] (the for loop as a fixpoint over the items), [fexec_cons], [fexec_nil],
        [fexec1_if], [fexec1_for], [floop_nil], [floop_cons1], [fexec_k_normal/raise/return];
      - call-by-value evaluation: the primitives that inspect their arguments ([fbinop], [fcall], [store], [index_val],
        [fslice_val], [array_methf]) are never unfolded by the cbn tactics of the proof files; an application of one of
        them to values is switched to a convertible copy ([..._run], [..._run_eq]) that cbn does compute.  (Under a binder
        the arguments are bound variables, which an Ltac pattern cannot capture, so nothing is unfolded on a value that is
        not known yet.)  [pf_step] is one step of symbolic execution built from these lemmas only; the cbn tactic it is
        interleaved with names the functions to keep folded and therefore lives in each proof file;
      - [call_fun_unfold]: a call is the run of the body found in the table;
      - [first_for]: the body of the first for loop of a statement list;
      - facts about the leaves: a[0], a[-1], a[k], a[i:j], a[k] = v, a[i:j] = w on naturals ([py_index_*],
        [slice_clamp], [py_slice_nonneg], [py_slice_nat], [store_idx_nat], [store_slice_nat], [set_nth_len]), range(...)
        ([range_items], [range1_items]), and the tactic [pf_leaf]. *)
From Coq Require Import Lia Bool.
From TW Require Import Model.GlueLeaves.
From TW Require Import Proofs.ListLemmas Proofs.ListLemmas4 Proofs.ListLemmas7.
Open Scope Qc_scope.
Open Scope string_scope.

(** ---------------- sequencing ---------------- *)
Definition fexec_k (r : fenv * outcome) (k : fenv -> fenv * outcome) : fenv * outcome :=
  match snd r with ONormal => k (fst r) | _ => r end.

Section Loop.
Variable cf : string -> list gval -> list (string * gval) -> res gval.
Variable mf : gval -> string -> list gval -> res gval.
Variable af : gval -> list gval -> res gval.
Variable pf : gval -> gval -> res gval.
Variable vars : list string.
Variable body : list gstmt.
Fixpoint floop (items : list gval) (en : fenv) {struct items} : fenv * outcome :=
  match items with
  | [] => (en, ONormal)
  | item :: rest =>
      let bound := match vars with
                   | [x] => Some ((x, item) :: en)
                   | _ => match item with VTup vs => bind_vars vars vs en | _ => None end
                   end in
      match bound with
      | None => (en, ORaise ValueError)
      | Some en' => let r := fexec cf mf af pf en' body in match snd r with ONormal => floop rest (fst r) | _ => r end
      end
  end.
End Loop.

Lemma fexec_cons : forall cf mf af pf en st l,
  fexec cf mf af pf en (st :: l) = fexec_k (fexec1 cf mf af pf en st) (fun en' => fexec cf mf af pf en' l).
Proof. reflexivity. Qed.
Lemma fexec_nil : forall cf mf af pf en, fexec cf mf af pf en [] = (en, ONormal).
Proof. reflexivity. Qed.
Lemma fexec1_if : forall cf mf af pf en c th el,
  fexec1 cf mf af pf en (SIf c th el) =
  match feval cf mf af pf en c with
  | Raise x => (en, ORaise x)
  | Ok (VBoolV true) => fexec cf mf af pf en th
  | Ok (VBoolV false) => fexec cf mf af pf en el
  | Ok _ => (en, ORaise TypeError)
  end.
Proof. reflexivity. Qed.
Lemma fexec1_for : forall cf mf af pf en vars it body,
  fexec1 cf mf af pf en (SFor vars it body) =
  match feval cf mf af pf en it with
  | Raise x => (en, ORaise x)
  | Ok v => match vals_of v with
            | None => (en, ORaise TypeError)
            | Some items => floop cf mf af pf vars body items en
            end
  end.
Proof. reflexivity. Qed.
Lemma floop_nil : forall cf mf af pf vars body en, floop cf mf af pf vars body [] en = (en, ONormal).
Proof. reflexivity. Qed.
Lemma floop_cons1 : forall cf mf af pf x body item rest en,
  floop cf mf af pf [x] body (item :: rest) en =
  fexec_k (fexec cf mf af pf ((x, item) :: en) body) (fun en' => floop cf mf af pf [x] body rest en').
Proof. reflexivity. Qed.

Lemma fexec_k_normal : forall en k, fexec_k (en, ONormal) k = k en.
Proof. reflexivity. Qed.
Lemma fexec_k_raise : forall en e k, fexec_k (en, ORaise e) k = (en, ORaise e).
Proof. reflexivity. Qed.
Lemma fexec_k_return : forall en v k, fexec_k (en, OReturn v) k = (en, OReturn v).
Proof. reflexivity. Qed.

(** strict primitives: run only once their arguments are values *)
Definition fbinop_run := Eval cbv delta [fbinop] in fbinop.
Definition fcall_run := Eval cbv delta [fcall] in fcall.
Definition store_run := Eval cbv delta [store] in store.
Definition index_val_run := Eval cbv delta [index_val] in index_val.
Definition fslice_val_run := Eval cbv delta [fslice_val] in fslice_val.
Definition array_methf_run := Eval cbv delta [array_methf] in array_methf.
Lemma fbinop_run_eq : forall pf op a b, fbinop pf op a b = fbinop_run pf op a b. Proof. reflexivity. Qed.
Lemma fcall_run_eq : forall cf fn vs ks, fcall cf fn vs ks = fcall_run cf fn vs ks. Proof. reflexivity. Qed.
Lemma store_run_eq : forall en lc v, store en lc v = store_run en lc v. Proof. reflexivity. Qed.
Lemma index_val_run_eq : forall a i, index_val a i = index_val_run a i. Proof. reflexivity. Qed.
Lemma fslice_val_run_eq : forall a lo hi st, fslice_val a lo hi st = fslice_val_run a lo hi st. Proof. reflexivity. Qed.
Lemma array_methf_run_eq : forall r m vs, array_methf r m vs = array_methf_run r m vs. Proof. reflexivity. Qed.

Lemma call_fun_unfold : forall cf mf af pf tbl f actuals formals body,
  assoc f tbl = Some (formals, body) ->
  call_fun cf mf af pf tbl f actuals =
  match fbind_params formals actuals with
  | Raise e => ORaise e
  | Ok en => snd (fexec cf mf af pf en body)
  end.
Proof. intros. unfold call_fun. rewrite H. reflexivity. Qed.

(** one step: focus on the head statement (the statement being run occurs once in the goal), drop the focus once it
    has run, use a case already split, run a strict primitive whose arguments are known *)
Ltac pf_step :=
  match goal with
  | |- context [flookup _ _] => unfold flookup
  | |- context [fexec ?cf ?mf ?af ?pf ?en (SIf ?c ?th ?el :: ?l)] =>
      rewrite (fexec_cons cf mf af pf en (SIf c th el) l), (fexec1_if cf mf af pf en c th el)
  | |- context [fexec ?cf ?mf ?af ?pf ?en (SFor ?vs ?it ?b :: ?l)] =>
      rewrite (fexec_cons cf mf af pf en (SFor vs it b) l), (fexec1_for cf mf af pf en vs it b)
  | |- context [fexec ?cf ?mf ?af ?pf ?en (?st :: ?l)] => rewrite (fexec_cons cf mf af pf en st l)
  | |- context [fexec ?cf ?mf ?af ?pf ?en []] => rewrite (fexec_nil cf mf af pf en)
  | |- context [fexec_k (?en, ONormal) ?k] => rewrite (fexec_k_normal en k)
  | |- context [fexec_k (?en, ORaise ?e) ?k] => rewrite (fexec_k_raise en e k)
  | |- context [fexec_k (?en, OReturn ?v) ?k] => rewrite (fexec_k_return en v k)
  | H : ?e = _ |- context [match ?e with _ => _ end] => rewrite H
  | |- context [fbinop ?pf ?op ?a ?b] => rewrite (fbinop_run_eq pf op a b)
  | |- context [fcall ?cf ?fn ?vs ?ks] => rewrite (fcall_run_eq cf fn vs ks)
  | |- context [store ?en ?lc ?v] => rewrite (store_run_eq en lc v)
  | |- context [index_val ?a ?i] => rewrite (index_val_run_eq a i)
  | |- context [fslice_val ?a ?lo ?hi ?st] => rewrite (fslice_val_run_eq a lo hi st)
  | |- context [array_methf ?r ?m ?vs] => rewrite (array_methf_run_eq r m vs)
  end.

(** the body of the (first) for loop of a statement list *)
Fixpoint first_for (l : list gstmt) : list gstmt :=
  match l with
  | SFor _ _ b :: _ => b
  | _ :: l' => first_for l'
  | [] => []
  end.


(** ---------------- facts about the leaves ---------------- *)
Lemma py_index_nil : forall {A} i, @py_index A [] i = None.
Proof.
  intros A i. unfold py_index. cbn [length Z.of_nat].
  destruct (i <? 0)%Z; destruct (Z.ltb_spec (0 + i) 0); destruct (Z.ltb_spec i 0); destruct (Z.leb_spec 0 (0 + i)); destruct (Z.leb_spec 0 i); try reflexivity; lia.
Qed.
Lemma py_index_cons0 : forall {A} (a : A) l, py_index (a :: l) 0 = Some a.
Proof.
  intros A a l. unfold py_index. cbn [length Z.ltb Z.compare].
  replace (Z.of_nat (S (length l)) <=? 0)%Z with false by (symmetry; apply Z.leb_gt; lia). reflexivity.
Qed.
Lemma py_index_head : forall l : list Qc, l <> [] -> py_index l 0 = Some (headq l).
Proof. intros [|a l] H; [congruence|]. apply py_index_cons0. Qed.
Lemma py_index_last : forall l : list Qc, l <> [] -> py_index l (-1) = Some (lastq l).
Proof.
  intros l H. unfold py_index. cbn [Z.ltb Z.compare].
  destruct (exists_last H) as [l' [a ->]]. unfold lastq. rewrite last_last.
  rewrite app_length. cbn [length].
  replace (Z.of_nat (length l' + 1) + -1)%Z with (Z.of_nat (length l')) by lia.
  replace (Z.of_nat (length l') <? 0)%Z with false by (symmetry; apply Z.ltb_ge; lia).
  replace (Z.of_nat (length l' + 1) <=? Z.of_nat (length l'))%Z with false by (symmetry; apply Z.leb_gt; lia).
  cbn [orb]. rewrite Nat2Z.id. rewrite nth_error_app2 by lia. rewrite Nat.sub_diag. reflexivity.
Qed.

(** slices *)
Lemma slice_clamp : forall (l : list Qc) a b,
  slice l (Nat.min a (length l)) (Nat.min b (length l)) = slice l a b.
Proof.
  intros l a b. unfold slice.
  destruct (Nat.le_gt_cases (length l) a) as [Ha|Ha].
  - rewrite (Nat.min_r a) by lia. rewrite !skipn_all2 by lia. now rewrite !firstn_nil.
  - rewrite (Nat.min_l a) by lia.
    destruct (Nat.le_gt_cases (length l) b) as [Hb|Hb].
    + rewrite (Nat.min_r b) by lia. rewrite !firstn_all2; [reflexivity| |]; rewrite skipn_length; lia.
    + rewrite (Nat.min_l b) by lia. reflexivity.
Qed.
Lemma py_slice_nonneg : forall l a b, (0 <= a)%Z -> (0 <= b)%Z ->
  py_slice l a b 1 = Ok (slice l (Z.to_nat a) (Z.to_nat b)).
Proof.
  intros l a b Ha Hb. rewrite ListLemmas7.py_slice_step1. rewrite <- (slice_clamp l (Z.to_nat a) (Z.to_nat b)).
  unfold sl_pos, clampZ.
  destruct (Z.ltb_spec a 0) as [H|_]; [lia|]. destruct (Z.ltb_spec b 0) as [H|_]; [lia|].
  do 2 f_equal; lia.
Qed.

Lemma Z_1_le_0 : (1 <=? 0)%Z = false. Proof. reflexivity. Qed.
(** a[0], a[-1] on a non-empty array (the hypothesis is looked up in the context) *)
Ltac pf_leaf :=
  match goal with
  | |- context [@py_index ?A [] ?i] => rewrite (@py_index_nil A i)
  | |- context [py_index (?a :: ?l) 0%Z] => rewrite (py_index_cons0 a l)
  | |- context [py_index ?l 0%Z] => rewrite (py_index_head l) by assumption
  | |- context [py_index ?l (-1)%Z] => rewrite (py_index_last l) by assumption
  | |- context [(1 <=? 0)%Z] => rewrite Z_1_le_0
  end.

(** a[k], a[k] = q for a natural k in range *)
Lemma py_index_nat : forall (l : list Qc) k, (k < length l)%nat -> py_index l (Z.of_nat k) = Some (nthq k l).
Proof.
  intros l k H. unfold py_index. cbv zeta.
  assert (E : (Z.of_nat k <? 0)%Z = false) by (apply Z.ltb_ge; lia). rewrite E. cbv iota. rewrite E.
  replace (Z.of_nat (length l) <=? Z.of_nat k)%Z with false by (symmetry; apply Z.leb_gt; lia).
  cbn [orb]. rewrite Nat2Z.id. unfold nthq. apply nth_error_nth'. exact H.
Qed.
Lemma store_idx_nat : forall en x l k q, assoc x en = Some (VArr l) -> (k < length l)%nat ->
  store en (LocIdx x (Z.of_nat k)) (VNum q) = Ok ((x, VArr (set_nth l k q)) :: en).
Proof.
  intros en x l k q Hx Hk. unfold store, flookup. rewrite Hx. cbn [bind as_num].
  cbv zeta.
  assert (E : (Z.of_nat k <? 0)%Z = false) by (apply Z.ltb_ge; lia). rewrite E. cbv iota. rewrite E.
  replace (Z.of_nat (length l) <=? Z.of_nat k)%Z with false by (symmetry; apply Z.leb_gt; lia).
  cbn [orb]. rewrite Nat2Z.id. reflexivity.
Qed.
Lemma set_nth_len : forall l k v, length (set_nth l k v) = length l.
Proof.
  induction l as [|a l IH]; intros k v; [reflexivity|].
  destruct k as [|k]; cbn [set_nth length]; [reflexivity|]. now rewrite IH.
Qed.

(** range(n), range(1, r) *)
Lemma range_items : forall n, map VInt (range_list 0 (Z.of_nat n)) = map (fun k => VInt (Z.of_nat k)) (seq 0 n).
Proof.
  intros n. unfold range_list. rewrite map_map, Z.sub_0_r, Nat2Z.id. reflexivity.
Qed.
Lemma range1_items : forall r, map VInt (range_list 1 r) = map (fun i => VInt (Z.of_nat i)) (seq 1 (Z.to_nat r - 1)).
Proof.
  intros r. unfold range_list. replace (Z.to_nat (r - 1)) with (Z.to_nat r - 1)%nat by lia.
  rewrite <- seq_shift, !map_map. apply map_ext. intros k. f_equal. lia.
Qed.

(** indices of the form Z.of_nat k *)
Lemma Zof_mul : forall a b, (Z.of_nat a * Z.of_nat b)%Z = Z.of_nat (a * b). Proof. intros; lia. Qed.
Lemma Zof_add1 : forall a, (Z.of_nat a + 1)%Z = Z.of_nat (a + 1). Proof. intros; lia. Qed.
Lemma Zof_sub1 : forall a, (1 <= a)%nat -> (Z.of_nat a - 1)%Z = Z.of_nat (a - 1). Proof. intros; lia. Qed.
Lemma Zof_sub2 : forall a, (2 <= a)%nat -> (Z.of_nat a - 2)%Z = Z.of_nat (a - 2). Proof. intros; lia. Qed.

Lemma headq_nthq0 : forall l, headq l = nthq 0 l.
Proof. intros [|a l]; reflexivity. Qed.

(** a[i:j], a[i:j] = w for naturals i <= j <= len a *)
Lemma py_slice_nat : forall l a b, py_slice l (Z.of_nat a) (Z.of_nat b) 1 = Ok (slice l a b).
Proof. intros l a b. rewrite py_slice_nonneg by lia. now rewrite !Nat2Z.id. Qed.

Close Scope string_scope.
Lemma store_slice_nat : forall en x l a b w, assoc x en = Some (VArr l) ->
  (a <= b)%nat -> (b <= length l)%nat -> length w = (b - a)%nat ->
  store en (LocSlice x (Z.of_nat a) (Z.of_nat b)) (VArr w) = Ok ((x, VArr (firstn a l ++ w ++ skipn b l)) :: en).
Proof.
  intros en x l a b w Hx Hab Hb Hw. unfold store, flookup. rewrite Hx. cbn [bind]. cbv zeta.
  assert (Na : norm_bound (Z.of_nat (length l)) (Z.of_nat a) = Z.of_nat a).
  { unfold norm_bound, clampZ. destruct (Z.ltb_spec (Z.of_nat a) 0); lia. }
  assert (Nb : norm_bound (Z.of_nat (length l)) (Z.of_nat b) = Z.of_nat b).
  { unfold norm_bound, clampZ. destruct (Z.ltb_spec (Z.of_nat b) 0); lia. }
  rewrite Na, Nb.
  replace (Z.of_nat (length w) =? Z.max 0 (Z.of_nat b - Z.of_nat a))%Z with true by (symmetry; apply Z.eqb_eq; lia).
  replace (Z.max (Z.of_nat a) (Z.of_nat b)) with (Z.of_nat b) by lia. rewrite !Nat2Z.id. reflexivity.
Qed.
Open Scope string_scope.


(** ---------------- more facts about the leaves: a[:-1], a[1:], a[-k], np.diff ---------------- *)
Lemma slice_full_firstn : forall (l : list Qc) n, slice l 0 n = firstn n l.
Proof. intros l n. unfold slice. rewrite Nat.sub_0_r. reflexivity. Qed.

(** a[:-1] *)
Lemma slice_val_init : forall l, slice_val (VArr l) VNoneV (VInt (-1)) VNoneV = Ok (VArr (removelast l)).
Proof.
  intros l. unfold slice_val. cbn [Z.leb Z.compare andb is_none orb bind].
  rewrite py_slice_step1. cbn [bind]. do 2 f_equal.
  unfold sl_pos, clampZ. cbn [Z.ltb Z.compare].
  replace (Z.to_nat (Z.max 0 (Z.min 0 (Z.of_nat (length l))))) with O by lia.
  replace (Z.to_nat (Z.max 0 (Z.min (-1 + Z.of_nat (length l)) (Z.of_nat (length l))))) with (pred (length l)) by lia.
  rewrite slice_full_firstn. symmetry. apply removelast_firstn_len.
Qed.

(** a[1:] *)
Lemma slice_val_tail : forall l, slice_val (VArr l) (VInt 1) VNoneV VNoneV = Ok (VArr (tl l)).
Proof.
  intros l. unfold slice_val. cbn [Z.leb Z.compare andb is_none orb bind].
  rewrite py_slice_step1. cbn [bind]. do 2 f_equal.
  unfold sl_pos, clampZ. cbn [Z.ltb Z.compare].
  destruct l as [|a l]; [reflexivity|].
  replace (Z.of_nat (length (a :: l)) <? 0)%Z with false by (symmetry; apply Z.ltb_ge; lia).
  replace (Z.to_nat (Z.max 0 (Z.min 1 (Z.of_nat (length (a :: l)))))) with 1%nat by (cbn [length]; lia).
  replace (Z.to_nat (Z.max 0 (Z.min (Z.of_nat (length (a :: l))) (Z.of_nat (length (a :: l)))))) with (S (length l))
    by (cbn [length]; lia).
  unfold slice. cbn [skipn tl]. replace (S (length l) - 1)%nat with (length l) by lia. apply firstn_all.
Qed.

Lemma removelast_length : forall (l : list Qc), length (removelast l) = (length l - 1)%nat.
Proof. intros l. rewrite removelast_firstn_len, firstn_length. lia. Qed.
Lemma tl_length : forall (l : list Qc), length (tl l) = (length l - 1)%nat.
Proof. intros [|a l]; cbn [tl length]; lia. Qed.
Lemma diffs_length : forall l, length (diffs l) = (length l - 1)%nat.
Proof.
  induction l as [|a l IH]; [reflexivity|]. destruct l as [|b l]; [reflexivity|].
  change (diffs (a :: b :: l)) with ((b - a) :: diffs (b :: l)). cbn [length] in *. rewrite IH. lia.
Qed.

(** a[-k], 1 <= k <= len(a) *)
Lemma py_index_from_end : forall (l : list Qc) k, (1 <= k <= length l)%nat ->
  py_index l (- Z.of_nat k) = Some (nthq (length l - k) l).
Proof.
  intros l k Hk. unfold py_index.
  replace (- Z.of_nat k <? 0)%Z with true by (symmetry; apply Z.ltb_lt; lia).
  replace (Z.of_nat (length l) + - Z.of_nat k <? 0)%Z with false by (symmetry; apply Z.ltb_ge; lia).
  replace (Z.of_nat (length l) <=? Z.of_nat (length l) + - Z.of_nat k)%Z with false by (symmetry; apply Z.leb_gt; lia).
  cbn [orb]. replace (Z.to_nat (Z.of_nat (length l) + - Z.of_nat k)) with (length l - k)%nat by lia.
  unfold nthq. apply nth_error_nth'. lia.
Qed.
Lemma py_index_m1 : forall (l : list Qc), (1 <= length l)%nat -> py_index l (-1) = Some (nthq (length l - 1) l).
Proof. intros l H. apply (py_index_from_end l 1). lia. Qed.
Lemma py_index_m2 : forall (l : list Qc), (2 <= length l)%nat -> py_index l (-2) = Some (nthq (length l - 2) l).
Proof. intros l H. apply (py_index_from_end l 2). lia. Qed.
Lemma py_index_0 : forall (l : list Qc), (1 <= length l)%nat -> py_index l 0 = Some (headq l).
Proof.
  intros [|a l] H; cbn [length] in H; [lia|]. unfold py_index. cbn [Z.ltb Z.compare].
  replace (Z.of_nat (length (a :: l)) <=? 0)%Z with false by (symmetry; apply Z.leb_gt; cbn [length]; lia). reflexivity.
Qed.
