(** Proofs about Model/Process.v used by Properties/C12.v (repeat) and
    Properties/C14.v (trend, normalize). *)
From TW Require Import Model.Process Proofs.ListLemmas Proofs.ListLemmas2.
Open Scope Qc_scope.

(** ====================================================================== *)
(** * repeat                                                               *)
(** ====================================================================== *)

Definition period (x : list Qc) : Qc :=
  (lastq x - headq x) + (lastq x - nthq (length x - 2) x).

(** ---------- tile ---------- *)

Lemma tile_length : forall l r, length (tile l r) = (r * length l)%nat.
Proof.
  intros l r. induction r as [|r IH]; [reflexivity|].
  cbn [tile Nat.mul]. rewrite app_length, IH. reflexivity.
Qed.

Lemma nthq_tile : forall l r b j, (b < r)%nat -> (j < length l)%nat ->
  nthq (b * length l + j) (tile l r) = nthq j l.
Proof.
  intros l r. induction r as [|r IH]; intros b j Hb Hj; [lia|].
  cbn [tile]. destruct b as [|b].
  - cbn [Nat.mul Nat.add]. now apply nthq_app_l.
  - cbn [Nat.mul]. rewrite <- Nat.add_assoc. rewrite nthq_app_r. apply IH; lia.
Qed.

Lemma tile_app : forall l a b, tile l (a + b) = tile l a ++ tile l b.
Proof.
  intros l a b. induction a as [|a IH]; [reflexivity|].
  cbn [Nat.add tile]. rewrite IH. apply app_assoc.
Qed.

Lemma tile_tile : forall l a b, tile (tile l a) b = tile l (a * b).
Proof.
  intros l a b. induction b as [|b IH].
  - rewrite Nat.mul_0_r. reflexivity.
  - cbn [tile]. rewrite IH. rewrite Nat.mul_succ_r, (Nat.add_comm (a * b) a). symmetry. apply tile_app.
Qed.

(** ---------- loop invariant ---------- *)

(* after processing blocks 1..i: block b <= i is shifted by b*P, later blocks are untouched *)
Definition rep_inv (x : list Qc) (r i : nat) (l : list Qc) : Prop :=
  length l = (r * length x)%nat /\
  forall b j, (b < r)%nat -> (j < length x)%nat ->
    nthq (b * length x + j) l =
    nthq j x + (if (b <=? i)%nat then Qc_of_nat b else 0) * period x.

Lemma rep_inv_init : forall x r, rep_inv x r 0 (tile x r).
Proof.
  intros x r. split; [apply tile_length|].
  intros b j Hb Hj. rewrite nthq_tile by assumption.
  destruct (Nat.leb_spec b 0) as [H|H].
  - replace b with 0%nat by lia. rewrite Qc_of_nat_0. ring.
  - ring.
Qed.

Lemma period_alt : forall x, (2 <= length x)%nat ->
  period x = (nthq (length x - 1) x - nthq 0 x) + (nthq (length x - 1) x - nthq (length x - 2) x).
Proof.
  intros x Hn. unfold period. rewrite headq_nthq. rewrite lastq_nthq; [reflexivity|].
  apply length_pos_not_nil. lia.
Qed.

Lemma rep_inv_step : forall x r i l, (2 <= length x)%nat -> (S i < r)%nat ->
  rep_inv x r i l -> rep_inv x r (S i) (repeat_step (length x) l (S i)).
Proof.
  intros x r i l Hn Hi [Hlen Hnth].
  set (n := length x) in *.
  assert (Hab : (n * S i <= n * (S i + 1))%nat) by lia.
  assert (Hbl : (n * (S i + 1) <= length l)%nat).
  { rewrite Hlen, (Nat.mul_comm r n). apply Nat.mul_le_mono_l. lia. }
  (* the shift read from the already processed prefix *)
  assert (Hprd : nthq (n * S i - 1) l - nthq 0 l + (nthq (n * S i - 1) l - nthq (n * S i - 2) l)
                 = Qc_of_nat (S i) * period x).
  { replace (n * S i - 1)%nat with (i * n + (n - 1))%nat by lia.
    replace (n * S i - 2)%nat with (i * n + (n - 2))%nat by lia.
    change (nthq 0 l) with (nthq (0 * n + 0) l).
    rewrite !Hnth by lia. rewrite Nat.leb_refl. cbn [Nat.leb].
    rewrite Qc_of_nat_0, Qc_of_nat_S. rewrite (period_alt x Hn). fold n. ring. }
  unfold repeat_step. rewrite Hprd. split.
  - rewrite map_range_length by assumption. exact Hlen.
  - intros b j Hb Hj.
    destruct (lt_eq_lt_dec b (S i)) as [[Hlt|Heq]|Hgt].
    + rewrite nthq_map_range_lt by (try assumption; nia).
      rewrite Hnth by assumption.
      destruct (Nat.leb_spec b i); [|lia]. destruct (Nat.leb_spec b (S i)); [|lia]. reflexivity.
    + subst b. rewrite nthq_map_range_in by (try assumption; nia).
      rewrite Hnth by assumption.
      destruct (Nat.leb_spec (S i) i); [lia|]. rewrite Nat.leb_refl. ring.
    + rewrite nthq_map_range_ge by (try assumption; nia).
      rewrite Hnth by assumption.
      destruct (Nat.leb_spec b i); [lia|]. destruct (Nat.leb_spec b (S i)); [lia|]. reflexivity.
Qed.

Lemma rep_inv_fold : forall x r k i l, (2 <= length x)%nat -> (i + k <= r - 1)%nat ->
  rep_inv x r i l ->
  rep_inv x r (i + k) (fold_left (repeat_step (length x)) (seq (S i) k) l).
Proof.
  intros x r k. induction k as [|k IH]; intros i l Hn Hik Hinv.
  - rewrite Nat.add_0_r. exact Hinv.
  - cbn [seq fold_left]. replace (i + S k)%nat with (S i + k)%nat by lia.
    apply IH; [exact Hn|lia|]. apply rep_inv_step; [exact Hn|lia|exact Hinv].
Qed.

Lemma repeat_inv_final : forall x y r, (2 <= length x)%nat ->
  rep_inv x r (r - 1) (fst (repeat_series x y r)).
Proof.
  intros x y r Hn. unfold repeat_series. cbn [fst].
  change (r - 1)%nat with (0 + (r - 1))%nat at 1.
  apply rep_inv_fold; [exact Hn|lia|apply rep_inv_init].
Qed.

Lemma repeat_fst_length : forall x y r, (2 <= length x)%nat ->
  length (fst (repeat_series x y r)) = (r * length x)%nat.
Proof. intros x y r Hn. exact (proj1 (repeat_inv_final x y r Hn)). Qed.

Lemma repeat_nth : forall x y r b j, (2 <= length x)%nat -> (b < r)%nat -> (j < length x)%nat ->
  nthq (b * length x + j) (fst (repeat_series x y r)) = nthq j x + Qc_of_nat b * period x.
Proof.
  intros x y r b j Hn Hb Hj.
  rewrite (proj2 (repeat_inv_final x y r Hn)) by assumption.
  destruct (Nat.leb_spec b (r - 1)); [reflexivity|lia].
Qed.

(** ---------- requested statements (C12) ---------- *)

Lemma repeat_closed_form : forall x y r, (2 <= length x)%nat -> length x = length y ->
  let out := repeat_series x y r in
  length (fst out) = (r * length x)%nat /\ length (snd out) = (r * length x)%nat /\
  snd out = tile y r /\
  forall i j, (i < r)%nat -> (j < length x)%nat ->
    nthq (i * length x + j) (fst out) = nthq j x + Qc_of_nat i * period x.
Proof.
  intros x y r Hn Hxy out. subst out. split; [now apply repeat_fst_length|].
  split; [unfold repeat_series; cbn [snd]; rewrite tile_length; congruence|].
  split; [reflexivity|].
  intros i j Hi Hj. now apply repeat_nth.
Qed.

Lemma repeat_sorted : forall x y r, ssorted x -> (2 <= length x)%nat ->
  ssorted (fst (repeat_series x y r)).
Proof.
  intros x y r Hs Hn. apply ssorted_nth. intros k Hk.
  rewrite repeat_fst_length in Hk by exact Hn.
  pose proof (proj1 (ssorted_nth x) Hs) as Hx.
  set (n := length x) in *.
  assert (Hk' : (k < r * n)%nat) by lia.
  destruct (block_index n r k Hk') as (b & j & Hb & Hj & ->).
  destruct (Nat.eq_dec (j + 1) n) as [Hjn|Hjn].
  - (* junction *)
    assert (Hb1 : (b + 1 < r)%nat) by nia.
    replace (b * n + j + 1)%nat with ((b + 1) * n + 0)%nat by lia.
    unfold n. rewrite !repeat_nth by (fold n; lia). fold n.
    rewrite Qc_of_nat_add, Qc_of_nat_1.
    assert (HP : nthq j x - nthq 0 x < period x).
    { rewrite (period_alt x Hn). fold n. replace (n - 1)%nat with j by lia.
      specialize (Hx (n - 2)%nat). replace (n - 2 + 1)%nat with j in Hx by lia.
      assert (Hlt : nthq (n - 2) x < nthq j x) by (apply Hx; lia).
      clear - Hlt. qclra. }
    revert HP. generalize (period x). intros P HP.
    replace ((Qc_of_nat b + 1) * P) with (Qc_of_nat b * P + P) by ring.
    revert HP. generalize (Qc_of_nat b * P). intros c HP. clear - HP. qclra.
  - (* inside a block *)
    replace (b * n + j + 1)%nat with (b * n + (j + 1))%nat by lia.
    unfold n. rewrite !repeat_nth by (fold n; lia). fold n.
    assert (Hlt : nthq j x < nthq (j + 1) x) by (apply Hx; lia).
    revert Hlt. generalize (Qc_of_nat b * period x). intros c Hlt. clear - Hlt. qclra.
Qed.

Lemma repeat_first_copy : forall x y r, (2 <= length x)%nat -> length x = length y -> (1 <= r)%nat ->
  firstn (length x) (fst (repeat_series x y r)) = x /\ firstn (length y) (snd (repeat_series x y r)) = y.
Proof.
  intros x y r Hn Hxy Hr. split.
  - assert (Hl : length (firstn (length x) (fst (repeat_series x y r))) = length x).
    { rewrite firstn_length, repeat_fst_length by exact Hn. nia. }
    apply nthq_ext; [exact Hl|]. intros i Hi. rewrite Hl in Hi.
    rewrite nthq_firstn by exact Hi.
    change i with (0 * length x + i)%nat at 1.
    rewrite repeat_nth by (try assumption; lia). rewrite Qc_of_nat_0. ring.
  - unfold repeat_series. cbn [snd]. destruct r as [|r]; [lia|].
    cbn [tile]. now apply firstn_app_exact.
Qed.

Lemma repeat_junction_step : forall x y r i, (2 <= length x)%nat -> length x = length y -> (i + 1 < r)%nat ->
  let out := fst (repeat_series x y r) in
  let N := length x in
  nthq ((i + 1) * N) out - nthq ((i + 1) * N - 1) out = lastq x - nthq (N - 2) x.
Proof.
  intros x y r i Hn Hxy Hi out N. subst out.
  replace ((i + 1) * N - 1)%nat with (i * N + (N - 1))%nat by (unfold N; lia).
  replace ((i + 1) * N)%nat with ((i + 1) * N + 0)%nat at 1 by lia.
  unfold N. rewrite !repeat_nth by (try assumption; lia).
  rewrite Qc_of_nat_add, Qc_of_nat_1. rewrite (period_alt x Hn).
  rewrite lastq_nthq by (apply length_pos_not_nil; lia). ring.
Qed.

Lemma repeat_once : forall x y, repeat_series x y 1 = (x, y).
Proof.
  intros x y. unfold repeat_series. cbn [Nat.sub seq fold_left tile].
  now rewrite !app_nil_r.
Qed.

Lemma period_repeat : forall x y a, (2 <= length x)%nat -> (1 <= a)%nat ->
  period (fst (repeat_series x y a)) = Qc_of_nat a * period x.
Proof.
  intros x y a Hn Ha. destruct a as [|a]; [lia|].
  set (X := fst (repeat_series x y (S a))).
  assert (HlX : length X = (S a * length x)%nat) by (now apply repeat_fst_length).
  assert (HX2 : (2 <= length X)%nat) by (rewrite HlX; nia).
  rewrite (period_alt X HX2). rewrite HlX.
  replace (S a * length x - 1)%nat with (a * length x + (length x - 1))%nat by lia.
  replace (S a * length x - 2)%nat with (a * length x + (length x - 2))%nat by lia.
  change (nthq 0 X) with (nthq (0 * length x + 0) X).
  unfold X. rewrite !repeat_nth by (try assumption; lia).
  rewrite Qc_of_nat_0, Qc_of_nat_S. rewrite (period_alt x Hn). ring.
Qed.

Lemma repeat_compose : forall x y a b, (2 <= length x)%nat -> length x = length y -> (1 <= a)%nat ->
  let r := repeat_series x y a in
  repeat_series (fst r) (snd r) b = repeat_series x y (a * b).
Proof.
  intros x y a b Hn Hxy Ha r. subst r.
  set (X := fst (repeat_series x y a)).
  set (Y := snd (repeat_series x y a)).
  set (n := length x) in *.
  assert (HlX : length X = (a * n)%nat) by (now apply repeat_fst_length).
  assert (HX2 : (2 <= length X)%nat) by (rewrite HlX; nia).
  apply injective_projections.
  - apply (block_ext n (a * b)).
    + rewrite repeat_fst_length by exact HX2. rewrite HlX. lia.
    + now apply repeat_fst_length.
    + intros c j Hc Hj.
      assert (Hc' : (c < b * a)%nat) by (rewrite Nat.mul_comm; exact Hc).
      destruct (block_index a b c Hc') as (i & d & Hib & Hda & ->).
      replace ((i * a + d) * n + j)%nat with (i * length X + (d * n + j))%nat at 1
        by (rewrite HlX; lia).
      assert (Hdj : (d * n + j < length X)%nat) by (rewrite HlX; nia).
      rewrite (repeat_nth X Y b i (d * n + j) HX2 Hib Hdj).
      unfold X at 1. unfold n at 1. rewrite repeat_nth by (try assumption; fold n; lia).
      unfold X. rewrite period_repeat by assumption.
      unfold n. rewrite repeat_nth by (try assumption; fold n; lia).
      rewrite Qc_of_nat_add, Qc_of_nat_mul. ring.
  - unfold Y, repeat_series. cbn [snd]. apply tile_tile.
Qed.

(** ====================================================================== *)
(** * trend                                                                *)
(** ====================================================================== *)

Lemma trend_pointwise : forall f nrm x y, length x = length y ->
  let out := trend f nrm x y in
  fst out = x /\ length (snd out) = length y /\
  forall i, (i < length x)%nat ->
    nthq i (snd out) = nthq i y + f (if nrm then nthq i x / (lastq x - headq x) else nthq i x).
Proof.
  intros f nrm x y Hxy out. subst out. unfold trend. cbn [fst snd].
  split; [reflexivity|]. split; [now apply map2_length|].
  intros i Hi. rewrite nthq_map2 by (try assumption; lia). reflexivity.
Qed.

Lemma map2_snd_id : forall (h : Qc -> Qc -> Qc) x y, length x = length y ->
  (forall u v, h u v = v) -> map2 h x y = y.
Proof.
  intros h. induction x as [|a x IH]; intros [|b y] Hl Hh; cbn [length] in Hl; try lia; [reflexivity|].
  cbn [map2]. rewrite Hh, IH; [reflexivity|lia|exact Hh].
Qed.

Lemma trend_zero : forall nrm x y, length x = length y -> trend (fun _ => 0) nrm x y = (x, y).
Proof.
  intros nrm x y Hxy. unfold trend. f_equal.
  apply map2_snd_id; [exact Hxy|]. intros u v. ring.
Qed.

Lemma map2_map2_r : forall (h1 h2 h3 : Qc -> Qc -> Qc) x y,
  (forall u v, h2 u (h1 u v) = h3 u v) -> map2 h2 x (map2 h1 x y) = map2 h3 x y.
Proof.
  intros h1 h2 h3. induction x as [|a x IH]; intros [|b y] Hh; try reflexivity.
  cbn [map2]. rewrite Hh, IH by exact Hh. reflexivity.
Qed.

Lemma trend_add : forall f g nrm x y, length x = length y ->
  let t1 := trend f nrm x y in
  trend g nrm (fst t1) (snd t1) = trend (fun v => f v + g v) nrm x y.
Proof.
  intros f g nrm x y Hxy t1. subst t1. unfold trend. cbn [fst snd]. f_equal.
  apply map2_map2_r. intros u v. ring.
Qed.

(** ====================================================================== *)
(** * normalize                                                            *)
(** ====================================================================== *)

Lemma min_max_attained : forall a, a <> [] ->
  In (minq a) a /\ In (maxq a) a /\ forall v, In v a -> minq a <= v /\ v <= maxq a.
Proof. exact minq_maxq_spec. Qed.

Lemma minq_le_maxq : forall a, a <> [] -> minq a <= maxq a.
Proof.
  intros a Ha. destruct (min_max_attained a Ha) as (Hi & _ & Hall).
  destruct (Hall _ Hi) as [_ H]. exact H.
Qed.

Lemma normalize_defined_lt : forall a, normalize_defined a = true -> minq a < maxq a.
Proof.
  intros a Hd. unfold normalize_defined in Hd. apply andb_true_iff in Hd. destruct Hd as [Hl Hne].
  apply Nat.leb_le in Hl. apply negb_true_iff in Hne. apply Qc_eqb_false in Hne.
  assert (Ha : a <> []) by (apply length_pos_not_nil; lia).
  pose proof (minq_le_maxq a Ha) as Hle.
  revert Hne Hle. generalize (minq a) (maxq a). intros mn mx Hne Hle.
  destruct (Qcle_lt_or_eq _ _ Hle) as [H|H]; [exact H|]. congruence.
Qed.

Lemma normalize_affine : forall a lo hi, normalize_defined a = true -> lo < hi ->
  exists al be, 0 < al /\ length (normalize a lo hi) = length a /\
    (forall i, (i < length a)%nat -> nthq i (normalize a lo hi) = al * nthq i a + be) /\
    al * minq a + be = lo /\ al * maxq a + be = hi.
Proof.
  intros a lo hi Hd Hlh. pose proof (normalize_defined_lt a Hd) as Hlt.
  unfold normalize. revert Hlt. generalize (minq a) (maxq a). intros mn mx Hlt.
  assert (Hd0 : mx - mn <> 0) by (intros E; clear - E Hlt; qclra).
  exists ((hi - lo) / (mx - mn)), (lo - (hi - lo) / (mx - mn) * mn).
  split; [|split; [|split; [|split]]].
  - clear - Hlt Hlh. qc2q. change (this 0) with 0%Q in *.
    apply Qmult_lt_0_compat; [lra | apply Qinv_lt_0_compat; lra].
  - apply map_length.
  - intros i Hi. rewrite nthq_map by exact Hi. field. exact Hd0.
  - field. exact Hd0.
  - field. exact Hd0.
Qed.

Lemma normalize_sorted : forall a lo hi, ssorted a -> (2 <= length a)%nat -> lo < hi ->
  normalize_defined a = true /\ ssorted (normalize a lo hi).
Proof.
  intros a lo hi Hs Hn Hlh.
  assert (Hd : normalize_defined a = true).
  { destruct a as [|a0 [|a1 t]]; cbn [length] in Hn; try lia.
    destruct Hs as [H01 _].
    destruct (min_max_attained (a0 :: a1 :: t)) as (_ & _ & Hall); [congruence|].
    destruct (Hall a0 (or_introl eq_refl)) as [Hmin _].
    destruct (Hall a1 (or_intror (or_introl eq_refl))) as [_ Hmax].
    unfold normalize_defined. cbn [length Nat.leb andb].
    apply negb_true_iff. apply Qc_eqb_false. intros E. rewrite E in Hmax.
    clear - H01 Hmin Hmax. qclra. }
  split; [exact Hd|].
  destruct (normalize_affine a lo hi Hd Hlh) as (al & be & Hal & Hlen & Hnth & _ & _).
  apply ssorted_nth. intros k Hk. rewrite Hlen in Hk.
  rewrite !Hnth by lia.
  pose proof (proj1 (ssorted_nth a) Hs k Hk) as Hlt.
  revert Hlt. generalize (nthq k a) (nthq (k + 1) a). intros u v Hlt.
  clear - Hal Hlt. qcnra.
Qed.
