(** Proofs for C08 / C09 / C20 over the state-machine model of the Weaver class
    (Model/Weaver.v, vocabulary in Model/WeaverSpec.v). *)
From TW Require Import Proofs.ListLemmas Proofs.ListLemmas2 Proofs.ListLemmas3 Proofs.ListLemmas4
  Proofs.SearchProofs Proofs.HelpersProofs Proofs.ProcessProofs Proofs.TruncInterpProofs
  Proofs.MatchProofs Proofs.RfaGridProofs Proofs.PipelineProofs Proofs.ListLemmas7.
From TW Require Import Model.WeaverSpec.
Open Scope Qc_scope.

(** reduce the field projections of the setters *)
Ltac wsimpl :=
  cbn [wx wy wox woy wrx wry set_xy set_x set_y set_rxy set_rx set_ry set_ox set_oy] in *.

(** ---------- what the helper results look like ---------- *)

Lemma append_res_exn : forall x y p e, append_res x y p = Raise e -> e = IndexError.
Proof.
  intros x y p e H. unfold append_res in H.
  destruct ((length x <? 2)%nat || (length y <? 1)%nat); congruence.
Qed.

Lemma append_res_ok : forall x y p r, append_res x y p = Ok r ->
  r = append_one_sample x y p /\ (2 <= length x)%nat /\ (1 <= length y)%nat.
Proof.
  intros x y p r H. unfold append_res in H.
  destruct (Nat.ltb_spec (length x) 2) as [H1|H1]; cbn [orb] in H; [discriminate|].
  destruct (Nat.ltb_spec (length y) 1) as [H2|H2]; [discriminate|].
  injection H as <-. repeat split; lia.
Qed.

Lemma normalize_res_value_error : forall a lo hi, normalize_res a lo hi = Raise ValueError -> a = [].
Proof.
  intros a lo hi H. unfold normalize_res in H. destruct a as [|a0 a]; [reflexivity|].
  destruct (normalize_defined (a0 :: a)); discriminate.
Qed.

Lemma normalize_res_ok : forall a lo hi r, normalize_res a lo hi = Ok r -> r = normalize a lo hi.
Proof.
  intros a lo hi r H. unfold normalize_res in H. destruct a as [|a0 a]; [discriminate|].
  destruct (normalize_defined (a0 :: a)); congruence.
Qed.

Lemma repeat_res_exn : forall x y r e, repeat_res x y r = Raise e -> (r < 0)%Z.
Proof.
  intros x y r e H. unfold repeat_res in H. destruct (Z.ltb_spec r 0); [assumption|discriminate].
Qed.

Lemma repeat_res_ok : forall x y r v, repeat_res x y r = Ok v ->
  (0 <= r)%Z /\ v = repeat_series x y (Z.to_nat r).
Proof.
  intros x y r v H. unfold repeat_res in H. destruct (Z.ltb_spec r 0); [discriminate|].
  injection H as <-. split; [assumption|reflexivity].
Qed.

Lemma truncate_ok_shape : forall x y l r lr rr v, truncate x y l r lr rr = Ok v ->
  exists a b, v = (slice x a b, slice y a b).
Proof.
  intros x y l r lr rr v H. unfold truncate in H.
  destruct (Qc_leb _ _); [discriminate|].
  destruct (first_index (find_lower x _ true)) as [li|e]; cbn [bind] in H; [|discriminate].
  destruct (first_index (find_higher x _ true)) as [ri|e]; cbn [bind] in H; [|discriminate].
  injection H as <-. eauto.
Qed.

(** ====================================================================== *)
(** C20                                                                     *)
(** ====================================================================== *)

Lemma rejected_leaves_state : forall s o s', nonempty6 s -> step s o = (s', Raise ValueError) -> s' = s.
Proof.
  intros s o s' (Hx & Hy & Hox & Hoy & Hrx & Hry) H.
  destruct o; unfold step, fail, done in H.
  - (* OAppend *)
    destruct (append_res (wx s) (wy s) periodic) as [xy|e] eqn:E1; [|congruence].
    wsimpl. destruct (append_res (wrx s) (wry s) periodic) as [r|e] eqn:E2; [discriminate|].
    apply append_res_exn in E2. congruence.
  - discriminate.
  - discriminate.
  - discriminate.
  - discriminate.
  - (* ONormX *)
    destruct (normalize_res (wx s) lo hi) as [x'|e] eqn:E1; [|congruence].
    wsimpl. destruct (normalize_res (wox s) lo hi) as [ox'|e] eqn:E2.
    + wsimpl. destruct (normalize_res (wrx s) lo hi) as [rx'|e] eqn:E3; [discriminate|].
      assert (e = ValueError) by congruence. subst e.
      apply normalize_res_value_error in E3. contradiction.
    + assert (e = ValueError) by congruence. subst e.
      apply normalize_res_value_error in E2. contradiction.
  - (* ONormY *)
    destruct (normalize_res (wy s) lo hi) as [y'|e] eqn:E1; [|congruence].
    wsimpl. destruct (normalize_res (woy s) lo hi) as [oy'|e] eqn:E2.
    + wsimpl. destruct (normalize_res (wry s) lo hi) as [ry'|e] eqn:E3; [discriminate|].
      assert (e = ValueError) by congruence. subst e.
      apply normalize_res_value_error in E3. contradiction.
    + assert (e = ValueError) by congruence. subst e.
      apply normalize_res_value_error in E2. contradiction.
  - (* ORepeat *)
    destruct (repeat_res (wx s) (wy s) r) as [xy|e] eqn:E1; [|congruence].
    wsimpl. destruct (repeat_res (wrx s) (wry s) r) as [rr|e] eqn:E2; [discriminate|].
    apply repeat_res_exn in E2. apply repeat_res_ok in E1. lia.
  - (* OTruncVal *)
    destruct (truncate (wx s) (wy s) l r lr rr) as [xy|e]; [|congruence].
    destruct (truncate (wrx s) (wry s) l r lr rr) as [r2|e]; [discriminate|congruence].
  - (* OTruncIdx *)
    destruct (start <? 0)%Z; [congruence|].
    destruct (_ <? _)%Z; [congruence|].
    destruct (py_slice (wx s) _ _ _); [|congruence].
    destruct (py_slice (wy s) _ _ _); [|congruence].
    destruct (py_slice (wrx s) _ _ _); [|congruence].
    destruct (py_slice (wry s) _ _ _); [discriminate|congruence].
  - (* ORecreate *)
    destruct (rfa pw gpow k (wx s) (wy s) n); [discriminate|congruence].
  - destruct (n <? 2)%Z; [congruence|discriminate].
  - destruct (match_ref pw (wx s) (wy s) (wrx s) (wry s) m rt rr); [discriminate|congruence].
  - destruct (interp_eval (wx s) (wy s) _ a); [discriminate|congruence].
  - destruct (_ || _); [congruence|].
    destruct (interp_eval (wx s) (wy s) g a); [discriminate|congruence].
  - congruence.
  - destruct (trend_defined normalized (wx s)); discriminate.
  - discriminate.
  - discriminate.
  - discriminate.
Qed.

Lemma reject_length_mismatch : forall x y, length x <> length y -> init (Some x) y = Raise ValueError.
Proof.
  intros x y H. unfold init. destruct (Nat.eqb_spec (length x) (length y)); [contradiction|reflexivity].
Qed.

Lemma reject_not_N_by_2 : forall ndim ncols x y, (ndim <> 2 \/ ncols <> 2)%nat ->
  from_2d ndim ncols x y = Raise ValueError.
Proof.
  intros ndim ncols x y H. unfold from_2d.
  destruct (Nat.eqb_spec ndim 2); destruct (Nat.eqb_spec ncols 2); cbn [andb]; try reflexivity.
  lia.
Qed.

Lemma reject_n_below_2 : forall s n pw gpow k ys, (n < 2)%Z ->
  step s (ORecreate n pw gpow k) = (s, Raise ValueError) /\ step s (ORecreateOracle n ys) = (s, Raise ValueError).
Proof.
  intros s n pw gpow k ys Hn. split; unfold step.
  - rewrite rfa_n_below_2 by exact Hn. reflexivity.
  - destruct (Z.ltb_spec n 2); [reflexivity|lia].
Qed.

Lemma reject_unknown_rule : forall pw x y xr yr m r,
  match_ref pw x y xr yr m UnknownRule r = Raise ValueError /\
  (forall fi ridx, resolve_fixed x xr m = Ok (fi, ridx) -> match_ref pw x y xr yr m r UnknownRule = Raise ValueError).
Proof.
  intros pw x y xr yr m r. split; [reflexivity|].
  intros fi ridx H. unfold match_ref. rewrite H. cbn [bind integral fst snd].
  destruct r; reflexivity.
Qed.

Lemma reject_unknown_strategy : forall pw x y xr yr rt rr,
  match_ref pw x y xr yr (ByStrategy UnknownStrategy) rt rr = Raise ValueError.
Proof. intros. destruct rt; reflexivity. Qed.

Lemma reject_unknown_method : forall s n g,
  step s (OInterpN n (IOwn MUnknown)) = (s, Raise ValueError) /\
  step s (OInterpGrid g (IOwn MUnknown)) = (s, Raise ValueError) /\
  step s (OInterpNone (IOwn MLinear)) = (s, Raise ValueError).
Proof.
  intros s n g. split; [reflexivity|]. split; [|reflexivity].
  unfold step. destruct (_ || _); reflexivity.
Qed.

Lemma reject_fixed_outnumber : forall x xr v i, (length x < length v)%nat -> (length x < length i)%nat ->
  resolve_fixed x xr (ByValues v) = Raise ValueError /\ resolve_fixed x xr (ByIndices i) = Raise ValueError.
Proof.
  intros x xr v i Hv Hi. unfold resolve_fixed.
  destruct (Nat.ltb_spec (length x) (length v)); [|lia].
  destruct (Nat.ltb_spec (length x) (length i)); [|lia].
  split; reflexivity.
Qed.

Lemma find_closest_ok : forall x l, x <> [] -> l <> [] -> exists r, find_closest x l = Ok r.
Proof.
  intros [|x0 x] [|l0 l] Hx Hl; try congruence.
  unfold find_closest. destruct (le_pre x0 (l0 :: l)) as [o r]. eauto.
Qed.

Lemma reject_fixed_not_in_x : forall x xr v q, ssorted x -> ssorted v -> In q v -> ~ In q x -> xr <> [] -> ssorted xr ->
  (length v <= length x)%nat -> resolve_fixed x xr (ByValues v) = Raise ValueError.
Proof.
  intros x xr v q Hsx Hsv Hq Hnq Hxr _ Hlen. unfold resolve_fixed.
  destruct (Nat.ltb_spec (length x) (length v)); [lia|].
  rewrite (unique_ssorted v Hsv).
  assert (Hv : v <> []) by (intros ->; destruct Hq).
  destruct (find_closest_ok xr v Hxr Hv) as [ci Hci].
  cbn [find_indices]. rewrite Hci. cbn [bind].
  pose proof (where_isin_short x v q Hsx Hq Hnq) as Hshort.
  destruct (Nat.eqb_spec (length (where_isin x v)) (length v)); [lia|reflexivity].
Qed.

Lemma reject_inverted_range : forall s l r, r <= l -> step s (OTruncVal l r false false) = (s, Raise ValueError).
Proof. intros s l r H. unfold step. rewrite truncate_inverted by exact H. reflexivity. Qed.

Lemma reject_inverted_ratio_range : forall s l r, r <= l -> 0 <= lastq (wx s) - headq (wx s) ->
  step s (OTruncVal l r true true) = (s, Raise ValueError).
Proof.
  intros s l r H Hspan. unfold step. rewrite truncate_ratio. cbv zeta iota.
  rewrite truncate_inverted; [reflexivity|].
  set (sp := lastq (wx s) - headq (wx s)) in *. clearbody sp. qcnra.
Qed.

Lemma reject_index_bounds : forall s start stop step_,
  ((start < 0)%Z -> step s (OTruncIdx start stop) = (s, Raise ValueError) /\ slice_by_index s start stop step_ = Raise ValueError) /\
  (forall v, stop = Some v -> (Z.of_nat (length (wx s)) < v)%Z -> (0 <= start)%Z ->
     step s (OTruncIdx start stop) = (s, Raise ValueError) /\ slice_by_index s start stop step_ = Raise ValueError).
Proof.
  intros s start stop step_. split.
  - intros Hs. unfold step, slice_by_index.
    destruct (Z.ltb_spec start 0); [|lia]. split; reflexivity.
  - intros v -> Hv Hs. unfold step, slice_by_index.
    destruct (Z.ltb_spec start 0); [lia|].
    destruct (Z.ltb_spec (Z.of_nat (length (wx s))) v); [|lia]. split; reflexivity.
Qed.

Lemma reject_slice_value_absent : forall s v stop step_, ~ In v (wx s) ->
  slice_by_value s (Some v) stop step_ = Raise ValueError /\
  (forall a, (a = None \/ exists u, a = Some u /\ In u (wx s)) -> slice_by_value s a (Some v) step_ = Raise ValueError).
Proof.
  intros s v stop step_ Hv. unfold slice_by_value. rewrite (index_of_absent v (wx s) 0 Hv).
  split; [reflexivity|].
  intros a [->|[u [-> Hu]]].
  - reflexivity.
  - destruct (index_of_present u (wx s) 0 Hu) as [k ->]. reflexivity.
Qed.

Lemma reject_grid_end_points : forall s g a, (headq g <> headq (wx s) \/ lastq g <> lastq (wx s)) ->
  step s (OInterpGrid g a) = (s, Raise ValueError).
Proof.
  intros s g a H. unfold step.
  qc_case (Qc_eqb (headq g) (headq (wx s))); [|reflexivity].
  qc_case (Qc_eqb (lastq g) (lastq (wx s))); [|reflexivity].
  destruct H; contradiction.
Qed.

(** ====================================================================== *)
(** C08                                                                     *)
(** ====================================================================== *)

Lemma inv_init : forall x y s, init x y = Ok s -> Inv s.
Proof.
  intros x y s H. unfold init in H. destruct x as [x|].
  - destruct (length x =? length y)%nat; [|discriminate]. injection H as <-. split; reflexivity.
  - injection H as <-. split; reflexivity.
Qed.

Lemma inv_step : forall s o s', Inv s -> is_domain o = true -> step s o = (s', Ok tt) ->
  Inv s' /\ pure_apply o (wx s, wy s) = Ok (wx s', wy s').
Proof.
  intros s o s' [Ix Iy] Hd H.
  destruct o; cbn [is_domain] in Hd; try discriminate; unfold step, fail, done in H;
    unfold pure_apply; cbn [fst snd].
  - (* OAppend *)
    destruct (append_res (wx s) (wy s) periodic) as [xy|e] eqn:E1; [|discriminate].
    wsimpl. rewrite <- Ix, <- Iy, E1 in H. injection H as <-. wsimpl.
    split; [split; reflexivity|]. now destruct xy.
  - injection H as <-. wsimpl. rewrite <- Ix. split; [split; [reflexivity|exact Iy]|reflexivity].
  - injection H as <-. wsimpl. rewrite <- Iy. split; [split; [exact Ix|reflexivity]|reflexivity].
  - injection H as <-. wsimpl. rewrite <- Ix. split; [split; [reflexivity|exact Iy]|reflexivity].
  - injection H as <-. wsimpl. rewrite <- Iy. split; [split; [exact Ix|reflexivity]|reflexivity].
  - (* ONormX *)
    destruct (normalize_res (wx s) lo hi) as [x'|e] eqn:E1; [|discriminate].
    wsimpl. destruct (normalize_res (wox s) lo hi) as [ox'|e] eqn:E2; [|discriminate].
    wsimpl. rewrite <- Ix, E1 in H. injection H as <-. wsimpl.
    split; [split; [reflexivity|exact Iy]|reflexivity].
  - (* ONormY *)
    destruct (normalize_res (wy s) lo hi) as [y'|e] eqn:E1; [|discriminate].
    wsimpl. destruct (normalize_res (woy s) lo hi) as [oy'|e] eqn:E2; [|discriminate].
    wsimpl. rewrite <- Iy, E1 in H. injection H as <-. wsimpl.
    split; [split; [exact Ix|reflexivity]|reflexivity].
  - (* ORepeat *)
    destruct (repeat_res (wx s) (wy s) r) as [xy|e] eqn:E1; [|discriminate].
    wsimpl. rewrite <- Ix, <- Iy, E1 in H. injection H as <-. wsimpl.
    split; [split; reflexivity|]. now destruct xy.
  - (* OTruncVal *)
    destruct (truncate (wx s) (wy s) l r lr rr) as [xy|e] eqn:E1; [|discriminate].
    rewrite <- Ix, <- Iy, E1 in H. injection H as <-. wsimpl.
    split; [split; reflexivity|]. now destruct xy.
  - (* OTruncIdx *)
    destruct (start <? 0)%Z; [discriminate|].
    destruct (_ <? _)%Z; [discriminate|].
    rewrite <- Ix, <- Iy in H.
    destruct (py_slice (wx s) _ _ _) as [a|e]; [|discriminate].
    destruct (py_slice (wy s) _ _ _) as [b|e]; [|discriminate].
    injection H as <-. wsimpl. cbn [bind]. split; [split; reflexivity|reflexivity].
Qed.

Lemma inv_history : forall ops s s', Inv s -> forallb is_domain ops = true -> run s ops = (s', Ok tt) ->
  Inv s' /\ pure_run ops (wx s, wy s) = Ok (wx s', wy s') /\ pure_run ops (wrx s, wry s) = Ok (wrx s', wry s').
Proof.
  assert (Hmain : forall ops s s', Inv s -> forallb is_domain ops = true -> run s ops = (s', Ok tt) ->
            Inv s' /\ pure_run ops (wx s, wy s) = Ok (wx s', wy s')).
  { induction ops as [|o ops IH]; intros s s' HI Hd H.
    - cbn [run] in H. injection H as <-. split; [exact HI|reflexivity].
    - cbn [forallb] in Hd. apply andb_prop in Hd. destruct Hd as [Hdo Hd].
      cbn [run] in H. destruct (step s o) as [s1 [[]|e]] eqn:E; [|discriminate].
      destruct (inv_step s o s1 HI Hdo E) as [HI1 Hp].
      destruct (IH s1 s' HI1 Hd H) as [HI' Hr].
      split; [exact HI'|]. cbn [pure_run]. rewrite Hp. cbn [bind]. exact Hr. }
  intros ops s s' HI Hd H. destruct (Hmain ops s s' HI Hd H) as [HI' Hr].
  split; [exact HI'|]. split; [exact Hr|].
  destruct HI as [Ix Iy]. destruct HI' as [Ix' Iy']. rewrite <- Ix, <- Iy, <- Ix', <- Iy'. exact Hr.
Qed.

Lemma history_from_init : forall ops x y s0 s', init (Some x) y = Ok s0 ->
  forallb is_domain ops = true -> run s0 ops = (s', Ok tt) ->
  wx s' = wrx s' /\ wy s' = wry s' /\ pure_run ops (x, y) = Ok (wx s', wy s').
Proof.
  intros ops x y s0 s' Hi Hd H.
  pose proof (inv_init _ _ _ Hi) as HI.
  destruct (inv_history ops s0 s' HI Hd H) as [[Ix Iy] [Hr _]].
  split; [exact Ix|]. split; [exact Iy|].
  unfold init in Hi. destruct (length x =? length y)%nat; [|discriminate].
  injection Hi as <-. exact Hr.
Qed.

Lemma reshape_frame : forall s o s' r, is_domain o = false -> is_restore o = false ->
  step s o = (s', r) -> wrx s' = wrx s /\ wry s' = wry s.
Proof.
  intros s o s' r Hd Hr H.
  destruct o; cbn [is_domain is_restore] in Hd, Hr; try discriminate; unfold step, fail, done in H.
  - destruct (rfa pw gpow k (wx s) (wy s) n); injection H as <- _; split; reflexivity.
  - destruct (n <? 2)%Z; injection H as <- _; split; reflexivity.
  - destruct (match_ref pw (wx s) (wy s) (wrx s) (wry s) m rt rr); injection H as <- _; split; reflexivity.
  - destruct (interp_eval (wx s) (wy s) _ a); injection H as <- _; split; reflexivity.
  - destruct (_ || _); [injection H as <- _; split; reflexivity|].
    destruct (interp_eval (wx s) (wy s) g a); injection H as <- _; split; reflexivity.
  - injection H as <- _; split; reflexivity.
  - destruct (trend_defined normalized (wx s)); injection H as <- _; split; reflexivity.
  - injection H as <- _; split; reflexivity.
  - injection H as <- _; split; reflexivity.
Qed.

Lemma domain_rejected_unchanged : forall s o s' e, Inv s -> is_domain o = true ->
  step s o = (s', Raise e) -> e = ValueError -> nonempty6 s -> s' = s.
Proof.
  intros s o s' e _ _ H -> Hne. exact (rejected_leaves_state s o s' Hne H).
Qed.

(** ====================================================================== *)
(** C09                                                                     *)
(** ====================================================================== *)

Lemma wf_init : forall x y s, init (Some x) y = Ok s -> ssorted x -> (2 <= length x)%nat -> WF s.
Proof.
  intros x y s H Hs Hn. unfold init in H.
  destruct (Nat.eqb_spec (length x) (length y)) as [E|E]; [|discriminate].
  injection H as <-. unfold WF. wsimpl. repeat split; assumption.
Qed.

Lemma original_constant : forall s o s' r, is_normalize o = false -> step s o = (s', r) ->
  wox s' = wox s /\ woy s' = woy s.
Proof.
  intros s o s' r Hn H.
  destruct o; cbn [is_normalize] in Hn; try discriminate; unfold step, fail, done in H.
  - destruct (append_res (wx s) (wy s) periodic) as [xy|e]; [|injection H as <- _; split; reflexivity].
    wsimpl. destruct (append_res (wrx s) (wry s) periodic); injection H as <- _; split; reflexivity.
  - injection H as <- _; split; reflexivity.
  - injection H as <- _; split; reflexivity.
  - injection H as <- _; split; reflexivity.
  - injection H as <- _; split; reflexivity.
  - destruct (repeat_res (wx s) (wy s) r0) as [xy|e]; [|injection H as <- _; split; reflexivity].
    wsimpl. destruct (repeat_res (wrx s) (wry s) r0); injection H as <- _; split; reflexivity.
  - destruct (truncate (wx s) (wy s) l r0 lr rr) as [xy|e]; [|injection H as <- _; split; reflexivity].
    destruct (truncate (wrx s) (wry s) l r0 lr rr); injection H as <- _; split; reflexivity.
  - destruct (start <? 0)%Z; [injection H as <- _; split; reflexivity|].
    destruct (_ <? _)%Z; [injection H as <- _; split; reflexivity|].
    destruct (py_slice (wx s) _ _ _); [|injection H as <- _; split; reflexivity].
    destruct (py_slice (wy s) _ _ _); [|injection H as <- _; split; reflexivity].
    destruct (py_slice (wrx s) _ _ _); [|injection H as <- _; split; reflexivity].
    destruct (py_slice (wry s) _ _ _); injection H as <- _; split; reflexivity.
  - destruct (rfa pw gpow k (wx s) (wy s) n); injection H as <- _; split; reflexivity.
  - destruct (n <? 2)%Z; injection H as <- _; split; reflexivity.
  - destruct (match_ref pw (wx s) (wy s) (wrx s) (wry s) m rt rr); injection H as <- _; split; reflexivity.
  - destruct (interp_eval (wx s) (wy s) _ a); injection H as <- _; split; reflexivity.
  - destruct (_ || _); [injection H as <- _; split; reflexivity|].
    destruct (interp_eval (wx s) (wy s) g a); injection H as <- _; split; reflexivity.
  - injection H as <- _; split; reflexivity.
  - destruct (trend_defined normalized (wx s)); injection H as <- _; split; reflexivity.
  - injection H as <- _; split; reflexivity.
  - injection H as <- _; split; reflexivity.
  - injection H as <- _; split; reflexivity.
Qed.

Lemma original_normalized : forall s lo hi s',
  (step s (ONormX lo hi) = (s', Ok tt) -> wox s' = normalize (wox s) lo hi /\ woy s' = woy s) /\
  (step s (ONormY lo hi) = (s', Ok tt) -> woy s' = normalize (woy s) lo hi /\ wox s' = wox s).
Proof.
  intros s lo hi s'. split; intros H; unfold step, fail, done in H.
  - destruct (normalize_res (wx s) lo hi) as [x'|e]; [|discriminate].
    wsimpl. destruct (normalize_res (wox s) lo hi) as [ox'|e] eqn:E2; [|discriminate].
    wsimpl. destruct (normalize_res (wrx s) lo hi) as [rx'|e]; [|discriminate].
    injection H as <-. wsimpl. apply normalize_res_ok in E2. split; [exact E2|reflexivity].
  - destruct (normalize_res (wy s) lo hi) as [y'|e]; [|discriminate].
    wsimpl. destruct (normalize_res (woy s) lo hi) as [oy'|e] eqn:E2; [|discriminate].
    wsimpl. destruct (normalize_res (wry s) lo hi) as [ry'|e]; [|discriminate].
    injection H as <-. wsimpl. apply normalize_res_ok in E2. split; [exact E2|reflexivity].
Qed.

Lemma restore_fresh : forall s, length (wox s) = length (woy s) ->
  exists s', step s ORestore = (s', Ok tt) /\ init (Some (wox s)) (woy s) = Ok s'.
Proof.
  intros s H. eexists. split; [reflexivity|].
  unfold init. rewrite H, Nat.eqb_refl. reflexivity.
Qed.

Lemma restore_bisim : forall s s0 ops, length (wox s) = length (woy s) ->
  init (Some (wox s)) (woy s) = Ok s0 -> run s (ORestore :: ops) = run s0 ops.
Proof.
  intros s s0 ops H Hi. unfold init in Hi. rewrite H, Nat.eqb_refl in Hi. injection Hi as <-.
  reflexivity.
Qed.

(** ---------- well-formedness is preserved ---------- *)

Lemma normalize_length : forall a lo hi, length (normalize a lo hi) = length a.
Proof. intros. unfold normalize. apply map_length. Qed.

Lemma interp_eval_length : forall x y g a y', ssorted x -> x <> [] -> length x = length y ->
  ssorted g -> g <> [] ->
  match a with IOracle ys => length ys = length g | IOwn _ => True end ->
  interp_eval x y g a = Ok y' -> length y' = length g.
Proof.
  intros x y g a y' Hs Hx Hxy Hg Hgn Ha H. unfold interp_eval in H.
  destruct a as [m|ys].
  - destruct m; try discriminate.
    + injection H as <-. unfold interp_linear. apply map_length.
    + rewrite (constant_spec x y g None Hs (ssorted_nondecr g Hg) Hx Hgn Hxy) in H.
      injection H as <-. apply map_length.
  - injection H as <-. exact Ha.
Qed.

Lemma wf_step : forall s o s', WF s -> pre s o -> step s o = (s', Ok tt) -> keeps_two s' -> WF s'.
Proof.
  intros s o s' (L & S & N & Lo & So & No) Hpre H K. unfold keeps_two in K.
  assert (Hxn : wx s <> []) by (apply length_pos_not_nil; lia).
  destruct o; cbn [pre] in Hpre; unfold step, fail, done in H.
  - (* OAppend *)
    destruct (append_res (wx s) (wy s) periodic) as [xy|e] eqn:E1; [|discriminate].
    wsimpl. destruct (append_res (wrx s) (wry s) periodic) as [r|e]; [|discriminate].
    injection H as <-. apply append_res_ok in E1. destruct E1 as [-> _].
    destruct (append_keeps_hyps (wx s) (wy s) periodic S N L) as (A1 & A2 & A3).
    unfold WF. wsimpl. repeat split; assumption.
  - (* OShiftX *)
    injection H as <-. unfold WF. wsimpl. rewrite map_length.
    repeat split; try assumption. now apply ssorted_shift.
  - injection H as <-. unfold WF. wsimpl. rewrite map_length. repeat split; assumption.
  - (* OScaleX *)
    injection H as <-. unfold WF. wsimpl. rewrite map_length.
    repeat split; try assumption. now apply ssorted_scale.
  - injection H as <-. unfold WF. wsimpl. rewrite map_length. repeat split; assumption.
  - (* ONormX *)
    destruct (normalize_res (wx s) lo hi) as [x'|e] eqn:E1; [|discriminate].
    wsimpl. destruct (normalize_res (wox s) lo hi) as [ox'|e] eqn:E2; [|discriminate].
    wsimpl. destruct (normalize_res (wrx s) lo hi) as [rx'|e]; [|discriminate].
    injection H as <-. apply normalize_res_ok in E1, E2. subst x' ox'.
    unfold WF. wsimpl. rewrite !normalize_length.
    repeat split; try assumption.
    + exact (proj2 (normalize_sorted (wx s) lo hi S N Hpre)).
    + exact (proj2 (normalize_sorted (wox s) lo hi So No Hpre)).
  - (* ONormY *)
    destruct (normalize_res (wy s) lo hi) as [y'|e] eqn:E1; [|discriminate].
    wsimpl. destruct (normalize_res (woy s) lo hi) as [oy'|e] eqn:E2; [|discriminate].
    wsimpl. destruct (normalize_res (wry s) lo hi) as [ry'|e]; [|discriminate].
    injection H as <-. apply normalize_res_ok in E1, E2. subst y' oy'.
    unfold WF. wsimpl. rewrite !normalize_length. repeat split; assumption.
  - (* ORepeat *)
    destruct (repeat_res (wx s) (wy s) r) as [xy|e] eqn:E1; [|discriminate].
    wsimpl. destruct (repeat_res (wrx s) (wry s) r) as [rr|e]; [|discriminate].
    injection H as <-. apply repeat_res_ok in E1. destruct E1 as [_ ->].
    wsimpl. unfold WF. wsimpl. repeat split; try assumption.
    + rewrite repeat_fst_length by exact N. unfold repeat_series. cbn [snd].
      rewrite tile_length. now rewrite L.
    + now apply repeat_sorted.
  - (* OTruncVal *)
    destruct (truncate (wx s) (wy s) l r lr rr) as [xy|e] eqn:E1; [|discriminate].
    destruct (truncate (wrx s) (wry s) l r lr rr) as [r2|e]; [|discriminate].
    injection H as <-. apply truncate_ok_shape in E1. destruct E1 as (a & b & ->).
    wsimpl. unfold WF. wsimpl. cbn [fst snd] in *. repeat split; try assumption.
    + rewrite !slice_len. now rewrite L.
    + now apply ssorted_slice.
  - (* OTruncIdx *)
    destruct (start <? 0)%Z; [discriminate|].
    destruct (_ <? _)%Z; [discriminate|].
    rewrite !py_slice_step1 in H. injection H as <-.
    wsimpl. unfold WF. wsimpl. repeat split; try assumption.
    + rewrite !slice_len. now rewrite L.
    + now apply ssorted_slice.
  - (* ORecreate *)
    destruct (rfa pw gpow k (wx s) (wy s) n) as [[xs ys]|e] eqn:E1; [|discriminate].
    injection H as <-. wsimpl. cbn [fst snd] in *.
    pose proof (rfa_sorted pw gpow k (wx s) (wy s) n xs ys Hpre N L S E1) as Hxs.
    destruct (rfa_grid pw gpow k (wx s) (wy s) n Hpre N L) as (xs' & ys' & E2 & G).
    cbv zeta in G. destruct G as (_ & _ & G & _).
    rewrite E1 in E2. injection E2 as <- <-.
    unfold WF. wsimpl. repeat split; try assumption. now symmetry.
  - (* ORecreateOracle *)
    destruct Hpre as [Hn Hys].
    destruct (Z.ltb_spec n 2); [discriminate|].
    injection H as <-. wsimpl.
    assert (HN : (2 <= Z.to_nat n)%nat) by lia.
    destruct (oversample_linspace_spec (wx s) (Z.to_nat n) HN Hxn) as (Hlen & _ & _).
    unfold WF. wsimpl. repeat split; try assumption.
    + now rewrite Hlen, Hys.
    + now apply oversample_linspace_sorted.
  - (* OMatch *)
    destruct (match_ref pw (wx s) (wy s) (wrx s) (wry s) m rt rr) as [y'|e] eqn:E1; [|discriminate].
    injection H as <-. wsimpl. apply match_ref_length in E1; [|exact L].
    unfold WF. wsimpl. repeat split; try assumption. now rewrite E1.
  - (* OInterpN *)
    destruct Hpre as [Hn Ha].
    set (g := linspace (headq (wx s)) (lastq (wx s)) (Z.to_nat n)) in *.
    destruct (interp_eval (wx s) (wy s) g a) as [y'|e] eqn:E1; [|discriminate].
    injection H as <-. wsimpl.
    assert (Hg : ssorted g) by (apply linspace_sorted; now apply ssorted_ends_lt).
    assert (Hgl : length g = Z.to_nat n) by apply linspace_length.
    assert (Hgn : g <> []) by (apply length_pos_not_nil; lia).
    apply interp_eval_length in E1; try assumption.
    + unfold WF. wsimpl. repeat split; try assumption. now symmetry.
    + destruct a; [exact I|]. now rewrite Hgl.
  - (* OInterpGrid *)
    destruct Hpre as (Hg & Hgl & Ha).
    destruct (_ || _); [discriminate|].
    destruct (interp_eval (wx s) (wy s) g a) as [y'|e] eqn:E1; [|discriminate].
    injection H as <-. wsimpl.
    assert (Hgn : g <> []) by (apply length_pos_not_nil; lia).
    apply interp_eval_length in E1; try assumption.
    unfold WF. wsimpl. repeat split; try assumption. now symmetry.
  - discriminate.
  - (* OTrend *)
    destruct (trend_defined normalized (wx s)); [|discriminate].
    injection H as <-. unfold trend in *. wsimpl. cbn [fst snd] in *.
    unfold WF. wsimpl. repeat split; try assumption.
    rewrite map2_len. lia.
  - (* OSmooth *)
    injection H as <-. unfold WF. wsimpl. repeat split; try assumption. congruence.
  - (* ONoise *)
    injection H as <-. unfold WF. wsimpl. repeat split; try assumption.
    rewrite map2_len. lia.
  - (* ORestore *)
    injection H as <-. unfold WF. wsimpl. repeat split; assumption.
Qed.

Fixpoint valid_run (s : wstate) (ops : list op) : Prop :=
  match ops with
  | [] => True
  | o :: ops' => pre s o /\ exists s', step s o = (s', Ok tt) /\ keeps_two s' /\ valid_run s' ops'
  end.

Lemma wf_programs : forall ops s s', WF s -> valid_run s ops -> run s ops = (s', Ok tt) -> WF s'.
Proof.
  induction ops as [|o ops IH]; intros s s' Hwf Hv H.
  - cbn [run] in H. injection H as <-. exact Hwf.
  - cbn [valid_run] in Hv. destruct Hv as (Hpre & s1 & Hstep & Hk & Hv).
    cbn [run] in H. rewrite Hstep in H.
    apply (IH s1 s'); [|exact Hv|exact H].
    exact (wf_step s o s1 Hwf Hpre Hstep Hk).
Qed.
