(** Process2 glue proofs, one source function per file: _piecewise_constant_interpolate (process.py).  See Proofs/GlueProcess2Common.v. *)
From Coq Require Import Lia Bool.
From TW Require Import Model.GlueLeaves_Process2 Gen.Process2Glue.
From TW Require Import Proofs.ListLemmas Proofs.ListLemmas4 Proofs.ListLemmas7.
From TW Require Import Proofs.GlueFunLemmas Proofs.GlueProcess2Common.
Open Scope Qc_scope.
Open Scope string_scope.

(** ======================= C13: _piecewise_constant_interpolate ======================= *)
(** ---- facts about the model's lower scan: one answer per query, every answer a position of x ---- *)
Lemma lower_pre_shape : forall x0 ls,
  (length (fst (lower_pre x0 true ls)) + length (snd (lower_pre x0 true ls)) = length ls)%nat /\
  Forall (fun z => z = 0%Z) (fst (lower_pre x0 true ls)).
Proof.
  induction ls as [|q ls IH]; cbn [lower_pre]; [split; [reflexivity|constructor]|].
  destruct (Qc_ltb q x0); [|split; [reflexivity|constructor]].
  destruct (lower_pre x0 true ls) as [o r]. cbn [fst snd length] in *. destruct IH as [IH1 IH2].
  split; [lia|constructor; [reflexivity|exact IH2]].
Qed.
Lemma adv_le_bounds : forall xs idx q,
  (snd (adv_le xs idx q) + Z.of_nat (length (fst (adv_le xs idx q))) = idx + Z.of_nat (length xs))%Z /\
  (idx <= snd (adv_le xs idx q))%Z.
Proof.
  induction xs as [|xn xs IH]; intros idx q; cbn [adv_le]; [cbn [fst snd]; lia|].
  destruct (Qc_leb xn q); [|cbn [fst snd]; lia].
  destruct (IH (idx + 1)%Z q) as [H1 H2]. cbn [length]. lia.
Qed.
Lemma lower_main_shape : forall ls xs idx,
  length (lower_main ls xs idx) = length ls /\
  Forall (fun z => (idx <= z <= idx + Z.of_nat (length xs))%Z) (lower_main ls xs idx).
Proof.
  induction ls as [|q ls IH]; intros xs idx; cbn [lower_main]; [split; [reflexivity|constructor]|].
  destruct (adv_le_bounds xs idx q) as [H1 H2].
  destruct (adv_le xs idx q) as [xs' idx']. cbn [fst snd] in H1, H2.
  destruct (IH xs' idx') as [IH1 IH2]. cbn [length]. split; [lia|].
  constructor; [lia|]. eapply Forall_impl; [|exact IH2]. cbn beta. intros z Hz. lia.
Qed.
Lemma find_lower_shape : forall x nx idx, find_lower x nx true = Ok idx ->
  x <> [] /\ nx <> [] /\ length idx = length nx /\ Forall (fun z => (0 <= z < Z.of_nat (length x))%Z) idx.
Proof.
  intros [|x0 xs] nx idx H; [discriminate H|]. unfold find_lower in H. destruct nx as [|q nx]; [discriminate H|].
  destruct (lower_pre_shape x0 (q :: nx)) as [P1 P2].
  destruct (lower_pre x0 true (q :: nx)) as [o r]. cbn [fst snd] in P1, P2.
  injection H as <-. destruct (lower_main_shape r xs 0) as [M1 M2].
  split; [discriminate|]. split; [discriminate|]. split.
  - rewrite app_length, M1. exact P1.
  - apply Forall_app. split.
    + eapply Forall_impl; [|exact P2]. cbn beta. intros z ->. cbn [length]. lia.
    + eapply Forall_impl; [|exact M2]. cbn beta. cbn [length]. intros z Hz. lia.
Qed.

(** ---- facts about the mask / index-array leaves ---- *)
Lemma mask_take_length : forall {A} (l : list A) m, length l = length m -> length (mask_take l m) = count_true m.
Proof.
  intros A l. induction l as [|a l IH]; intros [|b m] H; try discriminate H; [reflexivity|].
  cbn [mask_take]. unfold count_true. cbn [filter]. destruct b; cbn [length]; [f_equal|]; apply IH; cbn [length] in H; lia.
Qed.
Lemma mask_take_Forall : forall {A} (P : A -> Prop) l m, Forall P l -> Forall P (mask_take l m).
Proof.
  intros A P l. induction l as [|a l IH]; intros [|b m] H; cbn [mask_take]; try constructor.
  inversion H; subst. destruct b; [constructor; [assumption|]|]; apply IH; assumption.
Qed.
Lemma mask_store_length : forall l m w, length (mask_store l m w) = length l.
Proof.
  induction l as [|a l IH]; intros [|b m] w; cbn [mask_store]; try reflexivity.
  destruct b; [destruct w|]; cbn [length]; now rewrite IH.
Qed.
Lemma take_checked_in_range : forall y idx, Forall (fun z => (0 <= z < Z.of_nat (length y))%Z) idx ->
  take_checked y idx = Ok (map (fun i => nthq (Z.to_nat i) y) idx).
Proof.
  intros y idx H. induction idx as [|i idx IH]; [reflexivity|].
  inversion H as [|? ? Hi Hr]; subst. cbn [take_checked map].
  replace i with (Z.of_nat (Z.to_nat i)) at 1 by lia. rewrite py_index_nat by lia.
  rewrite (IH Hr). reflexivity.
Qed.

(** the two masked stores are the model's map2 (f: the mask `new_x >= x[0]`; its complement is `new_x < x[0]`) *)
Lemma masked_stores : forall (f : Qc -> bool) (g : Z -> Qc) c nx idx z,
  length idx = length nx -> length z = length nx ->
  mask_fill (mask_store z (map f nx) (map g (mask_take idx (map f nx)))) (map (fun u => negb (f u)) nx) c
  = map2 (fun v i => if f v then g i else c) nx idx.
Proof.
  intros f g c. induction nx as [|v nx IH]; intros [|i idx] [|a z] Hi Hz; try discriminate Hi; try discriminate Hz; [reflexivity|].
  cbn [length] in Hi, Hz. cbn [map mask_take mask_store map2].
  destruct (f v) eqn:Ef.
  - cbn [map mask_store]. unfold mask_fill. cbn [map2 negb]. fold (mask_fill (mask_store z (map f nx) (map g (mask_take idx (map f nx)))) (map (fun u => negb (f u)) nx) c).
    f_equal. apply IH; lia.
  - unfold mask_fill. cbn [map2 negb]. fold (mask_fill (mask_store z (map f nx) (map g (mask_take idx (map f nx)))) (map (fun u => negb (f u)) nx) c).
    f_equal. apply IH; lia.
Qed.

Lemma Zofnat_ltb0 : forall n, (Z.of_nat n <? 0)%Z = false.
Proof. intros n. apply Z.ltb_ge. lia. Qed.

Section PiecewiseConstant.
Variable pw : Qc -> Qc -> Qc.
Variable normal : Qc -> noise_scale -> nat -> list Qc.

Definition pci_run (x y nx : list Qc) (left : option Qc) : res (list Qc) :=
  outcome_arr (call_fun (p2_callf normal) p2_methf no_apply (p2_powf pw) process2_functions "_piecewise_constant_interpolate"
     [("x", VArr x); ("y", VArr y); ("new_x", VArr nx); ("left", optQ left)]).
(** `left` omitted *)
Definition pci_run_default (x y nx : list Qc) : res (list Qc) :=
  outcome_arr (call_fun (p2_callf normal) p2_methf no_apply (p2_powf pw) process2_functions "_piecewise_constant_interpolate"
     [("x", VArr x); ("y", VArr y); ("new_x", VArr nx)]).

Ltac pc_leaf :=
  match goal with
  | |- context [(Z.of_nat ?n <? 0)%Z] => rewrite (Zofnat_ltb0 n)
  | |- context [Z.to_nat (Z.of_nat ?n)] => rewrite (Nat2Z.id n)
  | |- context [length (map ?f ?l)] => rewrite (map_length f l)
  | |- context [length (repeatq ?v ?n)] => rewrite (repeatq_length v n)
  | |- context [length (mask_store ?l ?m ?w)] => rewrite (mask_store_length l m w)
  | |- context [(?n =? ?n)%nat] => rewrite (Nat.eqb_refl n)
  | H : length ?a = ?b |- context [(length ?a =? ?b)%nat] => rewrite H
  | |- context [py_index ?l 0%Z] => rewrite (py_index_head l) by assumption
  | H : find_lower ?x ?l true = _ |- context [find_lower ?x ?l true] => rewrite H
  end.

Lemma glue_piecewise_constant : forall x y nx left, (length x <=? length y)%nat = true ->
  pci_run x y nx left = interp_constant x y nx left.
Proof.
  intros x y nx left Hg. apply Nat.leb_le in Hg. unfold pci_run, interp_constant. p2_call process2_functions.
  destruct (find_lower x nx true) as [idx|e] eqn:E.
  2:{ repeat (p2_cbn; first [pc_leaf | p2_step]); p2_cbn. reflexivity. }
  destruct (find_lower_shape x nx idx E) as (Hx & Hnx & Hlen & Hrange).
  assert (Hy : y <> []).
  { intros ->. destruct x; [congruence|]. cbn [length] in Hg. lia. }
  assert (Hr' : Forall (fun z => (0 <= z < Z.of_nat (length y))%Z) idx).
  { eapply Forall_impl; [|exact Hrange]. cbn beta. intros z Hz. lia. }
  set (f := fun u : Qc => Qc_leb (headq x) u).
  assert (Htake : take_checked y (mask_take idx (map f nx)) = Ok (map (fun i => nthq (Z.to_nat i) y) (mask_take idx (map f nx)))).
  { apply take_checked_in_range. apply mask_take_Forall. exact Hr'. }
  assert (Hcnt : length (mask_take idx (map f nx)) = count_true (map f nx)).
  { apply mask_take_length. rewrite map_length. exact Hlen. }
  destruct left as [lv|]; cbn [optQ].
  all: repeat (p2_cbn; first [pc_leaf | p2_step]); p2_cbn.
  all: fold f; rewrite ?Htake.
  all: repeat (p2_cbn; first [pc_leaf | p2_step]); p2_cbn.
  all: rewrite ?Hcnt, ?Nat.eqb_refl.
  all: repeat (p2_cbn; first [pc_leaf | p2_step]); p2_cbn.
  all: f_equal; apply (masked_stores f (fun i => nthq (Z.to_nat i) y)); [exact Hlen | apply repeatq_length].
Qed.

Lemma glue_piecewise_constant_default : forall x y nx, pci_run_default x y nx = pci_run x y nx None.
Proof. reflexivity. Qed.
End PiecewiseConstant.



(** _piecewise_constant_interpolate *)
Example pci_example :
  res_arr_eqb (pci_run pw_ex normal_ex (qzs [0; 1; 2]%Z) (qzs [5; 6; 7]%Z) (qzs [-1; 0; 1; 3]%Z) None) (qzs [5; 5; 6; 7]%Z) = true /\
  res_arr_eqb (pci_run pw_ex normal_ex (qzs [0; 1; 2]%Z) (qzs [5; 6; 7]%Z) (qzs [-1; 0; 1; 3]%Z) (Some (qz 9))) (qzs [9; 5; 6; 7]%Z) = true /\
  (length (qzs [0; 1; 2]%Z) <=? length (qzs [5; 6; 7]%Z))%nat = true.
Proof. repeat split; vm_compute; reflexivity. Qed.
(** outside the guard (y shorter than x): the code raises IndexError as soon as a query selects a missing ordinate, where
    the model's total element access answers 0; the empty lookup raises StopIteration in both (inside the guard) *)
Example pci_outside_guard :
  res_is_raise (pci_run pw_ex normal_ex (qzs [0; 1; 2]%Z) (qzs [5; 6]%Z) (qzs [-1; 0; 1; 3]%Z) None) IndexError = true /\
  res_arr_eqb (interp_constant (qzs [0; 1; 2]%Z) (qzs [5; 6]%Z) (qzs [-1; 0; 1; 3]%Z) None) (qzs [5; 5; 6; 0]%Z) = true /\
  res_is_raise (pci_run pw_ex normal_ex (qzs [0; 1; 2]%Z) (qzs [5; 6; 7]%Z) [] None) StopIteration = true.
Proof. repeat split; vm_compute; reflexivity. Qed.

Print Assumptions glue_piecewise_constant.
