(** LinearAdaptiveRFA.get_adaptive_transition_points, REGENERATED from rfa.py as a glue term (Gen/RfaGlue.v), run by the
    function-level interpreter of Model/GlueFun.v with the leaves of Model/GlueLeaves3.v, computes the model's
    [adaptive_windows] (Model/Rfa.v): C06, statement of staging/GlueAdaptive.v.

    Nothing of the generated body is restated: the method body is whatever [assoc .. rfa_methods] computes to, the loop
    body is obtained from the same table ([first_for]) and its if / elif / elif / else chain is its third statement.
    The proof is a symbolic execution, one statement at a time; the value of an expression is computed on an isolated
    goal [feval .. en e = Ok ?v] ([ap_ev]); evaluation is call-by-value (the primitives that inspect their arguments are
    unfolded only once applied to values), Qc arithmetic and the model functions stay folded.
      - [adaptive_pair_cases]  the model's pair, written with the tests and the arithmetic exactly as the interpreter
                               finds them (Qc_of_Z 0 / Qc_of_Z 1 / Qc_of_Z 2 are 0 / 1 / qz 2 by conversion;
                               int(a / 2) = half_window a is WindowsLink.Qc_trunc_half, the only use of 0 <= a --
                               and not a necessary one: [Qc_trunc_half_any], [glue_adaptive_points_any_a]);
      - [ap_if_run]            the if-chain from ANY environment that binds nom, denom, a_ls, a_rs, gammas: one case
                               per branch, a single postcondition (a_ls / a_rs get fst / snd of the model's pair
                               appended, gammas is still some list);
      - [ap_body_step]         one iteration; [ap_loop] the induction over the iteration list;
      - [glue_adaptive_points] prologue, loop, the three .extend!, return; the iteration list
                               range_list 1 (nr_of_full_intervals - 1) is the model's [intervals] by conversion. *)
From Coq Require Import Lia Bool Qreduction.
From TW Require Import Model.GlueLeaves3 Gen.RfaGlue.
From TW Require Import Proofs.GlueFunLemmas Proofs.GlueRfaFixedProofs Proofs.ListLemmas8 Proofs.WindowsLink.
Open Scope Qc_scope.
Open Scope string_scope.

(** ---------------- evaluation of an expression ---------------- *)
(** strict primitives of these leaves: run only once their arguments are values *)
Definition adaptive_callf_run := Eval cbv delta [adaptive_callf] in adaptive_callf.
Definition ivl_methf_run := Eval cbv delta [ivl_methf] in ivl_methf.
Definition smooth_powf_run := Eval cbv delta [smooth_powf] in smooth_powf.
Lemma adaptive_callf_run_eq : forall fn vs ks, adaptive_callf fn vs ks = adaptive_callf_run fn vs ks. Proof. reflexivity. Qed.
Lemma ivl_methf_run_eq : forall r m vs, ivl_methf r m vs = ivl_methf_run r m vs. Proof. reflexivity. Qed.
Lemma smooth_powf_run_eq : forall g a b, smooth_powf g a b = smooth_powf_run g a b. Proof. reflexivity. Qed.

Ltac ap_cbn :=
  cbn -[Qcplus Qcmult Qcdiv Qcminus Qcopp Qcinv Q2Qc Qc_eqb Qc_ltb Qc_leb Qc_of_Z Qc_of_nat Qc_trunc Qc_abs Qc_min Qc_max
        map seq length app Nat.div Nat.modulo getz range_list
        Z.of_nat Z.to_nat Z.add Z.sub Z.mul Z.opp Z.quot Z.ltb Z.leb Z.eqb Z.max Z.min
        half_window clip_trunc adaptive_pair adaptive_windows ext_of
        fexec fexec_k floop rfa_methods
        fbinop fcall findex_val adaptive_callf ivl_methf smooth_powf].

Ltac ap_step :=
  match goal with
  | |- context [flookup _ _] => unfold flookup
  | H : assoc ?k ?en = _ |- context [assoc ?k ?en] => rewrite H
  | H : Qc_eqb ?a ?b = _ |- context [Qc_eqb ?a ?b] => rewrite H
  | |- context [fbinop ?pf ?op ?a ?b] => rewrite (fbinop_run_eq pf op a b)
  | |- context [fcall ?cf ?fn ?vs ?ks] => rewrite (fcall_run_eq cf fn vs ks)
  | |- context [findex_val ?a ?i] => rewrite (findex_val_run_eq a i)
  | |- context [adaptive_callf ?fn ?vs ?ks] => rewrite (adaptive_callf_run_eq fn vs ks)
  | |- context [ivl_methf ?r ?m ?vs] => rewrite (ivl_methf_run_eq r m vs)
  | |- context [smooth_powf ?g ?a ?b] => rewrite (smooth_powf_run_eq g a b)
  end.
Ltac ap_run := repeat (ap_cbn; ap_step); ap_cbn.
(** solves [feval cf mf af pf en e = Ok ?v] *)
Ltac ap_ev := ap_run; reflexivity.

(** one straight-line statement (t = e; return e), an if whose test is decided by the context, for x in range(..) *)
Ltac ap_unf := match goal with |- context [fexec ?cf ?mf ?af ?pf ?en ?L] => is_var L; unfold L; clear L end.
Ltac ap_st :=
  try ap_unf;
  match goal with
  | |- context [fexec ?cf ?mf ?af ?pf ?en (SAssign [LVar ?x] ?e :: ?l)] =>
      let H := fresh "Hev" in
      eassert (H : feval cf mf af pf en e = Ok _) by ap_ev;
      rewrite (fexec_cons cf mf af pf en (SAssign [LVar x] e) l), (fexec1_assign1 cf mf af pf en x e _ H), fexec_k_normal;
      clear H
  | |- context [fexec ?cf ?mf ?af ?pf ?en (SReturn ?e :: ?l)] =>
      let H := fresh "Hev" in
      eassert (H : feval cf mf af pf en e = Ok _) by ap_ev;
      rewrite (fexec_cons cf mf af pf en (SReturn e) l), (fexec1_return cf mf af pf en e _ H), fexec_k_return;
      clear H
  | |- context [fexec ?cf ?mf ?af ?pf ?en (SIf ?c ?th ?el :: ?l)] =>
      let H := fresh "Hev" in
      eassert (H : feval cf mf af pf en c = Ok (VBoolV _)) by ap_ev;
      rewrite (fexec_cons cf mf af pf en (SIf c th el) l), (fexec1_if cf mf af pf en c th el), H;
      clear H; cbv iota
  | |- context [fexec ?cf ?mf ?af ?pf ?en (SFor [?x] ?it ?body :: ?l)] =>
      let H := fresh "Hev" in
      eassert (H : feval cf mf af pf en it = Ok (VIdxArr _)) by ap_ev;
      rewrite (fexec_cons cf mf af pf en (SFor [x] it body) l), (fexec1_for_range cf mf af pf en x it body _ H);
      clear H
  | |- context [fexec ?cf ?mf ?af ?pf ?en []] => rewrite (fexec_nil cf mf af pf en), ?fexec_k_normal
  end.

(** ---------------- int(a / 2) for any integer a ---------------- *)
Lemma Qc_trunc_opp : forall q, Qc_trunc (- q) = (- Qc_trunc q)%Z.
Proof.
  intros q. unfold Qc_trunc, Qcopp, Q2Qc. cbn [this]. rewrite Qred_opp, (canon q).
  destruct (this q) as [nq dq]. cbn [Qopp Qnum Qden]. apply Z.quot_opp_l. discriminate.
Qed.
Lemma Qc_trunc_half_any : forall A, Qc_trunc (Qc_of_Z A / qz 2) = Z.quot A 2.
Proof.
  intros A. destruct (Z.le_gt_cases 0 A) as [H|H]; [apply Qc_trunc_half; exact H|].
  replace A with (- (- A))%Z at 1 by lia. rewrite qz_opp.
  replace (- Qc_of_Z (- A) / qz 2) with (- (Qc_of_Z (- A) / qz 2)) by (field; exact qz2_neq0).
  rewrite Qc_trunc_opp, Qc_trunc_half by lia. rewrite Z.quot_opp_l by discriminate. lia.
Qed.

(** ---------------- the loop body, from the generated table ---------------- *)
Definition ap_name : string := "LinearAdaptiveRFA.get_adaptive_transition_points".
Definition ap_body : list gstmt := Eval vm_compute in first_for (rfa_body_of ap_name).
(** nom = ..; denom = ..; if .. elif .. elif .. else *)
Definition ap_if : gstmt := Eval vm_compute in nth 2 ap_body (SRaise "").

Section Points.
Variable gpow : Qc -> Qc.
Variables lx ly : list Qc.
Variables n a : Z.
(** int(a / 2): the only place where anything about a is needed ([Qc_trunc_half] for 0 <= a, [Qc_trunc_half_any]) *)
Hypothesis int_half : Qc_trunc (Qc_of_Z a / Qc_of_Z 2) = half_window a.
Notation cf := adaptive_callf.
Notation mf := ivl_methf.
Notation pf := (smooth_powf gpow).

(** the model's pair with the tests and the arithmetic written as the interpreter finds them *)
Lemma adaptive_pair_cases : forall nom denom,
  adaptive_pair gpow a nom denom =
  if Qc_eqb nom (Qc_of_Z 0)
  then (if Qc_eqb denom (Qc_of_Z 0) then (0, 0)%Z else (Qc_trunc (Qc_of_Z a / Qc_of_Z 2), 0%Z))
  else if Qc_eqb denom (Qc_of_Z 0) then (0%Z, Qc_trunc (Qc_of_Z a / Qc_of_Z 2))
  else (Qc_trunc (Qc_min (Qc_max (gpow (nom / denom) * Qc_of_Z a / (Qc_of_Z 1 + gpow (nom / denom))) (Qc_of_Z 1)) (Qc_of_Z a)),
        Qc_trunc (Qc_min (Qc_max (Qc_of_Z a / (Qc_of_Z 1 + gpow (nom / denom))) (Qc_of_Z 1)) (Qc_of_Z a))).
Proof.
  intros nom denom. rewrite int_half. unfold adaptive_pair, clip_trunc.
  change (Qc_of_Z 0) with 0. change (Qc_of_Z 1) with 1.
  destruct (Qc_eqb nom 0); destruct (Qc_eqb denom 0); reflexivity.
Qed.

(** what the loop reads and never rebinds *)
Definition ap_ro : list (string * gval) :=
  [("x", ivl lx n); ("y", ivl ly n); ("a", VInt a); ("adaptive_smooth", VOpaque "adaptive_smooth")].

Ltac ap_done Hro Hg :=
  repeat ap_st;
  do 2 eexists; split; [reflexivity|]; split;
  [ repeat (apply holds_cons_env; [reflexivity|]); exact Hro
  | repeat split; ap_run; first [reflexivity | exact Hg] ].

Lemma ap_if_run : forall E nom denom als ars g,
  holds ap_ro E -> assoc "nom" E = Some (VNum nom) -> assoc "denom" E = Some (VNum denom) ->
  assoc "a_ls" E = Some (VTup als) -> assoc "a_rs" E = Some (VTup ars) -> assoc "gammas" E = Some (VTup g) ->
  exists E' g', fexec cf mf no_apply pf E [ap_if] = (E', ONormal) /\ holds ap_ro E' /\
    assoc "a_ls" E' = Some (VTup (als ++ [VInt (fst (adaptive_pair gpow a nom denom))])) /\
    assoc "a_rs" E' = Some (VTup (ars ++ [VInt (snd (adaptive_pair gpow a nom denom))])) /\
    assoc "gammas" E' = Some (VTup g').
Proof.
  intros E nom denom als ars g Hro Hn Hd Hal Har Hg.
  pose proof Hro as Hro'. cbn [holds ap_ro] in Hro'. destruct Hro' as (Hx & Hy & Ha' & Hs & _).
  rewrite adaptive_pair_cases. unfold ap_if.
  destruct (Qc_eqb nom (Qc_of_Z 0)) eqn:Hn0; destruct (Qc_eqb denom (Qc_of_Z 0)) eqn:Hd0; cbn [fst snd].
  - ap_done Hro Hg.
  - ap_done Hro Hg.
  - ap_done Hro Hg.
  - ap_done Hro Hg.
Qed.

(** the differences the k-th iteration computes, and the model's pair for them *)
Definition ap_pair (k : Z) : Z * Z :=
  adaptive_pair gpow a (Qc_abs (getz ly ((k + 1) * n + 0) - getz ly (k * n + 0)))
                       (Qc_abs (getz ly (k * n + 0) - getz ly ((k - 1) * n + 0))).

Definition ap_inv (E : fenv) (fs ss : list Z) : Prop :=
  holds ap_ro E /\ assoc "a_ls" E = Some (VTup (map VInt (1%Z :: fs))) /\ assoc "a_rs" E = Some (VTup (map VInt (1%Z :: ss))) /\
  exists g, assoc "gammas" E = Some (VTup g).

Lemma map_VInt_snoc : forall l v, (map VInt l ++ [VInt v])%list = map VInt (l ++ [v]).
Proof. intros l v. rewrite map_app. reflexivity. Qed.

Lemma ap_body_step : forall E fs ss k, ap_inv E fs ss ->
  exists E', fexec cf mf no_apply pf (("k", VInt k) :: E) ap_body = (E', ONormal) /\
    ap_inv E' (fs ++ [fst (ap_pair k)]) (ss ++ [snd (ap_pair k)]).
Proof.
  intros E fs ss k (Hro & Hal & Har & g & Hg).
  pose proof Hro as Hro'. cbn [holds ap_ro] in Hro'. destruct Hro' as (Hx & Hy & Ha' & Hs & _).
  unfold ap_body. do 2 ap_st.
  match goal with |- context [fexec _ _ _ _ ?en [?st]] =>
    edestruct (ap_if_run en) as (E' & g' & Hrun & Hro1 & Hal1 & Har1 & Hg1);
    [ repeat (apply holds_cons_env; [reflexivity|]); exact Hro
    | reflexivity | reflexivity
    | ap_cbn; exact Hal | ap_cbn; exact Har | ap_cbn; exact Hg | ]
  end.
  unfold ap_if in Hrun. rewrite Hrun. exists E'. split; [reflexivity|].
  rewrite !map_VInt_snoc in Hal1, Har1.
  split; [exact Hro1|]. split; [exact Hal1|]. split; [exact Har1|]. exists g'. exact Hg1.
Qed.

Lemma ap_loop : forall ks E fs ss, ap_inv E fs ss ->
  exists E', floop cf mf no_apply pf ["k"] ap_body (map VInt ks) E = (E', ONormal) /\
    ap_inv E' (fs ++ map (fun k => fst (ap_pair k)) ks) (ss ++ map (fun k => snd (ap_pair k)) ks).
Proof.
  induction ks as [|k ks IH]; intros E fs ss H.
  - exists E. cbn [map]. rewrite floop_nil, !app_nil_r. split; [reflexivity|exact H].
  - cbn [map]. rewrite floop_cons1.
    destruct (ap_body_step E fs ss k H) as (E1 & Hrun & H1). rewrite Hrun, fexec_k_normal.
    destruct (IH E1 _ _ H1) as (E2 & Hrun2 & H2). exists E2. split; [exact Hrun2|].
    rewrite <- !app_assoc in H2. exact H2.
Qed.
End Points.

(** ---------------- C06 ---------------- *)
Ltac pose_tails' l k :=
  lazymatch l with
  | @nil _ => k (@nil gstmt)
  | ?st :: ?l' => pose_tails' l' ltac:(fun t => let L := fresh "L" in pose (L := st :: t); k L)
  end.

Lemma glue_adaptive_points_gen : forall gpow lx ly n a, Qc_trunc (Qc_of_Z a / Qc_of_Z 2) = half_window a ->
  let w := adaptive_windows gpow (ext_of lx ly n) a in
  exists gammas,
  call_meth adaptive_callf ivl_methf no_apply (smooth_powf gpow) rfa_methods "LinearAdaptiveRFA.get_adaptive_transition_points" []
    [("x", ivl lx n); ("y", ivl ly n); ("a", VInt a); ("adaptive_smooth", VOpaque "adaptive_smooth")]
  = OReturn (VTup [VTup (map VInt (fst w)); VTup (map VInt (snd w)); VTup gammas]).
Proof.
  intros gpow lx ly n a Hhalf w. unfold call_meth.
  match goal with |- context [assoc ?f rfa_methods] =>
    let t := eval vm_compute in (assoc f rfa_methods) in
    lazymatch t with
    | Some (?formals, ?body) =>
        pose_tails' body ltac:(fun L =>
          let H := fresh "Htbl" in
          assert (H : assoc f rfa_methods = Some (formals, L)) by (vm_compute; reflexivity);
          rewrite H; clear H)
    end
  end.
  ap_cbn.
  do 3 ap_st. ap_st.
  match goal with |- context [floop ?cf ?mf ?af ?pf ["k"] ?body (map VInt ?ks) ?cur] =>
    destruct (ap_loop gpow lx ly n a Hhalf ks cur [] []) as (E1 & Hrun & Hro & Hal & Har & g & Hg)
  end.
  { split; [|split; [reflexivity|split; [reflexivity|eexists; reflexivity]]].
    cbn [holds ap_ro]. repeat (split; [reflexivity|]). exact I. }
  unfold ap_body in Hrun. rewrite Hrun, fexec_k_normal. clear Hrun.
  do 3 ap_st. ap_st. cbn [snd].
  eexists. cbn [app] in Hal, Har.
  subst w. unfold adaptive_windows. cbn [fst snd].
  rewrite !map_VInt_snoc, !map_map.
  reflexivity.
Qed.

Theorem glue_adaptive_points : forall gpow lx ly n a, (0 <= a)%Z ->
  let w := adaptive_windows gpow (ext_of lx ly n) a in
  exists gammas,
  call_meth adaptive_callf ivl_methf no_apply (smooth_powf gpow) rfa_methods "LinearAdaptiveRFA.get_adaptive_transition_points" []
    [("x", ivl lx n); ("y", ivl ly n); ("a", VInt a); ("adaptive_smooth", VOpaque "adaptive_smooth")]
  = OReturn (VTup [VTup (map VInt (fst w)); VTup (map VInt (snd w)); VTup gammas]).
Proof. intros gpow lx ly n a Ha. apply glue_adaptive_points_gen. exact (Qc_trunc_half a Ha). Qed.

(** the hypothesis 0 <= a is not needed: int() and Z.quot both truncate towards zero *)
Theorem glue_adaptive_points_any_a : forall gpow lx ly n a,
  let w := adaptive_windows gpow (ext_of lx ly n) a in
  exists gammas,
  call_meth adaptive_callf ivl_methf no_apply (smooth_powf gpow) rfa_methods "LinearAdaptiveRFA.get_adaptive_transition_points" []
    [("x", ivl lx n); ("y", ivl ly n); ("a", VInt a); ("adaptive_smooth", VOpaque "adaptive_smooth")]
  = OReturn (VTup [VTup (map VInt (fst w)); VTup (map VInt (snd w)); VTup gammas]).
Proof. intros gpow lx ly n a. apply glue_adaptive_points_gen. exact (Qc_trunc_half_any a). Qed.

Print Assumptions glue_adaptive_points.
Print Assumptions glue_adaptive_points_any_a.
