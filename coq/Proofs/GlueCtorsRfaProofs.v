(** The regenerated CONSTRUCTORS (Gen/CtorsGlue.v) against the hand models.

    Part A -- rfa.py: every `__init__` of the strategy classes and FunctionRFA._get_sampling_function, run by the
    function-level interpreter of Model/GlueFun.v with the leaves of Model/GlueLeaves_Ctors.v; `super().__init__(..)` is
    the run of the parent's regenerated body ([ctor_exec], [construct]).  The object a constructor returns is the list of
    its attributes; the theorems say that this list is exactly (names, order of last assignment, values) the model's
    parameters: [window_a], [half_window], [lin_part] of Model/Rfa.v -- the arguments with which the theorems about the
    rfa() methods (Proofs/GlueRfaFixedProofs.v, GlueRfaAdaptiveProofs.v) start -- and that n < 2 is refused with
    ValueError by every class (C20).  The composition "construct, then run rfa() on the object just constructed" is the
    model's [rfa] for every n (C05, C06).

    Part B -- weaver.py: the static constructors from_2d_array / from_dataframe / from_csv, run by the same interpreter;
    `Weaver(x, y)` is the run of the regenerated `__init__` of Gen/WeaverGlue.v (Proofs/GlueProofs.v: [glue_init]).

    Nothing of the generated bodies is restated: a body is whatever [assoc <name> <table>] computes to; a proof is a
    symbolic execution, one statement at a time ([c_run]); arithmetic and the model's functions stay folded. *)
From Coq Require Import Lia Bool.
From TW Require Import Model.GlueLeaves_Ctors Gen.CtorsGlue Gen.RfaGlue.
From TW Require Import Proofs.GlueFunLemmas Proofs.WindowsLink.
From TW Require Proofs.GlueRfaFixedProofs Proofs.GlueRfaAdaptiveProofs.
Open Scope Qc_scope.
Open Scope string_scope.

(** ================= generic facts about [ctor_exec] ================= *)
Section CtorLemmas.
Variable cf : string -> list gval -> list (string * gval) -> res gval.
Variable mf : gval -> string -> list gval -> res gval.
Variable af : gval -> list gval -> res gval.
Variable pf : gval -> gval -> res gval.
Variable ct : class_table.
Variable tbl : fun_table.

Definition no_super (l : list gstmt) : bool :=
  forallb (fun s => match super_init_args s with None => true | Some _ => false end) l.

(** a statement list without `super().__init__` is run by [fexec] *)
Lemma ctor_exec_plain : forall f cls l en, no_super l = true ->
  ctor_exec cf mf af pf ct tbl (S f) cls en l = fexec cf mf af pf en l.
Proof.
  intros f cls l. induction l as [|s l IH]; intros en H; [reflexivity|].
  cbn [no_super forallb] in H. apply andb_true_iff in H. destruct H as [Hs Hl].
  destruct (super_init_args s) eqn:E; [discriminate Hs|].
  rewrite fexec_cons. unfold fexec_k.
  specialize (IH (fst (fexec1 cf mf af pf en s)) Hl).
  cbn [ctor_exec] in IH |- *. rewrite E. cbv zeta.
  destruct (snd (fexec1 cf mf af pf en s)); try reflexivity. exact IH.
Qed.

Definition after_super (r : fenv * outcome) (en : fenv) (k : fenv -> fenv * outcome) : fenv * outcome :=
  let en' := (self_part (fst r) ++ en)%list in
  match snd r with
  | ONormal | OReturn VNoneV => k en'
  | OReturn _ => (en', ORaise TypeError)
  | ORaise e => (en', ORaise e)
  end.

(** `super().__init__(args)`: the parent's body on the parent's formals and the attributes stored so far *)
Lemma ctor_exec_super : forall f cls en s l args vs p formals body ps,
  super_init_args s = Some args -> fevals cf mf af pf en args = Ok vs -> super_owner f ct cls = Some p ->
  assoc (p ++ ".__init__") tbl = Some (formals, body) ->
  (let? pos := bind_pos formals vs in fbind_params formals pos) = Ok ps ->
  ctor_exec cf mf af pf ct tbl (S f) cls en (s :: l) =
  after_super (ctor_exec cf mf af pf ct tbl f p (ps ++ self_part en)%list body) en
              (fun en' => ctor_exec cf mf af pf ct tbl (S f) cls en' l).
Proof.
  intros f cls en s l args vs p formals body ps Hs Hv Hp Ha Hb.
  cbn [ctor_exec]. rewrite Hs, Hv, Hp, Ha, Hb. reflexivity.
Qed.
End CtorLemmas.

(** binding of formals when the actuals are only partly known: a formal with a default takes the actual if there is one *)
Definition pick (p : string) (actuals : list (string * gval)) (d : gval) : gval :=
  match assoc p actuals with Some w => w | None => d end.

Lemma fbind_nil : forall actuals, fbind_params [] actuals = Ok [].
Proof. reflexivity. Qed.
Lemma fbind_required : forall p fs actuals rest w,
  String.prefix "**" p = false -> assoc p actuals = Some w -> fbind_params fs actuals = Ok rest ->
  fbind_params ((p, None) :: fs) actuals = Ok ((p, w) :: rest).
Proof. intros p fs actuals rest w Hp Hw Hr. cbn [fbind_params]. rewrite Hr. cbn [bind]. rewrite Hp, Hw. reflexivity. Qed.
Lemma fbind_default : forall p e v fs actuals rest,
  String.prefix "**" p = false -> fdefault_val e = Some v -> fbind_params fs actuals = Ok rest ->
  fbind_params ((p, Some e) :: fs) actuals = Ok ((p, pick p actuals v) :: rest).
Proof.
  intros p e v fs actuals rest Hp He Hr. cbn [fbind_params]. rewrite Hr. cbn [bind]. rewrite Hp. unfold pick.
  destruct (assoc p actuals); [reflexivity|]. rewrite He. reflexivity.
Qed.
Lemma fbind_kwargs : forall fs actuals rest, fbind_params fs actuals = Ok rest ->
  fbind_params (("**kwargs", None) :: fs) actuals = Ok (("kwargs", VOpaque "kwargs") :: rest).
Proof. intros fs actuals rest Hr. cbn [fbind_params]. rewrite Hr. reflexivity. Qed.

(** ================= Part A: the constructors of rfa.py ================= *)
Definition rfa_construct (cls : string) (actuals : list (string * gval)) : fenv * outcome :=
  construct ctor_callf no_methf no_apply no_pow ctors_rfa_classes ctors_rfa_methods 4 cls actuals.

(** x and y are accepted by np.asarray(.., dtype=float) *)
Definition array_like (v : gval) : bool := match to_array v with Ok _ => true | Raise _ => false end.

(** ---------------- sanity runs (before proving) ---------------- *)
Definition ex_x : gval := VArr [qz 0; qz 1; qz 2].
Definition ex_y : gval := VTup [VInt 3; VNum (qf 1 2); VInt 7].      (* a Python list *)
Definition ex_yl : list Qc := [qz 3; qf 1 2; qz 7].

Example ex_linear_fixed_default :
  rfa_construct "LinearFixedRFA" [("x", ex_x); ("y", ex_y); ("n", VInt 5)] =
  ([("self.a_r", VInt 2); ("self.a_l", VInt 2); ("self.a", VInt 5); ("self.n", VInt 5);
    ("self.y", VArr ex_yl); ("self.x", VArr [qz 0; qz 1; qz 2])], ONormal).
Proof. vm_compute. reflexivity. Qed.
Example ex_exp_fixed_half :
  rfa_construct "ExpFixedRFA" [("x", ex_x); ("y", ex_y); ("n", VInt 7); ("alpha", VNum (qf 1 2)); ("exp", VOpaque "exp")] =
  ([("self.exp", VOpaque "exp"); ("self.b", VInt 0); ("self.a_r", VInt 1); ("self.a_l", VInt 1); ("self.a", VInt 3);
    ("self.n", VInt 7); ("self.y", VArr ex_yl); ("self.x", VArr [qz 0; qz 1; qz 2])], ONormal).
Proof. vm_compute. reflexivity. Qed.
Example ex_small_n : snd (rfa_construct "ExpAdaptiveRFA" [("x", ex_x); ("y", ex_y); ("n", VInt 1)]) = ORaise ValueError.
Proof. vm_compute. reflexivity. Qed.
Example ex_not_array_like : snd (rfa_construct "LinearFixedRFA" [("x", VInt 3); ("y", ex_y); ("n", VInt 5)]) = ORaise TypeError.
Proof. vm_compute. reflexivity. Qed.
Example ex_array_like : array_like ex_x = true /\ array_like ex_y = true /\ to_array ex_y = Ok (VArr ex_yl).
Proof. vm_compute. repeat split; reflexivity. Qed.

(** ---------------- the symbolic execution ---------------- *)
Ltac c_cbn :=
  cbn -[Qcplus Qcmult Qcdiv Qcminus Qcopp Qcinv Q2Qc Qc_eqb Qc_ltb Qc_leb Qc_of_Z Qc_of_nat Qc_trunc
        Z.of_nat Z.to_nat Z.add Z.sub Z.mul Z.opp Z.quot Z.ltb Z.leb Z.eqb Z.max Z.min
        to_array window_a half_window lin_part pick
        fexec fexec_k ctor_exec after_super].
Ltac c_red := unfold bind; c_cbn; repeat (progress unfold bind; c_cbn).
Ltac c_step :=
  match goal with
  | |- context [flookup _ _] => unfold flookup
  | |- context [fexec ?cf ?mf ?af ?pf ?en (SIf ?c ?th ?el :: ?l)] =>
      rewrite (fexec_cons cf mf af pf en (SIf c th el) l), (fexec1_if cf mf af pf en c th el)
  | |- context [fexec ?cf ?mf ?af ?pf ?en (?st :: ?l)] => rewrite (fexec_cons cf mf af pf en st l)
  | |- context [fexec ?cf ?mf ?af ?pf ?en []] => rewrite (fexec_nil cf mf af pf en)
  | |- context [fexec_k (?en, ONormal) ?k] => rewrite (fexec_k_normal en k)
  | |- context [fexec_k (?en, ORaise ?e) ?k] => rewrite (fexec_k_raise en e k)
  | |- context [fexec_k (?en, OReturn ?v) ?k] => rewrite (fexec_k_return en v k)
  | H : ?e = _ |- context [match ?e with _ => _ end] => rewrite H
  | H : ?e = _ |- context [if ?e then _ else _] => rewrite H
  end.
Ltac c_run := repeat (c_red; c_step); c_red.

Definition ctor_body_of (f : string) : list gstmt := match assoc f ctors_rfa_methods with Some (_, b) => b | None => [] end.
Definition abstract_body : list gstmt := Eval vm_compute in ctor_body_of "AbstractRFA.__init__".

(** AbstractRFA.__init__: the three attributes are stored, THEN n < 2 is refused *)
Lemma abstract_body_run : forall vx vy n ax ay E,
  to_array vx = Ok ax -> to_array vy = Ok ay -> assoc "float" E = None ->
  fexec ctor_callf no_methf no_apply no_pow (("x", vx) :: ("y", vy) :: ("n", VInt n) :: E) abstract_body =
  (("self.n", VInt n) :: ("self.y", ay) :: ("self.x", ax) :: ("x", vx) :: ("y", vy) :: ("n", VInt n) :: E,
   if (n <? 2)%Z then ORaise ValueError else ONormal).
Proof.
  intros vx vy n ax ay E Hx Hy HE. unfold abstract_body.
  destruct (n <? 2)%Z eqn:Hn; c_run; reflexivity.
Qed.

Ltac super_step :=
  match goal with |- context [ctor_exec ?cf ?mf ?af ?pf ?ct ?tbl (S ?f) ?cls ?en (?s :: ?l)] =>
    erewrite (ctor_exec_super cf mf af pf ct tbl f cls en s l);
    [ | reflexivity | c_red; reflexivity | vm_compute; reflexivity | vm_compute; reflexivity | c_red; reflexivity ]
  end.
Ltac plain_step :=
  match goal with |- context [ctor_exec ?cf ?mf ?af ?pf ?ct ?tbl (S ?f) ?cls ?en ?l] =>
    rewrite (ctor_exec_plain cf mf af pf ct tbl f cls l en) by (vm_compute; reflexivity)
  end.
(** the constructor that runs, its formals and its body: computed from the tables; nothing else is *)
Ltac construct_enter :=
  unfold rfa_construct, construct;
  match goal with |- context [init_owner ?f ?ct ?c] =>
    let o := eval vm_compute in (init_owner f ct c) in change (init_owner f ct c) with o end;
  cbv iota beta;
  match goal with |- context [assoc ?k ctors_rfa_methods] =>
    let o := eval vm_compute in (assoc k ctors_rfa_methods) in change (assoc k ctors_rfa_methods) with o end;
  cbv iota beta.
(** the formals bound to actuals of which only x, y, n are known *)
Ltac bind_solve :=
  repeat first [ apply fbind_nil
               | apply fbind_kwargs
               | apply fbind_required; [reflexivity | reflexivity | ]
               | eapply fbind_default; [reflexivity | reflexivity | ] ].
Ltac bind_rewrite :=
  match goal with |- context [fbind_params ?fs ?acts] =>
    let H := fresh "Hb" in
    eassert (H : fbind_params fs acts = Ok _) by bind_solve;
    rewrite H; clear H; cbv iota beta
  end.
(** the first statement of a subclass constructor, down to AbstractRFA.__init__ *)
Ltac abstract_step :=
  c_red; plain_step;
  erewrite abstract_body_run by (first [eassumption | reflexivity]).

(** ---------------- arithmetic of the windows ---------------- *)
Lemma window_a_eq : forall n alpha a, (0 <= n)%Z ->
  window_a (Z.to_nat n) alpha a = Z.max 2 (Qc_trunc (match a with Some q => q | None => alpha * Qc_of_Z n end)).
Proof. intros n alpha a Hn. unfold window_a, Qc_of_nat. rewrite Z2Nat.id by exact Hn. reflexivity. Qed.

Lemma half_eq : forall A, (0 <= A)%Z -> Qc_trunc (Qc_of_Z A / Qc_of_Z 2) = half_window A.
Proof. intros A HA. exact (Qc_trunc_half A HA). Qed.

(** ---------------- C20: every class refuses n < 2 ---------------- *)
Definition rfa_class_names : list string :=
  ["AbstractRFA"; "PiecewiseConstantRFA"; "FunctionRFA"; "CubicSplineRFA"; "IntervalRFA";
   "LinearFixedRFA"; "LinearAdaptiveRFA"; "ExpFixedRFA"; "ExpAdaptiveRFA"].

(** the list is the class table's *)
Lemma rfa_class_names_complete : map fst ctors_rfa_classes = rfa_class_names.
Proof. vm_compute. reflexivity. Qed.

(** which constructor runs: the classes without an own `__init__` inherit AbstractRFA's *)
Lemma rfa_init_owners :
  map (init_owner 4 ctors_rfa_classes) rfa_class_names =
  [Some "AbstractRFA"; Some "AbstractRFA"; Some "FunctionRFA"; Some "CubicSplineRFA"; Some "AbstractRFA";
   Some "LinearFixedRFA"; Some "LinearAdaptiveRFA"; Some "ExpFixedRFA"; Some "ExpAdaptiveRFA"].
Proof. vm_compute. reflexivity. Qed.

Lemma glue_rfa_init_refuses_small_n : forall cls vx vy n extra,
  In cls rfa_class_names -> array_like vx = true -> array_like vy = true -> (n < 2)%Z ->
  snd (rfa_construct cls (("x", vx) :: ("y", vy) :: ("n", VInt n) :: extra)) = ORaise ValueError.
Proof.
  intros cls vx vy n extra Hc Hx Hy Hn.
  unfold array_like in Hx, Hy.
  destruct (to_array vx) as [ax|] eqn:Ex; [clear Hx|discriminate Hx].
  destruct (to_array vy) as [ay|] eqn:Ey; [clear Hy|discriminate Hy].
  assert (Hlt : (n <? 2)%Z = true) by (apply Z.ltb_lt; exact Hn).
  cbn [In rfa_class_names] in Hc.
  repeat (destruct Hc as [<-|Hc]); [..|contradiction].
  (* AbstractRFA, PiecewiseConstantRFA, IntervalRFA: the body of AbstractRFA.__init__ itself *)
  1,2,5: construct_enter; bind_rewrite; abstract_step; rewrite Hlt; reflexivity.
  (* FunctionRFA and the four window classes: one super() *)
  1,3,4,5,6: construct_enter; bind_rewrite; c_red; super_step; abstract_step; rewrite Hlt; reflexivity.
  (* CubicSplineRFA -> FunctionRFA -> AbstractRFA *)
  construct_enter; bind_rewrite; c_red; super_step; c_red; super_step; abstract_step; rewrite Hlt; reflexivity.
Qed.

(** ---------------- C05 / C06: the window constructors ---------------- *)
(** after `super().__init__(x, y, n)` with n >= 2: the rest of the body, split on `a is None` and on `self.a < 2` *)
Ltac window_ctor_run a Hlt M :=
  construct_enter; c_red; super_step; abstract_step; rewrite Hlt; unfold after_super; c_red; plain_step;
  destruct a as [?q|]; cbn [optQ]; c_run;
  (match goal with |- context [(?T <? 2)%Z] =>
     destruct (Z.ltb_spec T 2) as [Ht|Ht];
     [ c_run; subst M; rewrite Z.max_l by lia | c_run; subst M; rewrite Z.max_r by lia ]
   end);
  rewrite ?half_eq by lia; reflexivity.

Lemma glue_linear_fixed_init : forall vx vy lx ly n alpha a,
  to_array vx = Ok (VArr lx) -> to_array vy = Ok (VArr ly) -> (2 <= n)%Z ->
  rfa_construct "LinearFixedRFA" [("x", vx); ("y", vy); ("n", VInt n); ("alpha", VNum alpha); ("a", optQ a)] =
  (let A := window_a (Z.to_nat n) alpha a in
   [("self.a_r", VInt (half_window A)); ("self.a_l", VInt (half_window A)); ("self.a", VInt A);
    ("self.n", VInt n); ("self.y", VArr ly); ("self.x", VArr lx)], ONormal).
Proof.
  intros vx vy lx ly n alpha a Hx Hy Hn.
  assert (Hlt : (n <? 2)%Z = false) by (apply Z.ltb_ge; lia).
  rewrite window_a_eq by lia. cbv zeta.
  match goal with |- _ = ?rhs => set (M := rhs) end.
  window_ctor_run a Hlt M.
Qed.

Lemma glue_exp_fixed_init : forall vx vy lx ly n alpha beta a vexp,
  to_array vx = Ok (VArr lx) -> to_array vy = Ok (VArr ly) -> (2 <= n)%Z ->
  rfa_construct "ExpFixedRFA" [("x", vx); ("y", vy); ("n", VInt n); ("alpha", VNum alpha); ("beta", VNum beta); ("a", optQ a); ("exp", vexp)] =
  (let A := window_a (Z.to_nat n) alpha a in
   [("self.exp", vexp); ("self.b", VInt (lin_part beta (half_window A)));
    ("self.a_r", VInt (half_window A)); ("self.a_l", VInt (half_window A)); ("self.a", VInt A);
    ("self.n", VInt n); ("self.y", VArr ly); ("self.x", VArr lx)], ONormal).
Proof.
  intros vx vy lx ly n alpha beta a vexp Hx Hy Hn.
  assert (Hlt : (n <? 2)%Z = false) by (apply Z.ltb_ge; lia).
  rewrite window_a_eq by lia. cbv zeta.
  match goal with |- _ = ?rhs => set (M := rhs) end.
  window_ctor_run a Hlt M.
Qed.

Lemma glue_linear_adaptive_init : forall vx vy lx ly n alpha a vsmooth,
  to_array vx = Ok (VArr lx) -> to_array vy = Ok (VArr ly) -> (2 <= n)%Z ->
  rfa_construct "LinearAdaptiveRFA" [("x", vx); ("y", vy); ("n", VInt n); ("alpha", VNum alpha); ("a", optQ a); ("adaptive_smooth", vsmooth)] =
  ([("self.adaptive_smooth", vsmooth); ("self.a", VInt (window_a (Z.to_nat n) alpha a));
    ("self.n", VInt n); ("self.y", VArr ly); ("self.x", VArr lx)], ONormal).
Proof.
  intros vx vy lx ly n alpha a vsmooth Hx Hy Hn.
  assert (Hlt : (n <? 2)%Z = false) by (apply Z.ltb_ge; lia).
  rewrite window_a_eq by lia.
  match goal with |- _ = ?rhs => set (M := rhs) end.
  window_ctor_run a Hlt M.
Qed.

Lemma glue_exp_adaptive_init : forall vx vy lx ly n alpha a vbeta vsmooth vexp,
  to_array vx = Ok (VArr lx) -> to_array vy = Ok (VArr ly) -> (2 <= n)%Z ->
  rfa_construct "ExpAdaptiveRFA" [("x", vx); ("y", vy); ("n", VInt n); ("alpha", VNum alpha); ("beta", vbeta); ("a", optQ a);
                                  ("adaptive_smooth", vsmooth); ("exp", vexp)] =
  ([("self.exp", vexp); ("self.adaptive_smooth", vsmooth); ("self.beta", vbeta); ("self.a", VInt (window_a (Z.to_nat n) alpha a));
    ("self.n", VInt n); ("self.y", VArr ly); ("self.x", VArr lx)], ONormal).
Proof.
  intros vx vy lx ly n alpha a vbeta vsmooth vexp Hx Hy Hn.
  assert (Hlt : (n <? 2)%Z = false) by (apply Z.ltb_ge; lia).
  rewrite window_a_eq by lia.
  match goal with |- _ = ?rhs => set (M := rhs) end.
  window_ctor_run a Hlt M.
Qed.

(** the documented defaults: an omitted argument is the default of the signature (alpha = 1.0, beta = 0.5, a = None,
    adaptive_smooth = 1.0, exp = 2.0) *)
Lemma glue_window_init_defaults : forall vx vy n,
  rfa_construct "LinearFixedRFA" [("x", vx); ("y", vy); ("n", VInt n)] =
    rfa_construct "LinearFixedRFA" [("x", vx); ("y", vy); ("n", VInt n); ("alpha", VNum 1); ("a", optQ None)] /\
  rfa_construct "ExpFixedRFA" [("x", vx); ("y", vy); ("n", VInt n)] =
    rfa_construct "ExpFixedRFA" [("x", vx); ("y", vy); ("n", VInt n); ("alpha", VNum 1); ("beta", VNum (qf 1 2)); ("a", optQ None); ("exp", VNum (qz 2))] /\
  rfa_construct "LinearAdaptiveRFA" [("x", vx); ("y", vy); ("n", VInt n)] =
    rfa_construct "LinearAdaptiveRFA" [("x", vx); ("y", vy); ("n", VInt n); ("alpha", VNum 1); ("a", optQ None); ("adaptive_smooth", VNum 1)] /\
  rfa_construct "ExpAdaptiveRFA" [("x", vx); ("y", vy); ("n", VInt n)] =
    rfa_construct "ExpAdaptiveRFA" [("x", vx); ("y", vy); ("n", VInt n); ("alpha", VNum 1); ("beta", VNum (qf 1 2)); ("a", optQ None);
                                    ("adaptive_smooth", VNum 1); ("exp", VNum (qz 2))].
Proof. intros vx vy n. repeat split; construct_enter; reflexivity. Qed.

(** integer-typed arguments (alpha = 1, a = 6, beta = 1): the same object as with the corresponding floats *)
Lemma qz_mul : forall a b, Qc_of_Z (a * b) = Qc_of_Z a * Qc_of_Z b.
Proof.
  intros a b. apply Qc_is_canon. unfold Qc_of_Z.
  rewrite this_mul, !this_Q2Qc, inject_Z_mult. reflexivity.
Qed.

Ltac window_ctor_run_int oa Hlt :=
  construct_enter; c_red; super_step; abstract_step; rewrite Hlt; unfold after_super; c_red; plain_step;
  destruct oa as [?q|]; cbn [optQ optZ option_map]; c_run;
  (match goal with |- context [(?T <? 2)%Z] =>
     destruct (Z.ltb_spec T 2) as [Ht|Ht];
     [ c_run; rewrite ?qz_mul in *; rewrite ?Z.max_l by lia | c_run; rewrite ?qz_mul in *; rewrite ?Z.max_r by lia ]
   end);
  rewrite ?half_eq by lia; reflexivity.

Lemma glue_window_init_int_typed : forall vx vy lx ly n za oa,
  to_array vx = Ok (VArr lx) -> to_array vy = Ok (VArr ly) -> (2 <= n)%Z ->
  rfa_construct "LinearFixedRFA" [("x", vx); ("y", vy); ("n", VInt n); ("alpha", VInt za); ("a", optZ oa)] =
    rfa_construct "LinearFixedRFA" [("x", vx); ("y", vy); ("n", VInt n); ("alpha", VNum (Qc_of_Z za)); ("a", optQ (option_map Qc_of_Z oa))] /\
  (forall zb vexp,
   rfa_construct "ExpFixedRFA" [("x", vx); ("y", vy); ("n", VInt n); ("alpha", VInt za); ("beta", VInt zb); ("a", optZ oa); ("exp", vexp)] =
    rfa_construct "ExpFixedRFA" [("x", vx); ("y", vy); ("n", VInt n); ("alpha", VNum (Qc_of_Z za)); ("beta", VNum (Qc_of_Z zb));
                                 ("a", optQ (option_map Qc_of_Z oa)); ("exp", vexp)]) /\
  (forall vsmooth,
   rfa_construct "LinearAdaptiveRFA" [("x", vx); ("y", vy); ("n", VInt n); ("alpha", VInt za); ("a", optZ oa); ("adaptive_smooth", vsmooth)] =
    rfa_construct "LinearAdaptiveRFA" [("x", vx); ("y", vy); ("n", VInt n); ("alpha", VNum (Qc_of_Z za)); ("a", optQ (option_map Qc_of_Z oa));
                                       ("adaptive_smooth", vsmooth)]) /\
  (forall vbeta vsmooth vexp,
   rfa_construct "ExpAdaptiveRFA" [("x", vx); ("y", vy); ("n", VInt n); ("alpha", VInt za); ("beta", vbeta); ("a", optZ oa);
                                   ("adaptive_smooth", vsmooth); ("exp", vexp)] =
    rfa_construct "ExpAdaptiveRFA" [("x", vx); ("y", vy); ("n", VInt n); ("alpha", VNum (Qc_of_Z za)); ("beta", vbeta);
                                    ("a", optQ (option_map Qc_of_Z oa)); ("adaptive_smooth", vsmooth); ("exp", vexp)]).
Proof.
  intros vx vy lx ly n za oa Hx Hy Hn.
  assert (Hlt : (n <? 2)%Z = false) by (apply Z.ltb_ge; lia).
  split; [|split; [|split]].
  - rewrite (glue_linear_fixed_init vx vy lx ly n _ _ Hx Hy Hn). rewrite window_a_eq by lia. cbv zeta.
    window_ctor_run_int oa Hlt.
  - intros zb vexp. rewrite (glue_exp_fixed_init vx vy lx ly n _ _ _ _ Hx Hy Hn). rewrite window_a_eq by lia. cbv zeta.
    window_ctor_run_int oa Hlt.
  - intros vsmooth. rewrite (glue_linear_adaptive_init vx vy lx ly n _ _ _ Hx Hy Hn). rewrite window_a_eq by lia.
    window_ctor_run_int oa Hlt.
  - intros vbeta vsmooth vexp. rewrite (glue_exp_adaptive_init vx vy lx ly n _ _ _ _ _ Hx Hy Hn). rewrite window_a_eq by lia.
    window_ctor_run_int oa Hlt.
Qed.

(** ---------------- C04: AbstractRFA / PiecewiseConstantRFA / IntervalRFA / FunctionRFA / CubicSplineRFA ---------------- *)
(** PiecewiseConstantRFA and IntervalRFA define no `__init__` (rfa_init_owners): constructing them runs AbstractRFA's *)
Lemma glue_abstract_init : forall cls vx vy lx ly n,
  In cls ["AbstractRFA"; "PiecewiseConstantRFA"; "IntervalRFA"] ->
  to_array vx = Ok (VArr lx) -> to_array vy = Ok (VArr ly) -> (2 <= n)%Z ->
  rfa_construct cls [("x", vx); ("y", vy); ("n", VInt n)] =
  ([("self.n", VInt n); ("self.y", VArr ly); ("self.x", VArr lx)], ONormal).
Proof.
  intros cls vx vy lx ly n Hc Hx Hy Hn.
  assert (Hlt : (n <? 2)%Z = false) by (apply Z.ltb_ge; lia).
  cbn [In] in Hc. repeat (destruct Hc as [<-|Hc]); [..|contradiction].
  all: construct_enter; abstract_step; rewrite Hlt; reflexivity.
Qed.

Lemma glue_function_init : forall vx vy lx ly n sup kw,
  to_array vx = Ok (VArr lx) -> to_array vy = Ok (VArr ly) -> (2 <= n)%Z ->
  rfa_construct "FunctionRFA" [("x", vx); ("y", vy); ("n", VInt n); ("sampling_function_supplier", sup);
                               ("sampling_function_supplier_kwargs", kw)] =
  ([("self.sampling_function_supplier_kwargs", if is_none kw then VClos "dict" [] else kw);
    ("self.sampling_function_supplier", sup); ("self.n", VInt n); ("self.y", VArr ly); ("self.x", VArr lx)], ONormal).
Proof.
  intros vx vy lx ly n sup kw Hx Hy Hn.
  assert (Hlt : (n <? 2)%Z = false) by (apply Z.ltb_ge; lia).
  construct_enter; c_red; super_step; abstract_step; rewrite Hlt; unfold after_super; c_red; plain_step.
  destruct kw; c_run; reflexivity.
Qed.

(** CubicSplineRFA(x, y, n[, supplier]) stores what FunctionRFA(x, y, n, supplier) stores (no kwargs: an empty dict) *)
Lemma glue_cubic_spline_init : forall vx vy lx ly n sup,
  to_array vx = Ok (VArr lx) -> to_array vy = Ok (VArr ly) -> (2 <= n)%Z ->
  rfa_construct "CubicSplineRFA" [("x", vx); ("y", vy); ("n", VInt n); ("sampling_function_supplier", sup)] =
  ([("self.sampling_function_supplier_kwargs", VClos "dict" []);
    ("self.sampling_function_supplier", sup); ("self.n", VInt n); ("self.y", VArr ly); ("self.x", VArr lx)], ONormal).
Proof.
  intros vx vy lx ly n sup Hx Hy Hn.
  assert (Hlt : (n <? 2)%Z = false) by (apply Z.ltb_ge; lia).
  construct_enter; c_red; super_step; c_red; super_step; abstract_step; rewrite Hlt; unfold after_super; c_red; plain_step.
  c_run. reflexivity.
Qed.

(** the defaults: FunctionRFA's supplier and kwargs are None; CubicSplineRFA's supplier is the pinned lambda, whose
    CubicSpline is scipy.interpolate's (the only binding of that name at module level) *)
Lemma glue_function_init_defaults : forall vx vy n,
  rfa_construct "FunctionRFA" [("x", vx); ("y", vy); ("n", VInt n)] =
    rfa_construct "FunctionRFA" [("x", vx); ("y", vy); ("n", VInt n); ("sampling_function_supplier", VNoneV);
                                 ("sampling_function_supplier_kwargs", VNoneV)] /\
  rfa_construct "CubicSplineRFA" [("x", vx); ("y", vy); ("n", VInt n)] =
    rfa_construct "CubicSplineRFA" [("x", vx); ("y", vy); ("n", VInt n);
                                    ("sampling_function_supplier", VOpaque "lambda x, y: CubicSpline(x, y)")] /\
  (forall m b, In (m, b, "CubicSpline") ctors_rfa_imports -> m = "scipy.interpolate" /\ b = "CubicSpline") /\
  In ("scipy.interpolate", "CubicSpline", "CubicSpline") ctors_rfa_imports.
Proof.
  intros vx vy n. split; [|split; [|split]].
  - construct_enter. reflexivity.
  - construct_enter. reflexivity.
  - intros m b H. cbn [In ctors_rfa_imports] in H.
    repeat (destruct H as [H|H]; [try discriminate H; injection H as <- <-; split; reflexivity|]). contradiction.
  - cbn [In ctors_rfa_imports]. tauto.
Qed.

(** FunctionRFA._get_sampling_function on any object: the truth test of the stored supplier, the call
    supplier(self.x, self.y, **kwargs), ValueError otherwise *)
Lemma glue_get_sampling_function : forall obj sup vx vy kw,
  assoc "self.sampling_function_supplier" obj = Some sup -> assoc "self.x" obj = Some vx -> assoc "self.y" obj = Some vy ->
  assoc "self.sampling_function_supplier_kwargs" obj = Some kw ->
  call_meth ctor_callf no_methf no_apply no_pow ctors_rfa_methods "FunctionRFA._get_sampling_function" obj [] =
  match truthy sup with
  | Ok true => if callable sup then OReturn (call_val sup [vx; vy] [("**", kw)]) else ORaise TypeError
  | Ok false => ORaise ValueError
  | Raise e => ORaise e
  end.
Proof.
  intros obj sup vx vy kw Hs Hx Hy Hk. unfold call_meth.
  match goal with |- context [assoc ?k ctors_rfa_methods] =>
    let o := eval vm_compute in (assoc k ctors_rfa_methods) in change (assoc k ctors_rfa_methods) with o end.
  cbv iota beta. cbn [fbind_params bind app].
  destruct (truthy sup) as [[|]|e] eqn:Ht; [destruct (callable sup) eqn:Hc|..]; c_run; reflexivity.
Qed.

(** on the objects the constructors build *)
Lemma glue_get_sampling_function_built : forall vx vy lx ly n,
  to_array vx = Ok (VArr lx) -> to_array vy = Ok (VArr ly) -> (2 <= n)%Z ->
  call_meth ctor_callf no_methf no_apply no_pow ctors_rfa_methods "FunctionRFA._get_sampling_function"
    (fst (rfa_construct "CubicSplineRFA" [("x", vx); ("y", vy); ("n", VInt n)])) [] =
    OReturn (call_val (VOpaque "lambda x, y: CubicSpline(x, y)") [VArr lx; VArr ly] [("**", VClos "dict" [])]) /\
  call_meth ctor_callf no_methf no_apply no_pow ctors_rfa_methods "FunctionRFA._get_sampling_function"
    (fst (rfa_construct "FunctionRFA" [("x", vx); ("y", vy); ("n", VInt n)])) [] = ORaise ValueError /\
  (forall f kw, call_meth ctor_callf no_methf no_apply no_pow ctors_rfa_methods "FunctionRFA._get_sampling_function"
    (fst (rfa_construct "FunctionRFA" [("x", vx); ("y", vy); ("n", VInt n); ("sampling_function_supplier", VOpaque f);
                                       ("sampling_function_supplier_kwargs", kw)])) [] =
    OReturn (call_val (VOpaque f) [VArr lx; VArr ly] [("**", if is_none kw then VClos "dict" [] else kw)])).
Proof.
  intros vx vy lx ly n Hx Hy Hn. split; [|split].
  - rewrite (proj1 (proj2 (glue_function_init_defaults vx vy n))), (glue_cubic_spline_init vx vy lx ly n _ Hx Hy Hn).
    cbn [fst]. erewrite glue_get_sampling_function by reflexivity. reflexivity.
  - rewrite (proj1 (glue_function_init_defaults vx vy n)), (glue_function_init vx vy lx ly n _ _ Hx Hy Hn).
    cbn [fst]. erewrite glue_get_sampling_function by reflexivity. reflexivity.
  - intros f kw. rewrite (glue_function_init vx vy lx ly n _ _ Hx Hy Hn).
    cbn [fst]. erewrite glue_get_sampling_function by reflexivity. reflexivity.
Qed.

(** ---------------- C05 / C06: construct, then rfa() on the object just constructed ---------------- *)
(** obj.rfa(): the regenerated method body of Gen/RfaGlue.v on the object's attributes; the helper methods of the object
    (self._initial_oversample(), ...) read the object's own x, y, n *)
Definition rfa_of_obj (pw gpow sf : Qc -> Qc) (cls : string) (obj : fenv) : outcome :=
  match assoc "self.x" obj, assoc "self.y" obj, assoc "self.n" obj with
  | Some (VArr sx), Some (VArr sy), Some (VInt sn) =>
      call_meth (rfa_callf pw sf) (rfa_methf gpow sx sy (Z.to_nat sn)) no_apply no_pow rfa_methods (cls ++ ".rfa") obj []
  | _, _, _ => ORaise AttributeError
  end.
(** cls(actuals).rfa() *)
Definition new_then_rfa (pw gpow sf : Qc -> Qc) (cls : string) (actuals : list (string * gval)) : outcome :=
  let r := rfa_construct cls actuals in
  match snd r with ONormal => rfa_of_obj pw gpow sf cls (fst r) | oc => oc end.

Example ex_new_then_rfa :
  outcome_arr_pair (new_then_rfa (fun t => t) (fun t => t) (fun t => t) "LinearFixedRFA"
     [("x", VArr [qz 0; qz 1; qz 2]); ("y", VArr [qz 4; qz 0; qz 2]); ("n", VInt 4)])
  = rfa (fun t => t) (fun t => t) (LinearFixed 1 None) [qz 0; qz 1; qz 2] [qz 4; qz 0; qz 2] 4.
Proof. vm_compute. reflexivity. Qed.

Lemma refused_then : forall pw gpow sf cls vx vy n extra,
  In cls rfa_class_names -> array_like vx = true -> array_like vy = true -> (n < 2)%Z ->
  new_then_rfa pw gpow sf cls (("x", vx) :: ("y", vy) :: ("n", VInt n) :: extra) = ORaise ValueError.
Proof.
  intros pw gpow sf cls vx vy n extra Hc Hx Hy Hn. unfold new_then_rfa. cbv zeta.
  rewrite (glue_rfa_init_refuses_small_n cls vx vy n extra Hc Hx Hy Hn). reflexivity.
Qed.

Lemma glue_linear_fixed_ctor_then_rfa : forall pw gpow sf x y n alpha a,
  outcome_arr_pair (new_then_rfa pw gpow sf "LinearFixedRFA"
     [("x", VArr x); ("y", VArr y); ("n", VInt n); ("alpha", VNum alpha); ("a", optQ a)])
  = rfa pw gpow (LinearFixed alpha a) x y n.
Proof.
  intros pw gpow sf x y n alpha a. unfold rfa.
  destruct (Z.ltb_spec n 2) as [Hn|Hn].
  { rewrite refused_then; [reflexivity | cbn [In rfa_class_names]; tauto | reflexivity | reflexivity | exact Hn]. }
  unfold new_then_rfa. cbv zeta.
  rewrite (glue_linear_fixed_init (VArr x) (VArr y) x y n alpha a eq_refl eq_refl Hn). cbv zeta. cbn [fst snd].
  unfold rfa_of_obj. cbn [assoc seq_eqb String.eqb Ascii.eqb Bool.eqb String.append].
  set (n' := Z.to_nat n). replace n with (Z.of_nat n') by lia.
  assert (Hn' : (2 <= n')%nat) by lia. clearbody n'. clear Hn n. rename n' into n.
  set (A := window_a n alpha a).
  unfold rfa_linear_fixed. fold A. generalize (half_window A). intros al.
  match goal with |- _ = ?rhs => set (M := rhs) end.
  GlueRfaFixedProofs.meth_lookup.
  do 4 GlueRfaFixedProofs.st_step. GlueRfaFixedProofs.wrap_step. unfold GlueRfaFixedProofs.rfa_wrap_env.
  GlueRfaFixedProofs.for_range_step. rewrite !Nat2Z.id.
  set (e := prepare x y n) in M.
  match goal with |- context [floop ?cf ?mf ?af ?pf ["k"] ?body (map VInt ?ks) ?cur] =>
    destruct (GlueRfaFixedProofs.outer_run cf mf af pf (GlueRfaFixedProofs.loop_inv (GlueRfaFixedProofs.fx_ro e al al) (en e)) body
               (lf_interval e al al)
               (GlueRfaFixedProofs.lf_body_step pw gpow sf x y n e al al) ks cur (ye e))
      as (E1 & Hrun & Hro & Hz)
  end.
  { split; [|reflexivity]. cbn [GlueRfaFixedProofs.holds GlueRfaFixedProofs.fx_ro]. repeat (split; [reflexivity|]). exact I. }
  rewrite Hrun, fexec_k_normal. clear Hrun.
  GlueRfaFixedProofs.finish_fixed n e.
Qed.

(** `exp` is a caller-supplied value whose meaning (t |-> t ** exp) is carried by [pw], as in Proofs/GlueRfaFixedProofs.v *)
Lemma glue_exp_fixed_ctor_then_rfa : forall pw gpow sf x y n alpha beta a,
  outcome_arr_pair (new_then_rfa pw gpow sf "ExpFixedRFA"
     [("x", VArr x); ("y", VArr y); ("n", VInt n); ("alpha", VNum alpha); ("beta", VNum beta); ("a", optQ a); ("exp", VOpaque "exp")])
  = rfa pw gpow (ExpFixed alpha beta a) x y n.
Proof.
  intros pw gpow sf x y n alpha beta a. unfold rfa.
  destruct (Z.ltb_spec n 2) as [Hn|Hn].
  { rewrite refused_then; [reflexivity | cbn [In rfa_class_names]; tauto | reflexivity | reflexivity | exact Hn]. }
  unfold new_then_rfa. cbv zeta.
  rewrite (glue_exp_fixed_init (VArr x) (VArr y) x y n alpha beta a _ eq_refl eq_refl Hn). cbv zeta. cbn [fst snd].
  unfold rfa_of_obj. cbn [assoc seq_eqb String.eqb Ascii.eqb Bool.eqb String.append].
  set (n' := Z.to_nat n). replace n with (Z.of_nat n') by lia.
  assert (Hn' : (2 <= n')%nat) by lia. clearbody n'. clear Hn n. rename n' into n.
  set (A := window_a n alpha a).
  unfold rfa_exp_fixed. fold A. generalize (half_window A). intros al. generalize (lin_part beta al). intros b.
  match goal with |- _ = ?rhs => set (M := rhs) end.
  GlueRfaFixedProofs.meth_lookup.
  do 6 GlueRfaFixedProofs.st_step. GlueRfaFixedProofs.wrap_step. unfold GlueRfaFixedProofs.rfa_wrap_env.
  GlueRfaFixedProofs.for_range_step. rewrite !Nat2Z.id.
  set (e := prepare x y n) in M.
  match goal with |- context [floop ?cf ?mf ?af ?pf ["k"] ?body (map VInt ?ks) ?cur] =>
    destruct (GlueRfaFixedProofs.outer_run cf mf af pf (GlueRfaFixedProofs.loop_inv (GlueRfaFixedProofs.ef_ro e al al b) (en e)) body
               (ef_interval pw e al al b)
               (GlueRfaFixedProofs.ef_body_step pw gpow sf x y n e al al b) ks cur (ye e))
      as (E1 & Hrun & Hro & Hz)
  end.
  { split; [|reflexivity]. cbn [GlueRfaFixedProofs.holds GlueRfaFixedProofs.ef_ro GlueRfaFixedProofs.fx_ro].
    repeat (split; [reflexivity|]). exact I. }
  rewrite Hrun, fexec_k_normal. clear Hrun.
  GlueRfaFixedProofs.finish_fixed n e.
Qed.

(** PiecewiseConstantRFA has no constructor of its own: AbstractRFA's runs, then rfa() *)
Lemma glue_piecewise_ctor_then_rfa : forall pw gpow sf x y n,
  outcome_arr_pair (new_then_rfa pw gpow sf "PiecewiseConstantRFA" [("x", VArr x); ("y", VArr y); ("n", VInt n)])
  = rfa pw gpow PiecewiseConstant x y n.
Proof.
  intros pw gpow sf x y n. unfold rfa.
  destruct (Z.ltb_spec n 2) as [Hn|Hn].
  { rewrite refused_then; [reflexivity | cbn [In rfa_class_names]; tauto | reflexivity | reflexivity | exact Hn]. }
  unfold new_then_rfa. cbv zeta.
  rewrite (glue_abstract_init "PiecewiseConstantRFA" (VArr x) (VArr y) x y n) by (first [cbn [In]; tauto | reflexivity | exact Hn]).
  cbn [fst snd]. unfold rfa_of_obj. cbn [assoc seq_eqb String.eqb Ascii.eqb Bool.eqb String.append].
  GlueRfaFixedProofs.meth_lookup. repeat GlueRfaFixedProofs.st_step. reflexivity.
Qed.

(** the adaptive strategies: `adaptive_smooth` and `exp` are caller-supplied values whose meaning is carried by [gpow] / [pw],
    as in Proofs/GlueRfaAdaptiveProofs.v (whose proof vocabulary is used inside this module) *)
Module AdaptiveComposition.
Import GlueRfaAdaptiveProofs.

Lemma linear_adaptive : forall pw gpow x y n alpha a,
  outcome_arr_pair (new_then_rfa pw gpow (fun t => t) "LinearAdaptiveRFA"
     [("x", VArr x); ("y", VArr y); ("n", VInt n); ("alpha", VNum alpha); ("a", optQ a); ("adaptive_smooth", VOpaque "adaptive_smooth")])
  = rfa pw gpow (LinearAdaptive alpha a) x y n.
Proof.
  intros pw gpow x y n alpha a. unfold rfa.
  destruct (Z.ltb_spec n 2) as [Hn|Hn].
  { rewrite refused_then; [reflexivity | cbn [In rfa_class_names]; tauto | reflexivity | reflexivity | exact Hn]. }
  unfold new_then_rfa. cbv zeta.
  rewrite (glue_linear_adaptive_init (VArr x) (VArr y) x y n alpha a _ eq_refl eq_refl Hn). cbn [fst snd].
  unfold rfa_of_obj. cbn [assoc seq_eqb String.eqb Ascii.eqb Bool.eqb String.append].
  set (n' := Z.to_nat n). replace n with (Z.of_nat n') by lia.
  assert (Hn' : (2 <= n')%nat) by lia. clearbody n'. clear Hn n. rename n' into n.
  unfold call_meth. table_lookup.
  match goal with |- _ = ?rhs => set (M := rhs) end.
  cbn [fbind_params bind app].
  rf_run.
  rewrite ext_of_prepare.
  set (e := prepare x y n). set (w := adaptive_windows gpow e (window_a n alpha a)).
  match goal with |- context [floop ?cf ?mf ?af ?pf ?vs ?body (map VInt ?ks) ?env] =>
    destruct (la_loop pw gpow x y n e (fst w) (snd w) ks env (ye e)) as (env' & Hrun & Henv')
  end.
  { unfold la_env. rf_cbn. repeat split; reflexivity. }
  { intros k Hk. apply window_index_bounds. exact Hk. }
  unfold la_body in Hrun. rewrite Hrun. clear Hrun.
  destruct Henv' as (Hx' & Hy' & Hn'' & _ & _ & Hz').
  rf_run.
  rewrite !(py_slice_cut _ _ n eq_refl) by lia. rf_run.
  subst M. unfold rfa_linear_adaptive. reflexivity.
Qed.
Lemma exp_adaptive : forall pw gpow x y n alpha beta a,
  outcome_arr_pair (new_then_rfa pw gpow (fun t => t) "ExpAdaptiveRFA"
     [("x", VArr x); ("y", VArr y); ("n", VInt n); ("alpha", VNum alpha); ("beta", VNum beta); ("a", optQ a);
      ("adaptive_smooth", VOpaque "adaptive_smooth"); ("exp", VOpaque "exp")])
  = rfa pw gpow (ExpAdaptive alpha beta a) x y n.
Proof.
  intros pw gpow x y n alpha beta a. unfold rfa.
  destruct (Z.ltb_spec n 2) as [Hn|Hn].
  { rewrite refused_then; [reflexivity | cbn [In rfa_class_names]; tauto | reflexivity | reflexivity | exact Hn]. }
  unfold new_then_rfa. cbv zeta.
  rewrite (glue_exp_adaptive_init (VArr x) (VArr y) x y n alpha a _ _ _ eq_refl eq_refl Hn). cbn [fst snd].
  unfold rfa_of_obj. cbn [assoc seq_eqb String.eqb Ascii.eqb Bool.eqb String.append].
  set (n' := Z.to_nat n). replace n with (Z.of_nat n') by lia.
  assert (Hn' : (2 <= n')%nat) by lia. clearbody n'. clear Hn n. rename n' into n.
  unfold call_meth. table_lookup.
  match goal with |- _ = ?rhs => set (M := rhs) end.
  cbn [fbind_params bind app].
  rf_run.
  rewrite ext_of_prepare.
  set (e := prepare x y n). set (w := adaptive_windows gpow e (window_a n alpha a)).
  do 2 (match goal with |- context [fexec ?cf ?mf ?af ?pf ?en (SAssign [LVar ?t] (GListComp ?body ?v ?it) :: ?l)] =>
    rewrite (fexec_cons cf mf af pf en (SAssign [LVar t] (GListComp body v it)) l);
    erewrite (assign_var_run cf mf af pf en t (GListComp body v it));
    [ rewrite fexec_k_normal
    | eapply (listcomp_idx cf mf af pf en body v it _ (fun a => VInt (lin_part beta a)));
      [ rf_run; reflexivity | intro; rf_run; reflexivity ] ]
  end; rf_run).
  match goal with |- context [floop ?cf ?mf ?af ?pf ?vs ?body (map VInt ?ks) ?env] =>
    destruct (ea_loop pw gpow x y n e (fst w) (snd w) beta ks env (ye e)) as (env' & Hrun & Henv')
  end.
  { unfold ea_env. rf_cbn. repeat split; reflexivity. }
  { intros k Hk. apply window_index_bounds. exact Hk. }
  unfold ea_body in Hrun. rewrite Hrun. clear Hrun.
  destruct Henv' as (Hx' & Hy' & Hn'' & _ & _ & _ & _ & _ & Hz').
  rf_run.
  rewrite !(py_slice_cut _ _ n eq_refl) by lia. rf_run.
  subst M. unfold rfa_exp_adaptive. reflexivity.
Qed.
End AdaptiveComposition.

Definition glue_linear_adaptive_ctor_then_rfa := AdaptiveComposition.linear_adaptive.
Definition glue_exp_adaptive_ctor_then_rfa := AdaptiveComposition.exp_adaptive.

Print Assumptions glue_rfa_init_refuses_small_n.
Print Assumptions glue_linear_fixed_init.
Print Assumptions glue_exp_fixed_init.
Print Assumptions glue_linear_adaptive_init.
Print Assumptions glue_exp_adaptive_init.
Print Assumptions glue_window_init_defaults.
Print Assumptions glue_window_init_int_typed.
Print Assumptions glue_abstract_init.
Print Assumptions glue_function_init.
Print Assumptions glue_cubic_spline_init.
Print Assumptions glue_function_init_defaults.
Print Assumptions glue_get_sampling_function.
Print Assumptions glue_get_sampling_function_built.
Print Assumptions glue_piecewise_ctor_then_rfa.
Print Assumptions glue_linear_fixed_ctor_then_rfa.
Print Assumptions glue_exp_fixed_ctor_then_rfa.
Print Assumptions glue_linear_adaptive_ctor_then_rfa.
Print Assumptions glue_exp_adaptive_ctor_then_rfa.

