(** C05, fixed window strategies: LinearFixedRFA / ExpFixedRFA compute the
    documented closed forms (Model/RfaSpec.v).  They are the adaptive interval
    functions run on constant window lists, so the general theorems of
    Proofs/RfaLinkCore.v apply. *)
From TW Require Import Model.RfaSpec Proofs.ListLemmas Proofs.ListLemmas2 Proofs.ListLemmas4
  Proofs.HelpersProofs Proofs.RfaGridProofs Proofs.ListLemmas8 Proofs.RfaLinkCore.
Open Scope Qc_scope.

(** sample (K, i) of the assembled list *)
Theorem assemble_nth : forall (x : list Qc) n out final k i, (k + 1 < length x)%nat -> (i < n)%nat ->
  nthq (k * n + i) (assemble x n out final) = out (Z.of_nat k + 1)%Z (Z.of_nat i) /\
  nthq ((length x - 1) * n) (assemble x n out final) = final /\
  length (assemble x n out final) = ((length x - 1) * n + 1)%nat.
Proof.
  intros x n out final k i Hk Hi.
  destruct (assemble_spec x n out final) as (H1 & H2 & H3).
  split; [now apply H1|]. split; assumption.
Qed.

(** ---------- constant window lists ---------- *)

Lemma nthZ_repeat : forall (h : Z) len K, (0 <= K < Z.of_nat len)%Z -> nthZ (repeat h len) K = h.
Proof.
  intros h len K HK. unfold nthZ.
  assert (H : (Z.to_nat K < len)%nat) by lia. clear HK. revert H. generalize (Z.to_nat K).
  induction len as [|len IH]; intros i Hi; [lia|].
  destruct i as [|i]; [reflexivity|]. cbn [repeat nth]. apply IH. lia.
Qed.

Lemma fixed_h_ge1 : forall n alpha a, (1 <= fixed_h n alpha a)%Z.
Proof.
  intros n alpha a. unfold fixed_h, half_window.
  pose proof (window_a_ge2 := Z.le_max_l 2 (Qc_trunc match a with Some a => a | None => alpha * Qc_of_nat n end)).
  unfold window_a. rewrite Z.quot_div_nonneg by lia. Z.div_mod_to_equations. lia.
Qed.

Lemma const_ok : forall n M h, (1 <= h)%Z -> (2 * h <= Z.of_nat n)%Z ->
  adaptive_ok n M (repeat h (S M)) (repeat h (S M)).
Proof.
  intros n M h H1 H2. unfold adaptive_ok. rewrite repeat_length.
  split; [reflexivity|]. split; [reflexivity|].
  intros K HK. rewrite nthZ_repeat by lia. lia.
Qed.

Lemma lin_fit_x0 : forall x0 y0 x1 y1, lin_fit x0 x0 y0 x1 y1 = y0.
Proof. intros. unfold lin_fit, Qcdiv. ring. Qed.

Section Fixed.
Variables (x y : list Qc) (n : nat) (h : Z).
Hypothesis Hn : (2 <= n)%nat.
Hypothesis Hm : (2 <= length x)%nat.
Hypothesis Hxy : length x = length y.
Hypothesis Hs : ssorted x.
Hypothesis Hh1 : (1 <= h)%Z.
Hypothesis Hh2 : (2 * h <= Z.of_nat n)%Z.
Notation e := (prepare x y n).
Notation M := (length x).
Notation Mz := (Z.of_nat M).
Notation nz := (Z.of_nat n).
Notation cs := (repeat h (S M)).

Lemma cs_nth : forall K, (0 <= K <= Mz)%Z -> nthZ cs K = h.
Proof. intros K HK. apply nthZ_repeat. lia. Qed.

Lemma h_eqb : (h =? 0)%Z = false.
Proof. apply Z.eqb_neq. lia. Qed.

Lemma lf_is_la : forall z k, (1 <= k < Mz)%Z -> lf_interval e h h z k = la_interval e cs cs z k.
Proof.
  intros z k Hk. unfold lf_interval, la_interval, ad_z0, ad_z1. cbv zeta.
  rewrite !cs_nth by lia. rewrite h_eqb. cbn [andb]. reflexivity.
Qed.

Theorem linear_fixed_general :
  cut n (fold_left (lf_interval e h h) (intervals e) (ye e)) = cf_linear_fixed x y n h.
Proof.
  rewrite (fold_left_ext_in _ (la_interval e cs cs)).
  2:{ intros z k Hin. rewrite (intervals_e x y n Hn Hm Hxy) in Hin. apply in_zrange in Hin.
      now apply lf_is_la. }
  pose proof (const_ok n M h Hh1 Hh2) as Hok.
  unfold cf_linear_fixed. unfold RfaSpec.m.
  apply (cut_assemble x y n Hn Hm Hxy).
  - rewrite fold_left_length_inv; [exact (len_ye x y n Hn Hm Hxy)|]. intros z k. apply la_interval_length.
  - intros K i HK Hi. rewrite (linear_pos x y n Hn Hm Hxy Hs cs cs Hok K i HK Hi).
    unfold out_linear_adaptive, out_linear_fixed. rewrite !cs_nth by lia. reflexivity.
  - rewrite (linear_fin x y n Hn Hm Hxy Hs cs cs Hok).
    rewrite !cs_nth by lia. rewrite h_eqb. reflexivity.
Qed.

Section ExpFixed.
Variable pw : Qc -> Qc.
Variable beta : Qc.
Hypothesis Hb0 : 0 <= beta.
Hypothesis Hb1 : beta <= 1.
Notation b := (lin_part beta h).

Lemma ef_is_ea : forall z k, (1 <= k < Mz)%Z ->
  ef_interval pw e h h b z k = ea_interval pw e beta cs cs z k.
Proof.
  intros z k Hk. unfold ef_interval, ea_interval, ad_z0, ad_z1. cbv zeta.
  rewrite !cs_nth by lia. rewrite h_eqb. cbn [andb]. change (en e) with nz.
  destruct (Z.eqb_spec b 0) as [Eb|Eb]; [|reflexivity].
  rewrite Eb. change (0 + 0)%Z with 0%Z. rewrite Z.sub_0_r.
  rewrite lin_fit_x0.
  set (z1 := lin_fit (X e (k + 1) 0) (X e k (nz - h)) (Y e k 0) (X e (k + 1) h) (Y e (k + 1) 0)).
  assert (Hrb : lin_fit (X e k nz) (X e k (nz - h)) (Y e k 0) (X e (k + 1) 0) z1 = z1).
  { rewrite (X_flat x y n (k + 1) 0 k nz) by ring.
    rewrite !(Xg x y n Hn Hm Hxy) by lia.
    rewrite (XK_lin_fit x y n Hn Hm Hxy Hs) by lia.
    replace (nz - (nz - h))%Z with h by lia. field. apply qz_neq0. lia. }
  rewrite Hrb. reflexivity.
Qed.

Theorem exp_fixed_general :
  cut n (fold_left (ef_interval pw e h h b) (intervals e) (ye e)) = cf_exp_fixed pw x y n h b.
Proof.
  rewrite (fold_left_ext_in _ (ea_interval pw e beta cs cs)).
  2:{ intros z k Hin. rewrite (intervals_e x y n Hn Hm Hxy) in Hin. apply in_zrange in Hin.
      now apply ef_is_ea. }
  pose proof (const_ok n M h Hh1 Hh2) as Hok.
  unfold cf_exp_fixed. unfold RfaSpec.m.
  apply (cut_assemble x y n Hn Hm Hxy).
  - rewrite fold_left_length_inv; [exact (len_ye x y n Hn Hm Hxy)|]. intros z k. apply ea_interval_length.
  - intros K i HK Hi. rewrite (exp_pos x y n Hn Hm Hxy Hs cs cs Hok pw beta Hb0 Hb1 K i HK Hi).
    unfold out_exp_adaptive, out_exp_fixed. rewrite !cs_nth by lia. reflexivity.
  - exact (exp_fin x y n Hn Hm Hxy cs cs Hok pw beta Hb0 Hb1).
Qed.

End ExpFixed.
End Fixed.

(** ---------- the requested theorems ---------- *)

Theorem link_linear_fixed : forall x y n alpha a, (2 <= n)%nat -> (2 <= length x)%nat -> length x = length y -> ssorted x ->
  (2 * fixed_h n alpha a <= Z.of_nat n)%Z ->
  snd (rfa_linear_fixed x y n alpha a) = cf_linear_fixed x y n (fixed_h n alpha a).
Proof.
  intros x y n alpha a Hn Hm Hxy Hs Hh.
  unfold rfa_linear_fixed. cbv zeta. cbn [snd].
  change (half_window (window_a n alpha a)) with (fixed_h n alpha a).
  apply linear_fixed_general; try assumption. apply fixed_h_ge1.
Qed.

Theorem link_exp_fixed : forall pw x y n alpha beta a, (2 <= n)%nat -> (2 <= length x)%nat -> length x = length y -> ssorted x ->
  (2 * fixed_h n alpha a <= Z.of_nat n)%Z -> 0 <= beta -> beta <= 1 ->
  snd (rfa_exp_fixed pw x y n alpha beta a) = cf_exp_fixed pw x y n (fixed_h n alpha a) (lin_part beta (fixed_h n alpha a)).
Proof.
  intros pw x y n alpha beta a Hn Hm Hxy Hs Hh Hb0 Hb1.
  unfold rfa_exp_fixed. cbv zeta. cbn [snd].
  change (half_window (window_a n alpha a)) with (fixed_h n alpha a).
  apply exp_fixed_general; try assumption. apply fixed_h_ge1.
Qed.

Print Assumptions assemble_nth.
Print Assumptions link_linear_fixed.
Print Assumptions link_exp_fixed.
