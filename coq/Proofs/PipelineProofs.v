(** C02 — recreate (oversample) + integral matching preserves every original
    average.  Proofs of the lemmas Properties/C02.v refers to. *)
From TW Require Import Model.MatchSpec Model.Interval
  Proofs.ListLemmas Proofs.ListLemmas2 Proofs.ListLemmas3 Proofs.ListLemmas4
  Proofs.SearchProofs Proofs.HelpersProofs Proofs.MatchProofs.
Open Scope Qc_scope.

(** ---------- append_one_sample keeps the hypotheses ---------- *)

Lemma append_keeps_hyps : forall x y p, ssorted x -> (2 <= length x)%nat -> length x = length y ->
  let r := append_one_sample x y p in
  ssorted (fst r) /\ (2 <= length (fst r))%nat /\ length (fst r) = length (snd r).
Proof.
  intros x y p Hs Hl Hxy. cbv zeta. unfold append_one_sample. cbn [fst snd].
  rewrite !app_length. cbn [length]. split; [|split; lia].
  apply ListLemmas4.ssorted_of_nth. intros i Hi. rewrite app_length in Hi. cbn [length] in Hi.
  destruct (Nat.eq_dec (i + 1) (length x)) as [E|E].
  - rewrite nthq_app_l by lia.
    rewrite nthq_app_ge by lia. replace (i + 1 - length x)%nat with O by lia.
    rewrite nthq_cons_0.
    replace (length x - 1)%nat with i by lia.
    assert (Hlt : nthq (length x - 2) x < nthq i x).
    { apply ListLemmas4.ssorted_nth_lt; [exact Hs|lia|lia]. }
    rewrite Qc_two_eq. qclra.
  - rewrite !nthq_app_l by lia.
    apply ListLemmas4.ssorted_nth_lt; [exact Hs|lia|lia].
Qed.

(** ---------- small list facts ---------- *)

Lemma nth_map_seq_nat : forall (f : nat -> nat) s len i d, (i < len)%nat ->
  nth i (map f (seq s len)) d = f (s + i)%nat.
Proof.
  intros f s len i d H.
  rewrite nth_indep with (d' := f O) by (rewrite map_length, seq_length; exact H).
  rewrite map_nth, seq_nth by exact H. reflexivity.
Qed.

Lemma map_nthq_seq : forall {B} (f : Qc -> B) (l : list Qc),
  map f l = map (fun k => f (nthq k l)) (seq 0 (length l)).
Proof.
  intros B f l. induction l as [|a l IH]; [reflexivity|].
  cbn [length seq map]. rewrite nthq_cons_0. f_equal.
  rewrite <- seq_shift, map_map. rewrite IH. apply map_ext. intros k. now rewrite nthq_cons_S.
Qed.

Lemma In_nthq : forall v l, In v l -> exists k, (k < length l)%nat /\ nthq k l = v.
Proof. intros v l H. destruct (In_nth l v 0 H) as [k [Hk E]]. exists k. split; assumption. Qed.

Lemma nthq_In : forall k l, (k < length l)%nat -> In (nthq k l) l.
Proof. intros k l H. unfold nthq. now apply nth_In. Qed.

Lemma increasing_head_lt : forall a l b, increasing (a :: l) -> In b l -> (a < b)%nat.
Proof.
  intros a l. revert a. induction l as [|c l IH]; intros a b H Hin; [destruct Hin|].
  destruct H as [Hac H]. destruct Hin as [<-|Hin]; [exact Hac|].
  specialize (IH c b H Hin). lia.
Qed.

Lemma increasing_tail : forall a l, increasing (a :: l) -> increasing l.
Proof. intros a [|b l] H; [exact I|]. destruct H as [_ H]. exact H. Qed.

Lemma increasing_ext : forall l1 l2, increasing l1 -> increasing l2 ->
  (forall i, In i l1 <-> In i l2) -> l1 = l2.
Proof.
  induction l1 as [|a l1 IH]; intros l2 H1 H2 H.
  - destruct l2 as [|b l2]; [reflexivity|]. exfalso. apply (proj2 (H b)). left. reflexivity.
  - destruct l2 as [|b l2]; [exfalso; apply (proj1 (H a)); left; reflexivity|].
    assert (Eab : a = b).
    { destruct (proj1 (H a) (or_introl eq_refl)) as [E|Hin]; [now symmetry|].
      destruct (proj2 (H b) (or_introl eq_refl)) as [E|Hin']; [exact E|].
      pose proof (increasing_head_lt _ _ _ H2 Hin). pose proof (increasing_head_lt _ _ _ H1 Hin'). lia. }
    subst b. f_equal. apply IH; [now apply increasing_tail in H1|now apply increasing_tail in H2|].
    intros i. split; intros Hi.
    + destruct (proj1 (H i) (or_intror Hi)) as [E|Hin]; [|exact Hin].
      pose proof (increasing_head_lt _ _ _ H1 Hi). lia.
    + destruct (proj2 (H i) (or_intror Hi)) as [E|Hin]; [|exact Hin].
      pose proof (increasing_head_lt _ _ _ H2 Hi). lia.
Qed.

Lemma increasing_map_mul_seq : forall n s len, (1 <= n)%nat ->
  increasing (map (fun k => (k * n)%nat) (seq s len)).
Proof.
  intros n s len Hn. revert s. induction len as [|len IH]; intros s; [exact I|].
  cbn [seq map]. destruct len as [|len]; [exact I|].
  specialize (IH (S s)). cbn [seq map] in IH |- *. split; [nia|exact IH].
Qed.

Lemma gaps_ok_map_mul_seq : forall n s len, (2 <= n)%nat ->
  gaps_ok (map (fun k => (k * n)%nat) (seq s len)).
Proof.
  intros n s len Hn. revert s. induction len as [|len IH]; intros s; [exact I|].
  cbn [seq map]. destruct len as [|len]; [exact I|].
  specialize (IH (S s)). cbn [seq map] in IH |- *. split; [nia|exact IH].
Qed.

Lemma unique_ssorted : forall l, ssorted l -> unique l = l.
Proof.
  induction l as [|a l IH]; intros H; [reflexivity|].
  unfold unique in *. cbn [fold_right]. rewrite IH by (now apply ListLemmas4.ssorted_tail in H).
  destruct l as [|b l]; [reflexivity|]. destruct H as [Hab _].
  cbn [insert_sorted]. apply Qc_ltb_true in Hab. now rewrite Hab.
Qed.

Lemma sumq_map_mul : forall c l, sumq (map (fun v => v * c) l) = sumq l * c.
Proof. intros c l. induction l as [|a l IH]; cbn [map sumq]; [ring|]. rewrite IH. ring. Qed.

Lemma slice_single : forall l j, (j < length l)%nat -> slice l j (j + 1) = [nthq j l].
Proof.
  intros l j H. apply nthq_ext.
  - rewrite slice_length by lia. cbn [length]. lia.
  - intros i Hi. rewrite slice_length in Hi by lia.
    rewrite nthq_slice by lia. replace i with O by lia. rewrite Nat.add_0_r. reflexivity.
Qed.

(** ---------- the oversampled grid ---------- *)

Section Grid.
Variable x : list Qc.
Variable n : nat.
Hypothesis Hs : ssorted x.
Hypothesis Hm : (2 <= length x)%nat.
Hypothesis Hn : (2 <= n)%nat.

Let G := oversample_linspace x n.

Lemma x_not_nil : x <> [].
Proof using Hm. clear -Hm. intros E. subst x. cbn [length] in Hm. inversion Hm. Qed.

Lemma grid_length : length G = ((length x - 1) * n + 1)%nat.
Proof. exact (proj1 (oversample_linspace_spec x n Hn x_not_nil)). Qed.

Lemma grid_at : forall k, (k < length x)%nat -> nthq (k * n) G = nthq k x.
Proof. exact (proj1 (proj2 (oversample_linspace_spec x n Hn x_not_nil))). Qed.

Lemma Nq_neq0 : Qc_of_nat n <> 0.
Proof using Hn. clear -Hn. apply Qc_of_nat_neq0. lia. Qed.

(** closed form, including the right end of the block *)
Lemma grid_nth : forall k i, (k + 1 < length x)%nat -> (i <= n)%nat ->
  nthq (k * n + i) G = nthq k x + Qc_of_nat i * ((nthq (k + 1) x - nthq k x) / Qc_of_nat n).
Proof.
  intros k i Hk Hi. destruct (Nat.eq_dec i n) as [->|Hne].
  - replace (k * n + n)%nat with ((k + 1) * n)%nat by lia.
    rewrite grid_at by lia. field. exact Nq_neq0.
  - unfold G. rewrite (proj2 (proj2 (oversample_linspace_spec x n Hn x_not_nil)) k i Hk) by lia.
    field. exact Nq_neq0.
Qed.

Lemma grid_step_pos : forall k, (k + 1 < length x)%nat ->
  0 < (nthq (k + 1) x - nthq k x) / Qc_of_nat n.
Proof.
  intros k Hk.
  assert (Hd : nthq k x < nthq (k + 1) x) by (apply ListLemmas4.ssorted_nth_lt; [exact Hs|lia|lia]).
  assert (Hp : 0 < Qc_of_nat n) by (apply Qc_of_nat_pos; lia).
  set (r := (nthq (k + 1) x - nthq k x) / Qc_of_nat n).
  assert (Er : r * Qc_of_nat n = nthq (k + 1) x - nthq k x).
  { unfold r. field. exact Nq_neq0. }
  clearbody r. qcnra.
Qed.

Lemma grid_diff : forall k i, (k + 1 < length x)%nat -> (i < n)%nat ->
  nthq (k * n + i + 1) G - nthq (k * n + i) G = (nthq (k + 1) x - nthq k x) / Qc_of_nat n.
Proof.
  intros k i Hk Hi. rewrite <- Nat.add_assoc. rewrite !grid_nth by lia.
  rewrite Nat.add_1_r, Qc_of_nat_S. ring.
Qed.

Lemma grid_ssorted : ssorted G.
Proof.
  apply ListLemmas4.ssorted_of_nth. intros j Hj. rewrite grid_length in Hj.
  assert (Hj' : (j < (length x - 1) * n)%nat) by lia.
  destruct (block_index n (length x - 1) j Hj') as [k [i [Hk [Hi ->]]]].
  pose proof (grid_diff k i ltac:(lia) Hi) as Hd.
  pose proof (grid_step_pos k ltac:(lia)) as Hp.
  set (a := nthq (k * n + i + 1) G) in *. set (b := nthq (k * n + i) G) in *.
  clearbody a b. qclra.
Qed.

Lemma grid_not_nil : G <> [].
Proof. apply length_pos_not_nil. rewrite grid_length, Nat.add_1_r. apply Nat.lt_0_succ. Qed.

Lemma grid_pos_lt : forall k, (k < length x)%nat -> (k * n < length G)%nat.
Proof. intros k Hk. rewrite grid_length. nia. Qed.

(** exact hit: the closest grid element to x_k sits at k*n *)
Lemma grid_closest : forall k, (k < length x)%nat ->
  closest_spec G (nthq k x) = Z.of_nat (k * n).
Proof.
  intros k Hk.
  apply (is_closest_unique G (nthq k x)).
  - apply closest_spec_is_closest; [exact grid_ssorted|exact grid_not_nil].
  - pose proof (grid_pos_lt k Hk) as Hlt.
    assert (E0 : zn (Z.of_nat (k * n)) G - nthq k x = 0).
    { unfold zn. rewrite Nat2Z.id, grid_at by exact Hk. ring. }
    split; [unfold in_range; lia|].
    intros j Hj. rewrite E0.
    destruct (Z.eq_dec j (Z.of_nat (k * n))) as [->|Hne].
    + right. rewrite E0. split; [reflexivity|lia].
    + left. unfold in_range in Hj.
      assert (Hz : zn j G <> nthq k x).
      { unfold zn. rewrite <- (grid_at k Hk). intros E.
        apply ListLemmas4.ssorted_nth_inj in E; [lia|exact grid_ssorted|lia|exact Hlt]. }
      set (z := zn j G) in *. clearbody z.
      unfold Qc_abs. qc_case (Qc_leb 0 0); [|qclra].
      qc_case (Qc_leb 0 (z - nthq k x)).
      * assert (z - nthq k x <> 0) by (intros E; apply Hz; qclra). qclra.
      * qclra.
Qed.

Lemma grid_find_closest :
  find_closest G x = Ok (map (fun k => Z.of_nat (k * n)) (seq 0 (length x))).
Proof.
  rewrite closest_scan_correct;
    [|exact grid_ssorted|apply ssorted_nondecr; exact Hs|exact grid_not_nil|exact x_not_nil].
  f_equal. rewrite (map_nthq_seq (closest_spec G) x).
  apply map_ext_in. intros k Hk. apply in_seq in Hk. apply grid_closest. lia.
Qed.

Lemma grid_take : take G (map (fun k => Z.of_nat (k * n)) (seq 0 (length x))) = x.
Proof.
  unfold take. rewrite map_map.
  transitivity (map (fun k => nthq k x) (seq 0 (length x))).
  - apply map_ext_in. intros k Hk. apply in_seq in Hk. rewrite Nat2Z.id. apply grid_at. lia.
  - symmetry. rewrite <- (map_id x) at 1. apply (map_nthq_seq (fun v => v) x).
Qed.

Lemma grid_where_isin : where_isin G x = map (fun k => (k * n)%nat) (seq 0 (length x)).
Proof.
  apply increasing_ext.
  - apply where_isin_from_increasing.
  - apply increasing_map_mul_seq. lia.
  - intros i. rewrite where_isin_in, in_map_iff. split.
    + intros [Hi Hin]. apply In_nthq in Hin. destruct Hin as [k [Hk E]].
      exists k. split; [|apply in_seq; lia].
      rewrite <- (grid_at k Hk) in E.
      apply ListLemmas4.ssorted_nth_inj in E; [exact E|exact grid_ssorted|now apply grid_pos_lt|exact Hi].
    + intros [k [<- Hk]]. apply in_seq in Hk. split; [apply grid_pos_lt; lia|].
      rewrite grid_at by lia. apply nthq_In. lia.
Qed.

Lemma grid_fixed_points :
  resolve_fixed G x (ByStrategy Closest)
  = Ok (map (fun k => (k * n)%nat) (seq 0 (length x)), seq 0 (length x)).
Proof.
  unfold resolve_fixed, find_indices. rewrite grid_find_closest. cbn [bind].
  rewrite grid_take, (unique_ssorted x Hs), grid_where_isin.
  rewrite map_length, seq_length, Nat.eqb_refl. reflexivity.
Qed.

Lemma fx_grid : forall j, (j < length x)%nat ->
  fx (map (fun k => (k * n)%nat) (seq 0 (length x))) j = (j * n)%nat.
Proof. intros j Hj. unfold fx. rewrite nth_map_seq_nat by exact Hj. reflexivity. Qed.

End Grid.

Lemma pipeline_fixed_points : forall x n, ssorted x -> (2 <= length x)%nat -> (2 <= n)%nat ->
  resolve_fixed (oversample_linspace x n) x (ByStrategy Closest)
  = Ok (map (fun k => (k * n)%nat) (seq 0 (length x)), seq 0 (length x)).
Proof. intros x n Hs Hm Hn. exact (grid_fixed_points x n Hs Hm Hn). Qed.

(** ---------- recreate + match: every original interval keeps its integral ---------- *)

Lemma ref_integral_rectangle_seq : forall x y k, (k + 1 < length x)%nat -> length x = length y ->
  ref_integral Rectangle x y (seq 0 (length x)) k = nthq k y * (nthq (k + 1) x - nthq k x).
Proof.
  intros x y k Hk Hxy. unfold ref_integral, fx.
  rewrite !seq_nth by lia. cbn [Nat.add integ].
  rewrite slice_single by (rewrite rectangle_integral_length by exact Hxy; lia).
  cbn [sumq]. rewrite rectangle_integral_nth by assumption. ring.
Qed.

Lemma pipeline_main : forall pw x y n ys rt, PwOk pw -> known_rule rt ->
  ssorted x -> (2 <= length x)%nat -> length x = length y -> (2 <= n)%nat ->
  length ys = ((length x - 1) * n + 1)%nat ->
  exists res, match_ref pw (oversample_linspace x n) ys x y (ByStrategy Closest) rt Rectangle = Ok res /\
    length res = length ys /\
    forall k, (k + 1 < length x)%nat ->
      total rt (slice (oversample_linspace x n) (k * n) ((k + 1) * n + 1))
               (slice res (k * n) ((k + 1) * n + 1))
      = nthq k y * (nthq (k + 1) x - nthq k x).
Proof.
  intros pw x y n ys rt Hpw Hrt Hs Hm Hxy Hn Hys.
  pose proof (grid_length x n Hm Hn) as HGl.
  destruct (match_ref_windows pw (oversample_linspace x n) ys x y (ByStrategy Closest) rt Rectangle
              (map (fun k => (k * n)%nat) (seq 0 (length x))) (seq 0 (length x)))
    as [res [Hres [Hlen Hwin]]].
  - exact Hpw.
  - exact Hrt.
  - right. reflexivity.
  - exact (grid_ssorted x n Hs Hm Hn).
  - rewrite HGl. symmetry. exact Hys.
  - exact Hxy.
  - exact (grid_fixed_points x n Hs Hm Hn).
  - apply gaps_ok_map_mul_seq. exact Hn.
  - intros i Hi. apply in_map_iff in Hi. destruct Hi as [k [<- Hk]]. apply in_seq in Hk.
    apply (grid_pos_lt x n Hm Hn). lia.
  - rewrite map_length. reflexivity.
  - exists res. split; [exact Hres|]. split; [exact Hlen|].
    intros k Hk. specialize (Hwin k). rewrite map_length, seq_length in Hwin.
    specialize (Hwin Hk). unfold window in Hwin.
    rewrite !fx_grid in Hwin by lia.
    rewrite ref_integral_rectangle_seq in Hwin by assumption. exact Hwin.
Qed.

(** ---------- rectangle target rule: block averaging gives back (x, y) ---------- *)

Lemma nth_map_nanmean : forall rows k, (k < length rows)%nat ->
  nthq k (map nanmean rows) = nanmean (nth k rows []).
Proof.
  intros rows k Hk. unfold nthq.
  rewrite nth_indep with (d' := nanmean []) by (rewrite map_length; exact Hk).
  apply map_nth.
Qed.

Lemma pipeline_rectangle_average : forall pw x y n ys res, PwOk pw ->
  ssorted x -> (2 <= length x)%nat -> length x = length y -> (2 <= n)%nat ->
  length ys = ((length x - 1) * n + 1)%nat ->
  match_ref pw (oversample_linspace x n) ys x y (ByStrategy Closest) Rectangle Rectangle = Ok res ->
  fst (average (oversample_linspace x n) res n) = x /\
  length (snd (average (oversample_linspace x n) res n)) = length x /\
  forall k, (k + 1 < length x)%nat -> nthq k (snd (average (oversample_linspace x n) res n)) = nthq k y.
Proof.
  intros pw x y n ys res Hpw Hs Hm Hxy Hn Hys Hres.
  destruct (pipeline_main pw x y n ys Rectangle Hpw (or_intror eq_refl) Hs Hm Hxy Hn Hys)
    as [res' [Hres' [Hlen Hwin]]].
  rewrite Hres in Hres'. injection Hres' as <-.
  pose proof (x_not_nil x Hm) as Hx.
  pose proof (grid_length x n Hm Hn) as HGl.
  assert (Hrl : length res = ((length x - 1) * n + 1)%nat) by congruence.
  unfold average. cbn [fst snd]. unfold to_2d_array. cbn [arr isize].
  rewrite HGl, Hrl, (nrows_oversampled x n Hn Hx).
  split; [|split].
  - rewrite (oversample_linspace_ge2 x n Hn). apply rows_first_oversample_linspace_go. lia.
  - rewrite map_length. apply rows_go_length.
  - intros k Hk.
    rewrite nth_map_nanmean by (rewrite rows_go_length; lia).
    rewrite rows_go_nth by lia.
    assert (Hkn : (k * n + n <= length res)%nat) by (rewrite Hrl; nia).
    rewrite <- (firstn_skipn n (skipn (k * n) res)).
    rewrite pad_row_app_exact by (rewrite firstn_length, skipn_length; lia).
    unfold nanmean. rewrite row_sum_map_Some, row_cnt_map_Some.
    rewrite firstn_length, skipn_length. replace (Nat.min n (length res - k * n)) with n by lia.
    specialize (Hwin k Hk).
    set (d := nthq (k + 1) x - nthq k x) in *.
    set (S := sumq (firstn n (skipn (k * n) res))).
    assert (Hd : d <> 0).
    { assert (nthq k x < nthq (k + 1) x) by (apply ListLemmas4.ssorted_nth_lt; [exact Hs|lia|lia]).
      unfold d. intros E. qclra. }
    pose proof (Nq_neq0 n Hn) as HN.
    assert (Htot : total Rectangle (slice (oversample_linspace x n) (k * n) ((k + 1) * n + 1))
                     (slice res (k * n) ((k + 1) * n + 1)) = S * (d / Qc_of_nat n)).
    { unfold total, S. cbn [integ]. rewrite <- sumq_map_mul. f_equal.
      assert (Hb1 : ((k + 1) * n + 1 <= length res)%nat) by (rewrite Hrl; nia).
      assert (Hb2 : ((k + 1) * n + 1 <= length (oversample_linspace x n))%nat) by (rewrite HGl; nia).
      assert (Hl1 : length (slice (oversample_linspace x n) (k * n) ((k + 1) * n + 1)) = (n + 1)%nat)
        by (rewrite slice_length by lia; lia).
      assert (Hl2 : length (slice res (k * n) ((k + 1) * n + 1)) = (n + 1)%nat)
        by (rewrite slice_length by lia; lia).
      apply nthq_ext.
      - rewrite rectangle_integral_length by congruence.
        rewrite Hl1, map_length, firstn_length, skipn_length. lia.
      - intros i Hi. rewrite rectangle_integral_length in Hi by congruence. rewrite Hl1 in Hi.
        rewrite rectangle_integral_nth by (try rewrite Hl1; try rewrite Hl2; lia).
        rewrite !nthq_slice by lia.
        rewrite nthq_map by (rewrite firstn_length, skipn_length; lia).
        rewrite nthq_firstn by lia. rewrite nthq_skipn.
        replace (k * n + (i + 1))%nat with (k * n + i + 1)%nat by lia.
        rewrite (grid_diff x n Hm Hn k i Hk) by lia. reflexivity. }
    rewrite Htot in Hwin. clearbody S d.
    transitivity (S * (d / Qc_of_nat n) / d); [field; split; assumption|].
    rewrite Hwin. field. exact Hd.
Qed.
