(** General list facts used by Proofs/WeaverProofs.v:
    monotone maps keep strict order, np.linspace, Python slices with step 1,
    length of an in-place window stretch, index_of, a pigeonhole bound. *)
From TW Require Import Proofs.ListLemmas Proofs.ListLemmas2 Proofs.ListLemmas3 Proofs.ListLemmas4
  Proofs.MatchProofs.
From TW Require Import Model.MatchSpec Model.Weaver.
Open Scope Qc_scope.

(** ---------- strictly monotone maps ---------- *)

Lemma ssorted_map_mono : forall (f : Qc -> Qc) l,
  (forall a b, a < b -> f a < f b) -> ssorted l -> ssorted (map f l).
Proof.
  intros f l Hf. induction l as [|a l IH]; intros H; [exact I|].
  destruct l as [|b l]; [exact I|].
  destruct H as [Hab H]. cbn [map]. split; [now apply Hf|]. apply IH. exact H.
Qed.

Lemma ssorted_shift : forall v l, ssorted l -> ssorted (map (fun a => a + v) l).
Proof. intros v l H. apply ssorted_map_mono; [|exact H]. intros a b Hab. qclra. Qed.

Lemma ssorted_scale : forall v l, 0 < v -> ssorted l -> ssorted (map (fun a => a * v) l).
Proof. intros v l Hv H. apply ssorted_map_mono; [|exact H]. intros a b Hab. qcnra. Qed.

(** ---------- np.linspace ---------- *)

Lemma linspace_length : forall a b n, length (linspace a b n) = n.
Proof.
  intros a b n. unfold linspace. destruct n as [|[|n]]; [reflexivity|reflexivity|].
  now rewrite map_length, seq_length.
Qed.

Lemma linspace_sorted : forall a b n, a < b -> ssorted (linspace a b n).
Proof.
  intros a b n Hab. unfold linspace. destruct n as [|[|n]]; [exact I|exact I|].
  apply ssorted_of_nth. intros i Hi. rewrite map_length, seq_length in Hi.
  rewrite !nthq_map_seq by lia. cbn [Nat.add].
  replace (i + 1)%nat with (S i) by lia. rewrite (Qc_of_nat_S i).
  assert (Hm : 0 < Qc_of_nat (S n)) by (apply Qc_of_nat_pos; lia).
  assert (Hinv : 0 < / Qc_of_nat (S n)).
  { unfold Qclt in *. rewrite this_inv. apply Qinv_lt_0_compat. exact Hm. }
  unfold Qcdiv. set (iv := / Qc_of_nat (S n)) in *. clearbody iv.
  set (qi := Qc_of_nat i). clearbody qi.
  assert (Hp : 0 < (b - a) * iv) by qcnra.
  qcnra.
Qed.

(** ---------- Python slices with step 1 ---------- *)

Lemma skipn_nthq_cons : forall a (l : list Qc), (a < length l)%nat ->
  skipn a l = nthq a l :: skipn (S a) l.
Proof.
  induction a as [|a IH]; intros [|x l] H; cbn [length] in H; try lia.
  - reflexivity.
  - rewrite nthq_cons_S. change (skipn (S a) (x :: l)) with (skipn a l).
    change (skipn (S (S a)) (x :: l)) with (skipn (S a) l). apply IH. lia.
Qed.

Lemma slice_cons : forall l a b, (a < b)%nat -> (a < length l)%nat ->
  slice l a b = nthq a l :: slice l (S a) b.
Proof.
  intros l a b Hab Ha. unfold slice. rewrite (skipn_nthq_cons a l Ha).
  replace (b - a)%nat with (S (b - S a)) by lia. reflexivity.
Qed.

Lemma slice_none : forall l a b, (b <= a)%nat -> slice l a b = [].
Proof. intros l a b H. unfold slice. replace (b - a)%nat with O by lia. reflexivity. Qed.

Lemma take_stride_slice : forall fuel l a b, (0 <= a)%Z -> (b <= Z.of_nat (length l))%Z ->
  (Z.to_nat b - Z.to_nat a <= fuel)%nat ->
  take_stride l a 1 b fuel = slice l (Z.to_nat a) (Z.to_nat b).
Proof.
  induction fuel as [|f IH]; intros l a b Ha Hb Hf.
  - cbn [take_stride]. symmetry. apply slice_none. lia.
  - cbn [take_stride]. change (0 <? 1)%Z with true. cbv iota.
    destruct (Z.ltb_spec a b) as [Hlt|Hge].
    + rewrite IH by lia. replace (Z.to_nat (a + 1)) with (S (Z.to_nat a)) by lia.
      symmetry. apply slice_cons; lia.
    + symmetry. apply slice_none. lia.
Qed.

(** the two cut positions depend only on the length of the list *)
Definition sl_pos (len v : Z) : nat :=
  Z.to_nat (clampZ (if (v <? 0)%Z then (v + len)%Z else v) 0 len).

Lemma py_slice_step1 : forall l start stop,
  py_slice l start stop 1 =
  Ok (slice l (sl_pos (Z.of_nat (length l)) start) (sl_pos (Z.of_nat (length l)) stop)).
Proof.
  intros l start stop. unfold py_slice, sl_pos.
  change (1 =? 0)%Z with false. change (0 <? 1)%Z with true. cbv iota.
  f_equal. apply take_stride_slice; unfold clampZ; lia.
Qed.

(** ---------- a window stretch written back in place keeps the length ---------- *)

Lemma stretch_len_min : forall pw r x y t,
  length (stretch pw r x y t) = Nat.min (length y) (length x).
Proof. intros. unfold stretch. now rewrite map2_len, weights_length. Qed.

Lemma splice_stretch_length : forall pw r x y s e t, length x = length y ->
  length (splice y s (stretch pw r (slice x s e) (slice y s e) t)) = length y.
Proof.
  intros pw r x y s e t Hxy. unfold splice.
  rewrite !app_length, firstn_length, skipn_length, stretch_len_min, !slice_len. lia.
Qed.

Lemma interval_loop_length : forall pw r x targets f y, length x = length y ->
  length (interval_loop pw r x y targets f) = length y.
Proof.
  intros pw r x. induction targets as [|t ts IH]; intros f y Hxy; [reflexivity|].
  destruct f as [|s [|e f]]; [reflexivity|reflexivity|].
  cbn [interval_loop]. rewrite IH.
  - now apply splice_stretch_length.
  - now rewrite splice_stretch_length.
Qed.

Lemma interval_match_length : forall pw r x y targets f res, length x = length y ->
  interval_match pw r x y targets f = Ok res -> length res = length y.
Proof.
  intros pw r x y targets f res Hxy H. unfold interval_match in H.
  destruct r.
  - destruct (interval_defined pw Trapezoid x targets f); [|discriminate].
    injection H as <-. now apply interval_loop_length.
  - destruct (interval_defined pw Rectangle x targets f); [|discriminate].
    injection H as <-. now apply interval_loop_length.
  - destruct targets as [|t ts]; [congruence|].
    destruct f as [|s [|e f]]; congruence.
Qed.

Lemma match_ref_length : forall pw x y xr yr m rt rr res, length x = length y ->
  match_ref pw x y xr yr m rt rr = Ok res -> length res = length y.
Proof.
  intros pw x y xr yr m rt rr res Hxy H. unfold match_ref in H.
  destruct rt; [| |discriminate].
  all: destruct (resolve_fixed x xr m) as [fr|e]; cbn [bind] in H; [|discriminate].
  all: destruct (integral xr yr rr) as [iv|e]; cbn [bind] in H; [|discriminate].
  all: eapply interval_match_length; eassumption.
Qed.

(** ---------- index_of ---------- *)

Lemma index_of_absent : forall v l i, ~ In v l -> index_of v l i = None.
Proof.
  intros v. induction l as [|a l IH]; intros i H; [reflexivity|].
  cbn [index_of]. qc_case (Qc_eqb a v).
  - exfalso. apply H. now left.
  - apply IH. intro Hin. apply H. now right.
Qed.

Lemma index_of_present : forall v l i, In v l -> exists k, index_of v l i = Some k.
Proof.
  intros v. induction l as [|a l IH]; intros i H; [destruct H|].
  cbn [index_of]. qc_case (Qc_eqb a v).
  - now exists i.
  - destruct H as [H|H]; [congruence|]. now apply IH.
Qed.

(** ---------- pigeonhole: positions of x holding a value of v ---------- *)

Lemma increasing_NoDup : forall f, increasing f -> NoDup f.
Proof.
  induction f as [|a f IH]; intros H; [constructor|].
  constructor.
  - intro Hin. assert (Hlt : forall b, In b f -> (a < b)%nat).
    { clear IH Hin. revert a H. induction f as [|c f IHf]; intros a H b Hb; [destruct Hb|].
      destruct H as [Hac H]. destruct Hb as [<-|Hb]; [exact Hac|].
      specialize (IHf c H b Hb). lia. }
    specialize (Hlt a Hin). lia.
  - apply IH. destruct f as [|b f]; [exact I|]. exact (proj2 H).
Qed.

Lemma NoDup_map_inj_in : forall {A B} (f : A -> B) l,
  (forall a b, In a l -> In b l -> f a = f b -> a = b) -> NoDup l -> NoDup (map f l).
Proof.
  intros A B f. induction l as [|a l IH]; intros Hinj Hnd; [constructor|].
  inversion Hnd as [|? ? Hna Hnd']; subst. cbn [map]. constructor.
  - intro Hin. apply in_map_iff in Hin. destruct Hin as [b [E Hb]].
    assert (b = a) by (apply Hinj; [now right|now left|exact E]). subst b. contradiction.
  - apply IH; [|exact Hnd']. intros u w Hu Hw. apply Hinj; now right.
Qed.

Lemma where_isin_short : forall x v q, ssorted x -> In q v -> ~ In q x ->
  (S (length (where_isin x v)) <= length v)%nat.
Proof.
  intros x v q Hs Hq Hnq.
  set (fi := where_isin x v).
  assert (Hfi : forall i, In i fi -> (i < length x)%nat /\ In (nthq i x) v).
  { intros i Hi. now apply where_isin_in. }
  assert (Hnd : NoDup (q :: map (fun i => nthq i x) fi)).
  { constructor.
    - intro Hin. apply in_map_iff in Hin. destruct Hin as [i [E Hi]].
      apply Hnq. rewrite <- E. unfold nthq. apply nth_In. exact (proj1 (Hfi i Hi)).
    - apply NoDup_map_inj_in.
      + intros i j Hi Hj E. apply (ssorted_nth_inj x i j Hs); [exact (proj1 (Hfi i Hi))|exact (proj1 (Hfi j Hj))|exact E].
      + apply increasing_NoDup. apply where_isin_from_increasing. }
  assert (Hincl : incl (q :: map (fun i => nthq i x) fi) v).
  { intros u [<-|Hu]; [exact Hq|]. apply in_map_iff in Hu. destruct Hu as [i [<- Hi]]. exact (proj2 (Hfi i Hi)). }
  pose proof (NoDup_incl_length Hnd Hincl) as Hlen. cbn [length] in Hlen.
  rewrite map_length in Hlen. exact Hlen.
Qed.
