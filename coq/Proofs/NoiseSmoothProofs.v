(** Proofs for C15 / C16: the repository's own part of noise and smoothing (what reaches NumPy's generator
    and FITPACK, and what is done with what comes back). *)
From Coq Require Import String.
From TW Require Import Model.WeaverSpec Gen.Defaults Proofs.ListLemmas Proofs.ListLemmas2.
Open Scope Qc_scope.

(** ---------- C15 ---------- *)
Lemma noise_additive : forall s draw s', step s (ONoise draw) = (s', Ok tt) ->
  wx s' = wx s /\ wy s' = map2 Qcplus (wy s) draw /\
  wox s' = wox s /\ woy s' = woy s /\ wrx s' = wrx s /\ wry s' = wry s /\
  (length draw = length (wy s) -> length (wy s') = length (wy s) /\
     forall i, (i < length (wy s))%nat -> nthq i (wy s') - nthq i (wy s) = nthq i draw).
Proof.
  intros s draw s' H. cbn [step] in H. unfold done in H. inversion H; subst; clear H.
  cbn. repeat split; try reflexivity.
  - rewrite map2_length by (symmetry; exact H). exact H.
  - intros i Hi. change (nth i (map2 Qcplus (wy s) draw) (Q2Qc 0)) with (nthq i (map2 Qcplus (wy s) draw)).
    rewrite nthq_map2 by (try rewrite H; exact Hi). ring.
Qed.

(** scale^2 * SNR = mean(y^2): the definition of the signal-to-noise ratio *)
Lemma scale_definition : forall a snr_lin, snr_lin <> 0 -> noise_var a snr_lin * snr_lin = signal_power a.
Proof. intros a snr Hs. unfold noise_var. field. exact Hs. Qed.

Lemma signal_power_is_mean_of_squares : forall a, signal_power a = sumq (map (fun v => v * v) a) / Qc_of_nat (length a).
Proof. intros a. unfold signal_power, meanq. now rewrite map_length. Qed.

(** mean(y^2) is not mean(y)^2: a sign-changing signal tells them apart *)
Lemma scale_uses_signal_power :
  signal_power [qz 1; qz (-1); qz 3] <> meanq [qz 1; qz (-1); qz 3] * meanq [qz 1; qz (-1); qz 3].
Proof. apply Qc_eqb_false. vm_compute. reflexivity. Qed.

(** ---------- C16 ---------- *)
Lemma smoothing_default : forall y, smoothing_s y None = Qc_of_nat (length y) * varq y.
Proof. reflexivity. Qed.
Lemma smoothing_explicit : forall y s, smoothing_s y (Some s) = s.
Proof. reflexivity. Qed.

Lemma smooth_keeps_x_and_length : forall s ys s', length ys = length (wy s) -> step s (OSmooth ys) = (s', Ok tt) ->
  wx s' = wx s /\ wy s' = ys /\ length (wy s') = length (wy s) /\
  wox s' = wox s /\ woy s' = woy s /\ wrx s' = wrx s /\ wry s' = wry s.
Proof.
  intros s ys s' Hl H. cbn [step] in H. unfold done in H. inversion H; subst; clear H.
  cbn. repeat split; auto.
Qed.

(** the residual bound and the identities hold for every FITPACK answer meeting its contract *)
Definition sq_residual (ys y : list Qc) : Qc := sumq (map2 (fun a b => (a - b) * (a - b)) ys y).
Definition fitpack_contract (y ys : list Qc) (sval : Qc) : Prop :=
  length ys = length y /\ sq_residual ys y <= sval * (1 + Q2Qc (1 # 1000)) /\ (sval = 0 -> ys = y).

Lemma smooth_residual_bound : forall s ys sopt s', fitpack_contract (wy s) ys (smoothing_s (wy s) sopt) ->
  step s (OSmooth ys) = (s', Ok tt) ->
  sq_residual (wy s') (wy s) <= smoothing_s (wy s) sopt * (1 + Q2Qc (1 # 1000)) /\
  (sopt = None -> sq_residual (wy s') (wy s) <= Qc_of_nat (length (wy s)) * varq (wy s) * (1 + Q2Qc (1 # 1000))) /\
  (sopt = Some 0 -> wy s' = wy s).
Proof.
  intros s ys sopt s' [Hl [Hr Hz]] H. cbn [step] in H. unfold done in H. inversion H; subst; clear H.
  cbn. split; [exact Hr|]. split.
  - intros ->. exact Hr.
  - intros ->. apply Hz. reflexivity.
Qed.

(** to_function's default smoothing condition is 0 (read from the GENERATED defaults), so its spline interpolates *)
Lemma to_function_default_interpolates :
  default_of "weaver.Weaver.to_function.s"%string defaults = Some (DNum 0%Q) /\
  default_of "process.spline_smooth.s"%string defaults = Some DNone /\
  default_of "process.noise_gauss.snr_in_db"%string defaults = Some (DBool true) /\
  default_of "process.noise_gauss.std"%string defaults = Some (DNum 1%Q).
Proof. vm_compute. repeat split. Qed.

Lemma var_nonneg_example : Qc_eqb (varq [qz 1; qz 3]) (qz 1) = true.
Proof. vm_compute. reflexivity. Qed.
