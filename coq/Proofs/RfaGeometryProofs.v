(** Geometry of the recreate-from-average transitions (property C06): closed forms of the
    generated shape functions, the border value of the closed form of Model/RfaSpec.v, the
    abscissae of the recreated series and the adaptive window split. *)
From Coq Require Import Qround.
From TW Require Import Model.RfaSpec Proofs.ListLemmas Proofs.ListLemmas2 Proofs.ListLemmas4
  Proofs.HelpersProofs Proofs.RfaGridProofs.
Open Scope Qc_scope.

Lemma Qc_sub_neq0 : forall a b : Qc, a <> b -> b - a <> 0.
Proof. intros a b H E. apply H. qclra. Qed.

Theorem funfit_closed_forms : forall pw x x0 y0 x1 y1, x0 <> x1 ->
  let t := (x - x0) / (x1 - x0) in
  lin_fit x x0 y0 x1 y1 = y0 + (y1 - y0) * t /\
  exp_fit pw x x0 y0 x1 y1 = y0 + (y1 - y0) * pw t /\
  exp_xy_fit pw x x0 y0 x1 y1 = y0 + (y1 - y0) * (1 - pw (1 - t)) /\
  exp_lin_fit pw x x0 y0 x1 y1 = y0 + (y1 - y0) * (t * t + (1 - t) * pw t) /\
  lin_exp_xy_fit pw x x0 y0 x1 y1 = y0 + (y1 - y0) * (t * (Qc_two - t - pw (1 - t))).
Proof.
  intros pw x x0 y0 x1 y1 Hne t.
  assert (Hd : x1 - x0 <> 0) by (apply Qc_sub_neq0; exact Hne).
  assert (Ht : (x1 - x) / (x1 - x0) = 1 - t) by (subst t; field; exact Hd).
  assert (Ht' : (x - x0) / (x1 - x0) = t) by reflexivity.
  assert (H2 : Qc_two = 1 + 1) by apply Qc_two_eq.
  split; [|split; [|split; [|split]]].
  - unfold lin_fit. subst t. field. exact Hd.
  - unfold exp_fit. reflexivity.
  - unfold exp_xy_fit. rewrite Ht. reflexivity.
  - unfold exp_lin_fit, lin_fit, exp_fit. rewrite Ht'.
    generalize (pw t). intros p. subst t. field. exact Hd.
  - unfold lin_exp_xy_fit, lin_fit, exp_xy_fit. rewrite Ht, H2.
    generalize (pw (1 - t)). intros p. subst t. field. exact Hd.
Qed.

Theorem funfit_hit_both_ends : forall pw x0 y0 x1 y1, x0 <> x1 -> pw 0 = 0 -> pw 1 = 1 ->
  lin_fit x0 x0 y0 x1 y1 = y0 /\ lin_fit x1 x0 y0 x1 y1 = y1 /\
  exp_fit pw x0 x0 y0 x1 y1 = y0 /\ exp_fit pw x1 x0 y0 x1 y1 = y1 /\
  exp_xy_fit pw x0 x0 y0 x1 y1 = y0 /\ exp_xy_fit pw x1 x0 y0 x1 y1 = y1 /\
  exp_lin_fit pw x0 x0 y0 x1 y1 = y0 /\ exp_lin_fit pw x1 x0 y0 x1 y1 = y1 /\
  lin_exp_xy_fit pw x0 x0 y0 x1 y1 = y0 /\ lin_exp_xy_fit pw x1 x0 y0 x1 y1 = y1.
Proof.
  intros pw x0 y0 x1 y1 Hne Hp0 Hp1.
  assert (Hd : x1 - x0 <> 0) by (apply Qc_sub_neq0; exact Hne).
  destruct (funfit_closed_forms pw x0 x0 y0 x1 y1 Hne) as (A1 & A2 & A3 & A4 & A5).
  destruct (funfit_closed_forms pw x1 x0 y0 x1 y1 Hne) as (B1 & B2 & B3 & B4 & B5).
  cbv zeta in *.
  assert (T0 : (x0 - x0) / (x1 - x0) = 0) by (field; exact Hd).
  assert (T1 : (x1 - x0) / (x1 - x0) = 1) by (field; exact Hd).
  assert (E10 : 1 - 0 = 1) by ring.
  assert (E11 : 1 - 1 = 0) by ring.
  rewrite T0 in A1, A2, A3, A4, A5. rewrite T1 in B1, B2, B3, B4, B5.
  rewrite A1, A2, A3, A4, A5, B1, B2, B3, B4, B5, Qc_two_eq.
  rewrite ?E10, ?E11, ?Hp0, ?Hp1.
  repeat (split; [ring|]). ring.
Qed.


Lemma Qc_of_Z_0 : Qc_of_Z 0 = 0.
Proof. apply Qc_is_canon. reflexivity. Qed.

Lemma Qc_of_Z_pos : forall z, (0 < z)%Z -> 0 < Qc_of_Z z.
Proof.
  intros z Hz. unfold Qclt, Qc_of_Z. rewrite (this_Q2Qc (inject_Z z)).
  rewrite Zlt_Qlt in Hz. exact Hz.
Qed.

Lemma Qc_of_Z_nonneg : forall z, (0 <= z)%Z -> 0 <= Qc_of_Z z.
Proof.
  intros z Hz. unfold Qcle, Qc_of_Z. rewrite (this_Q2Qc (inject_Z z)).
  rewrite Zle_Qle in Hz. exact Hz.
Qed.

Lemma Qc_pos_neq0 : forall a : Qc, 0 < a -> a <> 0.
Proof. intros a H E. qclra. Qed.

Lemma dK_pos : forall x K, ssorted x -> (2 <= length x)%nat -> 0 < dK x K.
Proof.
  intros x K Hs Hx. unfold dK, m.
  assert (L : forall i j, (i < j)%nat -> (j < length x)%nat -> 0 < nthq j x - nthq i x).
  { intros i j Hij Hj. pose proof (ssorted_nth_lt x i j Hs Hij Hj) as H. qclra. }
  destruct (Z.leb_spec K 0) as [H0|H0]; [apply L; lia|].
  destruct (Z.ltb_spec (Z.of_nat (length x) - 1) K) as [H1|H1]; apply L; lia.
Qed.


Lemma Qc_mul_pos : forall a b : Qc, 0 < a -> 0 < b -> 0 < a * b.
Proof. intros a b Ha Hb. qcnra. Qed.
Lemma Qc_mul_nonneg : forall a b : Qc, 0 <= a -> 0 <= b -> 0 <= a * b.
Proof. intros a b Ha Hb. qcnra. Qed.

(* the weighted sum of two positive widths with non-negative, not both zero, weights *)
Lemma weighted_pos : forall a b ha hb : Qc, 0 < a -> 0 < b -> 0 <= ha -> 0 <= hb -> 0 < ha + hb ->
  0 < ha * a + hb * b.
Proof.
  intros a b ha hb Ha Hb Hha Hhb Hs.
  pose proof (Qc_mul_nonneg ha a Hha (Qclt_le_weak _ _ Ha)) as P1.
  pose proof (Qc_mul_nonneg hb b Hhb (Qclt_le_weak _ _ Hb)) as P2.
  destruct (Qc_eq_dec ha 0) as [E|E].
  - assert (Hhb' : 0 < hb) by (rewrite E in Hs; qclra).
    pose proof (Qc_mul_pos hb b Hhb' Hb) as P3. qclra.
  - assert (Hha' : 0 < ha) by (qc2q; lra).
    pose proof (Qc_mul_pos ha a Hha' Ha) as P3. qclra.
Qed.

Lemma border_line : forall A0 A1 X0 a b ha hb q : Qc, 0 < a -> 0 < b -> 0 <= ha -> 0 <= hb -> 0 < ha + hb -> q <> 0 ->
  A0 + (A1 - A0) * (ha * a / q) / (ha * a / q + hb * b / q)
  = lin_fit (X0 + 0 * b / q) (X0 + 0 * b / q - ha * a / q) A0 (X0 + hb * b / q) A1.
Proof.
  intros A0 A1 X0 a b ha hb q Ha Hb Hha Hhb Hs Hq.
  pose proof (weighted_pos a b ha hb Ha Hb Hha Hhb Hs) as Hw.
  unfold lin_fit. field. repeat split; first [assumption | qclra].
Qed.

Lemma border_ratio : forall A0 A1 a b h q : Qc, 0 < a -> 0 < b -> 0 < h -> q <> 0 ->
  A0 + (A1 - A0) * (h * a / q) / (h * a / q + h * b / q) = A0 + (A1 - A0) * a / (a + b).
Proof.
  intros A0 A1 a b h q Ha Hb Hh Hq.
  assert (Hs : 0 < h + h) by qclra.
  pose proof (weighted_pos a b h h Ha Hb (Qclt_le_weak _ _ Hh) (Qclt_le_weak _ _ Hh) Hs) as Hw.
  field. repeat split; first [assumption | qclra].
Qed.

Lemma qn_neq0 : forall n, (1 <= n)%nat -> qn n <> 0.
Proof. intros n Hn. unfold qn. apply Qc_of_nat_neq0. lia. Qed.

Lemma Z_eqb_both_false : forall ar al, (0 <= ar)%Z -> (0 <= al)%Z -> (0 < ar + al)%Z ->
  ((ar =? 0)%Z && (al =? 0)%Z) = false.
Proof.
  intros ar al H1 H2 H3.
  destruct (Z.eqb_spec ar 0); destruct (Z.eqb_spec al 0); cbn [andb]; try reflexivity; lia.
Qed.

Theorem border_value_fixed : forall x y n K h, ssorted x -> (2 <= length x)%nat -> (1 <= n)%nat -> (1 <= h)%Z ->
  border x y n K h h = avg x y (K - 1) + (avg x y K - avg x y (K - 1)) * dK x (K - 1) / (dK x (K - 1) + dK x K).
Proof.
  intros x y n K h Hs Hx Hn Hh. unfold border.
  rewrite Z_eqb_both_false by lia. cbv zeta.
  apply border_ratio.
  - now apply dK_pos.
  - now apply dK_pos.
  - apply Qc_of_Z_pos. lia.
  - now apply qn_neq0.
Qed.

Lemma Qc_of_Z_add : forall a b, Qc_of_Z (a + b) = Qc_of_Z a + Qc_of_Z b.
Proof.
  intros a b. unfold Qc_of_Z. apply Qc_is_canon.
  rewrite this_add, !this_Q2Qc, inject_Z_plus. reflexivity.
Qed.

Theorem border_is_line_at_border : forall x y n K ar al, ssorted x -> (2 <= length x)%nat -> (1 <= n)%nat ->
  (0 <= ar)%Z -> (0 <= al)%Z -> (0 < ar + al)%Z ->
  border x y n K ar al =
  lin_fit (XK x n K 0) (XK x n K 0 - Qc_of_Z ar * dK x (K - 1) / qn n) (avg x y (K - 1)) (XK x n K al) (avg x y K).
Proof.
  intros x y n K ar al Hs Hx Hn Har Hal Hsum. unfold border.
  rewrite Z_eqb_both_false by assumption. cbv zeta. unfold XK. rewrite Qc_of_Z_0.
  apply border_line.
  - now apply dK_pos.
  - now apply dK_pos.
  - now apply Qc_of_Z_nonneg.
  - now apply Qc_of_Z_nonneg.
  - rewrite <- Qc_of_Z_add. now apply Qc_of_Z_pos.
  - now apply qn_neq0.
Qed.

Theorem abscissae_closed_form : forall x n k i, (2 <= n)%nat -> (k + 1 < length x)%nat -> (i < n)%nat ->
  nthq (k * n + i) (oversample_linspace x n) = XK x n (Z.of_nat k + 1) (Z.of_nat i).
Proof.
  intros x n k i Hn Hk Hi.
  assert (Hx' : x <> []) by (apply length_pos_not_nil; lia).
  destruct (oversample_linspace_spec x n Hn Hx') as (_ & _ & Hki).
  rewrite (Hki k i Hk Hi). unfold XK, x0K, dK, m, qn.
  destruct (Z.leb_spec (Z.of_nat k + 1) 0) as [H0|H0]; [lia|].
  destruct (Z.ltb_spec (Z.of_nat (length x) - 1) (Z.of_nat k + 1)) as [H1|H1]; [lia|].
  replace (Z.to_nat (Z.of_nat k + 1)) with (k + 1)%nat by lia.
  replace (k + 1 - 1)%nat with k by lia.
  reflexivity.
Qed.

Theorem split_ratio : forall a nom denom, (2 <= a)%Z -> 0 < nom -> 0 < denom ->
  let gamma := nom / denom in
  adaptive_pair (fun g => g) a nom denom =
  (Qc_trunc (Qc_min (Qc_max (gamma * Qc_of_Z a / (1 + gamma)) 1) (Qc_of_Z a)),
   Qc_trunc (Qc_min (Qc_max (Qc_of_Z a / (1 + gamma)) 1) (Qc_of_Z a))).
Proof.
  intros a nom denom Ha Hnom Hden gamma. unfold adaptive_pair.
  qc_case (Qc_eqb nom 0); [exfalso; qclra|].
  qc_case (Qc_eqb denom 0); [exfalso; qclra|].
  cbn [andb]. reflexivity.
Qed.

Theorem tie_cases : forall gpow a nom denom, 0 <= nom -> 0 <= denom ->
  (nom = 0 -> denom = 0 -> adaptive_pair gpow a nom denom = (0, 0)%Z) /\ (nom = 0 -> denom <> 0 -> adaptive_pair gpow a nom denom = (Z.quot a 2, 0%Z)) /\ (nom <> 0 -> denom = 0 -> adaptive_pair gpow a nom denom = (0%Z, Z.quot a 2)).
Proof.
  intros gpow a nom denom Hnom Hden. unfold adaptive_pair, half_window.
  split; [|split].
  - intros -> ->. reflexivity.
  - intros -> Hd. apply Qc_eqb_false in Hd. rewrite Hd. reflexivity.
  - intros Hn ->. apply Qc_eqb_false in Hn. rewrite Hn. reflexivity.
Qed.


Lemma Qc_trunc_floor : forall v : Qc, 0 <= v -> Qc_trunc v = Qfloor v.
Proof.
  intros v Hv. unfold Qc_trunc. unfold Qcle in Hv.
  destruct (this v) as [nu de] eqn:E. cbn [Qnum Qden Qfloor].
  apply Z.quot_div_nonneg; [|reflexivity].
  unfold Qle in Hv. cbn [Qnum Qden this Q2Qc] in Hv. cbn in Hv. lia.
Qed.

Lemma Qc_trunc_mono : forall u v : Qc, 0 <= u -> u <= v -> (Qc_trunc u <= Qc_trunc v)%Z.
Proof.
  intros u v Hu Huv.
  assert (Hv : 0 <= v) by qclra.
  rewrite !Qc_trunc_floor by assumption.
  apply Qfloor_resp_le. exact Huv.
Qed.

Lemma Qc_max_mono_l : forall u v c, u <= v -> Qc_max u c <= Qc_max v c.
Proof.
  intros u v c H. unfold Qc_max.
  qc_case (Qc_leb u c); qc_case (Qc_leb v c); qclra.
Qed.

Lemma Qc_min_mono_l : forall u v c, u <= v -> Qc_min u c <= Qc_min v c.
Proof.
  intros u v c H. unfold Qc_min.
  qc_case (Qc_leb u c); qc_case (Qc_leb v c); qclra.
Qed.

Lemma clip_nonneg : forall v a, (0 <= a)%Z -> 0 <= Qc_min (Qc_max v 1) (Qc_of_Z a).
Proof.
  intros v a Ha. pose proof (Qc_of_Z_nonneg a Ha) as HA.
  unfold Qc_min, Qc_max.
  qc_case (Qc_leb v 1); match goal with |- context [Qc_leb ?p ?q] => qc_case (Qc_leb p q) end; qclra.
Qed.

Lemma clip_trunc_mono : forall u v a, (0 <= a)%Z -> u <= v -> (clip_trunc u a <= clip_trunc v a)%Z.
Proof.
  intros u v a Ha H. unfold clip_trunc.
  apply Qc_trunc_mono; [now apply clip_nonneg|].
  apply Qc_min_mono_l, Qc_max_mono_l, H.
Qed.

Theorem larger_jump_not_larger_window : forall a nom denom, (2 <= a)%Z -> 0 < nom -> 0 < denom ->
  let p := adaptive_pair (fun g => g) a nom denom in
  (denom <= nom -> (snd p <= fst p)%Z) /\ (nom <= denom -> (fst p <= snd p)%Z).
Proof.
  intros a nom denom Ha Hnom Hden p. subst p.
  rewrite (split_ratio a nom denom Ha Hnom Hden). cbn [fst snd].
  fold (clip_trunc (nom / denom * Qc_of_Z a / (1 + nom / denom)) a).
  fold (clip_trunc (Qc_of_Z a / (1 + nom / denom)) a).
  pose proof (Qc_div_pos nom denom Hnom Hden) as Hg.
  assert (Eg : nom / denom * denom = nom) by (field; now apply Qc_pos_neq0).
  set (g := nom / denom) in *.
  assert (Hg1 : 0 < 1 + g) by qclra.
  assert (HA : 0 < Qc_of_Z a) by (apply Qc_of_Z_pos; lia).
  pose proof (Qc_div_pos _ _ HA Hg1) as Hu.
  assert (Eu : g * Qc_of_Z a / (1 + g) = g * (Qc_of_Z a / (1 + g))) by (field; now apply Qc_pos_neq0).
  rewrite Eu. set (u := Qc_of_Z a / (1 + g)) in *.
  split; intros Hle.
  - apply clip_trunc_mono; [lia|].
    assert (H1 : 1 <= g) by (rewrite <- Eg in Hle; qcnra).
    qcnra.
  - apply clip_trunc_mono; [lia|].
    assert (H1 : g <= 1) by (rewrite <- Eg in Hle; qcnra).
    qcnra.
Qed.

(** ---------- the prepared y array at interval starts ---------- *)

Lemma nth_map_zrange : forall {A} (f : Z -> A) lo hi j d, (Z.of_nat j < hi - lo)%Z ->
  nth j (map f (zrange lo hi)) d = f (lo + Z.of_nat j)%Z.
Proof.
  intros A f lo hi j d Hj. unfold zrange. rewrite map_map.
  rewrite (nth_indep _ d (f (lo + Z.of_nat 0)%Z)) by (rewrite map_length, seq_length; lia).
  rewrite (map_nth (fun i => f (lo + Z.of_nat i)%Z) (seq 0 (Z.to_nat (hi - lo))) 0%nat j).
  rewrite seq_nth by lia. reflexivity.
Qed.

Lemma zrange_length : forall lo hi, length (zrange lo hi) = Z.to_nat (hi - lo).
Proof. intros. unfold zrange. now rewrite map_length, seq_length. Qed.

Lemma div_blocks_plus_one : forall q n, (2 <= n)%nat -> ((q * n + 1) / n = q)%nat.
Proof. intros q n Hn. symmetry. apply (Nat.div_unique (q * n + 1) n q 1); lia. Qed.

Lemma prepare_facts : forall x y n, (2 <= n)%nat -> (2 <= length x)%nat -> length x = length y ->
  let e := prepare x y n in
  en e = Z.of_nat n /\ nfull e = (Z.of_nat (length x) + 1)%Z /\
  length (ye e) = ((length x + 1) * n + 1)%nat.
Proof.
  intros x y n Hn Hx Hxy e. subst e. unfold prepare. cbn [en nfull ye xe].
  assert (Hx' : x <> []) by (apply length_pos_not_nil; lia).
  assert (Hy' : y <> []) by (apply length_pos_not_nil; lia).
  destruct (oversample_linspace_spec x n Hn Hx') as (Hlx & _).
  destruct (oversample_pc_spec y n Hn Hy') as (Hly & _).
  pose proof (oversample_linspace_long x n Hn Hx) as Hlong.
  destruct (extend_linspace_spec (oversample_linspace x n) n Both None None Hlong) as (Hle & _).
  cbn [goes_left goes_right] in Hle.
  assert (Hne : oversample_pc y n <> []) by (apply length_pos_not_nil; rewrite Hly, Nat.add_1_r; apply Nat.lt_0_succ).
  destruct (extend_constant_spec (oversample_pc y n) n Both Hne) as (Hlc & _).
  cbn [goes_left goes_right] in Hlc.
  split; [reflexivity|]. split.
  - rewrite Hle, Hlx.
    replace (n + ((length x - 1) * n + 1) + n)%nat with ((length x + 1) * n + 1)%nat by nia.
    rewrite div_blocks_plus_one by exact Hn. lia.
  - rewrite Hlc, Hly. nia.
Qed.

Lemma Y_is_avg : forall x y n K, (2 <= n)%nat -> (2 <= length x)%nat -> length x = length y ->
  (0 <= K)%Z -> (K <= Z.of_nat (length x))%Z ->
  Y (prepare x y n) K 0 = avg x y K.
Proof.
  intros x y n K Hn Hx Hxy HK0 HKm.
  destruct (prepare_facts x y n Hn Hx Hxy) as (Hen & _ & Hlen). cbv zeta in *.
  unfold Y, getz. rewrite Hen, Hlen.
  set (k := Z.to_nat K).
  assert (EK : K = Z.of_nat k) by lia.
  assert (Hk : (k <= length x)%nat) by lia.
  assert (Hpy : py_index ((length x + 1) * n + 1) (K * Z.of_nat n + 0) = Some (k * n)%nat).
  { unfold py_index.
    destruct (Z.leb_spec 0 (K * Z.of_nat n + 0)) as [_|H]; [|nia].
    destruct (Z.ltb_spec (K * Z.of_nat n + 0) (Z.of_nat ((length x + 1) * n + 1))) as [_|H]; [|nia].
    cbn [andb]. f_equal. nia. }
  rewrite Hpy. unfold prepare. cbn [ye].
  assert (Hy' : y <> []) by (apply length_pos_not_nil; lia).
  destruct (oversample_pc_spec y n Hn Hy') as (Hly & Hnth & Hlast).
  assert (Hne : oversample_pc y n <> []) by (apply length_pos_not_nil; rewrite Hly, Nat.add_1_r; apply Nat.lt_0_succ).
  destruct (extend_constant_spec (oversample_pc y n) n Both Hne) as (_ & Hmid & Hleft & _).
  cbn [goes_left goes_right] in Hmid, Hleft.
  unfold avg, m.
  destruct (Z.leb_spec K 0) as [H0|H0].
  - (* K = 0: left extension *)
    replace k with 0%nat by lia. cbn [Nat.mul].
    rewrite Hleft by lia. rewrite headq_nthq.
    specialize (Hnth 0%nat 0%nat). cbn [Nat.mul Nat.add] in Hnth. apply Hnth; lia.
  - destruct (Z.ltb_spec (Z.of_nat (length x) - 1) K) as [H1|H1].
    + (* K = m: last sample of the oversampled array *)
      replace (k * n)%nat with (n + (length y - 1) * n)%nat by nia.
      rewrite Hmid by lia. rewrite Hlast, Hxy. now apply lastq_nthq.
    + (* 1 <= K <= m - 1 *)
      replace (k * n)%nat with (n + ((k - 1) * n + 0))%nat by nia.
      rewrite Hmid by nia. rewrite Hnth by lia. f_equal.
Qed.

Theorem windows_are_pairs : forall gpow x y n a K, (2 <= n)%nat -> (2 <= length x)%nat -> length x = length y ->
  (1 <= K)%Z -> (K <= Z.of_nat (length x) - 1)%Z ->
  let w := adaptive_windows gpow (prepare x y n) a in
  (nthZ (fst w) K, nthZ (snd w) K) =
  adaptive_pair gpow a (Qc_abs (avg x y (K + 1) - avg x y K)) (Qc_abs (avg x y K - avg x y (K - 1))).
Proof.
  intros gpow x y n a K Hn Hx Hxy HK1 HKm w. subst w.
  destruct (prepare_facts x y n Hn Hx Hxy) as (_ & Hnf & _). cbv zeta in Hnf.
  unfold adaptive_windows, intervals. rewrite Hnf. cbn [fst snd]. unfold nthZ.
  set (e := prepare x y n).
  set (f := fun k : Z => adaptive_pair gpow a (Qc_abs (Y e (k + 1) 0 - Y e k 0)) (Qc_abs (Y e k 0 - Y e (k - 1) 0))).
  set (j := Z.to_nat (K - 1)).
  replace (Z.to_nat K) with (S j) by lia. cbn [nth].
  assert (Hj : (Z.of_nat j < Z.of_nat (length x) + 1 - 1 - 1)%Z) by lia.
  rewrite !app_nth1 by (rewrite !map_length, zrange_length; lia).
  rewrite !map_map.
  rewrite (nth_map_zrange (fun k => fst (f k))) by exact Hj.
  rewrite (nth_map_zrange (fun k => snd (f k))) by exact Hj.
  replace (1 + Z.of_nat j)%Z with K by lia.
  rewrite <- surjective_pairing. subst f. cbv beta. subst e.
  rewrite !Y_is_avg by (assumption || lia). reflexivity.
Qed.

Print Assumptions funfit_closed_forms.
Print Assumptions funfit_hit_both_ends.
Print Assumptions border_value_fixed.
Print Assumptions border_is_line_at_border.
Print Assumptions abscissae_closed_form.
Print Assumptions split_ratio.
Print Assumptions larger_jump_not_larger_window.
Print Assumptions tie_cases.
Print Assumptions windows_are_pairs.
