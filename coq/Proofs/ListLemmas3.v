(** Further general list lemmas over the vocabulary of Lib/Base.v
    (map2 / ssorted / nondecr / headq / lastq).  No model-specific content. *)
From TW Require Import Lib.Base Proofs.ListLemmas.
Open Scope Qc_scope.

(** ---------- map2 ---------- *)

Lemma map2_map_r : forall {A B C} (f : A -> B -> C) (g : A -> B) (l : list A),
  map2 f l (map g l) = map (fun a => f a (g a)) l.
Proof.
  intros A B C f g. induction l as [|a l IH]; [reflexivity|].
  cbn [map map2]. rewrite IH. reflexivity.
Qed.

(** ---------- sortedness ---------- *)

Lemma ssorted_nondecr : forall l, ssorted l -> nondecr l.
Proof.
  induction l as [|a l IH]; intros H; [exact I|].
  destruct l as [|b l]; [exact I|].
  destruct H as [Hab Hs]. split; [qclra|exact (IH Hs)].
Qed.

Lemma ssorted_cons_tail : forall a l, ssorted (a :: l) -> ssorted l.
Proof. intros a [|b l] H; [exact I|]. destruct H as [_ H]. exact H. Qed.

(** the head of a strictly increasing list is its least element *)
Lemma ssorted_head_le_last : forall l a, ssorted (a :: l) -> a <= lastq (a :: l).
Proof.
  induction l as [|b l IH]; intros a H.
  - rewrite lastq_single. qclra.
  - destruct H as [Hab Hs]. rewrite lastq_cons by discriminate.
    specialize (IH b Hs). qclra.
Qed.

Lemma ssorted_head_le_nth : forall l a i, ssorted (a :: l) -> (i < length (a :: l))%nat ->
  a <= nthq i (a :: l).
Proof.
  induction l as [|b l IH]; intros a i H Hi; cbn [length] in Hi.
  - assert (i = 0)%nat by lia. subst i. rewrite nthq_cons_0. qclra.
  - destruct i as [|i]; [rewrite nthq_cons_0; qclra|].
    destruct H as [Hab Hs]. rewrite nthq_cons_S.
    assert (Hi' : (i < length (b :: l))%nat) by (cbn [length]; lia).
    specialize (IH b i Hs Hi'). qclra.
Qed.

Lemma ssorted_head_lt_nth : forall l a i, ssorted (a :: l) -> (i < length l)%nat ->
  a < nthq (S i) (a :: l).
Proof.
  intros l a i H Hi. rewrite nthq_cons_S.
  destruct l as [|b l]; [cbn [length] in Hi; lia|].
  destruct H as [Hab Hs].
  pose proof (ssorted_head_le_nth l b i Hs Hi) as Hn. qclra.
Qed.

(** ---------- nthq on lists of equal length ---------- *)

Lemma lastq_nthq_len : forall l n, length l = n -> l <> [] -> lastq l = nthq (n - 1) l.
Proof. intros l n <- H. apply lastq_nthq. exact H. Qed.
