(** [the search dispatcher only; split from GlueUtilsProofs.v so that C10 does not depend on the other helpers] The regenerated bodies of the module-level functions of sorted_array_utils.py (Gen/UtilsGlue.v), run by the
    function-level interpreter of Model/GlueFun.v with the leaves of Model/GlueLeaves.v, against the hand-written
    models of Model/SortedUtils.v and Model/Search.v.

    As in Proofs/GlueProofs.v nothing of the generated bodies is restated: a proof is a symbolic execution
    ([fn_run]) of whatever term [assoc <function> utils_functions] computes to, one statement at a time; the run stops
    at the array primitives (a[:-1], a[1:], a[-1], a[-2], np.diff, elementwise arithmetic), which are then related
    to the model by the list lemmas of the first section. *)
From Coq Require Import Lia Bool.
From TW Require Import Model.GlueLeaves Gen.UtilsGlue Proofs.ListLemmas Proofs.ListLemmas4 Proofs.ListLemmas7 Proofs.KernelsLink.
From TW Require Import Proofs.GlueFunLemmas.
Open Scope Qc_scope.
Open Scope string_scope.

(** The facts about the leaves (a[:-1], a[1:], a[-1], a[-2], a[0], np.diff: [slice_val_init], [slice_val_tail],
    [py_index_m1], [py_index_m2], [py_index_0], [diffs_length], ...) and the sequencing lemmas ([fexec_k], [fexec_cons],
    [fexec1_if], ...) do not depend on the generated table: they are in Proofs/GlueFunLemmas.v. *)

(** ---------------- the symbolic execution ---------------- *)
(** everything that is not interpreter stays folded: numbers, list functions, the model's functions *)
Ltac fn_cbn :=
  cbn -[Qcplus Qcmult Qcdiv Qcminus Qcopp Qcinv Q2Qc Qc_eqb Qc_ltb Qc_leb Qc_of_Z Qc_of_nat
        map map2 seq app length removelast tl diffs py_index slice_val nth_error Nat.eqb
        trapezoid_integral rectangle_integral integral find_closest find_lower find_higher find_indices
        append_one_sample headq lastq nthq
        Z.of_nat Z.to_nat Z.add Z.sub Z.mul
        fexec fexec_k].
Ltac fn_red := unfold bind; fn_cbn; repeat (progress unfold bind; fn_cbn).

Ltac atomic e := lazymatch e with context [match _ with _ => _ end] => fail | _ => idtac end.

Ltac len_solve := rewrite ?map_length, ?map2_len, ?removelast_length, ?tl_length, ?diffs_length; lia.

Ltac fn_step :=
  first
  [ match goal with
    | |- context [fexec ?cf ?mf ?af ?pf ?en (SIf ?c ?th ?el :: ?l)] =>
        rewrite (fexec_cons cf mf af pf en (SIf c th el) l), (fexec1_if cf mf af pf en c th el)
    | |- context [fexec ?cf ?mf ?af ?pf ?en (?st :: ?l)] => rewrite (fexec_cons cf mf af pf en st l)
    | |- context [fexec ?cf ?mf ?af ?pf ?en []] => rewrite (fexec_nil cf mf af pf en)
    | |- context [fexec_k (?en, ONormal) ?k] => rewrite (fexec_k_normal en k)
    | |- context [fexec_k (?en, ORaise ?e) ?k] => rewrite (fexec_k_raise en e k)
    | |- context [fexec_k (?en, OReturn ?v) ?k] => rewrite (fexec_k_return en v k)
    | H : ?e = _ |- context [match ?e with _ => _ end] => rewrite H
    (* leaves *)
    | |- context [slice_val (VArr ?l) VNoneV (VInt (-1)) VNoneV] => rewrite (slice_val_init l)
    | |- context [slice_val (VArr ?l) (VInt 1) VNoneV VNoneV] => rewrite (slice_val_tail l)
    | |- context [py_index ?l 0%Z] => rewrite (py_index_0 l) by assumption
    | |- context [py_index ?l (-1)%Z] => rewrite (py_index_m1 l) by assumption
    | |- context [py_index ?l (-2)%Z] => rewrite (py_index_m2 l) by assumption
    (* the operands of an elementwise operation have the same length *)
    | |- context [(length ?a =? length ?b)%nat] =>
        rewrite (proj2 (Nat.eqb_eq (length a) (length b))) by len_solve
    end
  (* stuck on a model call: split it, on both sides at once *)
  | match goal with |- context [match ?e with _ => _ end] => atomic e; destruct e eqn:? end ].
Ltac fn_run := repeat (fn_red; fn_step); fn_red.

(** the body and the formals of a function of the table, computed; nothing else is *)
Ltac fn_enter f :=
  unfold call_fun;
  let b := eval vm_compute in (assoc f utils_functions) in
  change (assoc f utils_functions) with b.

(** ---------------- C17 ---------------- *)

(** ---------------- C10 ---------------- *)
Lemma glue_find_dispatch : forall x lk s fill,
  outcome_idx (call_fun utils_callf array_methf no_apply no_pow utils_functions "find_closest_element_indices_to_values"
     [("x", VArr x); ("lookup", VArr lk); ("strategy", VStrV (strategy_name s)); ("fill_not_valid", VBoolV fill)])
  = find_indices x lk s fill.
Proof.
  intros x lk s fill.
  destruct s; unfold find_indices; fn_enter "find_closest_element_indices_to_values"; fn_run; reflexivity.
Qed.

Print Assumptions glue_find_dispatch.
