(** The regenerated methods of class IntervalArray (Gen/IntervalGlue.v, from interval.py), run by the function-level interpreter
    of Model/GlueFun.v with the leaves of Model/GlueLeaves_Interval.v, against the hand-written model Model/Interval.v (the record
    [iarr], [iget], [iset], [nr_of_full_intervals], [to_2d_array], [to_2d_closed], [ioversample_*], [iextend_*]) -- the model the
    C17 theorems are about -- and against the IntervalArray leaves the RFA glue proofs use ([ivl], [findex_val], [store] at
    [LocIdx2], [ivl_methf], the "IntervalArray" / ".extend_*!" cases of [rfa_callf]).

    An object is the value [obj a] = [ivl (arr a) (Z.of_nat (isize a))]; a method runs in the environment [ienv_of a] extended
    with its parameters; a run is observed by [obs]: the outcome and the object read back from the final "self.a" / "self.n".
    Calls between methods of the class (the constructor, self.m(...), x.m(...)) run the callee's regenerated body one level
    down ([irun] is indexed by the call depth it allows).  Nothing of the generated bodies is restated: a proof is a symbolic
    execution ([iv_run]) of whatever term [assoc <method> interval_methods] computes to; the run stops at the array
    primitives, which are related to the model by the lemmas of the first sections.

    Not covered: __iter__ and __repr__ (listed in [interval_skipped]); keys other than an int, a pair of ints, or a tuple of
    another length (a numpy integer is not an `int`: the real code then evaluates len(item) and raises TypeError); values
    stored into an integer array (the model is over exact rationals); directions other than 'both' / 'left' / 'right'. *)
From Coq Require Import Lia Bool.
From TW Require Import Model.GlueLeaves_Interval Gen.IntervalGlue.
From TW Require Import Proofs.GlueFunLemmas Proofs.HelpersProofs.
Open Scope Qc_scope.
Open Scope string_scope.
Open Scope list_scope.

Definition ibind := ibind_tbl interval_methods.
Definition irun := irun_tbl interval_methods.
Definition isub (fuel : nat) := match fuel with O => no_sub | S f => irun f end.

(** what the leaf names stand for is what the module imports under these names, and `array` is the only property *)
Example interval_imports_pin :
  In (".sorted_array_utils", "oversample_linspace", "oversample_linspace") interval_imports /\
  In (".sorted_array_utils", "oversample_piecewise_constant", "oversample_piecewise_constant") interval_imports /\
  In (".sorted_array_utils", "extend_linspace", "extend_linspace") interval_imports /\
  In (".sorted_array_utils", "extend_constant", "extend_constant") interval_imports /\
  In ("", "numpy", "np") interval_imports /\
  interval_properties = ["array"] /\ interval_skipped = ["__iter__"; "__repr__"] /\ interval_class = "IntervalArray" /\
  map fst interval_methods = filter (fun m => negb (existsb (String.eqb m) interval_skipped)) interval_defined.
Proof. vm_compute. repeat split; tauto. Qed.

(** ---------------- sanity runs (computed, not proved) ---------------- *)
Definition ex_l : list Qc := [qz 0; qz 1; qz 2; qz 3; qz 4; qz 5; qz 6; qz 7; qz 8; qz 9].
Example run_getitem_neg : snd (irun 0 "__getitem__" [VTup [VInt (-2); VInt (-3)]] [] (ienv ex_l 4)) = ORaise IndexError /\
                          snd (irun 0 "__getitem__" [VTup [VInt (-2); VInt (-2)]] [] (ienv ex_l 4)) = OReturn (VNum (qz 0)).
Proof. vm_compute. split; reflexivity. Qed.
Example run_nr : snd (irun 0 "nr_of_full_intervals" [] [] (ienv ex_l 4)) = OReturn (VInt 2). Proof. vm_compute. reflexivity. Qed.
Example run_closed : snd (irun 1 "to_2d_array_closed_intervals" [] [] (ienv ex_l 4)) =
  OReturn (arr2 5 [[Some (qz 0); Some (qz 1); Some (qz 2); Some (qz 3); Some (qz 4)]; [Some (qz 4); Some (qz 5); Some (qz 6); Some (qz 7); Some (qz 8)]]).
Proof. vm_compute. reflexivity. Qed.
Example run_oversample : obs (irun 2 "oversample_piecewise" [VInt 2] [] (ienv [qz 0; qz 1; qz 2] 4)) =
  (OReturn (ivl [qz 0; qz 0; qz 1; qz 1; qz 2] 8), Some (ivl [qz 0; qz 1; qz 2] 4)).
Proof. vm_compute. reflexivity. Qed.
(** a call between methods needs the depth *)
Example run_depth : snd (irun 1 "oversample_piecewise" [VInt 2] [] (ienv [qz 0; qz 1; qz 2] 4)) = ORaise OtherExn.
Proof. vm_compute. reflexivity. Qed.

Lemma irun_eq : forall fuel m vs ks attrs,
  irun fuel m vs ks attrs =
  match ibind m vs ks with
  | Raise e => (attrs, ORaise e)
  | Ok (en, body) => fexec (interval_callf (isub fuel)) (interval_methf (isub fuel)) no_apply no_pow (en ++ attrs)%list body
  end.
Proof. intros [|f] m vs ks attrs; reflexivity. Qed.

Lemma irun_bind_ext : forall f m vs ks vs' ks' attrs,
  ibind m vs ks = ibind m vs' ks' -> irun f m vs ks attrs = irun f m vs' ks' attrs.
Proof. intros f m vs ks vs' ks' attrs H. rewrite !irun_eq, H. reflexivity. Qed.

Ltac iv_enter :=
  rewrite irun_eq;
  match goal with |- context [ibind ?m ?vs ?ks] =>
    let b := eval cbv -[Z.of_nat Z.to_nat map direction_name] in (ibind m vs ks) in change (ibind m vs ks) with b
  end; cbv beta iota; unfold ienv; cbn [app].

Ltac iv_cbn :=
  cbn -[Qcplus Qcmult Qcdiv Qcminus Qcopp Qcinv Q2Qc Qc_eqb Qc_ltb Qc_leb Qc_of_Z Qc_of_nat
        map map2 seq app length removelast tl firstn skipn repeat nth nth_error Nat.eqb Nat.ltb Nat.leb Nat.div Nat.modulo
        GlueSem.py_index Interval.py_index GlueFun.set_nth Interval.set_nth py_slice_step1 norm_bound
        headq lastq nthq getz setz
        oversample_linspace oversample_pc extend_linspace extend_constant
        Z.of_nat Z.to_nat Z.add Z.sub Z.mul Z.div Z.modulo Z.ltb Z.leb Z.eqb Z.max Z.min
        store getitem2 concat2 pad_nan reshape2 cells_of arr2 nan1 slice_obj
        irun irun_tbl ibind ibind_tbl isub fexec fexec_k].
Ltac iv_red := unfold bind; iv_cbn; repeat (progress unfold bind; iv_cbn).


(** ---------------- facts about the leaves ---------------- *)
Lemma py_index_model : forall (l : list Qc) k,
  GlueSem.py_index l k = option_map (fun p => nthq p l) (Interval.py_index (length l) k).
Proof.
  intros l k. unfold GlueSem.py_index, Interval.py_index. cbv zeta.
  destruct (Z.ltb_spec k 0) as [Hk|Hk].
  - destruct (Z.leb_spec 0 k) as [H0|_]; [lia|]. cbn [andb].
    destruct (Z.leb_spec 0 (k + Z.of_nat (length l))) as [H1|H1]; cbn [andb].
    + replace (Z.of_nat (length l) + k <? 0)%Z with false by (symmetry; apply Z.ltb_ge; lia).
      replace (Z.of_nat (length l) <=? Z.of_nat (length l) + k)%Z with false by (symmetry; apply Z.leb_gt; lia).
      cbn [orb option_map]. replace (Z.of_nat (length l) + k)%Z with (k + Z.of_nat (length l))%Z by lia.
      unfold nthq. apply nth_error_nth'. lia.
    + replace (Z.of_nat (length l) + k <? 0)%Z with true by (symmetry; apply Z.ltb_lt; lia). reflexivity.
  - destruct (Z.leb_spec 0 k) as [_|H0]; [|lia]. cbn [andb].
    replace (k <? 0)%Z with false by (symmetry; apply Z.ltb_ge; lia). cbn [orb].
    destruct (Z.ltb_spec k (Z.of_nat (length l))) as [H1|H1].
    + replace (Z.of_nat (length l) <=? k)%Z with false by (symmetry; apply Z.leb_gt; lia).
      cbn [option_map]. unfold nthq. apply nth_error_nth'. lia.
    + replace (Z.of_nat (length l) <=? k)%Z with true by (symmetry; apply Z.leb_le; lia). reflexivity.
Qed.

Lemma set_nth_same : forall l p v, GlueFun.set_nth l p v = Interval.set_nth l p v.
Proof. reflexivity. Qed.

Lemma store_idx_model : forall en x l k q, assoc x en = Some (VArr l) ->
  store en (LocIdx x k) (VNum q) =
  match Interval.py_index (length l) k with
  | Some p => Ok ((x, VArr (Interval.set_nth l p q)) :: en)
  | None => Raise IndexError
  end.
Proof.
  intros en x l k q Hx. unfold store, flookup. rewrite Hx. cbn [bind as_num]. cbv zeta.
  unfold Interval.py_index. cbv zeta.
  destruct (Z.ltb_spec k 0) as [Hk|Hk].
  - destruct (Z.leb_spec 0 k) as [H0|_]; [lia|]. cbn [andb].
    destruct (Z.leb_spec 0 (k + Z.of_nat (length l))) as [H1|H1]; cbn [andb].
    + replace (Z.of_nat (length l) + k <? 0)%Z with false by (symmetry; apply Z.ltb_ge; lia).
      replace (Z.of_nat (length l) <=? Z.of_nat (length l) + k)%Z with false by (symmetry; apply Z.leb_gt; lia).
      cbn [orb]. rewrite set_nth_same. replace (Z.of_nat (length l) + k)%Z with (k + Z.of_nat (length l))%Z by lia. reflexivity.
    + replace (Z.of_nat (length l) + k <? 0)%Z with true by (symmetry; apply Z.ltb_lt; lia). reflexivity.
  - destruct (Z.leb_spec 0 k) as [_|H0]; [|lia]. cbn [andb].
    replace (k <? 0)%Z with false by (symmetry; apply Z.ltb_ge; lia). cbn [orb].
    destruct (Z.ltb_spec k (Z.of_nat (length l))) as [H1|H1].
    + replace (Z.of_nat (length l) <=? k)%Z with false by (symmetry; apply Z.leb_gt; lia). now rewrite set_nth_same.
    + replace (Z.of_nat (length l) <=? k)%Z with true by (symmetry; apply Z.leb_le; lia). reflexivity.
Qed.

Lemma py_index_pair0 : forall a b : gval, GlueSem.py_index [a; b] 0 = Some a. Proof. reflexivity. Qed.
Lemma py_index_pair1 : forall a b : gval, GlueSem.py_index [a; b] 1 = Some b. Proof. reflexivity. Qed.
Lemma len_not_2 : forall (ks : list gval), (length ks =? 2)%nat = false -> (Z.of_nat (length ks) =? 2)%Z = false.
Proof. intros ks H. apply Nat.eqb_neq in H. apply Z.eqb_neq. lia. Qed.

Ltac iv_step :=
  first
  [ match goal with
    | |- context [store ?en (LocIdx ?x ?k) (VNum ?q)] => erewrite (store_idx_model en x _ k q) by reflexivity
    end
  | pf_step
  | match goal with
    | |- context [GlueSem.py_index [?a; ?b] 0%Z] => rewrite (py_index_pair0 a b)
    | |- context [GlueSem.py_index [?a; ?b] 1%Z] => rewrite (py_index_pair1 a b)
    end ].
Ltac iv_run := repeat (iv_red; iv_step); iv_red.

Lemma glue_interval_getitem : forall f a k other, key_ok k other = true ->
  obs (irun f "__getitem__" [key_val k other] [] (ienv_of a)) = (res_outcome (iget a k), Some (obj a)).
Proof.
  intros f [l n] k other Hk. unfold ienv_of, obj, iget, flat_index. cbn [arr isize].
  destruct k as [i|i j|]; cbn [key_val key_ok] in *.
  - iv_enter. iv_run. rewrite py_index_model. 
    destruct (Interval.py_index (length l) i); reflexivity.
  - iv_enter. iv_run. rewrite py_index_model.
    destruct (Interval.py_index (length l) (i * Z.of_nat n + j)); reflexivity.
  - apply negb_true_iff in Hk. pose proof (len_not_2 _ Hk) as Hz.
    iv_enter. iv_run. reflexivity.
Qed.

(** ---------------- __init__ ---------------- *)
Lemma nums_of_VNum : forall l, nums_of (map VNum l) = Some l.
Proof. induction l as [|a l IH]; [reflexivity|]. cbn [map nums_of as_num]. now rewrite IH. Qed.

Lemma glue_interval_init : forall f l n,
  obs (irun f "__init__" [VArr l; VInt n] [] []) = (ONormal, Some (ivl l n)) /\
  obs (irun f "__init__" [] [("a", VArr l); ("n", VInt n)] []) = (ONormal, Some (ivl l n)) /\
  obs (irun f "__init__" [VArr l] [] []) = (ONormal, Some (ivl l 1)) /\
  obs (irun f "__init__" [VTup (map VNum l); VInt n] [] []) = (ONormal, Some (ivl l n)).
Proof.
  intros f l n. repeat split.
  - iv_enter. iv_run. reflexivity.
  - iv_enter. iv_run. reflexivity.
  - iv_enter. iv_run. reflexivity.
  - pose proof (nums_of_VNum l) as Hn. remember (map VNum l) as items eqn:Hi. clear Hi.
    iv_enter. iv_run. reflexivity.
Qed.

Lemma new_result_init : forall f l n, new_result (irun f "__init__" [VArr l; VInt n] [] []) = Ok (ivl l n).
Proof.
  intros f l n. pose proof (proj1 (glue_interval_init f l n)) as E. unfold obs in E. injection E as E1 E2.
  unfold new_result. rewrite E1, E2. reflexivity.
Qed.

(** the constructor call IntervalArray(a, n) means the run of __init__; it builds the object value the RFA glue proofs use *)
Lemma glue_interval_new : forall f pw sf l n,
  interval_callf (isub (S f)) "IntervalArray" [VArr l; VInt n] [] = Ok (ivl l n) /\
  rfa_callf pw sf "IntervalArray" [VArr l; VInt n] [] = interval_callf (isub (S f)) "IntervalArray" [VArr l; VInt n] [].
Proof.
  intros f pw sf l n.
  assert (H : interval_callf (isub (S f)) "IntervalArray" [VArr l; VInt n] [] = Ok (ivl l n)).
  { change (interval_callf (isub (S f)) "IntervalArray" [VArr l; VInt n] []) with (new_result (irun f "__init__" [VArr l; VInt n] [] [])).
    pose proof (proj1 (glue_interval_init f l n)) as E. unfold obs in E. injection E as E1 E2.
    unfold new_result. rewrite E1, E2. reflexivity. }
  split; [exact H|]. rewrite H. reflexivity.
Qed.

(** ---------------- __setitem__ ---------------- *)
Lemma glue_interval_setitem : forall f a k other v, key_ok k other = true ->
  obs (irun f "__setitem__" [key_val k other; VNum v] [] (ienv_of a)) =
  match iset a k v with
  | Ok a' => (ONormal, Some (obj a'))
  | Raise e => (ORaise e, Some (obj a))
  end.
Proof.
  intros f [l n] k other v Hk. unfold ienv_of, obj, iset, flat_index. cbn [arr isize].
  destruct k as [i|i j|]; cbn [key_val key_ok] in *.
  - iv_enter. iv_run.
    destruct (Interval.py_index (length l) i); reflexivity.
  - iv_enter. iv_run.
    destruct (Interval.py_index (length l) (i * Z.of_nat n + j)); reflexivity.
  - apply negb_true_iff in Hk. pose proof (len_not_2 _ Hk) as Hz.
    iv_enter. iv_run. reflexivity.
Qed.

(** ---------------- the leaves of the RFA glue proofs ---------------- *)

(** x[k], x[i, j] of Model/GlueFun.v ([findex_val] on an [ivl] value, the total accessor [getz]) is the run of the regenerated
    __getitem__ exactly where the flat index is in range; outside, the real code raises IndexError (and [getz] answers 0) *)
Lemma glue_interval_getitem_leaf : forall f a k, is_other k = false ->
  call_result (irun f "__getitem__" [key_val k []] [] (ienv_of a)) =
  if flat_ok a k then findex_val (obj a) (key_val k []) else Raise IndexError.
Proof.
  intros f a k Hk.
  assert (Ho : key_ok k [] = true) by (destruct k; [reflexivity|reflexivity|discriminate]).
  pose proof (glue_interval_getitem f a k [] Ho) as E. unfold obs in E. injection E as E1 _.
  unfold call_result. rewrite E1. unfold flat_ok, iget. destruct a as [l n].
  destruct k as [i|i j|]; [| |discriminate]; cbn [flat_index bind key_val obj findex_val ivl arr isize]; unfold getz.
  - destruct (Interval.py_index (length l) i); reflexivity.
  - destruct (Interval.py_index (length l) (i * Z.of_nat n + j)); reflexivity.
Qed.

(** x[i, j] = v of Model/GlueFun.v ([store] at [LocIdx2], the total [setz]) likewise *)
Lemma glue_interval_setitem_leaf : forall f a i j q en x, assoc x en = Some (obj a) ->
  let r := irun f "__setitem__" [VTup [VInt i; VInt j]; VNum q] [] (ienv_of a) in
  if flat_ok a (KPair i j)
  then snd r = ONormal /\
       store en (LocIdx2 x i j) (VNum q) = match obj_of_env (fst r) with Some o => Ok ((x, o) :: en) | None => Raise OtherExn end
  else snd r = ORaise IndexError /\ store en (LocIdx2 x i j) (VNum q) = Ok ((x, obj a) :: en).
Proof.
  intros f a i j q en x Hx r. subst r.
  pose proof (glue_interval_setitem f a (KPair i j) [] q eq_refl) as E. unfold obs in E.
  unfold flat_ok. destruct a as [l n]. unfold iset in E. unfold obj in *. cbn [flat_index bind key_val arr isize] in *.
  unfold store, flookup. rewrite Hx. unfold ivl at 1 3. cbn [bind as_num]. unfold setz.
  destruct (Interval.py_index (length l) (i * Z.of_nat n + j)) as [p|]; injection E as E1 E2; rewrite E1, ?E2; split; reflexivity.
Qed.
Example flat_ok_ex : flat_ok {| arr := [qz 1; qz 2; qz 3; qz 4; qz 5]; isize := 2 |} (KPair (-1) 0) = true /\
                     flat_ok {| arr := [qz 1; qz 2; qz 3; qz 4; qz 5]; isize := 2 |} (KPair 2 1) = false.
Proof. split; reflexivity. Qed.

(** ---------------- nr_of_full_intervals, __len__, array ---------------- *)
Example interval_ok_ex : interval_ok {| arr := [qz 1; qz 2; qz 3]; isize := 2 |} = true. Proof. reflexivity. Qed.

Lemma Zof_nat_eqb0 : forall n, (1 <= n)%nat -> (Z.of_nat n =? 0)%Z = false.
Proof. intros n H. apply Z.eqb_neq. lia. Qed.

Lemma glue_interval_nr_of_full_intervals : forall f a,
  obs (irun f "nr_of_full_intervals" [] [] (ienv_of a)) =
  (if interval_ok a then OReturn (VInt (Z.of_nat (nr_of_full_intervals a))) else ORaise OtherExn, Some (obj a)).
Proof.
  intros f [l n]. unfold interval_ok, nr_of_full_intervals, ienv_of, obj. cbn [arr isize].
  destruct (Nat.leb_spec 1 n) as [Hn|Hn].
  - pose proof (Zof_nat_eqb0 n Hn) as Hz. iv_enter. iv_run. rewrite map_length, <- Nat2Z.inj_div. reflexivity.
  - assert (n = 0)%nat by lia. subst n. iv_enter. iv_run. reflexivity.
Qed.

Lemma glue_interval_len : forall f a,
  obs (irun f "__len__" [] [] (ienv_of a)) = (OReturn (VInt (Z.of_nat (length (arr a)))), Some (obj a)).
Proof. intros f [l n]. unfold ienv_of, obj. cbn [arr isize]. iv_enter. iv_run. rewrite map_length. reflexivity. Qed.

Lemma glue_interval_array : forall f a,
  obs (irun f "array" [] [] (ienv_of a)) = (OReturn (VArr (arr a)), Some (obj a)).
Proof. intros f [l n]. unfold ienv_of, obj. cbn [arr isize]. iv_enter. iv_run. reflexivity. Qed.

(** x.nr_of_full_intervals() and x.array on an object value: the leaves [ivl_methf] of Model/GlueLeaves3.v (and the same cases of
    [rfa_methf]) are the runs of the regenerated methods *)
Lemma glue_interval_methods_leaf : forall f a, interval_ok a = true ->
  interval_methf (isub (S f)) (obj a) "nr_of_full_intervals" [] = ivl_methf (obj a) "nr_of_full_intervals" [] /\
  interval_methf (isub (S f)) (obj a) ".array" [] = ivl_methf (obj a) ".array" [] /\
  ivl_methf (obj a) "nr_of_full_intervals" [] = call_result (irun f "nr_of_full_intervals" [] [] (ienv_of a)) /\
  ivl_methf (obj a) ".array" [] = call_result (irun f "array" [] [] (ienv_of a)).
Proof.
  intros f a Ha.
  pose proof (glue_interval_nr_of_full_intervals f a) as E. rewrite Ha in E. unfold obs in E. injection E as E1 _.
  pose proof (glue_interval_array f a) as E'. unfold obs in E'. injection E' as E2 _.
  assert (H1 : ivl_methf (obj a) "nr_of_full_intervals" [] = call_result (irun f "nr_of_full_intervals" [] [] (ienv_of a))).
  { unfold call_result. rewrite E1. destruct a as [l n]. unfold obj, nr_of_full_intervals. cbn [arr isize ivl_methf ivl seq_eqb String.eqb Ascii.eqb Bool.eqb].
    rewrite Nat2Z.id. reflexivity. }
  assert (H2 : ivl_methf (obj a) ".array" [] = call_result (irun f "array" [] [] (ienv_of a))).
  { unfold call_result. rewrite E2. destruct a as [l n]. reflexivity. }
  repeat split; try assumption.
  - rewrite H1. reflexivity.
  - rewrite H2. reflexivity.
Qed.

(** ---------------- extend_linspace, extend_constant ---------------- *)
Lemma glue_interval_extend_linspace : forall f a d,
  obs (irun f "extend_linspace" [] [("direction", VStrV (direction_name d))] (ienv_of a)) = (ONormal, Some (obj (iextend_linspace a d))) /\
  obs (irun f "extend_linspace" [VStrV (direction_name d)] [] (ienv_of a)) = (ONormal, Some (obj (iextend_linspace a d))) /\
  obs (irun f "extend_linspace" [] [] (ienv_of a)) = (ONormal, Some (obj (iextend_linspace a Both))).
Proof.
  intros f [l n] d. unfold ienv_of, obj, iextend_linspace. cbn [arr isize]. repeat split.
  - destruct d; iv_enter; iv_run; rewrite Nat2Z.id; reflexivity.
  - destruct d; iv_enter; iv_run; rewrite Nat2Z.id; reflexivity.
  - iv_enter; iv_run; rewrite Nat2Z.id; reflexivity.
Qed.

Lemma glue_interval_extend_constant : forall f a d,
  obs (irun f "extend_constant" [] [("direction", VStrV (direction_name d))] (ienv_of a)) = (ONormal, Some (obj (iextend_constant a d))) /\
  obs (irun f "extend_constant" [VStrV (direction_name d)] [] (ienv_of a)) = (ONormal, Some (obj (iextend_constant a d))) /\
  obs (irun f "extend_constant" [] [] (ienv_of a)) = (ONormal, Some (obj (iextend_constant a Both))).
Proof.
  intros f [l n] d. unfold ienv_of, obj, iextend_constant. cbn [arr isize]. repeat split.
  - destruct d; iv_enter; iv_run; rewrite Nat2Z.id; reflexivity.
  - destruct d; iv_enter; iv_run; rewrite Nat2Z.id; reflexivity.
  - iv_enter; iv_run; rewrite Nat2Z.id; reflexivity.
Qed.

(** x.extend_linspace(direction="both") / x.extend_constant(direction="both") as statements: the rebinding leaves of
    Model/GlueLeaves.v ([rfa_callf]) give the object the regenerated methods leave behind *)
Lemma glue_interval_extend_leaf : forall f pw sf a,
  rfa_callf pw sf ".extend_linspace!" [obj a] [("direction", VStrV "both")] =
    match obs (irun f "extend_linspace" [] [("direction", VStrV "both")] (ienv_of a)) with
    | (ONormal, Some o) => Ok o | (ORaise e, _) => Raise e | _ => Raise OtherExn end /\
  rfa_callf pw sf ".extend_constant!" [obj a] [("direction", VStrV "both")] =
    match obs (irun f "extend_constant" [] [("direction", VStrV "both")] (ienv_of a)) with
    | (ONormal, Some o) => Ok o | (ORaise e, _) => Raise e | _ => Raise OtherExn end.
Proof.
  intros f pw sf a.
  change (VStrV "both") with (VStrV (direction_name Both)).
  rewrite (proj1 (glue_interval_extend_linspace f a Both)), (proj1 (glue_interval_extend_constant f a Both)).
  destruct a as [l n]. unfold obj, iextend_linspace, iextend_constant. cbn [arr isize].
  split; cbn -[extend_linspace extend_constant Z.of_nat Z.to_nat]; rewrite Nat2Z.id; reflexivity.
Qed.

(** ---------------- oversample, oversample_linspace, oversample_piecewise ---------------- *)
Lemma glue_interval_oversample : forall f a num,
  obs (irun (S f) "oversample" [VInt (Z.of_nat num); VOpaque "oversample_linspace"] [] (ienv_of a))
    = (OReturn (obj (ioversample_linspace a num)), Some (obj a)) /\
  obs (irun (S f) "oversample" [VInt (Z.of_nat num); VOpaque "oversample_piecewise_constant"] [] (ienv_of a))
    = (OReturn (obj (ioversample_pc a num)), Some (obj a)).
Proof.
  intros f [l n] num. unfold ienv_of, obj, ioversample_linspace, ioversample_pc. cbn [arr isize].
  split.
  - iv_enter. change (isub (S f)) with (irun f). iv_run.
    rewrite new_result_init. iv_run. rewrite Nat2Z.id, Nat2Z.inj_mul. reflexivity.
  - iv_enter. change (isub (S f)) with (irun f). iv_run.
    rewrite new_result_init. iv_run. rewrite Nat2Z.id, Nat2Z.inj_mul. reflexivity.
Qed.

Lemma call_result_obs : forall r v o, obs r = (OReturn v, o) -> call_result r = Ok v.
Proof. intros [en oc] v o H. unfold obs in H. cbn [fst snd] in H. injection H as H _. unfold call_result. cbn [snd]. now rewrite H. Qed.

Lemma glue_interval_oversample_linspace : forall f a num,
  obs (irun (S (S f)) "oversample_linspace" [VInt (Z.of_nat num)] [] (ienv_of a)) = (OReturn (obj (ioversample_linspace a num)), Some (obj a)).
Proof.
  intros f a num.
  pose proof (call_result_obs _ _ _ (proj1 (glue_interval_oversample f a num))) as E.
  destruct a as [l n]. unfold ienv_of, obj in *. cbn [arr isize] in *.
  iv_enter. change (isub (S (S f))) with (irun (S f)). iv_run.
  rewrite (irun_bind_ext (S f) "oversample" [VInt (Z.of_nat num)] [("method", VOpaque "oversample_linspace")]
             [VInt (Z.of_nat num); VOpaque "oversample_linspace"] [] _ eq_refl).
  unfold ienv in E. rewrite E. iv_run. reflexivity.
Qed.

Lemma glue_interval_oversample_piecewise : forall f a num,
  obs (irun (S (S f)) "oversample_piecewise" [VInt (Z.of_nat num)] [] (ienv_of a)) = (OReturn (obj (ioversample_pc a num)), Some (obj a)).
Proof.
  intros f a num.
  pose proof (call_result_obs _ _ _ (proj2 (glue_interval_oversample f a num))) as E.
  destruct a as [l n]. unfold ienv_of, obj in *. cbn [arr isize] in *.
  iv_enter. change (isub (S (S f))) with (irun (S f)). iv_run.
  rewrite (irun_bind_ext (S f) "oversample" [VInt (Z.of_nat num)] [("method", VOpaque "oversample_piecewise_constant")]
             [VInt (Z.of_nat num); VOpaque "oversample_piecewise_constant"] [] _ eq_refl).
  unfold ienv in E. rewrite E. iv_run. reflexivity.
Qed.


(** ---------------- arrays with NaN: facts about the leaves ---------------- *)
Lemma cells_roundtrip : forall c, cells_of (map cell_val c) = Some c.
Proof. induction c as [|[q|] c IH]; [reflexivity| |]; cbn [map cells_of cell_val cell_of]; rewrite IH; reflexivity. Qed.
Lemma rows_roundtrip : forall rows, rows_of (map row_val rows) = Some rows.
Proof.
  induction rows as [|r rows IH]; [reflexivity|]. cbn [map rows_of row_val row_of]. rewrite cells_roundtrip, IH. reflexivity.
Qed.
Lemma as_arr2_arr2 : forall c rows, as_arr2 (arr2 c rows) = Some (c, rows).
Proof. intros c rows. unfold as_arr2, arr2. cbn [seq_eqb String.eqb Ascii.eqb Bool.eqb]. rewrite rows_roundtrip. reflexivity. Qed.

Lemma pad_row_nil : forall n, pad_row [] n = repeat None n.
Proof. induction n as [|n IH]; [reflexivity|]. cbn [pad_row repeat]. now rewrite IH. Qed.
Lemma firstn_repeat : forall {A} (x : A) n k, (n <= k)%nat -> firstn n (repeat x k) = repeat x n.
Proof.
  intros A x. induction n as [|n IH]; intros k H; [reflexivity|].
  destruct k as [|k]; [lia|]. cbn [repeat firstn]. rewrite IH by lia. reflexivity.
Qed.
Lemma skipn_repeat : forall {A} (x : A) n k, skipn n (repeat x k) = repeat x (k - n).
Proof.
  intros A x. induction n as [|n IH]; intros k; [now rewrite Nat.sub_0_r|].
  destruct k as [|k]; [reflexivity|]. cbn [repeat skipn]. rewrite IH. reflexivity.
Qed.
Lemma firstn_padded : forall n l k, (n <= length l + k)%nat ->
  firstn n (map Some l ++ repeat None k) = pad_row l n.
Proof.
  induction n as [|n IH]; intros l k H; [reflexivity|].
  destruct l as [|a l].
  - cbn [map app length] in *. rewrite pad_row_nil. apply firstn_repeat. lia.
  - cbn [map app firstn pad_row length] in *. rewrite IH by lia. reflexivity.
Qed.
Lemma skipn_padded : forall n (l : list Qc) k,
  skipn n (map Some l ++ repeat None k) = map Some (skipn n l) ++ repeat None (k - (n - length l)).
Proof.
  induction n as [|n IH]; intros l k.
  - cbn [skipn]. now rewrite Nat.sub_0_r.
  - destruct l as [|a l].
    + cbn [map app length skipn]. rewrite <- (skipn_repeat None (S n) k). reflexivity.
    + cbn [map app skipn length]. rewrite IH. reflexivity.
Qed.
Lemma chunks_rows_go : forall m n l k, (m * n <= length l + k)%nat ->
  chunks n (map Some l ++ repeat None k) m = rows_go l n m.
Proof.
  induction m as [|m IH]; intros n l k H; [reflexivity|].
  cbn [chunks rows_go]. rewrite firstn_padded by lia. rewrite skipn_padded. rewrite IH; [reflexivity|].
  rewrite skipn_length. cbn [Nat.mul] in H. lia.
Qed.

Lemma reshape_pad : forall l ni m k, (m * ni = length l + k)%nat ->
  reshape2 (map Some l ++ repeat None k) (Z.of_nat m) (Z.of_nat ni) = Ok (arr2 (Z.of_nat ni) (rows_go l ni m)).
Proof.
  intros l ni m k H. unfold reshape2.
  replace (Z.of_nat m <? 0)%Z with false by (symmetry; apply Z.ltb_ge; lia).
  replace (Z.of_nat ni <? 0)%Z with false by (symmetry; apply Z.ltb_ge; lia). cbn [orb].
  rewrite app_length, map_length, repeat_length.
  replace (Z.of_nat m * Z.of_nat ni =? Z.of_nat (length l + k))%Z with true by (symmetry; apply Z.eqb_eq; lia).
  rewrite !Nat2Z.id. rewrite chunks_rows_go by lia. reflexivity.
Qed.

Lemma methf_reshape : forall sub cells m n,
  interval_methf sub (nan1 cells) "reshape" [VInt m; VInt n] = reshape2 cells m n.
Proof.
  intros sub cells m n. unfold interval_methf, nan1, row_val. cbn [seq_eqb String.eqb Ascii.eqb Bool.eqb].
  rewrite cells_roundtrip. reflexivity.
Qed.

(** slices of a list: l[1:], l[:1], l[:-1] *)
Lemma slice1_tail : forall {A} (l : list A), py_slice_step1 l 1 (Z.of_nat (length l)) = tl l.
Proof.
  intros A l. unfold py_slice_step1, norm_bound, clampZ. cbv zeta.
  destruct l as [|a l]; [reflexivity|].
  replace (Z.of_nat (length (a :: l)) <? 0)%Z with false by (symmetry; apply Z.ltb_ge; lia).
  change (1 <? 0)%Z with false. cbv iota.
  replace (Z.to_nat (Z.max 0 (Z.min 1 (Z.of_nat (length (a :: l)))))) with 1%nat by (cbn [length]; lia).
  replace (Z.to_nat (Z.max 0 (Z.min (Z.of_nat (length (a :: l))) (Z.of_nat (length (a :: l)))) - Z.max 0 (Z.min 1 (Z.of_nat (length (a :: l))))))
    with (length l) by (cbn [length]; lia).
  cbn [skipn tl]. apply firstn_all.
Qed.
Lemma slice1_first : forall {A} (l : list A), py_slice_step1 l 0 1 = firstn 1 l.
Proof.
  intros A l. unfold py_slice_step1, norm_bound, clampZ. cbv zeta.
  change (0 <? 0)%Z with false. change (1 <? 0)%Z with false. cbv iota.
  replace (Z.to_nat (Z.max 0 (Z.min 0 (Z.of_nat (length l))))) with 0%nat by lia. cbn [skipn].
  destruct l as [|a l]; [now rewrite !firstn_nil|].
  replace (Z.to_nat (Z.max 0 (Z.min 1 (Z.of_nat (length (a :: l)))) - Z.max 0 (Z.min 0 (Z.of_nat (length (a :: l)))))) with 1%nat
    by (cbn [length]; lia).
  reflexivity.
Qed.
Lemma slice1_init : forall {A} (l : list A), py_slice_step1 l 0 (-1) = removelast l.
Proof.
  intros A l. unfold py_slice_step1, norm_bound, clampZ. cbv zeta.
  change (0 <? 0)%Z with false. change (-1 <? 0)%Z with true. cbv iota.
  replace (Z.to_nat (Z.max 0 (Z.min 0 (Z.of_nat (length l))))) with 0%nat by lia. cbn [skipn].
  replace (Z.to_nat (Z.max 0 (Z.min (-1 + Z.of_nat (length l)) (Z.of_nat (length l))) - Z.max 0 (Z.min 0 (Z.of_nat (length l)))))
    with (pred (length l)) by lia.
  symmetry. apply removelast_firstn_len.
Qed.

(** interv[1:, :1] *)
Lemma getitem2_tail_col : forall c rows, (1 <= c)%Z ->
  getitem2 (arr2 c rows) (VTup [slice_obj (VInt 1) VNoneV VNoneV; slice_obj VNoneV (VInt 1) VNoneV]) =
  Ok (arr2 1 (map (firstn 1) (tl rows))).
Proof.
  intros c rows Hc. unfold getitem2. rewrite as_arr2_arr2. unfold slice_obj, slice_bounds. cbn [seq_eqb String.eqb Ascii.eqb Bool.eqb].
  rewrite slice1_tail.
  replace (Z.max 0 (norm_bound c 1 - norm_bound c 0)) with 1%Z
    by (unfold norm_bound, clampZ; change (1 <? 0)%Z with false; change (0 <? 0)%Z with false; lia).
  do 2 f_equal. apply map_ext. intros r. apply slice1_first.
Qed.
(** res[:-1] *)
Lemma getitem2_init : forall c rows,
  getitem2 (arr2 c rows) (slice_obj VNoneV (VInt (-1)) VNoneV) = Ok (arr2 c (removelast rows)).
Proof.
  intros c rows. unfold getitem2. rewrite as_arr2_arr2. unfold slice_obj, slice_bounds. cbn [seq_eqb String.eqb Ascii.eqb Bool.eqb].
  rewrite slice1_init. reflexivity.
Qed.
(** np.concatenate([A, [[np.nan]]]) for A with one column *)
Lemma concat2_nan_row : forall rows,
  concat2 [VTup [arr2 1 rows; VTup [VTup [VOpaque "np.nan"]]]] [] = Ok (arr2 1 (rows ++ [[None]])).
Proof. intros rows. unfold concat2. rewrite as_arr2_arr2. reflexivity. Qed.
(** np.concatenate([A, B], axis=1) *)
Lemma concat2_axis1 : forall ca cb ra rb,
  concat2 [VTup [arr2 ca ra; arr2 cb rb]] [("axis", VInt 1)] =
  if (length ra =? length rb)%nat then Ok (arr2 (ca + cb) (map2 (@app (option Qc)) ra rb)) else Raise ValueError.
Proof. intros ca cb ra rb. unfold concat2. rewrite !as_arr2_arr2. reflexivity. Qed.

(** every row gets the first cell of the next row (NaN for the last row) *)
Lemma close_rows_concat : forall rows, rows <> [] -> (forall r, In r rows -> r <> []) ->
  map2 (@app (option Qc)) rows (map (firstn 1) (tl rows) ++ [[None]]) = close_rows rows.
Proof.
  induction rows as [|r rows IH]; intros Hne Hr; [congruence|].
  destruct rows as [|r' rows].
  - reflexivity.
  - cbn [tl map app map2 close_rows]. f_equal.
    + destruct r' as [|c r']; [exfalso; apply (Hr []); [right; left; reflexivity|reflexivity]|]. reflexivity.
    + apply IH; [congruence|]. intros x Hx. apply Hr. right. exact Hx.
Qed.

(** ---------------- to_2d_array ---------------- *)
Lemma pad_nan_nat : forall l z k, z = Z.of_nat k ->
  pad_nan [VArr l; VTup [VInt 0; VInt z]] [("mode", VStrV "constant"); ("constant_values", VOpaque "np.nan")]
  = Ok (nan1 (map Some l ++ repeat None k)).
Proof.
  intros l z k ->. unfold pad_nan. cbn [seq_eqb String.eqb Ascii.eqb Bool.eqb andb Z.eqb].
  replace (Z.of_nat k <? 0)%Z with false by (symmetry; apply Z.ltb_ge; lia). rewrite Nat2Z.id. reflexivity.
Qed.
Lemma glue_interval_to_2d_array : forall f a,
  obs (irun f "to_2d_array" [] [] (ienv_of a)) =
  (if interval_ok a then OReturn (arr2 (Z.of_nat (isize a)) (to_2d_array a)) else ORaise OtherExn, Some (obj a)).
Proof.
  intros f [l n]. unfold interval_ok, to_2d_array, nrows, ienv_of, obj. cbn [arr isize].
  destruct (Nat.leb_spec 1 n) as [Hn|Hn].
  - pose proof (Zof_nat_eqb0 n Hn) as Hz.
    iv_enter. iv_run.
    rewrite <- Nat2Z.inj_mod, <- Nat2Z.inj_div.
    pose proof (Nat.div_mod (length l) n ltac:(lia)) as Hdm.
    destruct (Nat.eqb_spec (length l mod n) 0) as [Hr|Hr].
    + replace (Z.of_nat (length l mod n) =? 0)%Z with true by (symmetry; apply Z.eqb_eq; lia). cbn [negb].
      iv_run. rewrite (pad_nan_nat l _ 0%nat) by nia. cbn [bind].
      rewrite methf_reshape, (reshape_pad l n (length l / n) 0) by nia.
      iv_run. rewrite Nat.add_0_r. reflexivity.
    + replace (Z.of_nat (length l mod n) =? 0)%Z with false by (symmetry; apply Z.eqb_neq; lia). cbn [negb].
      pose proof (Nat.mod_upper_bound (length l) n ltac:(lia)) as Hub.
      iv_run. rewrite (pad_nan_nat l _ (n - length l mod n)%nat) by nia. cbn [bind].
      replace (Z.of_nat (length l / n) + 1)%Z with (Z.of_nat (length l / n + 1)) by lia.
      rewrite methf_reshape, (reshape_pad l n (length l / n + 1) (n - length l mod n)) by nia.
      iv_run. reflexivity.
  - assert (n = 0)%nat by lia. subst n. iv_enter. iv_run. reflexivity.
Qed.

(** ---------------- to_2d_array_closed_intervals ---------------- *)
Example closed_ok_ex : closed_ok {| arr := [qz 1; qz 2; qz 3]; isize := 2 |} = true. Proof. reflexivity. Qed.

Lemma glue_interval_to_2d_closed_gen : forall f a dl, closed_ok a = true ->
  obs (irun (S f) "to_2d_array_closed_intervals" [] [("drop_last", VBoolV dl)] (ienv_of a)) =
  (OReturn (arr2 (Z.of_nat (isize a) + 1) (to_2d_closed a dl)), Some (obj a)).
Proof.
  intros f a dl Ha. unfold closed_ok in Ha. apply andb_true_iff in Ha. destruct Ha as [Hn Hl].
  pose proof (glue_interval_to_2d_array f a) as E. unfold interval_ok in E. rewrite Hn in E.
  apply call_result_obs in E.
  apply Nat.leb_le in Hn. apply negb_true_iff in Hl. apply Nat.eqb_neq in Hl.
  pose proof (to_2d_shape a ltac:(lia)) as [Hlen Hrow].
  assert (Hrows : to_2d_array a <> []).
  { intros H0. rewrite H0 in Hlen. cbn [length] in Hlen. unfold nrows in Hlen.
    destruct (Nat.eqb_spec (length (arr a) mod isize a) 0) as [Hr|Hr]; [|lia].
    pose proof (Nat.div_mod (length (arr a)) (isize a) ltac:(lia)). nia. }
  assert (Hne : forall r, In r (to_2d_array a) -> r <> []).
  { intros r Hr ->. apply Hrow in Hr. cbn [length] in Hr. lia. }
  unfold to_2d_closed. set (R := to_2d_array a) in *.
  destruct a as [l n]. unfold ienv_of, obj in *. cbn [arr isize] in *.
  assert (Hlen2 : (length R =? length (map (firstn 1) (tl R) ++ [[None]]))%nat = true).
  { apply Nat.eqb_eq. rewrite app_length, map_length. destruct R; [congruence|]. cbn [tl length]. lia. }
  unfold ienv in E.
  destruct dl.
  - iv_enter. change (isub (S f)) with (irun f). iv_run.
    rewrite getitem2_tail_col by lia. iv_run. rewrite concat2_nan_row. iv_run.
    rewrite concat2_axis1, Hlen2. iv_run. rewrite getitem2_init. iv_run.
    rewrite close_rows_concat by assumption. reflexivity.
  - iv_enter. change (isub (S f)) with (irun f). iv_run.
    rewrite getitem2_tail_col by lia. iv_run. rewrite concat2_nan_row. iv_run.
    rewrite concat2_axis1, Hlen2. iv_run.
    rewrite close_rows_concat by assumption. reflexivity.
Qed.

Lemma glue_interval_to_2d_closed : forall f a dl, closed_ok a = true ->
  obs (irun (S f) "to_2d_array_closed_intervals" [] [("drop_last", VBoolV dl)] (ienv_of a)) =
    (OReturn (arr2 (Z.of_nat (isize a) + 1) (to_2d_closed a dl)), Some (obj a)) /\
  obs (irun (S f) "to_2d_array_closed_intervals" [VBoolV dl] [] (ienv_of a)) =
    (OReturn (arr2 (Z.of_nat (isize a) + 1) (to_2d_closed a dl)), Some (obj a)) /\
  obs (irun (S f) "to_2d_array_closed_intervals" [] [] (ienv_of a)) =
    (OReturn (arr2 (Z.of_nat (isize a) + 1) (to_2d_closed a true)), Some (obj a)).
Proof.
  intros f a dl Ha. repeat split.
  - apply glue_interval_to_2d_closed_gen. exact Ha.
  - rewrite (irun_bind_ext (S f) "to_2d_array_closed_intervals" [VBoolV dl] [] [] [("drop_last", VBoolV dl)] _ eq_refl).
    apply glue_interval_to_2d_closed_gen. exact Ha.
  - rewrite (irun_bind_ext (S f) "to_2d_array_closed_intervals" [] [] [] [("drop_last", VBoolV true)] _ eq_refl).
    apply glue_interval_to_2d_closed_gen. exact Ha.
Qed.

(** FINDING (code and model differ on the empty array): for an array without elements to_2d_array() has shape (0, n); the
    column taken from interv[1:, :1] gets the row [[nan]] appended and has shape (1, 1), and np.concatenate(..., axis=1) of a
    (0, n) and a (1, 1) array raises ValueError -- with drop_last or without.  The model's [to_2d_closed] answers [] there. *)
Lemma glue_interval_to_2d_closed_empty : forall f n dl, (1 <= n)%nat ->
  obs (irun (S f) "to_2d_array_closed_intervals" [] [("drop_last", VBoolV dl)] (ienv_of {| arr := []; isize := n |})) =
    (ORaise ValueError, Some (obj {| arr := []; isize := n |})) /\
  to_2d_closed {| arr := []; isize := n |} dl = [].
Proof.
  intros f n dl Hn.
  assert (HR : to_2d_array {| arr := []; isize := n |} = []).
  { unfold to_2d_array, nrows. cbn [arr isize length]. rewrite Nat.div_0_l, Nat.mod_0_l by lia. reflexivity. }
  split; [|unfold to_2d_closed; rewrite HR; destruct dl; reflexivity].
  pose proof (glue_interval_to_2d_array f {| arr := []; isize := n |}) as E. unfold interval_ok in E. cbn [isize] in E.
  rewrite (proj2 (Nat.leb_le 1 n) Hn), HR in E. apply call_result_obs in E.
  unfold ienv_of, obj, ienv in *. cbn [arr isize] in *.
  destruct dl; iv_enter; change (isub (S f)) with (irun f); iv_run;
    rewrite getitem2_tail_col by lia; iv_run; rewrite concat2_nan_row; iv_run;
    rewrite concat2_axis1; iv_run; reflexivity.
Qed.

(** the same two cases inside [rfa_methf] (Model/GlueLeaves.v) *)
Lemma glue_interval_rfa_methf_leaf : forall gpow sx sy sn a m,
  rfa_methf gpow sx sy sn (obj a) m [] = ivl_methf (obj a) m [].
Proof. intros gpow sx sy sn [l n] m. reflexivity. Qed.

Print Assumptions glue_interval_init.
Print Assumptions glue_interval_new.
Print Assumptions glue_interval_getitem.
Print Assumptions glue_interval_setitem.
Print Assumptions glue_interval_getitem_leaf.
Print Assumptions glue_interval_setitem_leaf.
Print Assumptions glue_interval_nr_of_full_intervals.
Print Assumptions glue_interval_len.
Print Assumptions glue_interval_array.
Print Assumptions glue_interval_methods_leaf.
Print Assumptions glue_interval_rfa_methf_leaf.
Print Assumptions glue_interval_extend_linspace.
Print Assumptions glue_interval_extend_constant.
Print Assumptions glue_interval_extend_leaf.
Print Assumptions glue_interval_oversample.
Print Assumptions glue_interval_oversample_linspace.
Print Assumptions glue_interval_oversample_piecewise.
Print Assumptions glue_interval_to_2d_array.
Print Assumptions glue_interval_to_2d_closed.
Print Assumptions glue_interval_to_2d_closed_empty.
