(** The regenerated bodies of the module-level functions of process.py (Gen/ProcessGlue.v), run by the function-level
    interpreter of Model/GlueFun.v with the leaves of Model/GlueLeaves.v, against the hand-written models of
    Model/Process.v: truncate (C11), repeat (C12), interpolate (C13), trend and normalize (C14).

    As in Proofs/GlueProofs.v nothing of the generated bodies is restated: every proof is a symbolic execution of
    whatever term [assoc <function> process_functions] computes to, one statement at a time ([fexec_cons], [fexec1_if],
    [fexec1_for]).  The bodies of the two loops (repeat, trend) are obtained from the same table ([first_for]) and run
    once, for an arbitrary environment described by the values it binds ([repeat_loop], [trend_loop]); the loops are
    then folds over the iteration indices, related to the model by list lemmas.

    Evaluation is kept call-by-value: the primitives that inspect their arguments ([fbinop], [fcall], [store],
    [index_val], [fslice_val], [array_methf]) are never unfolded by [pf_cbn]; an application of one of them to values is
    switched to a convertible copy ([..._run]) that [pf_cbn] does compute ([pf_step]).

    Everything that does not depend on the generated table of process.py -- the sequencing lemmas, the [..._run] copies,
    [pf_step], [pf_leaf], [first_for] and the facts about indexing, slicing and storing -- is in Proofs/GlueFunLemmas.v,
    which the proof files about the other sources use without depending on this one. *)
From Coq Require Import Lia Bool.
From TW Require Import Model.GlueLeaves Gen.ProcessGlue.
From TW Require Import Proofs.ListLemmas Proofs.ListLemmas4 Proofs.ListLemmas7 Proofs.ProcessProofs.
From TW Require Import Proofs.GlueFunLemmas.
Open Scope Qc_scope.
Open Scope string_scope.

(** everything that is not interpreter stays folded: numbers, list functions, the model's functions, integer
    arithmetic and comparison, and the strict primitives *)
Ltac pf_cbn :=
  cbn -[Qcplus Qcmult Qcdiv Qcminus Qcopp Qcinv Q2Qc Qc_eqb Qc_ltb Qc_leb Qc_of_Z Qc_of_nat
        map map2 seq py_index length firstn skipn app nth nth_error
        find_lower find_higher interp_linear interp_constant tile minq maxq headq lastq nthq
        py_slice take_stride clampZ norm_bound range_list set_nth
        Z.of_nat Z.to_nat Z.add Z.sub Z.mul Z.ltb Z.leb Z.eqb Z.max Z.min
        fexec fexec_k floop process_functions
        fbinop fcall store index_val fslice_val array_methf].

(** the body of the called function: the table lookup is computed, the body is not unfolded any further *)
Ltac pf_call :=
  match goal with |- context [call_fun ?cf ?mf ?af ?pf process_functions ?f ?a] =>
    let r := eval vm_compute in (assoc f process_functions) in
    match r with Some (?fm, ?b) =>
      rewrite (call_fun_unfold cf mf af pf process_functions f a fm b) by (vm_compute; reflexivity)
    end
  end.
Ltac pf_run := repeat (pf_cbn; pf_step); pf_cbn.


(** ---------------- facts about the model's scans ---------------- *)
(** the scans with fill_not_valid=True answer non-negative positions *)
Lemma adv_le_ge : forall xs idx q, (idx <= snd (adv_le xs idx q))%Z.
Proof.
  induction xs as [|xn xs IH]; intros idx q; cbn [adv_le]; [cbn; lia|].
  destruct (Qc_leb xn q); [|cbn; lia]. specialize (IH (idx + 1)%Z q). lia.
Qed.
Lemma lower_main_ge : forall ls xs idx, Forall (fun z => (idx <= z)%Z) (lower_main ls xs idx).
Proof.
  induction ls as [|q ls IH]; intros xs idx; cbn [lower_main]; [constructor|].
  pose proof (adv_le_ge xs idx q) as H. destruct (adv_le xs idx q) as [xs' idx']. cbn [snd] in H.
  constructor; [exact H|]. eapply Forall_impl; [|apply IH]. cbn beta. intros; lia.
Qed.
Lemma lower_pre_ge : forall x0 ls, Forall (fun z => (0 <= z)%Z) (fst (lower_pre x0 true ls)).
Proof.
  induction ls as [|q ls IH]; cbn [lower_pre]; [constructor|].
  destruct (Qc_ltb q x0); [|constructor]. destruct (lower_pre x0 true ls) as [o r]. cbn [fst] in *.
  constructor; [lia|exact IH].
Qed.
Lemma find_lower_nonneg : forall x lk l, find_lower x lk true = Ok l -> Forall (fun z => (0 <= z)%Z) l.
Proof.
  intros [|x0 xs] lk l H; [discriminate H|]. unfold find_lower in H. destruct lk as [|q lk]; [discriminate H|].
  pose proof (lower_pre_ge x0 (q :: lk)) as Hp. destruct (lower_pre x0 true (q :: lk)) as [o r]. cbn [fst] in Hp.
  injection H as <-. apply Forall_app. split; [exact Hp|apply lower_main_ge].
Qed.
Lemma adv_lt_ge : forall xs xv idx q, (idx <= snd (adv_lt xv xs idx q))%Z.
Proof.
  induction xs as [|xn xs IH]; intros xv idx q; cbn [adv_lt]; [cbn; lia|].
  destruct (Qc_ltb xn q); [|cbn; lia]. specialize (IH xn (idx + 1)%Z q). lia.
Qed.
Lemma higher_main_ge : forall lenx ls xv xs idx, Forall (fun z => (idx <= z)%Z) (higher_main lenx true ls xv xs idx).
Proof.
  induction ls as [|q ls IH]; intros xv xs idx; cbn [higher_main]; [constructor|].
  pose proof (adv_lt_ge xs xv idx q) as H. destruct (adv_lt xv xs idx q) as [[xv' xs'] idx']. cbn [snd] in H.
  constructor; [destruct xs'; lia|]. eapply Forall_impl; [|apply IH]. cbn beta. intros; lia.
Qed.
Lemma le_pre_ge : forall x0 ls, Forall (fun z => (0 <= z)%Z) (fst (le_pre x0 ls)).
Proof.
  induction ls as [|q ls IH]; cbn [le_pre]; [constructor|].
  destruct (Qc_leb q x0); [|constructor]. destruct (le_pre x0 ls) as [o r]. cbn [fst] in *.
  constructor; [lia|exact IH].
Qed.
Lemma find_higher_nonneg : forall x lk l, find_higher x lk true = Ok l -> Forall (fun z => (0 <= z)%Z) l.
Proof.
  intros [|x0 xs] lk l H; [discriminate H|]. unfold find_higher in H. destruct lk as [|q lk]; [discriminate H|].
  pose proof (le_pre_ge x0 (q :: lk)) as Hp. destruct (le_pre x0 (q :: lk)) as [o r]. cbn [fst] in Hp.
  injection H as <-. apply Forall_app. split; [exact Hp|apply higher_main_ge].
Qed.

(** truncate: the guard and the two scans are split on the interpreter side and on the model side at once; a scan
    with fill_not_valid=True answers positions >= 0, so that the Python slice does not wrap where the model's
    Z.to_nat truncates *)
Ltac tr_split :=
  match goal with
  | |- context [match Qc_leb ?a ?b with _ => _ end] => destruct (Qc_leb a b) eqn:?
  | |- context [find_lower ?x ?lk true] =>
      let E := fresh "E" in let l := fresh "l" in
      destruct (find_lower x lk true) as [l|] eqn:E;
      [apply find_lower_nonneg in E; destruct l; [|apply Forall_inv in E]|]
  | |- context [find_higher ?x ?lk true] =>
      let E := fresh "E" in let l := fresh "l" in
      destruct (find_higher x lk true) as [l|] eqn:E;
      [apply find_higher_nonneg in E; destruct l; [|apply Forall_inv in E]|]
  | |- context [py_slice ?l ?a ?b 1] => rewrite (py_slice_nonneg l a b) by lia
  end.


(** ---------------- C14: normalize; C13: interpolate ---------------- *)
Lemma glue_normalize : forall a lo hi, a <> [] ->
  outcome_arr (call_fun (process_callf (fun v => v)) array_methf no_apply no_pow process_functions "normalize"
     [("a", VArr a); ("min_val", VNum lo); ("max_val", VNum hi)])
  = Ok (normalize a lo hi).
Proof.
  intros a lo hi Ha. pf_call.
  destruct a as [|a0 a']; [congruence|]. set (a := a0 :: a') in *.
  pf_run. unfold normalize. rewrite !map_map. reflexivity.
Qed.

Lemma glue_interpolate : forall x y nx,
  outcome_arr (call_fun (process_callf (fun v => v)) array_methf no_apply no_pow process_functions "interpolate"
     [("x", VArr x); ("y", VArr y); ("new_x", VArr nx); ("method", VStrV "linear")]) = Ok (interp_linear x y nx) /\
  outcome_arr (call_fun (process_callf (fun v => v)) array_methf no_apply no_pow process_functions "interpolate"
     [("x", VArr x); ("y", VArr y); ("new_x", VArr nx)]) = Ok (interp_linear x y nx) /\
  outcome_arr (call_fun (process_callf (fun v => v)) array_methf no_apply no_pow process_functions "interpolate"
     [("x", VArr x); ("y", VArr y); ("new_x", VArr nx); ("method", VStrV "constant")]) = interp_constant x y nx None /\
  forall m, m <> "linear" -> m <> "constant" -> m <> "cubic" -> m <> "spline" ->
  outcome_arr (call_fun (process_callf (fun v => v)) array_methf no_apply no_pow process_functions "interpolate"
     [("x", VArr x); ("y", VArr y); ("new_x", VArr nx); ("method", VStrV m)]) = Raise ValueError.
Proof.
  intros x y nx. split; [|split; [|split]].
  - pf_call. pf_run. reflexivity.
  - pf_call. pf_run. reflexivity.
  - pf_call. pf_run. destruct (interp_constant x y nx None); pf_run; reflexivity.
  - intros m H1 H2 H3 H4. pf_call.
    apply String.eqb_neq in H1, H2, H3, H4.
    pf_run. reflexivity.
Qed.

(** ---------------- C11: truncate ---------------- *)
Lemma glue_truncate : forall x y xl xr lr rr, x <> [] ->
  outcome_arr_pair (call_fun (process_callf (fun v => v)) array_methf no_apply no_pow process_functions "truncate"
     [("x", VArr x); ("y", VArr y); ("x_left", VNum xl); ("x_right", VNum xr); ("x_left_as_ratio", VBoolV lr); ("x_right_as_ratio", VBoolV rr)])
  = truncate x y xl xr lr rr.
Proof.
  intros x y xl xr lr rr Hx. pf_call. unfold truncate, first_index.
  destruct lr, rr.
  all: repeat (pf_cbn; first [pf_step | pf_leaf | tr_split]); pf_cbn.
  all: reflexivity.
Qed.

(** ---------------- C14: trend ---------------- *)
(** the body of the (first) for loop of a function, from the generated table *)
Definition body_of (f : string) : list gstmt :=
  match assoc f process_functions with Some (_, b) => b | None => [] end.
Definition trend_loop_body : list gstmt := Eval vm_compute in first_for (body_of "trend").


(** one iteration: y[k] += fun(x[k] / range_x) resp. fun(x[k]) *)
Definition trend_step (f : Qc -> Qc) (nrm : bool) (rx : Qc) (x yc : list Qc) (k : nat) : list Qc :=
  set_nth yc k (nthq k yc + f (if nrm then nthq k x / rx else nthq k x)).

Ltac idx_leaf :=
  match goal with
  | |- context [py_index ?l (Z.of_nat ?k)] => rewrite (py_index_nat l k) by assumption
  | H : assoc ?x ?en = Some (VArr ?l) |- context [store (?b :: ?en) (LocIdx ?x (Z.of_nat ?k)) (VNum ?q)] =>
      rewrite (store_idx_nat (b :: en) x l k q) by (first [assumption | pf_cbn; exact H])
  end.
(** the loop, from any environment that binds x, y, normalized, range_x: the iterations are a fold of [trend_step] *)
Lemma trend_loop : forall f nrm x rx (ks : list nat) en ycur,
  assoc "x" en = Some (VArr x) -> assoc "y" en = Some (VArr ycur) ->
  assoc "normalized" en = Some (VBoolV nrm) -> assoc "range_x" en = Some (VNum rx) ->
  length ycur = length x -> (forall k, In k ks -> (k < length x)%nat) ->
  exists en', floop (process_callf f) array_methf no_apply no_pow ["i"] trend_loop_body (map (fun k => VInt (Z.of_nat k)) ks) en = (en', ONormal) /\
     assoc "x" en' = Some (VArr x) /\ assoc "y" en' = Some (VArr (fold_left (trend_step f nrm rx x) ks ycur)).
Proof.
  intros f nrm x rx ks. induction ks as [|k ks IH]; intros en ycur Hx Hy Hn Hr Hlen Hks.
  - exists en. cbn [map fold_left]. rewrite floop_nil. repeat split; assumption.
  - cbn [map fold_left]. rewrite floop_cons1. unfold trend_loop_body.
    assert (Hk : (k < length x)%nat) by (apply Hks; left; reflexivity).
    assert (Hk' : (k < length ycur)%nat) by lia.
    assert (Hks' : forall k0, In k0 ks -> (k0 < length x)%nat) by (intros k0 H0; apply Hks; right; exact H0).
    destruct nrm.
    all: repeat (pf_cbn; first [idx_leaf | pf_step | pf_leaf]); pf_cbn.
    all: apply IH; [pf_cbn; first [assumption | reflexivity]..| |assumption].
    all: unfold trend_step; rewrite set_nth_len; assumption.
Qed.

Close Scope string_scope.
(** updating the positions 0, 1, ... one at a time is the model's map2 *)
Lemma trend_fold : forall g (x' y' px p : list Qc), length px = length p -> length x' = length y' ->
  fold_left (fun yc k => set_nth yc k (nthq k yc + g (nthq k (px ++ x')))) (seq (length p) (length x')) (p ++ y')
  = p ++ map2 (fun xi yi => yi + g xi) x' y'.
Proof.
  intros g x'. induction x' as [|a x' IH]; intros y' px p Hp Hl; destruct y' as [|b y']; try discriminate Hl.
  - reflexivity.
  - cbn [length seq fold_left map2].
    assert (E1 : nthq (length p) (p ++ b :: y') = b).
    { replace (length p) with (length p + 0)%nat at 1 by lia. rewrite nthq_app_r. reflexivity. }
    assert (E2 : nthq (length p) (px ++ a :: x') = a).
    { rewrite <- Hp. replace (length px) with (length px + 0)%nat at 1 by lia. rewrite nthq_app_r. reflexivity. }
    rewrite E1, E2.
    assert (E3 : set_nth (p ++ b :: y') (length p) (b + g a) = (p ++ [b + g a]) ++ y').
    { clear. induction p as [|c p IHp]; [reflexivity|]. cbn [app length set_nth]. now rewrite IHp. }
    rewrite E3.
    specialize (IH y' (px ++ [a]) (p ++ [b + g a])).
    rewrite !app_length in IH. cbn [length] in IH. rewrite !Nat.add_1_r in IH.
    rewrite <- app_assoc in IH. cbn [app] in IH. rewrite IH by (cbn [length] in Hl; lia).
    rewrite <- app_assoc. reflexivity.
Qed.

Open Scope string_scope.

Lemma glue_trend : forall f x y nrm, x <> [] -> length x = length y ->
  outcome_arr_pair (call_fun (process_callf f) array_methf no_apply no_pow process_functions "trend"
     [("x", VArr x); ("y", VArr y); ("fun", VOpaque "fun"); ("normalized", VBoolV nrm)])
  = Ok (trend f nrm x y).
Proof.
  intros f x y nrm Hx Hlen. pf_call.
  repeat (pf_cbn; first [pf_step | pf_leaf]); pf_cbn.
  rewrite map_length, range_items.
  match goal with |- context [floop _ _ _ _ _ _ _ ?en] =>
    destruct (trend_loop f nrm x (lastq x - headq x) (seq 0 (length x)) en y) as (en' & Hrun & Hx' & Hy') end;
    [reflexivity.. | symmetry; exact Hlen | intros k Hk; apply in_seq in Hk; lia |].
  unfold trend_loop_body in Hrun. rewrite Hrun.
  repeat (pf_cbn; first [pf_step | pf_leaf]); pf_cbn.
  unfold trend. do 2 f_equal.
  pose proof (trend_fold (fun xi => f (if nrm then xi / (lastq x - headq x) else xi)) x y [] [] eq_refl Hlen) as HF.
  cbn [app length] in HF. exact HF.
Qed.

(** ---------------- C12: repeat ---------------- *)
Definition repeat_loop_body : list gstmt := Eval vm_compute in first_for (body_of "repeat").

Close Scope string_scope.
Lemma repeat_step_length : forall n x i, (n * (i + 1) <= length x)%nat -> length (repeat_step n x i) = length x.
Proof.
  intros n x i H. unfold repeat_step. rewrite !app_length, map_length, firstn_length, skipn_length, slice_len. nia.
Qed.
Open Scope string_scope.

(** indices are brought to the form Z.of_nat k (the side conditions 1 <= n*i, 2 <= n*i, n*i-1 < len, ... are in the
    context), then x[k], x[a:b] and x[a:b] = w are the list functions the model uses *)
Ltac rp_leaf :=
  match goal with
  | |- context [(Z.of_nat ?a * Z.of_nat ?b)%Z] => rewrite (Zof_mul a b)
  | |- context [(Z.of_nat ?a + 1)%Z] => rewrite (Zof_add1 a)
  | |- context [(Z.of_nat ?a - 1)%Z] => rewrite (Zof_sub1 a) by assumption
  | |- context [(Z.of_nat ?a - 2)%Z] => rewrite (Zof_sub2 a) by assumption
  | |- context [py_index ?l (Z.of_nat ?k)] => rewrite (py_index_nat l k) by assumption
  | |- context [py_slice ?l (Z.of_nat ?a) (Z.of_nat ?b) 1] => rewrite (py_slice_nat l a b)
  | H : assoc ?x ?en = Some (VArr ?l) |- context [store ?en' (LocSlice ?x (Z.of_nat ?a) (Z.of_nat ?b)) (VArr ?w)] =>
      rewrite (store_slice_nat en' x l a b w);
      [ | pf_cbn; exact H | nia | assumption | rewrite map_length, slice_len; nia ]
  end.

(** the loop, from any environment that binds x (of length n * r) and n: one iteration is the model's [repeat_step]
    (this is where 2 <= n is needed: x[n*i-2] must not wrap), the iterations are its fold *)
Lemma repeat_loop : forall (is : list nat) en X n r,
  assoc "x" en = Some (VArr X) -> assoc "n" en = Some (VInt (Z.of_nat n)) ->
  length X = (n * r)%nat -> (2 <= n)%nat -> (forall i, In i is -> (1 <= i < r)%nat) ->
  exists en', floop (process_callf (fun v => v)) array_methf no_apply no_pow ["i"] repeat_loop_body (map (fun i => VInt (Z.of_nat i)) is) en = (en', ONormal) /\
     assoc "x" en' = Some (VArr (fold_left (repeat_step n) is X)) /\ assoc "n" en' = Some (VInt (Z.of_nat n)) /\ assoc "y" en' = assoc "y" en.
Proof.
  induction is as [|i is IH]; intros en X n r Hx Hn HL Hn2 His.
  - exists en. cbn [map fold_left]. rewrite floop_nil. repeat split; assumption.
  - cbn [map fold_left]. rewrite floop_cons1. unfold repeat_loop_body.
    assert (Hi : (1 <= i < r)%nat) by (apply His; left; reflexivity).
    assert (His' : forall i0, In i0 is -> (1 <= i0 < r)%nat) by (intros i0 H0; apply His; right; exact H0).
    assert (A0 : (1 <= n * i)%nat) by nia.
    assert (A02 : (2 <= n * i)%nat) by nia.
    assert (A1 : (n * i - 1 < length X)%nat) by nia.
    assert (A2 : (n * i - 2 < length X)%nat) by nia.
    assert (A3 : (n * (i + 1) <= length X)%nat) by nia.
    assert (HX : X <> []) by (intros ->; cbn [length] in HL; nia).
    repeat (pf_cbn; first [rp_leaf | pf_step | pf_leaf]); pf_cbn.
    match goal with |- exists en', floop _ _ _ _ _ _ _ ?E = _ /\ _ =>
      destruct (IH E (repeat_step n X i) n r) as (en' & Hrun & Hx' & Hn' & Hy') end.
    + (* the array the iteration leaves in x is the model's repeat_step *)
      pf_cbn. unfold repeat_step. rewrite (headq_nthq0 X). reflexivity.
    + pf_cbn. exact Hn.
    + rewrite repeat_step_length; assumption.
    + exact Hn2.
    + exact His'.
    + exists en'. split; [exact Hrun|split; [exact Hx'|split; [exact Hn'|]]].
      rewrite Hy'. reflexivity.
Qed.


Lemma glue_repeat : forall x y r, repeat_defined x = true -> (0 <= r)%Z ->
  outcome_arr_pair (call_fun (process_callf (fun v => v)) array_methf no_apply no_pow process_functions "repeat"
     [("x", VArr x); ("y", VArr y); ("repeats", VInt r)])
  = Ok (repeat_series x y (Z.to_nat r)).
Proof.
  intros x y r Hd Hr. pf_call.
  unfold repeat_defined in Hd. apply Nat.leb_le in Hd.
  assert (Hr0 : (r <? 0)%Z = false) by (apply Z.ltb_ge; exact Hr).
  repeat (pf_cbn; first [pf_step | pf_leaf]); pf_cbn.
  rewrite map_length, range1_items.
  match goal with |- context [floop _ _ _ _ _ _ _ ?en] =>
    destruct (repeat_loop (seq 1 (Z.to_nat r - 1)) en (tile x (Z.to_nat r)) (length x) (Z.to_nat r)) as (en' & Hrun & Hx' & _ & Hy') end;
    [reflexivity | reflexivity | rewrite tile_length; apply Nat.mul_comm | exact Hd | intros i Hi; apply in_seq in Hi; lia |].
  unfold repeat_loop_body in Hrun. rewrite Hrun.
  cbn -[tile Z.to_nat] in Hy'.
  repeat (pf_cbn; first [pf_step | pf_leaf]); pf_cbn.
  reflexivity.
Qed.
