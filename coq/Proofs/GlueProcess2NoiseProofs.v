(** Process2 glue proofs, one source function per file: noise_gauss (process.py).  See Proofs/GlueProcess2Common.v. *)
From Coq Require Import Lia Bool.
From TW Require Import Model.GlueLeaves_Process2 Gen.Process2Glue.
From TW Require Import Proofs.ListLemmas Proofs.ListLemmas4 Proofs.ListLemmas7.
From TW Require Import Proofs.GlueFunLemmas Proofs.GlueProcess2Common.
Open Scope Qc_scope.
Open Scope string_scope.

(** ======================= C15: noise_gauss ======================= *)
(** snr_in_db is True *)
Definition is_True (v : gval) : bool := match v with VBoolV true => true | _ => false end.

Section NoiseGauss.
Variable pw : Qc -> Qc -> Qc.
Variable normal : Qc -> noise_scale -> nat -> list Qc.
(** the one law assumed of `**`: squaring (a ** 2 on an array is np.square) *)
Hypothesis pw_two : forall v, pw v (Qc_of_Z 2) = v * v.

Definition noise_run (a : list Qc) (snr snr_in_db std : gval) : res (list Qc) :=
  outcome_arr (call_fun (p2_callf normal) p2_methf no_apply (p2_powf pw) process2_functions "noise_gauss"
     [("a", VArr a); ("snr", snr); ("snr_in_db", snr_in_db); ("std", std)]).
(** only the signal given: snr=None, snr_in_db=True, std=1.0 *)
Definition noise_run_default (a : list Qc) : res (list Qc) :=
  outcome_arr (call_fun (p2_callf normal) p2_methf no_apply (p2_powf pw) process2_functions "noise_gauss" [("a", VArr a)]).

(** what the run answers once the scale is known: the recorded draw for loc = 0, that scale and size = a.shape, added to a *)
Definition noised (a : list Qc) (sc : noise_scale) : res (list Qc) :=
  let? d := np_random_normal normal (Qc_of_Z 0) sc (length a) in add_arrays a d.

Definition half : Qc := Q2Qc (1 # 2).
(** the model's standard deviation for a linear signal-to-noise ratio, and for one in decibels *)
Definition std_linear (a : list Qc) (snr : Qc) : Qc := pw (noise_var a snr) half.
Definition std_db (a : list Qc) (snr : Qc) : Qc := std_linear a (pw (Qc_of_Z 10) (snr / Qc_of_Z 10)).

Lemma sp_eq : forall a, meanq (map (fun v => pw v (Qc_of_Z 2)) a) = signal_power a.
Proof. intros a. unfold signal_power. f_equal. apply map_ext. exact pw_two. Qed.

Lemma np_mean_nonempty : forall l, l <> [] -> p2_callf normal "np.mean" [VArr l] [] = Ok (VNum (meanq l)).
Proof. intros [|v l] H; [congruence|reflexivity]. Qed.
Lemma is_True_leaf : forall v, p2_callf normal "is_" [v; VBoolV true] [] = Ok (VBoolV (is_True v)).
Proof. intros [l|q|z| |[|]|s|l|l|l| |t|t l]; reflexivity. Qed.

Ltac ng_leaf :=
  match goal with
  | |- context [p2_callf ?nm "np.mean" [VArr ?l] []] => rewrite (np_mean_nonempty l) by assumption
  | |- context [p2_callf ?nm "is_" [?v; VBoolV true] []] => rewrite (is_True_leaf v)
  | |- context [Z.to_nat (Z.of_nat ?n)] => rewrite (Nat2Z.id n)
  | |- context [nums_of (map VNum ?l)] => rewrite (nums_of_nums l)
  end.
Ltac ng_run := repeat (p2_cbn; first [ng_leaf | p2_step | progress cbn [length]]); p2_cbn.

(** the end of every run: the draw, then a + noise *)
Ltac ng_finish :=
  unfold noised;
  match goal with |- context [np_random_normal ?nm ?loc ?sc ?n] => destruct (np_random_normal nm loc sc n) as [d|e] end;
  [ng_run; unfold add_arrays; match goal with |- context [(?p =? ?q)%nat] => destruct (p =? q)%nat end; reflexivity
  | ng_run; reflexivity].

Lemma sq_nonempty : forall a, a <> [] -> map (fun v => pw v (Qc_of_Z 2)) a <> [].
Proof. intros [|v a] H; [congruence|discriminate]. Qed.

(** snr in decibels (snr_in_db is True), one value for the whole signal / one per sample (an array or a list) *)
Lemma glue_noise_scale_db : forall a std, a <> [] ->
  (forall snr, noise_run a (VNum snr) (VBoolV true) std = noised a (ScaleAll (std_db a snr))) /\
  (forall snr, noise_run a (VArr snr) (VBoolV true) std = noised a (ScaleEach (map (std_db a) snr))) /\
  (forall snr, noise_run a (VTup (map VNum snr)) (VBoolV true) std = noised a (ScaleEach (map (std_db a) snr))).
Proof.
  intros a std Ha. pose proof (sq_nonempty a Ha) as Hsq.
  split; [|split]; intros snr; unfold noise_run; p2_call process2_functions; ng_run.
  all: rewrite sp_eq; rewrite ?map_map.
  - fold half. fold (noise_var a (pw (Qc_of_Z 10) (snr / Qc_of_Z 10))).
    fold (std_linear a (pw (Qc_of_Z 10) (snr / Qc_of_Z 10))). fold (std_db a snr). ng_finish.
  - change (fun x : Qc => pw (signal_power a / pw (Qc_of_Z 10) (x / Qc_of_Z 10)) (Q2Qc (1 # 2))) with (std_db a). ng_finish.
  - change (fun x : Qc => pw (signal_power a / pw (Qc_of_Z 10) (x / Qc_of_Z 10)) (Q2Qc (1 # 2))) with (std_db a). ng_finish.
Qed.

(** linear snr (snr_in_db is anything but the object True: False, 0, 1, None, ...); a positive ratio (for snr = 0 the float
    division answers inf where the rationals' total division answers 0, for snr < 0 the square root is NaN) *)
Lemma glue_noise_scale_linear : forall a db std, a <> [] -> is_True db = false ->
  (forall snr, Qc_ltb 0 snr = true -> noise_run a (VNum snr) db std = noised a (ScaleAll (std_linear a snr))) /\
  (forall snr, forallb (Qc_ltb 0) snr = true -> noise_run a (VArr snr) db std = noised a (ScaleEach (map (std_linear a) snr))) /\
  (forall snr, forallb (Qc_ltb 0) snr = true -> noise_run a (VTup (map VNum snr)) db std = noised a (ScaleEach (map (std_linear a) snr))).
Proof.
  intros a db std Ha Hdb. pose proof (sq_nonempty a Ha) as Hsq.
  split; [|split]; intros snr _; unfold noise_run; p2_call process2_functions; ng_run.
  all: rewrite sp_eq; rewrite ?map_map.
  - fold half. fold (noise_var a snr). fold (std_linear a snr). ng_finish.
  - change (fun x : Qc => pw (signal_power a / x) (Q2Qc (1 # 2))) with (std_linear a). ng_finish.
  - change (fun x : Qc => pw (signal_power a / x) (Q2Qc (1 # 2))) with (std_linear a). ng_finish.
Qed.

(** no snr: the scale is std (default 1.0); snr_in_db is not looked at; a negative std is refused by the generator *)
Lemma glue_noise_scale_std : forall a db,
  (forall std, noise_run a VNoneV db (VNum std) = noised a (ScaleAll std)) /\
  (forall std, noise_run a VNoneV db (VInt std) = noised a (ScaleAll (Qc_of_Z std))) /\
  noise_run_default a = noised a (ScaleAll (Q2Qc 1)) /\
  (forall std, Qc_ltb std 0 = true -> noise_run a VNoneV db (VNum std) = Raise ValueError).
Proof.
  intros a db.
  assert (H1 : forall std, noise_run a VNoneV db (VNum std) = noised a (ScaleAll std)).
  { intros std. unfold noise_run. p2_call process2_functions. ng_run. ng_finish. }
  split; [exact H1|split; [|split]].
  - intros std. unfold noise_run. p2_call process2_functions. ng_run. ng_finish.
  - unfold noise_run_default. p2_call process2_functions. ng_run. ng_finish.
  - intros std Hneg. rewrite H1. unfold noised, np_random_normal. rewrite Hneg. reflexivity.
Qed.
End NoiseGauss.



(** noise_gauss: with the stand-in generator answering the scale itself, the three ways the scale is decided are visible:
    std; sqrt(mean(a^2) / snr) (here `**` squares: mean(a^2) = 14/3, (14/3 / 2)^2 = 49/9); one scale per sample *)
Example noise_example :
  res_arr_eqb (noise_run pw_ex normal_ex (qzs [1; 2; 3]%Z) VNoneV (VBoolV true) (VNum (qz 5))) (qzs [6; 7; 8]%Z) = true /\
  res_arr_eqb (noise_run pw_ex normal_ex (qzs [1; 2; 3]%Z) (VNum (qz 2)) (VBoolV false) (VNum (qz 5)))
              [qz 1 + Q2Qc (49 # 9); qz 2 + Q2Qc (49 # 9); qz 3 + Q2Qc (49 # 9)] = true /\
  res_arr_eqb (noise_run pw_ex normal_ex (qzs [1; 2; 3]%Z) (VTup [VNum (qz 1); VNum (qz 2); VNum (qz 1)]) (VInt 1) (VNum (qz 5)))
              [qz 1 + Q2Qc (196 # 9); qz 2 + Q2Qc (49 # 9); qz 3 + Q2Qc (196 # 9)] = true /\
  res_is_raise (noise_run pw_ex normal_ex (qzs [1; 2; 3]%Z) (VArr (qzs [1; 2]%Z)) (VBoolV false) (VNum (qz 5))) ValueError = true /\
  qzs [1; 2; 3]%Z <> [] /\ is_True (VInt 1) = false /\ Qc_ltb 0 (qz 2) = true /\ forallb (Qc_ltb 0) (qzs [1; 2; 1]%Z) = true.
Proof. repeat split; try (vm_compute; reflexivity). discriminate. Qed.
(** the law assumed of `**` holds of the stand-in *)
Example pw_ex_two : forall v, pw_ex v (Qc_of_Z 2) = v * v.
Proof. reflexivity. Qed.

Print Assumptions glue_noise_scale_db.
Print Assumptions glue_noise_scale_linear.
Print Assumptions glue_noise_scale_std.
