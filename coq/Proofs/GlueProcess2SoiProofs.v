(** Process2 glue proofs, one source function per file: sum_over_indices (sorted_array_utils.py).  See Proofs/GlueProcess2Common.v. *)
From Coq Require Import Lia Bool.
From TW Require Import Model.GlueLeaves_Process2 Gen.Process2Glue.
From TW Require Import Proofs.ListLemmas Proofs.ListLemmas4 Proofs.ListLemmas7.
From TW Require Import Proofs.GlueFunLemmas Proofs.GlueProcess2Common.
Open Scope Qc_scope.
Open Scope string_scope.

(** ======================= C17: sum_over_indices ======================= *)
Section SumOverIndices.
Variable pw : Qc -> Qc -> Qc.
Variable normal : Qc -> noise_scale -> nat -> list Qc.

Definition soi_run (a : list Qc) (idx : list Z) : res (list Qc) :=
  outcome_arr (call_fun (p2_callf normal) p2_methf no_apply (p2_powf pw) utils2_functions "sum_over_indices"
     [("a", VArr a); ("indices", VIdxArr idx)]).

(** the comprehension of the return statement, from the generated table: element, loop variable *)
Definition soi_comp : gexpr * string :=
  Eval vm_compute in
    match last (body_of utils2_functions "sum_over_indices") SBreak with
    | SReturn (GCall _ [GListComp b v _] _) => (b, v)
    | _ => (GNone, "")
    end.

(** consecutive pairs of a list of indices: zip(indices[:-1], indices[1:]) *)
Fixpoint pairs (idx : list Z) : list (Z * Z) :=
  match idx with
  | i :: (j :: _) as t => (i, j) :: pairs t
  | _ => []
  end.
Definition pair_item (p : Z * Z) : gval := VTup [VInt (fst p); VInt (snd p)].

Lemma zip2_pairs : forall idx, zip2 (map VInt (removelast idx)) (map VInt (tl idx)) = map pair_item (pairs idx).
Proof.
  induction idx as [|i idx IH]; [reflexivity|].
  destruct idx as [|j idx]; [reflexivity|].
  change (removelast (i :: j :: idx)) with (i :: removelast (j :: idx)).
  cbn [tl map zip2 pairs]. f_equal. exact IH.
Qed.

(* slice1_init: moved to GlueProcess2Common.v *)
(* slice1_tail: moved to GlueProcess2Common.v *)

(* nums_of_nums: moved to GlueProcess2Common.v *)

Lemma pairs_nonneg : forall idx, Forall (fun z => (0 <= z)%Z) idx ->
  Forall (fun p => (0 <= fst p)%Z /\ (0 <= snd p)%Z) (pairs idx).
Proof.
  induction idx as [|i idx IH]; intros H; [constructor|].
  destruct idx as [|j idx]; [constructor|].
  cbn [pairs]. inversion H as [|? ? Hi Ht]; subst. constructor.
  - cbn [fst snd]. split; [exact Hi|]. now inversion Ht.
  - apply IH. exact Ht.
Qed.

(** every element: a[start:stop].sum() for one pair *)
Lemma soi_each : forall a ps en, assoc "a" en = Some (VArr a) ->
  Forall (fun p => (0 <= fst p)%Z /\ (0 <= snd p)%Z) ps ->
  lc_each (p2_callf normal) p2_methf no_apply (p2_powf pw) en (fst soi_comp) (snd soi_comp) (map pair_item ps)
  = Ok (map (fun p => VNum (sumq (slice a (Z.to_nat (fst p)) (Z.to_nat (snd p))))) ps).
Proof.
  intros a ps en Ha. induction ps as [|[i j] ps IH]; intros Hp; [reflexivity|].
  inversion Hp as [|? ? [Hi Hj] Hps]; subst. cbn [fst snd] in Hi, Hj.
  cbn [map]. rewrite lc_each_cons, (IH Hps). clear IH.
  unfold soi_comp, pair_item. cbn [fst snd].
  cbn -[py_slice slice sumq assoc Z.to_nat]. unfold flookup.
  cbn [assoc seq_eqb String.eqb Ascii.eqb Bool.eqb]. rewrite Ha.
  cbn -[py_slice slice sumq].
  change (Pos.to_nat 1) with 1%nat. cbn -[py_slice slice sumq].
  rewrite (py_slice_nonneg a i j Hi Hj).
  reflexivity.
Qed.

Lemma soi_model : forall a idx,
  sum_over_indices a (nats idx) = map (fun p => sumq (slice a (Z.to_nat (fst p)) (Z.to_nat (snd p)))) (pairs idx).
Proof.
  intros a. induction idx as [|i idx IH]; [reflexivity|].
  destruct idx as [|j idx]; [reflexivity|].
  change (nats (i :: j :: idx)) with (Z.to_nat i :: nats (j :: idx)).
  change (nats (j :: idx)) with (Z.to_nat j :: nats idx) at 1.
  cbn [sum_over_indices pairs map fst snd]. f_equal.
  change (Z.to_nat j :: nats idx) with (nats (j :: idx)). exact IH.
Qed.

Definition nonneg_indices (idx : list Z) : bool := forallb (fun z => (0 <=? z)%Z) idx.

Lemma glue_sum_over_indices : forall a idx, nonneg_indices idx = true ->
  soi_run a idx = Ok (sum_over_indices a (nats idx)).
Proof.
  intros a idx Hg. unfold soi_run. p2_call utils2_functions.
  assert (Hnn : Forall (fun z => (0 <= z)%Z) idx).
  { apply Forall_forall. intros z Hz. unfold nonneg_indices in Hg. rewrite forallb_forall in Hg.
    apply Z.leb_le. apply Hg. exact Hz. }
  (* the two conversions *)
  repeat (p2_cbn; lazymatch goal with
                   | |- context [fexec_k _ _] => p2_step
                   | |- context [fexec _ _ _ _ _ [SReturn _]] => fail
                   | _ => p2_step end).
  (* the return statement: np.array([... for (start, stop) in zip(indices[:-1], indices[1:])]) *)
  rewrite fexec_cons, fexec1_return, feval_call1, feval_listcomp.
  p2_run.
  rewrite slice1_init, slice1_tail, zip2_pairs.
  match goal with |- context [lc_each ?cf ?mf ?af ?pf ?en ?b ?x (map pair_item ?ps)] =>
    change b with (fst soi_comp); change x with (snd soi_comp);
    rewrite (soi_each a ps en) by (first [reflexivity | apply pairs_nonneg; exact Hnn]) end.
  p2_run.
  rewrite <- (map_map (fun p => sumq (slice a (Z.to_nat (fst p)) (Z.to_nat (snd p)))) VNum), nums_of_nums.
  p2_run. rewrite soi_model. reflexivity.
Qed.
End SumOverIndices.



(** sum_over_indices: the docstring's example; the guard holds of it *)
Example soi_example :
  res_arr_eqb (soi_run pw_ex normal_ex (qzs [0; 1; 2; 3; 4; 5; 6; 7; 8; 9; 10]%Z) [0; 3; 6; 10]%Z) (qzs [3; 12; 30]%Z) = true /\
  nonneg_indices [0; 3; 6; 10]%Z = true.
Proof. split; vm_compute; reflexivity. Qed.
(** ranges that run backwards or beyond the end are clamped, by the code and by the model alike (inside the guard) *)
Example soi_example_clamped :
  res_arr_eqb (soi_run pw_ex normal_ex (qzs [0; 1; 2; 3; 4; 5; 6; 7; 8; 9]%Z) [0; 3; 2; 20]%Z) (qzs [3; 0; 44]%Z) = true /\
  nonneg_indices [0; 3; 2; 20]%Z = true.
Proof. split; vm_compute; reflexivity. Qed.
(** outside the guard: a negative index counts from the end in the code (a[-3:-1] = 7 + 8, a[-1:5] is empty), the model's
    naturals truncate it to 0 (a[0:0], a[0:5]) *)
Example soi_outside_guard :
  res_arr_eqb (soi_run pw_ex normal_ex (qzs [0; 1; 2; 3; 4; 5; 6; 7; 8; 9]%Z) [-3; -1; 5]%Z) (qzs [15; 0]%Z) = true /\
  list_eqb Qc_eqb (sum_over_indices (qzs [0; 1; 2; 3; 4; 5; 6; 7; 8; 9]%Z) (nats [-3; -1; 5]%Z)) (qzs [0; 10]%Z) = true.
Proof. split; vm_compute; reflexivity. Qed.

Print Assumptions glue_sum_over_indices.
