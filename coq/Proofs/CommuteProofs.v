(** C08, third sentence: shifting / scaling the values or the time axis commutes
    with the recreate + match pipeline (ORecreate ; OMatch Closest / Rectangle). *)
From TW Require Import Proofs.ListLemmas Proofs.ListLemmas2 Proofs.ListLemmas3 Proofs.ListLemmas4
  Proofs.MatchProofs Proofs.RfaGridProofs Proofs.PipelineProofs Proofs.ListLemmas7 Proofs.WeaverProofs
  Proofs.RfaEquivProofs Proofs.RfaFinal Proofs.WeaverLevelProofs.
From TW Require Import Model.WeaverSpec Model.RfaSpec.
Open Scope Qc_scope.

(** the vocabulary of the statements (identical to staging/Commute.v) *)
Definition res_map {A B} (f : A -> B) (r : res A) : res B := match r with Ok v => Ok (f v) | Raise e => Raise e end.

Definition window_strategy_ok (n : nat) (gpow : Qc -> Qc) (k : rfa_kind) : Prop :=
  match k with
  | PiecewiseConstant => True
  | LinearFixed alpha a => (window_a n alpha a <= Z.of_nat n)%Z
  | LinearAdaptive alpha a => (window_a n alpha a <= Z.of_nat n)%Z /\ GpowPos gpow
  | ExpFixed alpha beta a => (window_a n alpha a <= Z.of_nat n)%Z /\ 0 <= beta /\ beta <= 1
  | ExpAdaptive alpha beta a => (window_a n alpha a <= Z.of_nat n)%Z /\ 0 <= beta /\ beta <= 1 /\ GpowPos gpow
  | FunctionSampled _ => False
  end.

Definition pipeline (n : Z) (pwr gpow : Qc -> Qc) (k : rfa_kind) (pw : Qc -> Qc) (rt : rule) : list op :=
  [ORecreate n pwr gpow k; OMatch pw (ByStrategy Closest) rt Rectangle].

Definition same_series (s1 s2 : wstate) : Prop :=
  wx s1 = wx s2 /\ wy s1 = wy s2 /\ wrx s1 = wrx s2 /\ wry s1 = wry s2.

(** ====================================================================== *)
(** 0. generic list facts                                                   *)
(** ====================================================================== *)

Lemma slice_map : forall (f : Qc -> Qc) l s e, slice (map f l) s e = map f (slice l s e).
Proof. intros f l s e. unfold slice. rewrite skipn_map, firstn_map. reflexivity. Qed.

Lemma splice_map : forall (f : Qc -> Qc) l s w, splice (map f l) s (map f w) = map f (splice l s w).
Proof.
  intros f l s w. unfold splice. rewrite !map_app, map_length, firstn_map, skipn_map. reflexivity.
Qed.

Lemma map2_map_l : forall (f : Qc -> Qc) (g g' : Qc -> Qc -> Qc) (y w : list Qc),
  (forall a b, g' (f a) b = f (g a b)) -> map2 g' (map f y) w = map f (map2 g y w).
Proof.
  intros f g g' y. induction y as [|a y IH]; intros w H; [reflexivity|].
  destruct w as [|b w]; [reflexivity|]. cbn [map map2]. rewrite H, IH by exact H. reflexivity.
Qed.

Lemma headq_map : forall (f : Qc -> Qc) l, l <> [] -> headq (map f l) = f (headq l).
Proof. intros f [|a l] H; [contradiction|reflexivity]. Qed.

Lemma lastq_map : forall (f : Qc -> Qc) l, l <> [] -> lastq (map f l) = f (lastq l).
Proof.
  intros f l. induction l as [|a l IH]; intros H; [contradiction|].
  destruct l as [|b l]; [reflexivity|].
  change (map f (a :: b :: l)) with (f a :: map f (b :: l)).
  rewrite !lastq_cons by discriminate. apply IH. discriminate.
Qed.

Lemma sumq_scale : forall a l, sumq (map (Qcmult a) l) = a * sumq l.
Proof. intros a l. induction l as [|v l IH]; cbn [map sumq]; [ring|]. rewrite IH. ring. Qed.

(** ====================================================================== *)
(** 1. matching is homogeneous in the values                                *)
(** ====================================================================== *)

Lemma rect_scale : forall a x y, rectangle_integral x (map (Qcmult a) y) = map (Qcmult a) (rectangle_integral x y).
Proof.
  intros a x. induction x as [|x0 x IH]; intros y; [reflexivity|].
  destruct x as [|x1 x]; [destruct y; reflexivity|].
  destruct y as [|y0 y]; [reflexivity|].
  change (map (Qcmult a) (y0 :: y)) with (a * y0 :: map (Qcmult a) y).
  rewrite !rect_cons2, IH. cbn [map]. f_equal. ring.
Qed.

Lemma trap_scale : forall a x y, trapezoid_integral x (map (Qcmult a) y) = map (Qcmult a) (trapezoid_integral x y).
Proof.
  intros a x. induction x as [|x0 x IH]; intros y; [reflexivity|].
  destruct x as [|x1 x]; [destruct y as [|? [|? ?]]; reflexivity|].
  destruct y as [|y0 y]; [reflexivity|]. destruct y as [|y1 y]; [reflexivity|].
  change (map (Qcmult a) (y0 :: y1 :: y)) with (a * y0 :: a * y1 :: map (Qcmult a) y).
  rewrite trap_cons2. change (a * y1 :: map (Qcmult a) y) with (map (Qcmult a) (y1 :: y)).
  rewrite IH, trap_cons2. cbn [map]. f_equal. ring.
Qed.

Lemma integ_scale : forall r a x y, integ r x (map (Qcmult a) y) = map (Qcmult a) (integ r x y).
Proof. intros [| |] a x y; cbn [integ]; [apply trap_scale|apply rect_scale|apply rect_scale]. Qed.

Lemma total_scale : forall r a x y, total r x (map (Qcmult a) y) = a * total r x y.
Proof. intros r a x y. unfold total. rewrite integ_scale. apply sumq_scale. Qed.

Lemma integral_scale : forall r a x y, integral x (map (Qcmult a) y) r = res_map (map (Qcmult a)) (integral x y r).
Proof.
  intros [| |] a x y; cbn [integral res_map]; [rewrite trap_scale|rewrite rect_scale|]; reflexivity.
Qed.

Lemma soi_scale : forall a iv idx, sum_over_indices (map (Qcmult a) iv) idx = map (Qcmult a) (sum_over_indices iv idx).
Proof.
  intros a iv idx. induction idx as [|i idx IH]; [reflexivity|].
  destruct idx as [|j idx]; [reflexivity|].
  cbn [sum_over_indices map] in *. rewrite IH, slice_map, sumq_scale. reflexivity.
Qed.

Lemma y_hat_scale : forall pw r a x y t, y_hat pw r x (map (Qcmult a) y) (a * t) = a * y_hat pw r x y t.
Proof.
  intros pw r a x y t. unfold y_hat. rewrite total_scale.
  destruct r; unfold Qcdiv; ring.
Qed.

Lemma stretch_scale : forall pw r a x y t,
  stretch pw r x (map (Qcmult a) y) (a * t) = map (Qcmult a) (stretch pw r x y t).
Proof.
  intros pw r a x y t. unfold stretch. rewrite y_hat_scale.
  apply map2_map_l. intros u v. ring.
Qed.

Lemma interval_loop_scale : forall pw r a x targets fixed y,
  interval_loop pw r x (map (Qcmult a) y) (map (Qcmult a) targets) fixed
  = map (Qcmult a) (interval_loop pw r x y targets fixed).
Proof.
  intros pw r a x targets. induction targets as [|t targets IH]; intros fixed y; [reflexivity|].
  destruct fixed as [|s fixed]; [reflexivity|]. destruct fixed as [|e fixed]; [reflexivity|].
  change (map (Qcmult a) (t :: targets)) with (a * t :: map (Qcmult a) targets).
  rewrite !interval_loop_cons. unfold MatchProofs.step.
  rewrite slice_map, stretch_scale, splice_map. apply IH.
Qed.

Lemma interval_defined_map : forall pw r (f : Qc -> Qc) x targets fixed,
  interval_defined pw r x (map f targets) fixed = interval_defined pw r x targets fixed.
Proof.
  intros pw r f x targets. induction targets as [|t targets IH]; intros fixed; [reflexivity|].
  destruct fixed as [|s fixed]; [reflexivity|]. destruct fixed as [|e fixed]; [reflexivity|].
  cbn [map interval_defined]. rewrite IH. reflexivity.
Qed.

Lemma interval_match_scale : forall pw r a x y targets fixed,
  interval_match pw r x (map (Qcmult a) y) (map (Qcmult a) targets) fixed
  = res_map (map (Qcmult a)) (interval_match pw r x y targets fixed).
Proof.
  intros pw r a x y targets fixed. unfold interval_match.
  destruct r.
  - rewrite interval_defined_map. destruct (interval_defined pw Trapezoid x targets fixed); cbn [res_map];
      [rewrite interval_loop_scale|]; reflexivity.
  - rewrite interval_defined_map. destruct (interval_defined pw Rectangle x targets fixed); cbn [res_map];
      [rewrite interval_loop_scale|]; reflexivity.
  - destruct targets as [|t targets]; [reflexivity|].
    destruct fixed as [|s [|e fixed]]; reflexivity.
Qed.

Lemma match_scale_y_gen : forall pw x y xr yr m rt rr a,
  match_ref pw x (map (Qcmult a) y) xr (map (Qcmult a) yr) m rt rr = res_map (map (Qcmult a)) (match_ref pw x y xr yr m rt rr).
Proof.
  intros pw x y xr yr m rt rr a. unfold match_ref.
  destruct rt; [| |reflexivity].
  all: destruct (resolve_fixed x xr m) as [[fi ridx]|e]; [|reflexivity]; cbn [bind fst snd].
  all: rewrite integral_scale; destruct (integral xr yr rr) as [iv|e]; [|reflexivity]; cbn [bind res_map].
  all: rewrite soi_scale; apply interval_match_scale.
Qed.

Theorem match_scale_y : forall pw x y xr yr m rt rr a, length x = length y -> length xr = length yr ->
  match_ref pw x (map (Qcmult a) y) xr (map (Qcmult a) yr) m rt rr = res_map (map (Qcmult a)) (match_ref pw x y xr yr m rt rr).
Proof. intros pw x y xr yr m rt rr a _ _. apply match_scale_y_gen. Qed.

(** ====================================================================== *)
(** 2. the recreate step under affine maps of the values / the time axis    *)
(** ====================================================================== *)

Definition gpow_one : Qc -> Qc := fun _ => 1.
Lemma gpow_one_pos : GpowPos gpow_one.
Proof. intros g _. unfold gpow_one. qclra. Qed.

Lemma window_a_some0 : forall n, (2 <= n)%nat -> (window_a n 0%Qc (Some 0%Qc) <= Z.of_nat n)%Z.
Proof. intros n Hn. unfold window_a. change (Qc_trunc 0) with 0%Z. lia. Qed.

Lemma strat_y_affine : forall pw gpow k x y N a b, a <> 0 -> (2 <= N)%nat -> (2 <= length x)%nat ->
  length x = length y -> ssorted x -> window_strategy_ok N gpow k ->
  snd (strat pw gpow k x (ymap a b y) N) = ymap a b (snd (strat pw gpow k x y N)).
Proof.
  intros pw gpow k x y N a b Ha HN Hm Hxy Hs Hk.
  assert (H00 : (0 : Qc) <= 0) by qclra. assert (H01 : (0 : Qc) <= 1) by qclra.
  destruct k as [|alpha a'|alpha a'|alpha beta a'|alpha beta a'|f]; cbn [strat window_strategy_ok] in *.
  - exact (proj1 (strategies_y_affine pw gpow_one x y N 0 0 (Some 0) a b Ha gpow_one_pos HN Hm Hxy Hs
                    (window_a_some0 N HN) H00 H01)).
  - exact (proj1 (proj2 (strategies_y_affine pw gpow_one x y N alpha 0 a' a b Ha gpow_one_pos HN Hm Hxy Hs Hk H00 H01))).
  - destruct Hk as [Hw Hg].
    exact (proj1 (proj2 (proj2 (proj2 (strategies_y_affine pw gpow x y N alpha 0 a' a b Ha Hg HN Hm Hxy Hs Hw H00 H01))))).
  - destruct Hk as (Hw & Hb0 & Hb1).
    exact (proj1 (proj2 (proj2 (strategies_y_affine pw gpow_one x y N alpha beta a' a b Ha gpow_one_pos HN Hm Hxy Hs Hw Hb0 Hb1)))).
  - destruct Hk as (Hw & Hb0 & Hb1 & Hg).
    exact (proj2 (proj2 (proj2 (proj2 (strategies_y_affine pw gpow x y N alpha beta a' a b Ha Hg HN Hm Hxy Hs Hw Hb0 Hb1))))).
  - contradiction.
Qed.

Lemma strat_x_affine : forall pw gpow k x y N c d, 0 < c -> (2 <= N)%nat -> (2 <= length x)%nat ->
  length x = length y -> ssorted x -> window_strategy_ok N gpow k ->
  strat pw gpow k (xmap c d x) y N = (xmap c d (oversample_linspace x N), snd (strat pw gpow k x y N)).
Proof.
  intros pw gpow k x y N c d Hc HN Hm Hxy Hs Hk.
  rewrite <- (proj1 (strat_shape pw gpow k x y N HN Hm Hxy)).
  assert (H00 : (0 : Qc) <= 0) by qclra. assert (H01 : (0 : Qc) <= 1) by qclra.
  destruct k as [|alpha a'|alpha a'|alpha beta a'|alpha beta a'|f]; cbn [strat window_strategy_ok] in *.
  - exact (proj1 (strategies_x_affine pw gpow_one x y N 0 0 (Some 0) c d Hc gpow_one_pos HN Hm Hxy Hs
                    (window_a_some0 N HN) H00 H01)).
  - exact (proj1 (proj2 (strategies_x_affine pw gpow_one x y N alpha 0 a' c d Hc gpow_one_pos HN Hm Hxy Hs Hk H00 H01))).
  - destruct Hk as [Hw Hg].
    exact (proj1 (proj2 (proj2 (proj2 (strategies_x_affine pw gpow x y N alpha 0 a' c d Hc Hg HN Hm Hxy Hs Hw H00 H01))))).
  - destruct Hk as (Hw & Hb0 & Hb1).
    exact (proj1 (proj2 (proj2 (strategies_x_affine pw gpow_one x y N alpha beta a' c d Hc gpow_one_pos HN Hm Hxy Hs Hw Hb0 Hb1)))).
  - destruct Hk as (Hw & Hb0 & Hb1 & Hg).
    exact (proj2 (proj2 (proj2 (proj2 (strategies_x_affine pw gpow x y N alpha beta a' c d Hc Hg HN Hm Hxy Hs Hw Hb0 Hb1))))).
  - contradiction.
Qed.

(** ====================================================================== *)
(** 3. unfolding [run] over the programs                                    *)
(** ====================================================================== *)

Lemma run_app_ok : forall l1 l2 s s2, run s (l1 ++ l2) = (s2, Ok tt) ->
  exists s', run s l1 = (s', Ok tt) /\ run s' l2 = (s2, Ok tt).
Proof.
  induction l1 as [|o l1 IH]; intros l2 s s2 H.
  - exists s. split; [reflexivity|exact H].
  - cbn [app run] in *. destruct (step s o) as [s' [u|e]]; [|discriminate].
    apply IH. exact H.
Qed.

Lemma step_recreate : forall s n pwr gpow k, (2 <= n)%Z ->
  step s (ORecreate n pwr gpow k)
  = (set_xy s (fst (strat pwr gpow k (wx s) (wy s) (Z.to_nat n))) (snd (strat pwr gpow k (wx s) (wy s) (Z.to_nat n))), Ok tt).
Proof. intros s n pwr gpow k Hn. unfold step. rewrite (rfa_ge2 pwr gpow k (wx s) (wy s) n Hn). reflexivity. Qed.

Lemma run_pipeline : forall s n pwr gpow k pw rt s', (2 <= n)%Z ->
  run s (pipeline n pwr gpow k pw rt) = (s', Ok tt) ->
  let st := strat pwr gpow k (wx s) (wy s) (Z.to_nat n) in
  exists y', match_ref pw (fst st) (snd st) (wrx s) (wry s) (ByStrategy Closest) rt Rectangle = Ok y' /\
    wx s' = fst st /\ wy s' = y' /\ wrx s' = wrx s /\ wry s' = wry s.
Proof.
  intros s n pwr gpow k pw rt s' Hn H. cbv zeta.
  unfold pipeline in H. cbn [run] in H. rewrite (step_recreate s n pwr gpow k Hn) in H.
  unfold step, fail, done in H. wsimpl.
  destruct (match_ref pw (fst (strat pwr gpow k (wx s) (wy s) (Z.to_nat n)))
              (snd (strat pwr gpow k (wx s) (wy s) (Z.to_nat n))) (wrx s) (wry s) (ByStrategy Closest) rt Rectangle)
    as [y'|e]; [|discriminate].
  injection H as <-. exists y'. wsimpl. repeat split; reflexivity.
Qed.

(** ====================================================================== *)
(** 4. scaling the values                                                   *)
(** ====================================================================== *)

Lemma map_mul_r : forall a l, map (fun v => v * a) l = map (Qcmult a) l.
Proof. intros a l. apply map_ext. intros v. ring. Qed.

Lemma ymap_scale : forall a l, ymap a 0 l = map (Qcmult a) l.
Proof. intros a l. unfold ymap. apply map_ext. intros v. ring. Qed.

Theorem commute_scale_y : forall pw pwr gpow k rt n s, PwOk pw -> known_rule rt -> (2 <= n)%Z -> window_strategy_ok (Z.to_nat n) gpow k ->
  Inv s -> ssorted (wx s) -> (2 <= length (wx s))%nat -> length (wx s) = length (wy s) ->
  forall a s1 s2, a <> 0 ->
  run s (OScaleY a :: pipeline n pwr gpow k pw rt) = (s1, Ok tt) -> run s (pipeline n pwr gpow k pw rt ++ [OScaleY a]) = (s2, Ok tt) ->
  same_series s1 s2.
Proof.
  intros pw pwr gpow k rt n s Hpw Hrt Hn Hk [Ix Iy] Hs Hm Hxy a s1 s2 Ha H1 H2.
  assert (HN : (2 <= Z.to_nat n)%nat) by lia.
  change (run s (OScaleY a :: pipeline n pwr gpow k pw rt))
    with (run (set_ry (set_y s (map (fun v => v * a) (wy s))) (map (fun v => v * a) (wry s))) (pipeline n pwr gpow k pw rt)) in H1.
  apply (run_pipeline _ n pwr gpow k pw rt s1 Hn) in H1. cbv zeta in H1. wsimpl.
  destruct H1 as (y1 & M1 & X1 & Y1 & RX1 & RY1).
  apply run_app_ok in H2. destruct H2 as (s' & H2 & H3).
  apply (run_pipeline _ n pwr gpow k pw rt s' Hn) in H2. cbv zeta in H2.
  destruct H2 as (y2 & M2 & X2 & Y2 & RX2 & RY2).
  cbn [run step done] in H3. injection H3 as <-. unfold same_series. wsimpl.
  rewrite !map_mul_r in *.
  assert (Hxy' : length (wx s) = length (map (Qcmult a) (wy s))) by (rewrite map_length; exact Hxy).
  pose proof (strat_shape pwr gpow k (wx s) (wy s) (Z.to_nat n) HN Hm Hxy) as [F2 L2].
  pose proof (strat_shape pwr gpow k (wx s) (map (Qcmult a) (wy s)) (Z.to_nat n) HN Hm Hxy') as [F1 L1].
  pose proof (strat_y_affine pwr gpow k (wx s) (wy s) (Z.to_nat n) a 0 Ha HN Hm Hxy Hs Hk) as A.
  rewrite !ymap_scale in A.
  rewrite A, F1, <- F2 in M1.
  rewrite match_scale_y_gen, M2 in M1. cbn [res_map] in M1. injection M1 as M1.
  split; [congruence|]. split; [congruence|]. split; congruence.
Qed.

(** ====================================================================== *)
(** 5. shifting the values                                                  *)
(** ====================================================================== *)

Lemma half_double : forall b : Qc, (b + b) * Qc_half = b.
Proof. intros b. rewrite Qc_half_eq. field. intro H. discriminate H. Qed.

Lemma rect_shift_sum : forall b X Y, length X = length Y ->
  sumq (rectangle_integral X (map (fun v => v + b) Y)) = sumq (rectangle_integral X Y) + b * (lastq X - headq X).
Proof.
  intros b X. induction X as [|x0 X IH]; intros Y L.
  - destruct Y; [|discriminate]. cbn. ring.
  - destruct Y as [|y0 Y]; [discriminate|]. injection L as L.
    destruct X as [|x1 X].
    + cbn. ring.
    + change (map (fun v => v + b) (y0 :: Y)) with (y0 + b :: map (fun v => v + b) Y).
      rewrite !rect_cons2. cbn [sumq]. rewrite (IH Y L).
      rewrite (lastq_cons x0 (x1 :: X)) by discriminate. cbn [headq hd]. ring.
Qed.

Lemma trap_shift_sum : forall b X Y, length X = length Y ->
  sumq (trapezoid_integral X (map (fun v => v + b) Y)) = sumq (trapezoid_integral X Y) + b * (lastq X - headq X).
Proof.
  intros b X. induction X as [|x0 X IH]; intros Y L.
  - destruct Y; [|discriminate]. cbn. ring.
  - destruct Y as [|y0 Y]; [discriminate|]. injection L as L.
    destruct X as [|x1 X].
    + destruct Y; [|discriminate]. cbn. ring.
    + destruct Y as [|y1 Y]; [discriminate|].
      change (map (fun v => v + b) (y0 :: y1 :: Y)) with (y0 + b :: y1 + b :: map (fun v => v + b) Y).
      rewrite trap_cons2. change (y1 + b :: map (fun v => v + b) Y) with (map (fun v => v + b) (y1 :: Y)).
      rewrite trap_cons2. cbn [sumq]. rewrite (IH (y1 :: Y) L).
      rewrite (lastq_cons x0 (x1 :: X)) by discriminate. cbn [headq hd].
      replace (y0 + b + (y1 + b)) with ((y0 + y1) + (b + b)) by ring.
      rewrite Qcmult_plus_distr_l, half_double. ring.
Qed.

Lemma total_shift : forall r b X Y, length X = length Y ->
  total r X (map (fun v => v + b) Y) = total r X Y + b * (lastq X - headq X).
Proof.
  intros r b X Y L. unfold total. destruct r; cbn [integ];
    [apply trap_shift_sum|apply rect_shift_sum|apply rect_shift_sum]; exact L.
Qed.

Lemma stretch_shift : forall pw r b X Y t, length X = length Y ->
  stretch pw r X (map (fun v => v + b) Y) (t + b * (lastq X - headq X)) = map (fun v => v + b) (stretch pw r X Y t).
Proof.
  intros pw r b X Y t L. unfold stretch.
  assert (E : y_hat pw r X (map (fun v => v + b) Y) (t + b * (lastq X - headq X)) = y_hat pw r X Y t).
  { unfold y_hat. rewrite (total_shift r b X Y L).
    replace (t + b * (lastq X - headq X) - (total r X Y + b * (lastq X - headq X))) with (t - total r X Y) by ring.
    reflexivity. }
  rewrite E. apply (map2_map_l (fun v => v + b)). intros u v. ring.
Qed.

Lemma interval_loop_shift : forall pw r b x fixed targets targets' y,
  length x = length y -> increasing fixed -> all_below fixed (length x) ->
  length targets' = length targets ->
  (forall j, (j + 1 < length fixed)%nat -> (j < length targets)%nat ->
     nthq j targets' = nthq j targets + b * (nthq (fx fixed (j + 1)) x - nthq (fx fixed j) x)) ->
  interval_loop pw r x (map (fun v => v + b) y) targets' fixed
  = map (fun v => v + b) (interval_loop pw r x y targets fixed).
Proof.
  intros pw r b x fixed. induction fixed as [|s fixed IH]; intros targets targets' y Hxy Hinc Hbel Hlen Ht.
  - rewrite (proj1 (interval_loop_short pw r x _ targets')), (proj1 (interval_loop_short pw r x _ targets)). reflexivity.
  - destruct fixed as [|e fixed].
    + rewrite (proj2 (interval_loop_short pw r x _ targets')), (proj2 (interval_loop_short pw r x _ targets)). reflexivity.
    + destruct targets as [|t targets]; destruct targets' as [|t' targets']; try discriminate.
      * rewrite !interval_loop_nil_t. reflexivity.
      * injection Hlen as Hlen. rewrite !interval_loop_cons. unfold MatchProofs.step.
        destruct Hinc as [Hse Hinc]. apply all_below_cons in Hbel. destruct Hbel as [Hsl Hbel].
        assert (Hel : (e < length x)%nat) by (apply Hbel; left; reflexivity).
        assert (E0 : t' = t + b * (nthq e x - nthq s x)).
        { specialize (Ht O). cbn [length] in Ht. rewrite !nthq_cons_0 in Ht. apply Ht; lia. }
        assert (Hh : headq (slice x s (e + 1)) = nthq s x) by (apply headq_slice; lia).
        assert (Hl : lastq (slice x s (e + 1)) = nthq e x).
        { rewrite lastq_slice by lia. f_equal. lia. }
        assert (HL : length (slice x s (e + 1)) = length (slice y s (e + 1))).
        { rewrite !slice_len, Hxy. reflexivity. }
        rewrite slice_map, E0, <- Hh, <- Hl, (stretch_shift pw r b _ _ t HL), splice_map.
        apply IH.
        -- rewrite splice_stretch_length; assumption.
        -- exact Hinc.
        -- exact Hbel.
        -- exact Hlen.
        -- intros j Hj1 Hj2. specialize (Ht (S j)). cbn [length] in Ht, Hj1.
           rewrite !nthq_cons_S in Ht.
           change (S j + 1)%nat with (S (j + 1)) in Ht. rewrite !fx_cons_S in Ht.
           apply Ht; lia.
Qed.

Lemma interval_defined_len : forall pw r x targets targets' fixed, length targets' = length targets ->
  interval_defined pw r x targets' fixed = interval_defined pw r x targets fixed.
Proof.
  intros pw r x targets. induction targets as [|t targets IH]; intros targets' fixed L.
  - destruct targets'; [reflexivity|discriminate].
  - destruct targets' as [|t' targets']; [discriminate|]. injection L as L.
    destruct fixed as [|s fixed]; [reflexivity|]. destruct fixed as [|e fixed]; [reflexivity|].
    cbn [interval_defined]. rewrite (IH targets' (e :: fixed) L). reflexivity.
Qed.

Lemma grid_fi_facts : forall x N, (2 <= length x)%nat -> (2 <= N)%nat ->
  let fi := map (fun k => (k * N)%nat) (seq 0 (length x)) in
  increasing fi /\ all_below fi (length (oversample_linspace x N)) /\ length fi = length x.
Proof.
  intros x N Hm HN. cbv zeta. split; [|split].
  - apply increasing_map_mul_seq. lia.
  - intros i Hi. apply in_map_iff in Hi. destruct Hi as [k [<- Hk]]. apply in_seq in Hk.
    apply (grid_pos_lt x N Hm HN). lia.
  - rewrite map_length, seq_length. reflexivity.
Qed.

Lemma pipeline_match_shift : forall pw x y N ys rt b, known_rule rt ->
  ssorted x -> (2 <= length x)%nat -> length x = length y -> (2 <= N)%nat ->
  length ys = ((length x - 1) * N + 1)%nat ->
  match_ref pw (oversample_linspace x N) (map (fun v => v + b) ys) x (map (fun v => v + b) y) (ByStrategy Closest) rt Rectangle
  = res_map (map (fun v => v + b)) (match_ref pw (oversample_linspace x N) ys x y (ByStrategy Closest) rt Rectangle).
Proof.
  intros pw x y N ys rt b Hrt Hs Hm Hxy HN Hys.
  pose proof (pipeline_fixed_points x N Hs Hm HN) as FP.
  pose proof (grid_length x N Hm HN) as HGl.
  destruct (grid_fi_facts x N Hm HN) as (Finc & Fbel & Flen).
  assert (HR : known_rule Rectangle) by (right; reflexivity).
  rewrite (match_ref_eq pw _ _ x _ _ rt Rectangle _ _ Hrt HR FP).
  rewrite (match_ref_eq pw _ _ x _ _ rt Rectangle _ _ Hrt HR FP).
  set (fi := map (fun k => (k * N)%nat) (seq 0 (length x))) in *.
  set (T' := sum_over_indices (integ Rectangle x (map (fun v => v + b) y)) (seq 0 (length x))).
  set (T := sum_over_indices (integ Rectangle x y) (seq 0 (length x))).
  assert (HT : length T' = length T) by (unfold T, T'; rewrite !soi_length; reflexivity).
  assert (HTl : length T = (length x - 1)%nat) by (unfold T; rewrite soi_length, seq_length; reflexivity).
  assert (Hxy' : length x = length (map (fun v => v + b) y)) by (rewrite map_length; exact Hxy).
  assert (Hloop : interval_loop pw rt (oversample_linspace x N) (map (fun v => v + b) ys) T' fi
                  = map (fun v => v + b) (interval_loop pw rt (oversample_linspace x N) ys T fi)).
  { apply interval_loop_shift; try assumption.
    - rewrite HGl. symmetry. exact Hys.
    - intros j Hj1 Hj2. rewrite Flen in Hj1. unfold fi. rewrite !fx_grid by lia.
      rewrite !(grid_at x N Hm HN) by lia.
      unfold T', T. rewrite !nthq_soi by (rewrite seq_length; lia).
      pose proof (ref_integral_rectangle_seq x (map (fun v => v + b) y) j Hj1 Hxy') as R1.
      pose proof (ref_integral_rectangle_seq x y j Hj1 Hxy) as R2.
      unfold ref_integral in R1, R2. rewrite R1, R2.
      rewrite nthq_map by lia. ring. }
  unfold interval_match. destruct Hrt as [-> | ->].
  - rewrite (interval_defined_len pw Trapezoid _ T T' fi HT).
    destruct (interval_defined pw Trapezoid (oversample_linspace x N) T fi); cbn [res_map]; [rewrite Hloop|]; reflexivity.
  - rewrite (interval_defined_len pw Rectangle _ T T' fi HT).
    destruct (interval_defined pw Rectangle (oversample_linspace x N) T fi); cbn [res_map]; [rewrite Hloop|]; reflexivity.
Qed.

Lemma ymap_shift : forall b l, ymap 1 b l = map (fun v => v + b) l.
Proof. intros b l. unfold ymap. apply map_ext. intros v. ring. Qed.

Theorem commute_shift_y : forall pw pwr gpow k rt n s, PwOk pw -> known_rule rt -> (2 <= n)%Z -> window_strategy_ok (Z.to_nat n) gpow k ->
  Inv s -> ssorted (wx s) -> (2 <= length (wx s))%nat -> length (wx s) = length (wy s) ->
  forall b s1 s2,
  run s (OShiftY b :: pipeline n pwr gpow k pw rt) = (s1, Ok tt) -> run s (pipeline n pwr gpow k pw rt ++ [OShiftY b]) = (s2, Ok tt) ->
  same_series s1 s2.
Proof.
  intros pw pwr gpow k rt n s Hpw Hrt Hn Hk [Ix Iy] Hs Hm Hxy b s1 s2 H1 H2.
  assert (HN : (2 <= Z.to_nat n)%nat) by lia.
  change (run s (OShiftY b :: pipeline n pwr gpow k pw rt))
    with (run (set_ry (set_y s (map (fun v => v + b) (wy s))) (map (fun v => v + b) (wry s))) (pipeline n pwr gpow k pw rt)) in H1.
  apply (run_pipeline _ n pwr gpow k pw rt s1 Hn) in H1. cbv zeta in H1. wsimpl.
  destruct H1 as (y1 & M1 & X1 & Y1 & RX1 & RY1).
  apply run_app_ok in H2. destruct H2 as (s' & H2 & H3).
  apply (run_pipeline _ n pwr gpow k pw rt s' Hn) in H2. cbv zeta in H2.
  destruct H2 as (y2 & M2 & X2 & Y2 & RX2 & RY2).
  cbn [run step done] in H3. injection H3 as <-. unfold same_series. wsimpl.
  assert (Hxy' : length (wx s) = length (map (fun v => v + b) (wy s))) by (rewrite map_length; exact Hxy).
  pose proof (strat_shape pwr gpow k (wx s) (wy s) (Z.to_nat n) HN Hm Hxy) as [F2 L2].
  pose proof (strat_shape pwr gpow k (wx s) (map (fun v => v + b) (wy s)) (Z.to_nat n) HN Hm Hxy') as [F1 L1].
  assert (H10 : (1 : Qc) <> 0) by (intro E; discriminate E).
  pose proof (strat_y_affine pwr gpow k (wx s) (wy s) (Z.to_nat n) 1 b H10 HN Hm Hxy Hs Hk) as A.
  rewrite !ymap_shift in A.
  rewrite A, F1 in M1. rewrite F2 in M2.
  rewrite <- Ix, <- Iy in M1, M2.
  rewrite (pipeline_match_shift pw (wx s) (wy s) (Z.to_nat n) _ rt b Hrt Hs Hm Hxy HN L2), M2 in M1.
  cbn [res_map] in M1. injection M1 as M1.
  split; [congruence|]. split; [congruence|]. split; congruence.
Qed.

(** ====================================================================== *)
(** 6. affine maps of the time axis (positive factor)                       *)
(** ====================================================================== *)

Section XAffine.
Variables c d : Qc.
Hypothesis Hc : 0 < c.
Let F : Qc -> Qc := fun v => c * v + d.

Lemma c_neq0 : c <> 0.
Proof. intro E. rewrite E in Hc. qclra. Qed.

Lemma Qc_abs_pos_id : Qc_abs c = c.
Proof. unfold Qc_abs. qc_case (Qc_leb 0 c); [reflexivity|]. exfalso. qclra. Qed.

Lemma mid_affine : forall l h xi, ((c * l + d) + (c * h + d)) * Qc_half - (c * xi + d) = c * ((l + h) * Qc_half - xi).
Proof. intros l h xi. rewrite Qc_half_eq. field. intro H. discriminate H. Qed.

Lemma ends_xaff : forall X, lastq (map F X) - headq (map F X) = c * (lastq X - headq X).
Proof.
  intros X. destruct X as [|x0 X]; [cbn; ring|].
  rewrite lastq_map, headq_map by discriminate. unfold F. ring.
Qed.

Lemma weights_xaff : forall pw X, weights pw (map F X) = weights pw X.
Proof.
  intros pw X. unfold weights. rewrite map_length.
  destruct (length X =? 2)%nat; [reflexivity|].
  destruct X as [|x0 X]; [reflexivity|].
  rewrite lastq_map, headq_map by discriminate. rewrite map_map. apply map_ext. intros xi.
  f_equal. f_equal. unfold F. rewrite mid_affine.
  replace (c * lastq (x0 :: X) + d - (c * headq (x0 :: X) + d)) with (c * (lastq (x0 :: X) - headq (x0 :: X))) by ring.
  rewrite E_Qc_abs_mul, Qc_abs_pos_id, (E_muldiv_assoc Qc_two), (E_scale_ratio c _ _ c_neq0).
  symmetry. apply E_muldiv_assoc.
Qed.

Lemma rect_xaff : forall X Y, rectangle_integral (map F X) Y = map (Qcmult c) (rectangle_integral X Y).
Proof.
  intros X. induction X as [|x0 X IH]; intros Y; [reflexivity|].
  destruct X as [|x1 X]; [destruct Y; reflexivity|].
  destruct Y as [|y0 Y]; [reflexivity|].
  change (map F (x0 :: x1 :: X)) with (F x0 :: F x1 :: map F X).
  rewrite !rect_cons2. change (F x1 :: map F X) with (map F (x1 :: X)). rewrite IH.
  cbn [map]. f_equal. unfold F. ring.
Qed.

Lemma trap_xaff : forall X Y, trapezoid_integral (map F X) Y = map (Qcmult c) (trapezoid_integral X Y).
Proof.
  intros X. induction X as [|x0 X IH]; intros Y; [reflexivity|].
  destruct X as [|x1 X]; [destruct Y as [|? [|? ?]]; reflexivity|].
  destruct Y as [|y0 Y]; [reflexivity|]. destruct Y as [|y1 Y]; [reflexivity|].
  change (map F (x0 :: x1 :: X)) with (F x0 :: F x1 :: map F X).
  rewrite !trap_cons2. change (F x1 :: map F X) with (map F (x1 :: X)). rewrite IH.
  cbn [map]. f_equal. unfold F. ring.
Qed.

Lemma total_xaff : forall r X Y, total r (map F X) Y = c * total r X Y.
Proof.
  intros r X Y. unfold total. destruct r; cbn [integ]; rewrite ?trap_xaff, ?rect_xaff; apply sumq_scale.
Qed.

Lemma wsum_trap_xaff : forall w X, wsum_trap w (map F X) = c * wsum_trap w X.
Proof. intros w X. rewrite !wsum_trap_total, trap_xaff, sumq_scale. ring. Qed.

Lemma wsum_rect_xaff : forall w X, wsum_rect w (map F X) = c * wsum_rect w X.
Proof. intros w X. rewrite !wsum_rect_total, rect_xaff, sumq_scale. ring. Qed.

Lemma y_hat_xaff : forall pw r X Y t, y_hat pw r (map F X) Y (c * t) = y_hat pw r X Y t.
Proof.
  intros pw r X Y t. unfold y_hat. rewrite weights_xaff, total_xaff.
  destruct r.
  - rewrite wsum_trap_xaff.
    replace (Qc_two * (c * t - c * total Trapezoid X Y)) with (c * (Qc_two * (t - total Trapezoid X Y))) by ring.
    apply E_scale_ratio. exact c_neq0.
  - rewrite wsum_rect_xaff.
    replace (c * t - c * total Rectangle X Y) with (c * (t - total Rectangle X Y)) by ring.
    apply E_scale_ratio. exact c_neq0.
  - reflexivity.
Qed.

Lemma stretch_xaff : forall pw r X Y t, stretch pw r (map F X) Y (c * t) = stretch pw r X Y t.
Proof. intros pw r X Y t. unfold stretch. rewrite y_hat_xaff, weights_xaff. reflexivity. Qed.

Lemma stretch_defined_xaff : forall pw r X, stretch_defined pw r (map F X) = stretch_defined pw r X.
Proof.
  intros pw r X. unfold stretch_defined.
  rewrite weights_xaff, map_length, ends_xaff, wsum_trap_xaff, wsum_rect_xaff, !(E_eqb_scale c _ c_neq0).
  reflexivity.
Qed.

Lemma interval_loop_xaff : forall pw r x targets fixed y,
  interval_loop pw r (map F x) y (map (Qcmult c) targets) fixed = interval_loop pw r x y targets fixed.
Proof.
  intros pw r x targets. induction targets as [|t targets IH]; intros fixed y; [reflexivity|].
  destruct fixed as [|s fixed]; [reflexivity|]. destruct fixed as [|e fixed]; [reflexivity|].
  change (map (Qcmult c) (t :: targets)) with (c * t :: map (Qcmult c) targets).
  rewrite !interval_loop_cons. unfold MatchProofs.step.
  rewrite slice_map, stretch_xaff. apply IH.
Qed.

Lemma interval_defined_xaff : forall pw r x targets fixed,
  interval_defined pw r (map F x) targets fixed = interval_defined pw r x targets fixed.
Proof.
  intros pw r x targets. induction targets as [|t targets IH]; intros fixed; [reflexivity|].
  destruct fixed as [|s fixed]; [reflexivity|]. destruct fixed as [|e fixed]; [reflexivity|].
  cbn [interval_defined]. rewrite slice_map, stretch_defined_xaff, IH. reflexivity.
Qed.

Lemma interval_match_xaff : forall pw r x y targets fixed,
  interval_match pw r (map F x) y (map (Qcmult c) targets) fixed = interval_match pw r x y targets fixed.
Proof.
  intros pw r x y targets fixed. unfold interval_match.
  destruct r.
  - rewrite interval_defined_map, interval_defined_xaff, interval_loop_xaff. reflexivity.
  - rewrite interval_defined_map, interval_defined_xaff, interval_loop_xaff. reflexivity.
  - destruct targets; reflexivity.
Qed.

Lemma pipeline_match_xaff : forall pw x y N ys rt,
  ssorted x -> (2 <= length x)%nat -> (2 <= N)%nat ->
  match_ref pw (map F (oversample_linspace x N)) ys (map F x) y (ByStrategy Closest) rt Rectangle
  = match_ref pw (oversample_linspace x N) ys x y (ByStrategy Closest) rt Rectangle.
Proof.
  intros pw x y N ys rt Hs Hm HN.
  pose proof (pipeline_fixed_points x N Hs Hm HN) as FP.
  assert (Hs' : ssorted (map F x)) by exact (ssorted_xmap c d x Hc Hs).
  assert (Hm' : (2 <= length (map F x))%nat) by (rewrite map_length; exact Hm).
  pose proof (pipeline_fixed_points (map F x) N Hs' Hm' HN) as FP'.
  pose proof (grid_x_affine x N c d) as GA. unfold RfaEquivProofs.xmap in GA. fold F in GA.
  rewrite GA, map_length in FP'.
  assert (HR : known_rule Rectangle) by (right; reflexivity).
  destruct rt as [| |]; [| |reflexivity].
  1: assert (Hrt : known_rule Trapezoid) by (left; reflexivity).
  2: assert (Hrt : known_rule Rectangle) by (right; reflexivity).
  all: rewrite (match_ref_eq pw _ _ _ _ _ _ Rectangle _ _ Hrt HR FP).
  all: rewrite (match_ref_eq pw _ _ _ _ _ _ Rectangle _ _ Hrt HR FP').
  all: cbn [integ]; rewrite rect_xaff, soi_scale; apply interval_match_xaff.
Qed.

Lemma commute_x_affine : forall pw pwr gpow k rt n s, (2 <= n)%Z -> window_strategy_ok (Z.to_nat n) gpow k ->
  Inv s -> ssorted (wx s) -> (2 <= length (wx s))%nat -> length (wx s) = length (wy s) ->
  forall s1 s',
  run (set_rx (set_x s (map F (wx s))) (map F (wrx s))) (pipeline n pwr gpow k pw rt) = (s1, Ok tt) ->
  run s (pipeline n pwr gpow k pw rt) = (s', Ok tt) ->
  wx s1 = map F (wx s') /\ wy s1 = wy s' /\ wrx s1 = map F (wrx s') /\ wry s1 = wry s'.
Proof.
  intros pw pwr gpow k rt n s Hn Hk [Ix Iy] Hs Hm Hxy s1 s' H1 H2.
  assert (HN : (2 <= Z.to_nat n)%nat) by lia.
  apply (run_pipeline _ n pwr gpow k pw rt s1 Hn) in H1. cbv zeta in H1. wsimpl.
  destruct H1 as (y1 & M1 & X1 & Y1 & RX1 & RY1).
  apply (run_pipeline _ n pwr gpow k pw rt s' Hn) in H2. cbv zeta in H2.
  destruct H2 as (y2 & M2 & X2 & Y2 & RX2 & RY2).
  pose proof (strat_shape pwr gpow k (wx s) (wy s) (Z.to_nat n) HN Hm Hxy) as [F2 L2].
  pose proof (strat_x_affine pwr gpow k (wx s) (wy s) (Z.to_nat n) c d Hc HN Hm Hxy Hs Hk) as A.
  unfold xmap in A. fold F in A.
  rewrite A in M1, X1. cbn [fst snd] in M1, X1. rewrite F2 in M2, X2.
  rewrite <- Ix, <- Iy in M1, M2.
  rewrite (pipeline_match_xaff pw (wx s) (wy s) (Z.to_nat n) _ rt Hs Hm HN), M2 in M1.
  injection M1 as M1.
  split; [congruence|]. split; [congruence|]. split; congruence.
Qed.

End XAffine.

(** ====================================================================== *)
(** 7. shifting / scaling the time axis                                     *)
(** ====================================================================== *)

Lemma map_shift_x : forall d l, map (fun v => v + d) l = map (fun v => 1 * v + d) l.
Proof. intros d l. apply map_ext. intros v. ring. Qed.

Lemma map_scale_x : forall c l, map (fun v => v * c) l = map (fun v => c * v + 0) l.
Proof. intros c l. apply map_ext. intros v. ring. Qed.

Theorem commute_shift_x : forall pw pwr gpow k rt n s, PwOk pw -> known_rule rt -> (2 <= n)%Z -> window_strategy_ok (Z.to_nat n) gpow k ->
  Inv s -> ssorted (wx s) -> (2 <= length (wx s))%nat -> length (wx s) = length (wy s) ->
  forall d s1 s2,
  run s (OShiftX d :: pipeline n pwr gpow k pw rt) = (s1, Ok tt) -> run s (pipeline n pwr gpow k pw rt ++ [OShiftX d]) = (s2, Ok tt) ->
  same_series s1 s2.
Proof.
  intros pw pwr gpow k rt n s Hpw Hrt Hn Hk HI Hs Hm Hxy d s1 s2 H1 H2.
  change (run s (OShiftX d :: pipeline n pwr gpow k pw rt))
    with (run (set_rx (set_x s (map (fun v => v + d) (wx s))) (map (fun v => v + d) (wrx s))) (pipeline n pwr gpow k pw rt)) in H1.
  rewrite !map_shift_x in H1.
  apply run_app_ok in H2. destruct H2 as (s' & H2 & H3).
  assert (H10 : (0 : Qc) < 1) by qclra.
  destruct (commute_x_affine 1 d H10 pw pwr gpow k rt n s Hn Hk HI Hs Hm Hxy s1 s' H1 H2) as (E1 & E2 & E3 & E4).
  cbn [run step done] in H3. injection H3 as <-. unfold same_series. wsimpl.
  rewrite !map_shift_x. repeat split; assumption.
Qed.

Theorem commute_scale_x : forall pw pwr gpow k rt n s, PwOk pw -> known_rule rt -> (2 <= n)%Z -> window_strategy_ok (Z.to_nat n) gpow k ->
  Inv s -> ssorted (wx s) -> (2 <= length (wx s))%nat -> length (wx s) = length (wy s) ->
  forall c s1 s2, 0 < c ->
  run s (OScaleX c :: pipeline n pwr gpow k pw rt) = (s1, Ok tt) -> run s (pipeline n pwr gpow k pw rt ++ [OScaleX c]) = (s2, Ok tt) ->
  same_series s1 s2.
Proof.
  intros pw pwr gpow k rt n s Hpw Hrt Hn Hk HI Hs Hm Hxy c s1 s2 Hc H1 H2.
  change (run s (OScaleX c :: pipeline n pwr gpow k pw rt))
    with (run (set_rx (set_x s (map (fun v => v * c) (wx s))) (map (fun v => v * c) (wrx s))) (pipeline n pwr gpow k pw rt)) in H1.
  rewrite !map_scale_x in H1.
  apply run_app_ok in H2. destruct H2 as (s' & H2 & H3).
  destruct (commute_x_affine c 0 Hc pw pwr gpow k rt n s Hn Hk HI Hs Hm Hxy s1 s' H1 H2) as (E1 & E2 & E3 & E4).
  cbn [run step done] in H3. injection H3 as <-. unfold same_series. wsimpl.
  rewrite !map_scale_x. repeat split; assumption.
Qed.
