(** The regenerated bodies of the module-level functions of sorted_array_utils.py (Gen/UtilsGlue.v), run by the
    function-level interpreter of Model/GlueFun.v with the leaves of Model/GlueLeaves.v, against the hand-written
    models of Model/SortedUtils.v and Model/Search.v.

    As in Proofs/GlueProofs.v nothing of the generated bodies is restated: a proof is a symbolic execution
    ([fn_run]) of whatever term [assoc <function> utils_functions] computes to, one statement at a time; the run stops
    at the array primitives (a[:-1], a[1:], a[-1], a[-2], np.diff, elementwise arithmetic), which are then related
    to the model by the list lemmas of the first section. *)
From Coq Require Import Lia Bool.
From TW Require Import Model.GlueLeaves Gen.UtilsGlue Proofs.ListLemmas Proofs.ListLemmas4 Proofs.ListLemmas7 Proofs.KernelsLink.
Open Scope Qc_scope.
Open Scope string_scope.

(** ---------------- facts about the leaves ---------------- *)
Lemma slice_full_firstn : forall (l : list Qc) n, slice l 0 n = firstn n l.
Proof. intros l n. unfold slice. rewrite Nat.sub_0_r. reflexivity. Qed.

(** a[:-1] *)
Lemma slice_val_init : forall l, slice_val (VArr l) VNoneV (VInt (-1)) VNoneV = Ok (VArr (removelast l)).
Proof.
  intros l. unfold slice_val. cbn [Z.leb Z.compare andb is_none orb bind].
  rewrite py_slice_step1. cbn [bind]. do 2 f_equal.
  unfold sl_pos, clampZ. cbn [Z.ltb Z.compare].
  replace (Z.to_nat (Z.max 0 (Z.min 0 (Z.of_nat (length l))))) with O by lia.
  replace (Z.to_nat (Z.max 0 (Z.min (-1 + Z.of_nat (length l)) (Z.of_nat (length l))))) with (pred (length l)) by lia.
  rewrite slice_full_firstn. symmetry. apply removelast_firstn_len.
Qed.

(** a[1:] *)
Lemma slice_val_tail : forall l, slice_val (VArr l) (VInt 1) VNoneV VNoneV = Ok (VArr (tl l)).
Proof.
  intros l. unfold slice_val. cbn [Z.leb Z.compare andb is_none orb bind].
  rewrite py_slice_step1. cbn [bind]. do 2 f_equal.
  unfold sl_pos, clampZ. cbn [Z.ltb Z.compare].
  destruct l as [|a l]; [reflexivity|].
  replace (Z.of_nat (length (a :: l)) <? 0)%Z with false by (symmetry; apply Z.ltb_ge; lia).
  replace (Z.to_nat (Z.max 0 (Z.min 1 (Z.of_nat (length (a :: l)))))) with 1%nat by (cbn [length]; lia).
  replace (Z.to_nat (Z.max 0 (Z.min (Z.of_nat (length (a :: l))) (Z.of_nat (length (a :: l)))))) with (S (length l))
    by (cbn [length]; lia).
  unfold slice. cbn [skipn tl]. replace (S (length l) - 1)%nat with (length l) by lia. apply firstn_all.
Qed.

Lemma removelast_length : forall (l : list Qc), length (removelast l) = (length l - 1)%nat.
Proof. intros l. rewrite removelast_firstn_len, firstn_length. lia. Qed.
Lemma tl_length : forall (l : list Qc), length (tl l) = (length l - 1)%nat.
Proof. intros [|a l]; cbn [tl length]; lia. Qed.
Lemma diffs_length : forall l, length (diffs l) = (length l - 1)%nat.
Proof.
  induction l as [|a l IH]; [reflexivity|]. destruct l as [|b l]; [reflexivity|].
  rewrite diffs_cons2. cbn [length] in *. rewrite IH. lia.
Qed.

(** a[-k], 1 <= k <= len(a) *)
Lemma py_index_from_end : forall (l : list Qc) k, (1 <= k <= length l)%nat ->
  py_index l (- Z.of_nat k) = Some (nthq (length l - k) l).
Proof.
  intros l k Hk. unfold py_index.
  replace (- Z.of_nat k <? 0)%Z with true by (symmetry; apply Z.ltb_lt; lia).
  replace (Z.of_nat (length l) + - Z.of_nat k <? 0)%Z with false by (symmetry; apply Z.ltb_ge; lia).
  replace (Z.of_nat (length l) <=? Z.of_nat (length l) + - Z.of_nat k)%Z with false by (symmetry; apply Z.leb_gt; lia).
  cbn [orb]. replace (Z.to_nat (Z.of_nat (length l) + - Z.of_nat k)) with (length l - k)%nat by lia.
  unfold nthq. apply nth_error_nth'. lia.
Qed.
Lemma py_index_m1 : forall (l : list Qc), (1 <= length l)%nat -> py_index l (-1) = Some (nthq (length l - 1) l).
Proof. intros l H. apply (py_index_from_end l 1). lia. Qed.
Lemma py_index_m2 : forall (l : list Qc), (2 <= length l)%nat -> py_index l (-2) = Some (nthq (length l - 2) l).
Proof. intros l H. apply (py_index_from_end l 2). lia. Qed.
Lemma py_index_0 : forall (l : list Qc), (1 <= length l)%nat -> py_index l 0 = Some (headq l).
Proof.
  intros [|a l] H; cbn [length] in H; [lia|]. unfold py_index. cbn [Z.ltb Z.compare].
  replace (Z.of_nat (length (a :: l)) <=? 0)%Z with false by (symmetry; apply Z.leb_gt; cbn [length]; lia). reflexivity.
Qed.

(** ---------------- the symbolic execution ---------------- *)
Definition fexec_k (r : fenv * outcome) (k : fenv -> fenv * outcome) : fenv * outcome :=
  match snd r with ONormal => k (fst r) | _ => r end.

Lemma fexec_cons : forall cf mf af pf en st l,
  fexec cf mf af pf en (st :: l) = fexec_k (fexec1 cf mf af pf en st) (fun en' => fexec cf mf af pf en' l).
Proof. reflexivity. Qed.
Lemma fexec1_if : forall cf mf af pf en c th el,
  fexec1 cf mf af pf en (SIf c th el) =
  match feval cf mf af pf en c with
  | Raise x => (en, ORaise x)
  | Ok (VBoolV true) => fexec cf mf af pf en th
  | Ok (VBoolV false) => fexec cf mf af pf en el
  | Ok _ => (en, ORaise TypeError)
  end.
Proof. reflexivity. Qed.
Lemma fexec_nil : forall cf mf af pf en, fexec cf mf af pf en [] = (en, ONormal).
Proof. reflexivity. Qed.
Lemma fexec_k_normal : forall en k, fexec_k (en, ONormal) k = k en.
Proof. reflexivity. Qed.
Lemma fexec_k_raise : forall en e k, fexec_k (en, ORaise e) k = (en, ORaise e).
Proof. reflexivity. Qed.
Lemma fexec_k_return : forall en v k, fexec_k (en, OReturn v) k = (en, OReturn v).
Proof. reflexivity. Qed.

(** everything that is not interpreter stays folded: numbers, list functions, the model's functions *)
Ltac fn_cbn :=
  cbn -[Qcplus Qcmult Qcdiv Qcminus Qcopp Qcinv Q2Qc Qc_eqb Qc_ltb Qc_leb Qc_of_Z Qc_of_nat
        map map2 seq app length removelast tl diffs py_index slice_val nth_error Nat.eqb
        trapezoid_integral rectangle_integral integral find_closest find_lower find_higher find_indices
        append_one_sample headq lastq nthq
        Z.of_nat Z.to_nat Z.add Z.sub Z.mul
        fexec fexec_k].
Ltac fn_red := unfold bind; fn_cbn; repeat (progress unfold bind; fn_cbn).

Ltac atomic e := lazymatch e with context [match _ with _ => _ end] => fail | _ => idtac end.

Ltac len_solve := rewrite ?map_length, ?map2_len, ?removelast_length, ?tl_length, ?diffs_length; lia.

Ltac fn_step :=
  first
  [ match goal with
    | |- context [fexec ?cf ?mf ?af ?pf ?en (SIf ?c ?th ?el :: ?l)] =>
        rewrite (fexec_cons cf mf af pf en (SIf c th el) l), (fexec1_if cf mf af pf en c th el)
    | |- context [fexec ?cf ?mf ?af ?pf ?en (?st :: ?l)] => rewrite (fexec_cons cf mf af pf en st l)
    | |- context [fexec ?cf ?mf ?af ?pf ?en []] => rewrite (fexec_nil cf mf af pf en)
    | |- context [fexec_k (?en, ONormal) ?k] => rewrite (fexec_k_normal en k)
    | |- context [fexec_k (?en, ORaise ?e) ?k] => rewrite (fexec_k_raise en e k)
    | |- context [fexec_k (?en, OReturn ?v) ?k] => rewrite (fexec_k_return en v k)
    | H : ?e = _ |- context [match ?e with _ => _ end] => rewrite H
    (* leaves *)
    | |- context [slice_val (VArr ?l) VNoneV (VInt (-1)) VNoneV] => rewrite (slice_val_init l)
    | |- context [slice_val (VArr ?l) (VInt 1) VNoneV VNoneV] => rewrite (slice_val_tail l)
    | |- context [py_index ?l 0%Z] => rewrite (py_index_0 l) by assumption
    | |- context [py_index ?l (-1)%Z] => rewrite (py_index_m1 l) by assumption
    | |- context [py_index ?l (-2)%Z] => rewrite (py_index_m2 l) by assumption
    (* the operands of an elementwise operation have the same length *)
    | |- context [(length ?a =? length ?b)%nat] =>
        rewrite (proj2 (Nat.eqb_eq (length a) (length b))) by len_solve
    end
  (* stuck on a model call: split it, on both sides at once *)
  | match goal with |- context [match ?e with _ => _ end] => atomic e; destruct e eqn:? end ].
Ltac fn_run := repeat (fn_red; fn_step); fn_red.

(** the body and the formals of a function of the table, computed; nothing else is *)
Ltac fn_enter f :=
  unfold call_fun;
  let b := eval vm_compute in (assoc f utils_functions) in
  change (assoc f utils_functions) with b.

(** ---------------- C17 ---------------- *)
Lemma glue_integral : forall x y r,
  outcome_arr (call_fun utils_callf array_methf no_apply no_pow utils_functions "integral"
     [("x", VArr x); ("y", VArr y); ("method", VStrV (rule_name r))]) = integral x y r.
Proof.
  intros x y r. destruct r; fn_enter "integral"; fn_run; reflexivity.
Qed.

Lemma glue_integral_rules : forall x y, length x = length y ->
  outcome_arr (call_fun utils_callf array_methf no_apply no_pow utils_functions "rectangle_integral" [("x", VArr x); ("y", VArr y)])
    = Ok (rectangle_integral x y) /\
  outcome_arr (call_fun utils_callf array_methf no_apply no_pow utils_functions "trapezoid_integral" [("x", VArr x); ("y", VArr y)])
    = Ok (trapezoid_integral x y).
Proof.
  intros x y Hl.
  split.
  - fn_enter "rectangle_integral". fn_run.
    f_equal. apply rect_zip. exact Hl.
  - fn_enter "trapezoid_integral". fn_run.
    f_equal. apply trap_zip. exact Hl.
Qed.

Lemma glue_append_one_sample : forall x y p, append_one_sample_defined x y = true ->
  outcome_arr_pair (call_fun utils_callf array_methf no_apply no_pow utils_functions "append_one_sample"
     [("x", VArr x); ("y", VArr y); ("make_periodic", VBoolV p)])
  = Ok (append_one_sample x y p).
Proof.
  intros x y p Hd. unfold append_one_sample_defined in Hd. apply andb_true_iff in Hd. destruct Hd as [Hx Hy].
  apply Nat.leb_le in Hx. apply Nat.leb_le in Hy.
  assert (Hx1 : (1 <= length x)%nat) by lia.
  assert (Hy0 : y <> []) by (intros ->; cbn [length] in Hy; lia).
  destruct p; fn_enter "append_one_sample"; fn_run.
  all: unfold append_one_sample; rewrite <- qz2_two; try rewrite (lastq_nthq y Hy0); reflexivity.
Qed.

(** ---------------- C10 ---------------- *)
Lemma glue_find_dispatch : forall x lk s fill,
  outcome_idx (call_fun utils_callf array_methf no_apply no_pow utils_functions "find_closest_element_indices_to_values"
     [("x", VArr x); ("lookup", VArr lk); ("strategy", VStrV (strategy_name s)); ("fill_not_valid", VBoolV fill)])
  = find_indices x lk s fill.
Proof.
  intros x lk s fill.
  destruct s; unfold find_indices; fn_enter "find_closest_element_indices_to_values"; fn_run; reflexivity.
Qed.

Print Assumptions glue_append_one_sample.
Print Assumptions glue_integral.
Print Assumptions glue_integral_rules.
Print Assumptions glue_find_dispatch.
