(** Part B of the Ctors family (split from Part A, Proofs/GlueCtorsRfaProofs.v, so that a change in rfa.py does not stop the
    theorems about weaver.py from compiling and vice versa): the static constructors of class Weaver. *)
From Coq Require Import Lia Bool.
From TW Require Import Model.GlueLeaves_Ctors Gen.CtorsGlue Gen.WeaverGlue.
From TW Require Import Proofs.GlueFunLemmas Proofs.GlueProofs.
Open Scope Qc_scope.
Open Scope string_scope.

(** ================= Part B: the static constructors of class Weaver ================= *)
(** Weaver(x, y) on two arrays is the model's [init] (through the regenerated `__init__`: Proofs/GlueProofs.v) *)
Lemma weaver_new_init : forall x y,
  weaver_new weaver_methods [VArr x; VArr y] [] =
  match init (Some x) y with Ok s => Ok (weaver_obj s 1 1) | Raise e => Raise e end.
Proof.
  intros x y. unfold weaver_new.
  match goal with |- context [assoc ?k weaver_methods] =>
    let o := eval vm_compute in (assoc k weaver_methods) in
    lazymatch o with Some (?f, ?b) =>
      let B := fresh "B" in pose (B := b);
      assert (H : assoc k weaver_methods = Some (f, B)) by (vm_compute; reflexivity); rewrite H; clear H end end.
  cbn -[call_method weaver_methods init].
  pose proof (glue_init empty_wstate (Some x) y 0 0) as H. cbv zeta in H.
  destruct (init (Some x) y) as [s|e].
  - destruct H as (Hs & Ho & Hxs & Hys). rewrite Ho, Hs, Hxs, Hys. reflexivity.
  - destruct H as (Ho & _). rewrite Ho. reflexivity.
Qed.

Lemma Zof_nat_3_neq_2 : forall n, (Z.of_nat (S (S (S n))) =? 2)%Z = false.
Proof. intros n. apply Z.eqb_neq. lia. Qed.

Ltac s_cbn :=
  cbn -[Qcplus Qcmult Qcdiv Qcminus Qcopp Qcinv Q2Qc Qc_eqb Qc_ltb Qc_leb Qc_of_Z Qc_of_nat
        Z.of_nat Z.to_nat Z.sub Z.mul
        weaver_new init from_2d nd_column df_lookup weaver_methods call_fun ctors_weaver_static
        fexec fexec_k].
Ltac s_red := unfold bind; s_cbn; repeat (progress unfold bind; s_cbn).
Ltac s_step :=
  match goal with
  | |- context [flookup _ _] => unfold flookup
  | |- context [fexec ?cf ?mf ?af ?pf ?en (SIf ?c ?th ?el :: ?l)] =>
      rewrite (fexec_cons cf mf af pf en (SIf c th el) l), (fexec1_if cf mf af pf en c th el)
  | |- context [fexec ?cf ?mf ?af ?pf ?en (?st :: ?l)] => rewrite (fexec_cons cf mf af pf en st l)
  | |- context [fexec ?cf ?mf ?af ?pf ?en []] => rewrite (fexec_nil cf mf af pf en)
  | |- context [fexec_k (?en, ONormal) ?k] => rewrite (fexec_k_normal en k)
  | |- context [fexec_k (?en, ORaise ?e) ?k] => rewrite (fexec_k_raise en e k)
  | |- context [fexec_k (?en, OReturn ?v) ?k] => rewrite (fexec_k_return en v k)
  | H : forall sh d, ?mf _ ".shape" [] = _ |- context [?mf (VClos "ndarray" [VTup ?sh; VArr ?d]) ".shape" []] => rewrite (H sh d)
  | H : ?e = _ |- context [match ?e with _ => _ end] => rewrite H
  | H : ?e = _ |- context [if ?e then _ else _] => rewrite H
  | |- context [weaver_new weaver_methods [VArr ?x; VArr ?y] []] => rewrite (weaver_new_init x y)
  | |- context [Z.to_nat (Z.of_nat ?n)] => rewrite (Nat2Z.id n)
  | |- context [match assoc ?k ctors_weaver_static with _ => _ end] =>
      let o := eval vm_compute in (assoc k ctors_weaver_static) in change (assoc k ctors_weaver_static) with o
  | |- context [py_index [?a; ?b] 1%Z] => change (py_index [a; b] 1%Z) with (Some b)
  | |- context [Z.of_nat 2] => change (Z.of_nat 2) with 2%Z
  | |- context [Z.of_nat 1] => change (Z.of_nat 1) with 1%Z
  | |- context [Z.of_nat 0] => change (Z.of_nat 0) with 0%Z
  | |- context [Z.to_nat 2] => change (Z.to_nat 2) with 2%nat
  | |- context [Z.to_nat 1] => change (Z.to_nat 1) with 1%nat
  | |- context [Z.to_nat 0] => change (Z.to_nat 0) with 0%nat
  | |- context [(Z.of_nat (S (S (S ?n))) =? 2)%Z] => rewrite (Zof_nat_3_neq_2 n)
  | H : (?a =? ?b)%Z = _ |- context [(?a =? ?b)%Z] => rewrite H
  end.
Ltac s_run := repeat (s_red; s_step); s_red.
Ltac static_enter :=
  unfold static_call, call_fun;
  match goal with |- context [assoc ?k ctors_weaver_static] =>
    let o := eval vm_compute in (assoc k ctors_weaver_static) in change (assoc k ctors_weaver_static) with o end;
  cbv iota beta.

Section Static.
Variable loadtxt : gval -> res gval.

(** the run of from_2d_array with any meaning of the attribute reads that gives an array its shape *)
Definition from_2d_run (mf : gval -> string -> list gval -> res gval) (v : gval) : outcome :=
  call_fun (static_callf weaver_methods loadtxt) mf no_apply no_pow ctors_weaver_static "from_2d_array" [("xy", v)].

Definition shape_reads (mf : gval -> string -> list gval -> res gval) : Prop :=
  forall sh d, mf (VClos "ndarray" [VTup sh; VArr d]) ".shape" [] = Ok (VTup sh).

Lemma from_2d_array_gen : forall mf shape data, shape_reads mf ->
  from_2d_run mf (nd shape data) =
  obj_outcome (from_2d (length shape) (nth 1 shape 0%nat)
                 (nd_column (nth 0 shape 0%nat) (nth 1 shape 0%nat) 0 data)
                 (nd_column (nth 0 shape 0%nat) (nth 1 shape 0%nat) 1 data)).
Proof.
  intros mf shape data Hmf. unfold shape_reads in Hmf. unfold from_2d_run, call_fun, nd.
  match goal with |- context [assoc ?k ctors_weaver_static] =>
    let o := eval vm_compute in (assoc k ctors_weaver_static) in change (assoc k ctors_weaver_static) with o end.
  cbv iota beta.
  destruct shape as [|r [|c [|d rest]]].
  - s_run. reflexivity.
  - s_run. reflexivity.
  - destruct (Nat.eqb_spec c 2) as [->|Hc].
    + s_run. unfold from_2d. cbn [Nat.eqb andb].
      destruct (init (Some (nd_column r 2 0 data)) (nd_column r 2 1 data)); s_run; reflexivity.
    + assert (Hc' : (Z.of_nat c =? 2)%Z = false) by (apply Z.eqb_neq; lia).
      s_run. unfold from_2d. cbn [Nat.eqb andb]. rewrite (proj2 (Nat.eqb_neq c 2) Hc). reflexivity.
  - s_run. reflexivity.
Qed.

Lemma shape_reads0 : shape_reads static_methf0.
Proof. intros sh d. reflexivity. Qed.
Lemma shape_reads1 : shape_reads (static_methf1 weaver_methods loadtxt ctors_weaver_static).
Proof. intros sh d. reflexivity. Qed.

Definition st_call (m : string) (actuals : list (string * gval)) : outcome :=
  static_call weaver_methods loadtxt ctors_weaver_static m actuals.

Lemma nd_column_length : forall r c k data, length (nd_column r c k data) = r.
Proof. intros. unfold nd_column. rewrite map_length, seq_length. reflexivity. Qed.

(** from_2d_array on an array of any shape: the model's [from_2d] on its first two columns *)
Lemma glue_from_2d_array_model : forall shape data,
  st_call "from_2d_array" [("xy", nd shape data)] =
  obj_outcome (from_2d (length shape) (nth 1 shape 0%nat)
                 (nd_column (nth 0 shape 0%nat) (nth 1 shape 0%nat) 0 data)
                 (nd_column (nth 0 shape 0%nat) (nth 1 shape 0%nat) 1 data)).
Proof. intros shape data. exact (from_2d_array_gen _ shape data shape_reads1). Qed.

(** C20: anything but (N, 2) -- 0-D, 1-D, 3-D, (N, 1), (N, 3), ... -- is refused *)
Lemma glue_from_2d_array_refuses : forall shape data, (length shape <> 2 \/ nth 1 shape 0 <> 2)%nat ->
  st_call "from_2d_array" [("xy", nd shape data)] = ORaise ValueError.
Proof.
  intros shape data H. rewrite glue_from_2d_array_model. unfold from_2d.
  destruct H as [H|H].
  - rewrite (proj2 (Nat.eqb_neq _ _) H). reflexivity.
  - rewrite (proj2 (Nat.eqb_neq _ _) H). rewrite andb_false_r. reflexivity.
Qed.

(** C09: an (N, 2) array gives the Weaver whose six series are the two columns, scales 1 *)
Lemma glue_from_2d_array : forall r data,
  let cx := nd_column r 2 0 data in
  let cy := nd_column r 2 1 data in
  st_call "from_2d_array" [("xy", nd [r; 2]%nat data)] = obj_outcome (init (Some cx) cy) /\
  init (Some cx) cy = Ok {| wx := cx; wy := cy; wox := cx; woy := cy; wrx := cx; wry := cy |}.
Proof.
  intros r data cx cy. split.
  - rewrite glue_from_2d_array_model. reflexivity.
  - unfold init. subst cx cy. rewrite !nd_column_length, Nat.eqb_refl. reflexivity.
Qed.

(** a function that falls off its end returns None *)
Definition ret_norm (oc : outcome) : outcome := match oc with ONormal => OReturn VNoneV | _ => oc end.

(** from_csv: from_2d_array of what np.loadtxt(file_name, delimiter=',', dtype=np.float64) returns *)
Lemma glue_from_csv_gen : forall f,
  st_call "from_csv" [("file_name", f)] =
  match loadtxt f with Ok v => ret_norm (from_2d_run static_methf0 v) | Raise e => ORaise e end.
Proof.
  intros f. unfold st_call. static_enter.
  destruct (loadtxt f) as [v|e] eqn:Hl; s_run; [|reflexivity].
  unfold from_2d_run.
  destruct (call_fun (static_callf weaver_methods loadtxt) static_methf0 no_apply no_pow ctors_weaver_static "from_2d_array" [("xy", v)]);
    reflexivity.
Qed.

Lemma glue_from_csv : forall f shape data, loadtxt f = Ok (nd shape data) ->
  st_call "from_csv" [("file_name", f)] = st_call "from_2d_array" [("xy", nd shape data)].
Proof.
  intros f shape data Hl. rewrite glue_from_csv_gen, Hl, glue_from_2d_array_model.
  rewrite (from_2d_array_gen _ shape data shape_reads0).
  destruct (from_2d _ _ _ _); reflexivity.
Qed.

Lemma glue_from_csv_unreadable : forall f e, loadtxt f = Raise e -> st_call "from_csv" [("file_name", f)] = ORaise e.
Proof. intros f e Hl. rewrite glue_from_csv_gen, Hl. reflexivity. Qed.

(** from_dataframe *)
Definition key_eq (a b : Z + string) : bool :=
  match a, b with inl x, inl y => (x =? y)%Z | inr s, inr t => String.eqb s t | _, _ => false end.
Fixpoint df_col (cols : list ((Z + string) * list Qc)) (k : Z + string) : option (list Qc) :=
  match cols with
  | [] => None
  | c :: rest => if key_eq (fst c) k then Some (snd c) else df_col rest k
  end.

Lemma df_lookup_col : forall cols k,
  df_lookup (map (fun c => VTup [key_val (fst c); VArr (snd c)]) cols) (key_val k) =
  match df_col cols k with Some c => Ok (VClos "Series" [VArr c]) | None => Raise OtherExn end.
Proof.
  induction cols as [|[k' c] cols IH]; intros k; [reflexivity|].
  cbn [map df_lookup df_col fst snd].
  replace (key_eqb (key_val k') (key_val k)) with (key_eq k' k) by (destruct k', k; reflexivity).
  destruct (key_eq k' k); [reflexivity|apply IH].
Qed.

Lemma glue_from_dataframe : forall cols kx ky,
  st_call "from_dataframe" [("df", df_val cols); ("x_col", key_val kx); ("y_col", key_val ky)] =
  match df_col cols kx, df_col cols ky with
  | Some cx, Some cy => obj_outcome (init (Some cx) cy)
  | _, _ => ORaise OtherExn
  end.
Proof.
  intros cols kx ky. unfold st_call, df_val. static_enter.
  s_run. rewrite !df_lookup_col.
  destruct (df_col cols kx) as [cx|]; s_run; [|reflexivity].
  destruct (df_col cols ky) as [cy|]; s_run; [|reflexivity].
  destruct (init (Some cx) cy); s_run; reflexivity.
Qed.

(** the documented defaults x_col = 0, y_col = 1 *)
Lemma glue_from_dataframe_defaults : forall v,
  st_call "from_dataframe" [("df", v)] = st_call "from_dataframe" [("df", v); ("x_col", VInt 0); ("y_col", VInt 1)].
Proof. intros v. unfold st_call. static_enter. reflexivity. Qed.
End Static.

(** sanity runs *)
Example ex_from_2d_array :
  st_call (fun _ => Raise OSError) "from_2d_array" [("xy", nd [3; 2]%nat [qz 1; qz 2; qz 3; qz 4; qz 5; qz 6])] =
  OReturn (weaver_obj {| wx := [qz 1; qz 3; qz 5]; wy := [qz 2; qz 4; qz 6]; wox := [qz 1; qz 3; qz 5]; woy := [qz 2; qz 4; qz 6];
                         wrx := [qz 1; qz 3; qz 5]; wry := [qz 2; qz 4; qz 6] |} 1 1).
Proof. vm_compute. reflexivity. Qed.
Example ex_from_2d_array_refused :
  st_call (fun _ => Raise OSError) "from_2d_array" [("xy", nd [6]%nat [qz 1; qz 2; qz 3; qz 4; qz 5; qz 6])] = ORaise ValueError /\
  st_call (fun _ => Raise OSError) "from_2d_array" [("xy", nd [2; 3]%nat [qz 1; qz 2; qz 3; qz 4; qz 5; qz 6])] = ORaise ValueError /\
  st_call (fun _ => Raise OSError) "from_2d_array" [("xy", nd [3; 2; 1]%nat [qz 1; qz 2; qz 3; qz 4; qz 5; qz 6])] = ORaise ValueError.
Proof. vm_compute. repeat split; reflexivity. Qed.
Example ex_from_dataframe :
  st_call (fun _ => Raise OSError) "from_dataframe"
    [("df", df_val [(inr "t", [qz 1; qz 2]); (inr "v", [qz 5; qz 6])]); ("x_col", VStrV "t"); ("y_col", VStrV "v")] =
  OReturn (weaver_obj {| wx := [qz 1; qz 2]; wy := [qz 5; qz 6]; wox := [qz 1; qz 2]; woy := [qz 5; qz 6];
                         wrx := [qz 1; qz 2]; wry := [qz 5; qz 6] |} 1 1).
Proof. vm_compute. reflexivity. Qed.

Print Assumptions glue_from_2d_array_model.
Print Assumptions glue_from_2d_array_refuses.
Print Assumptions glue_from_2d_array.
Print Assumptions glue_from_csv_gen.
Print Assumptions glue_from_csv.
Print Assumptions glue_from_csv_unreadable.
Print Assumptions glue_from_dataframe.
Print Assumptions glue_from_dataframe_defaults.

