(** C05 / C07, strategy level: the closed-form theorems (Proofs/RfaShapeProofs.v,
    Proofs/RfaEquivProofs.v) transported through the link theorems
    (Proofs/RfaLinkFixed.v, Proofs/RfaLinkAdaptive.v) to the value lists returned
    by the strategies of Model/Rfa.v.  Corollaries only. *)
From TW Require Import Model.RfaSpec Proofs.ListLemmas Proofs.ListLemmas2 Proofs.ListLemmas4
  Proofs.HelpersProofs Proofs.RfaGridProofs Proofs.ListLemmas8 Proofs.RfaLinkCore Proofs.RfaLinkFixed
  Proofs.RfaLinkAdaptive Proofs.RfaShapeProofs Proofs.RfaEquivProofs.
Open Scope Qc_scope.

(** same definitions as in the statements file (convertible to those of Proofs/RfaEquivProofs.v) *)
Definition ymap (a b : Qc) (y : list Qc) : list Qc := map (fun v => a * v + b) y.
Definition xmap (c d : Qc) (x : list Qc) : list Qc := map (fun v => c * v + d) x.

Lemma ymap_E : ymap = RfaEquivProofs.ymap.
Proof. reflexivity. Qed.
Lemma xmap_E : xmap = RfaEquivProofs.xmap.
Proof. reflexivity. Qed.

Definition sided (x y : list Qc) (n : nat) (k i : nat) (al ar : Z) (v : Qc) : Prop :=
  ((Z.of_nat i < al)%Z -> between (nthq (k - 1) y) (nthq k y) v) /\
  ((al <= Z.of_nat i)%Z -> (Z.of_nat i <= Z.of_nat n - ar)%Z -> v = nthq k y) /\
  ((Z.of_nat n - ar < Z.of_nat i)%Z -> between (nthq k y) (nthq (k + 1) y) v).

(** ---------------- the averages ---------------- *)

Theorem avg_is_average : forall x y k, length x = length y -> (k + 1 < length x)%nat ->
  avg x y (Z.of_nat k + 1) = nthq k y /\
  avg x y (Z.of_nat k + 2) = nthq (k + 1) y /\
  avg x y (Z.of_nat k) = nthq (k - 1) y.
Proof.
  intros x y k Hxy Hk. unfold avg, RfaSpec.m. split; [|split].
  - destruct (Z.leb_spec (Z.of_nat k + 1) 0) as [E1|E1]; [lia|].
    destruct (Z.ltb_spec (Z.of_nat (length x) - 1) (Z.of_nat k + 1)) as [E2|E2]; [lia|].
    f_equal. lia.
  - destruct (Z.leb_spec (Z.of_nat k + 2) 0) as [E1|E1]; [lia|].
    destruct (Z.ltb_spec (Z.of_nat (length x) - 1) (Z.of_nat k + 2)) as [E2|E2]; f_equal; lia.
  - destruct (Z.leb_spec (Z.of_nat k) 0) as [E1|E1]; [f_equal; lia|].
    destruct (Z.ltb_spec (Z.of_nat (length x) - 1) (Z.of_nat k)) as [E2|E2]; [lia|].
    f_equal. lia.
Qed.

Lemma avg_last : forall x y, (2 <= length x)%nat ->
  avg x y (Z.of_nat (length x)) = nthq (length x - 1) y /\
  avg x y (Z.of_nat (length x) - 1) = nthq (length x - 2) y.
Proof.
  intros x y Hm. unfold avg, RfaSpec.m. split.
  - destruct (Z.leb_spec (Z.of_nat (length x)) 0) as [E1|E1]; [lia|].
    destruct (Z.ltb_spec (Z.of_nat (length x) - 1) (Z.of_nat (length x))) as [E2|E2]; [reflexivity|lia].
  - destruct (Z.leb_spec (Z.of_nat (length x) - 1) 0) as [E1|E1]; [lia|].
    destruct (Z.ltb_spec (Z.of_nat (length x) - 1) (Z.of_nat (length x) - 1)) as [E2|E2]; [lia|].
    f_equal. lia.
Qed.

(** ---------------- window sizes ---------------- *)

Lemma fixed_h_window : forall n alpha a, (2 * fixed_h n alpha a <= window_a n alpha a)%Z.
Proof.
  intros n alpha a. unfold fixed_h, half_window.
  pose proof (window_a_ge2 n alpha a) as H2.
  rewrite Z.quot_div_nonneg by lia. Z.div_mod_to_equations. lia.
Qed.

Lemma fixed_h_le : forall n alpha a, (window_a n alpha a <= Z.of_nat n)%Z -> (2 * fixed_h n alpha a <= Z.of_nat n)%Z.
Proof. intros n alpha a H. pose proof (fixed_h_window n alpha a). lia. Qed.

(** ---------------- C05: boundedness ---------------- *)

Lemma sided_of_bounds : forall x y n k i al ar v, length x = length y -> (k + 1 < length x)%nat ->
  (((Z.of_nat i < al)%Z -> between (avg x y (Z.of_nat k + 1 - 1)) (avg x y (Z.of_nat k + 1)) v) /\
   ((al <= Z.of_nat i)%Z -> (Z.of_nat i <= Z.of_nat n - ar)%Z -> v = avg x y (Z.of_nat k + 1)) /\
   ((Z.of_nat n - ar < Z.of_nat i)%Z -> between (avg x y (Z.of_nat k + 1)) (avg x y (Z.of_nat k + 1 + 1)) v)) ->
  sided x y n k i al ar v.
Proof.
  intros x y n k i al ar v Hxy Hk H.
  destruct (avg_is_average x y k Hxy Hk) as (A1 & A2 & A0).
  replace (Z.of_nat k + 1 - 1)%Z with (Z.of_nat k) in H by lia.
  replace (Z.of_nat k + 1 + 1)%Z with (Z.of_nat k + 2)%Z in H by lia.
  rewrite A1, A2, A0 in H. exact H.
Qed.

Lemma border_between_next : forall x y n K ar al, ssorted x -> (2 <= length x)%nat -> (1 <= n)%nat ->
  (0 <= ar)%Z -> (0 <= al)%Z -> between (avg x y K) (avg x y (K + 1)) (border x y n (K + 1) ar al).
Proof.
  intros x y n K ar al Hs Hl Hn Har Hal.
  pose proof (border_between x y n (K + 1) ar al Hs Hl Hn Har Hal) as B.
  replace (K + 1 - 1)%Z with K in B by lia. exact B.
Qed.

Theorem linear_fixed_bounded : forall x y n alpha a k i,
  (2 <= n)%nat -> (2 <= length x)%nat -> length x = length y -> ssorted x ->
  (2 * fixed_h n alpha a <= Z.of_nat n)%Z -> (k + 1 < length x)%nat -> (i < n)%nat ->
  sided x y n k i (fixed_h n alpha a) (fixed_h n alpha a) (nthq (k * n + i) (snd (rfa_linear_fixed x y n alpha a))).
Proof.
  intros x y n alpha a k i Hn Hm Hxy Hs Hh Hk Hi.
  rewrite (link_linear_fixed x y n alpha a Hn Hm Hxy Hs Hh).
  unfold cf_linear_fixed.
  rewrite (proj1 (assemble_nth x n _ _ k i Hk Hi)).
  pose proof (fixed_h_ge1 n alpha a) as Hh1.
  set (h := fixed_h n alpha a) in *.
  apply sided_of_bounds; [exact Hxy|exact Hk|].
  unfold out_linear_fixed.
  pose proof (linear_bounded x y n (Z.of_nat k + 1) (Z.of_nat i) h h
                (border x y n (Z.of_nat k + 1) h h) (border x y n (Z.of_nat k + 1 + 1) h h)) as B.
  cbv zeta in B. apply B; try lia.
  - apply border_between; try assumption; lia.
  - apply border_between_next; try assumption; lia.
Qed.

Theorem exp_fixed_bounded : forall pw x y n alpha beta a k i, PwOk pw -> PwZero pw ->
  (2 <= n)%nat -> (2 <= length x)%nat -> length x = length y -> ssorted x ->
  (2 * fixed_h n alpha a <= Z.of_nat n)%Z -> 0 <= beta -> beta <= 1 -> (k + 1 < length x)%nat -> (i < n)%nat ->
  sided x y n k i (fixed_h n alpha a) (fixed_h n alpha a) (nthq (k * n + i) (snd (rfa_exp_fixed pw x y n alpha beta a))).
Proof.
  intros pw x y n alpha beta a k i Hpw Hpz Hn Hm Hxy Hs Hh Hb0 Hb1 Hk Hi.
  rewrite (link_exp_fixed pw x y n alpha beta a Hn Hm Hxy Hs Hh Hb0 Hb1).
  unfold cf_exp_fixed.
  rewrite (proj1 (assemble_nth x n _ _ k i Hk Hi)).
  pose proof (fixed_h_ge1 n alpha a) as Hh1.
  set (h := fixed_h n alpha a) in *.
  pose proof (lin_part_range beta Hb0 Hb1 h ltac:(lia)) as Hb.
  set (bb := lin_part beta h) in *.
  apply sided_of_bounds; [exact Hxy|exact Hk|].
  unfold out_exp_fixed.
  pose proof (exp_bounded pw x y n (Z.of_nat k + 1) (Z.of_nat i) h h bb bb
                (border x y n (Z.of_nat k + 1) h h) (border x y n (Z.of_nat k + 1 + 1) h h) Hpw Hpz) as B.
  cbv zeta in B. apply B; try lia.
  - apply border_between; try assumption; lia.
  - apply border_between_next; try assumption; lia.
Qed.

Theorem linear_adaptive_bounded : forall gpow x y n alpha a k i, GpowPos gpow ->
  (2 <= n)%nat -> (2 <= length x)%nat -> length x = length y -> ssorted x ->
  (window_a n alpha a <= Z.of_nat n)%Z -> (k + 1 < length x)%nat -> (i < n)%nat ->
  let w := adaptive_windows gpow (prepare x y n) (window_a n alpha a) in
  sided x y n k i (nthZ (fst w) (Z.of_nat k + 1)) (nthZ (snd w) (Z.of_nat k + 1))
        (nthq (k * n + i) (snd (rfa_linear_adaptive gpow x y n alpha a))).
Proof.
  intros gpow x y n alpha a k i Hg Hn Hm Hxy Hs Ha Hk Hi. cbv zeta.
  pose proof (link_linear_adaptive gpow x y n alpha a Hn Hm Hxy Hs Hg Ha) as L. cbv zeta in L. rewrite L. clear L.
  pose proof (windows_in_range gpow x y n (window_a n alpha a) Hg Hn Hm Hxy (window_a_ge2 n alpha a) Ha) as W.
  cbv zeta in W. destruct W as [(_ & _ & HK) _].
  set (als := fst (adaptive_windows gpow (prepare x y n) (window_a n alpha a))) in *.
  set (ars := snd (adaptive_windows gpow (prepare x y n) (window_a n alpha a))) in *.
  unfold cf_linear_adaptive. cbv zeta.
  rewrite (proj1 (assemble_nth x n _ _ k i Hk Hi)).
  apply sided_of_bounds; [exact Hxy|exact Hk|].
  unfold out_linear_adaptive.
  destruct (HK (Z.of_nat k + 1 - 1)%Z ltac:(lia)) as (P0 & Q0 & _).
  destruct (HK (Z.of_nat k + 1)%Z ltac:(lia)) as (P1 & Q1 & S1).
  destruct (HK (Z.of_nat k + 1 + 1)%Z ltac:(lia)) as (P2 & Q2 & _).
  pose proof (linear_bounded x y n (Z.of_nat k + 1) (Z.of_nat i) (nthZ als (Z.of_nat k + 1)) (nthZ ars (Z.of_nat k + 1))
                (border x y n (Z.of_nat k + 1) (nthZ ars (Z.of_nat k + 1 - 1)) (nthZ als (Z.of_nat k + 1)))
                (border x y n (Z.of_nat k + 1 + 1) (nthZ ars (Z.of_nat k + 1)) (nthZ als (Z.of_nat k + 1 + 1)))) as B.
  cbv zeta in B. apply B; try lia.
  - apply border_between; try assumption; lia.
  - apply border_between_next; try assumption; lia.
Qed.

Theorem exp_adaptive_bounded : forall pw gpow x y n alpha beta a k i, PwOk pw -> PwZero pw -> GpowPos gpow ->
  (2 <= n)%nat -> (2 <= length x)%nat -> length x = length y -> ssorted x ->
  (window_a n alpha a <= Z.of_nat n)%Z -> 0 <= beta -> beta <= 1 -> (k + 1 < length x)%nat -> (i < n)%nat ->
  let w := adaptive_windows gpow (prepare x y n) (window_a n alpha a) in
  sided x y n k i (nthZ (fst w) (Z.of_nat k + 1)) (nthZ (snd w) (Z.of_nat k + 1))
        (nthq (k * n + i) (snd (rfa_exp_adaptive pw gpow x y n alpha beta a))).
Proof.
  intros pw gpow x y n alpha beta a k i Hpw Hpz Hg Hn Hm Hxy Hs Ha Hb0 Hb1 Hk Hi. cbv zeta.
  pose proof (link_exp_adaptive pw gpow x y n alpha beta a Hn Hm Hxy Hs Hg Ha Hb0 Hb1) as L. cbv zeta in L. rewrite L. clear L.
  pose proof (windows_in_range gpow x y n (window_a n alpha a) Hg Hn Hm Hxy (window_a_ge2 n alpha a) Ha) as W.
  cbv zeta in W. destruct W as [(_ & _ & HK) _].
  set (als := fst (adaptive_windows gpow (prepare x y n) (window_a n alpha a))) in *.
  set (ars := snd (adaptive_windows gpow (prepare x y n) (window_a n alpha a))) in *.
  unfold cf_exp_adaptive.
  rewrite (proj1 (assemble_nth x n _ _ k i Hk Hi)).
  apply sided_of_bounds; [exact Hxy|exact Hk|].
  unfold out_exp_adaptive.
  destruct (HK (Z.of_nat k + 1 - 1)%Z ltac:(lia)) as (P0 & Q0 & _).
  destruct (HK (Z.of_nat k + 1)%Z ltac:(lia)) as (P1 & Q1 & S1).
  destruct (HK (Z.of_nat k + 1 + 1)%Z ltac:(lia)) as (P2 & Q2 & _).
  pose proof (lin_part_range beta Hb0 Hb1 _ P1) as Hbl.
  pose proof (lin_part_range beta Hb0 Hb1 _ Q1) as Hbr.
  pose proof (exp_bounded pw x y n (Z.of_nat k + 1) (Z.of_nat i) (nthZ als (Z.of_nat k + 1)) (nthZ ars (Z.of_nat k + 1))
                (lin_part beta (nthZ als (Z.of_nat k + 1))) (lin_part beta (nthZ ars (Z.of_nat k + 1)))
                (border x y n (Z.of_nat k + 1) (nthZ ars (Z.of_nat k + 1 - 1)) (nthZ als (Z.of_nat k + 1)))
                (border x y n (Z.of_nat k + 1 + 1) (nthZ ars (Z.of_nat k + 1)) (nthZ als (Z.of_nat k + 1 + 1))) Hpw Hpz) as B.
  cbv zeta in B. apply B; try lia.
  - apply border_between; try assumption; lia.
  - apply border_between_next; try assumption; lia.
Qed.

(** ---------------- C05: the final sample ---------------- *)

Lemma assemble_last : forall (x : list Qc) n out final,
  nthq ((length x - 1) * n) (assemble x n out final) = final.
Proof. intros x n out final. exact (proj1 (proj2 (assemble_spec x n out final))). Qed.

Lemma border_between_last : forall x y n ar al, ssorted x -> (2 <= length x)%nat -> (1 <= n)%nat ->
  (0 <= ar)%Z -> (0 <= al)%Z ->
  between (nthq (length x - 2) y) (nthq (length x - 1) y) (border x y n (Z.of_nat (length x)) ar al).
Proof.
  intros x y n ar al Hs Hm Hn Har Hal.
  destruct (avg_last x y Hm) as [A1 A0]. rewrite <- A1, <- A0.
  apply border_between; assumption.
Qed.

Theorem final_sample : forall pw gpow x y n alpha beta a, PwOk pw -> GpowPos gpow ->
  (2 <= n)%nat -> (2 <= length x)%nat -> length x = length y -> ssorted x ->
  (window_a n alpha a <= Z.of_nat n)%Z -> 0 <= beta -> beta <= 1 ->
  let m := length x in
  let last l := nthq ((m - 1) * n) l in
  between (nthq (m - 2) y) (nthq (m - 1) y) (last (snd (rfa_linear_fixed x y n alpha a))) /\
  last (snd (rfa_exp_fixed pw x y n alpha beta a)) = nthq (m - 1) y /\
  between (nthq (m - 2) y) (nthq (m - 1) y) (last (snd (rfa_linear_adaptive gpow x y n alpha a))) /\
  last (snd (rfa_exp_adaptive pw gpow x y n alpha beta a)) = nthq (m - 1) y.
Proof.
  intros pw gpow x y n alpha beta a Hpw Hg Hn Hm Hxy Hs Ha Hb0 Hb1. cbv zeta.
  pose proof (fixed_h_le n alpha a Ha) as Hh.
  pose proof (fixed_h_ge1 n alpha a) as Hh1.
  destruct (avg_last x y Hm) as [A1 _].
  split; [|split; [|split]].
  - rewrite (link_linear_fixed x y n alpha a Hn Hm Hxy Hs Hh).
    unfold cf_linear_fixed, RfaSpec.m. rewrite assemble_last.
    apply border_between_last; try assumption; lia.
  - rewrite (link_exp_fixed pw x y n alpha beta a Hn Hm Hxy Hs Hh Hb0 Hb1).
    unfold cf_exp_fixed, RfaSpec.m. rewrite assemble_last. exact A1.
  - pose proof (link_linear_adaptive gpow x y n alpha a Hn Hm Hxy Hs Hg Ha) as L. cbv zeta in L. rewrite L. clear L.
    pose proof (windows_in_range gpow x y n (window_a n alpha a) Hg Hn Hm Hxy (window_a_ge2 n alpha a) Ha) as W.
    cbv zeta in W. destruct W as [(_ & _ & HK) _].
    set (als := fst (adaptive_windows gpow (prepare x y n) (window_a n alpha a))) in *.
    set (ars := snd (adaptive_windows gpow (prepare x y n) (window_a n alpha a))) in *.
    unfold cf_linear_adaptive, RfaSpec.m. cbv zeta. rewrite assemble_last.
    destruct (HK (Z.of_nat (length x) - 1)%Z ltac:(lia)) as (_ & Q0 & _).
    destruct (HK (Z.of_nat (length x)) ltac:(lia)) as (P1 & _ & _).
    destruct (nthZ ars (Z.of_nat (length x) - 1) =? 0)%Z.
    + rewrite A1. apply between_right.
    + apply border_between_last; try assumption; lia.
  - pose proof (link_exp_adaptive pw gpow x y n alpha beta a Hn Hm Hxy Hs Hg Ha Hb0 Hb1) as L. cbv zeta in L. rewrite L. clear L.
    unfold cf_exp_adaptive, RfaSpec.m. rewrite assemble_last. exact A1.
Qed.

(** ---------------- C07: y -> a*y + b ---------------- *)

Lemma map_flat_map : forall {A B C : Type} (g : B -> C) (F : A -> list B) (l : list A),
  map g (flat_map F l) = flat_map (fun k => map g (F k)) l.
Proof.
  intros A B C g F l. induction l as [|u l IH]; [reflexivity|].
  cbn [flat_map]. rewrite map_app, IH. reflexivity.
Qed.

Lemma assemble_affine : forall (x : list Qc) n a b out out' f f',
  (forall K i, out' K i = a * out K i + b) -> f' = a * f + b ->
  assemble x n out' f' = RfaEquivProofs.ymap a b (assemble x n out f).
Proof.
  intros x n a b out out' f f' Ho Hf. unfold assemble, RfaEquivProofs.ymap.
  rewrite map_app, map_flat_map. cbn [map]. subst f'. f_equal.
  apply flat_map_ext. intros k. rewrite map_map. apply map_ext. intros i. apply Ho.
Qed.

Lemma strategies_y_affine_E : forall pw gpow x y n alpha beta a' a b, a <> 0 -> GpowPos gpow ->
  (2 <= n)%nat -> (2 <= length x)%nat -> length x = length y -> ssorted x ->
  (window_a n alpha a' <= Z.of_nat n)%Z -> 0 <= beta -> beta <= 1 ->
  let ymap := RfaEquivProofs.ymap in
  snd (rfa_pc x (ymap a b y) n) = ymap a b (snd (rfa_pc x y n)) /\
  snd (rfa_linear_fixed x (ymap a b y) n alpha a') = ymap a b (snd (rfa_linear_fixed x y n alpha a')) /\
  snd (rfa_exp_fixed pw x (ymap a b y) n alpha beta a') = ymap a b (snd (rfa_exp_fixed pw x y n alpha beta a')) /\
  snd (rfa_linear_adaptive gpow x (ymap a b y) n alpha a') = ymap a b (snd (rfa_linear_adaptive gpow x y n alpha a')) /\
  snd (rfa_exp_adaptive pw gpow x (ymap a b y) n alpha beta a') = ymap a b (snd (rfa_exp_adaptive pw gpow x y n alpha beta a')).
Proof.
  intros pw gpow x y n alpha beta a' a b Ha Hg Hn Hm Hxy Hs Hw Hb0 Hb1. cbv zeta.
  assert (Hxy' : length x = length (RfaEquivProofs.ymap a b y)) by (unfold RfaEquivProofs.ymap; now rewrite map_length).
  pose proof (fixed_h_le n alpha a' Hw) as Hh.
  split; [exact (proj1 (piecewise_constant_linear x y y n a b eq_refl))|].
  split; [|split; [|split]].
  - rewrite (link_linear_fixed x _ n alpha a' Hn Hm Hxy' Hs Hh).
    rewrite (link_linear_fixed x y n alpha a' Hn Hm Hxy Hs Hh).
    unfold cf_linear_fixed. apply assemble_affine.
    + intros K i. exact (proj1 (fixed_y_affine pw x y n a b (fixed_h n alpha a') 0%Z K i Hm Hxy)).
    + apply border_ymap; assumption.
  - rewrite (link_exp_fixed pw x _ n alpha beta a' Hn Hm Hxy' Hs Hh Hb0 Hb1).
    rewrite (link_exp_fixed pw x y n alpha beta a' Hn Hm Hxy Hs Hh Hb0 Hb1).
    unfold cf_exp_fixed. apply assemble_affine.
    + intros K i. exact (proj2 (fixed_y_affine pw x y n a b (fixed_h n alpha a') _ K i Hm Hxy)).
    + apply avg_ymap; assumption.
  - pose proof (link_linear_adaptive gpow x _ n alpha a' Hn Hm Hxy' Hs Hg Hw) as L1. cbv zeta in L1.
    rewrite (adaptive_windows_y_affine gpow x y n a b _ Ha Hn Hm Hxy) in L1.
    pose proof (link_linear_adaptive gpow x y n alpha a' Hn Hm Hxy Hs Hg Hw) as L2. cbv zeta in L2.
    rewrite L1, L2. clear L1 L2.
    unfold cf_linear_adaptive. cbv zeta. apply assemble_affine.
    + intros K i. exact (proj1 (adaptive_y_affine pw x y n a b beta _ _ K i Hm Hxy)).
    + destruct (_ =? 0)%Z; [apply avg_ymap; assumption|apply border_ymap; assumption].
  - pose proof (link_exp_adaptive pw gpow x _ n alpha beta a' Hn Hm Hxy' Hs Hg Hw Hb0 Hb1) as L1. cbv zeta in L1.
    rewrite (adaptive_windows_y_affine gpow x y n a b _ Ha Hn Hm Hxy) in L1.
    pose proof (link_exp_adaptive pw gpow x y n alpha beta a' Hn Hm Hxy Hs Hg Hw Hb0 Hb1) as L2. cbv zeta in L2.
    rewrite L1, L2. clear L1 L2.
    unfold cf_exp_adaptive. apply assemble_affine.
    + intros K i. exact (proj2 (adaptive_y_affine pw x y n a b beta _ _ K i Hm Hxy)).
    + apply avg_ymap; assumption.
Qed.

Theorem strategies_y_affine : forall pw gpow x y n alpha beta a' a b, a <> 0 -> GpowPos gpow ->
  (2 <= n)%nat -> (2 <= length x)%nat -> length x = length y -> ssorted x ->
  (window_a n alpha a' <= Z.of_nat n)%Z -> 0 <= beta -> beta <= 1 ->
  snd (rfa_pc x (ymap a b y) n) = ymap a b (snd (rfa_pc x y n)) /\
  snd (rfa_linear_fixed x (ymap a b y) n alpha a') = ymap a b (snd (rfa_linear_fixed x y n alpha a')) /\
  snd (rfa_exp_fixed pw x (ymap a b y) n alpha beta a') = ymap a b (snd (rfa_exp_fixed pw x y n alpha beta a')) /\
  snd (rfa_linear_adaptive gpow x (ymap a b y) n alpha a') = ymap a b (snd (rfa_linear_adaptive gpow x y n alpha a')) /\
  snd (rfa_exp_adaptive pw gpow x (ymap a b y) n alpha beta a') = ymap a b (snd (rfa_exp_adaptive pw gpow x y n alpha beta a')).
Proof. exact strategies_y_affine_E. Qed.

(** ---------------- C07: x -> c*x + d ---------------- *)

Lemma ssorted_xmap : forall c d x, 0 < c -> ssorted x -> ssorted (RfaEquivProofs.xmap c d x).
Proof.
  intros c d x Hc. unfold RfaEquivProofs.xmap.
  induction x as [|u x IH]; intros H; [exact I|].
  destruct x as [|v x]; [exact I|].
  destruct H as [Huv H]. cbn [map]. split; [qcnra|]. apply IH. exact H.
Qed.

Lemma assemble_ext : forall (x x' : list Qc) n out out' (f f' : Qc), length x' = length x ->
  (forall K i, out' K i = out K i) -> f' = f ->
  assemble x' n out' f' = assemble x n out f.
Proof.
  intros x x' n out out' f f' Hl Ho Hf. unfold assemble, RfaSpec.m. rewrite Hl. subst f'. f_equal.
  apply flat_map_ext. intros k. apply map_ext. intros i. apply Ho.
Qed.

Lemma pair_eq : forall {A B : Type} (p : A * B) a b, fst p = a -> snd p = b -> p = (a, b).
Proof. intros A B [u v] a b H1 H2. cbn [fst snd] in *. subst. reflexivity. Qed.

Lemma fst_strategies : forall pw gpow x y n alpha beta a, (2 <= n)%nat -> (2 <= length x)%nat ->
  fst (rfa_linear_fixed x y n alpha a) = oversample_linspace x n /\
  fst (rfa_exp_fixed pw x y n alpha beta a) = oversample_linspace x n /\
  fst (rfa_linear_adaptive gpow x y n alpha a) = oversample_linspace x n /\
  fst (rfa_exp_adaptive pw gpow x y n alpha beta a) = oversample_linspace x n.
Proof.
  intros pw gpow x y n alpha beta a Hn Hm.
  unfold rfa_linear_fixed, rfa_exp_fixed, rfa_linear_adaptive, rfa_exp_adaptive. cbv zeta. cbn [fst].
  repeat split; apply cut_xe; assumption.
Qed.

Lemma strategies_x_affine_E : forall pw gpow x y n alpha beta a' c d, 0 < c -> GpowPos gpow ->
  (2 <= n)%nat -> (2 <= length x)%nat -> length x = length y -> ssorted x ->
  (window_a n alpha a' <= Z.of_nat n)%Z -> 0 <= beta -> beta <= 1 ->
  let xmap := RfaEquivProofs.xmap in
  rfa_pc (xmap c d x) y n = (xmap c d (fst (rfa_pc x y n)), snd (rfa_pc x y n)) /\
  rfa_linear_fixed (xmap c d x) y n alpha a' = (xmap c d (fst (rfa_linear_fixed x y n alpha a')), snd (rfa_linear_fixed x y n alpha a')) /\
  rfa_exp_fixed pw (xmap c d x) y n alpha beta a' = (xmap c d (fst (rfa_exp_fixed pw x y n alpha beta a')), snd (rfa_exp_fixed pw x y n alpha beta a')) /\
  rfa_linear_adaptive gpow (xmap c d x) y n alpha a' = (xmap c d (fst (rfa_linear_adaptive gpow x y n alpha a')), snd (rfa_linear_adaptive gpow x y n alpha a')) /\
  rfa_exp_adaptive pw gpow (xmap c d x) y n alpha beta a' = (xmap c d (fst (rfa_exp_adaptive pw gpow x y n alpha beta a')), snd (rfa_exp_adaptive pw gpow x y n alpha beta a')).
Proof.
  intros pw gpow x y n alpha beta a' c d Hc Hg Hn Hm Hxy Hs Hw Hb0 Hb1. cbv zeta.
  assert (Hc0 : c <> 0) by (intros E; subst c; exact (Qclt_not_eq _ _ Hc eq_refl)).
  assert (Hlx : length (RfaEquivProofs.xmap c d x) = length x) by (unfold RfaEquivProofs.xmap; apply map_length).
  assert (Hm' : (2 <= length (RfaEquivProofs.xmap c d x))%nat) by (rewrite Hlx; exact Hm).
  assert (Hxy' : length (RfaEquivProofs.xmap c d x) = length y) by (rewrite Hlx; exact Hxy).
  pose proof (ssorted_xmap c d x Hc Hs) as Hs'.
  pose proof (fixed_h_le n alpha a' Hw) as Hh.
  assert (Hn1 : (1 <= n)%nat) by lia.
  destruct (fst_strategies pw gpow x y n alpha beta a' Hn Hm) as (F1 & F2 & F3 & F4).
  destruct (fst_strategies pw gpow (RfaEquivProofs.xmap c d x) y n alpha beta a' Hn Hm') as (G1 & G2 & G3 & G4).
  split; [|split; [|split; [|split]]].
  - unfold rfa_pc. cbn [fst snd]. rewrite grid_x_affine. reflexivity.
  - apply pair_eq; [rewrite G1, F1; apply grid_x_affine|].
    rewrite (link_linear_fixed _ y n alpha a' Hn Hm' Hxy' Hs' Hh).
    rewrite (link_linear_fixed x y n alpha a' Hn Hm Hxy Hs Hh).
    unfold cf_linear_fixed. apply assemble_ext; [exact Hlx| |].
    + intros K i. exact (proj1 (out_x_affine pw x y n c d beta (fixed_h n alpha a') 0%Z [] [] K i Hc Hm Hn1)).
    + unfold RfaSpec.m. rewrite Hlx. apply border_xmap; assumption.
  - apply pair_eq; [rewrite G2, F2; apply grid_x_affine|].
    rewrite (link_exp_fixed pw _ y n alpha beta a' Hn Hm' Hxy' Hs' Hh Hb0 Hb1).
    rewrite (link_exp_fixed pw x y n alpha beta a' Hn Hm Hxy Hs Hh Hb0 Hb1).
    unfold cf_exp_fixed. apply assemble_ext; [exact Hlx| |].
    + intros K i. exact (proj1 (proj2 (out_x_affine pw x y n c d beta (fixed_h n alpha a') _ [] [] K i Hc Hm Hn1))).
    + unfold RfaSpec.m. rewrite Hlx. apply avg_xmap.
  - apply pair_eq; [rewrite G3, F3; apply grid_x_affine|].
    pose proof (link_linear_adaptive gpow _ y n alpha a' Hn Hm' Hxy' Hs' Hg Hw) as L1. cbv zeta in L1.
    rewrite (adaptive_windows_x_affine gpow x y n c d _ Hc Hn Hm Hxy) in L1.
    pose proof (link_linear_adaptive gpow x y n alpha a' Hn Hm Hxy Hs Hg Hw) as L2. cbv zeta in L2.
    rewrite L1, L2. clear L1 L2.
    unfold cf_linear_adaptive. cbv zeta. apply assemble_ext; [exact Hlx| |].
    + intros K i. exact (proj1 (proj2 (proj2 (out_x_affine pw x y n c d beta 0%Z 0%Z _ _ K i Hc Hm Hn1)))).
    + unfold RfaSpec.m. rewrite Hlx. rewrite avg_xmap, border_xmap by assumption. reflexivity.
  - apply pair_eq; [rewrite G4, F4; apply grid_x_affine|].
    pose proof (link_exp_adaptive pw gpow _ y n alpha beta a' Hn Hm' Hxy' Hs' Hg Hw Hb0 Hb1) as L1. cbv zeta in L1.
    rewrite (adaptive_windows_x_affine gpow x y n c d _ Hc Hn Hm Hxy) in L1.
    pose proof (link_exp_adaptive pw gpow x y n alpha beta a' Hn Hm Hxy Hs Hg Hw Hb0 Hb1) as L2. cbv zeta in L2.
    rewrite L1, L2. clear L1 L2.
    unfold cf_exp_adaptive. apply assemble_ext; [exact Hlx| |].
    + intros K i. exact (proj2 (proj2 (proj2 (out_x_affine pw x y n c d beta 0%Z 0%Z _ _ K i Hc Hm Hn1)))).
    + unfold RfaSpec.m. rewrite Hlx. apply avg_xmap.
Qed.

Theorem strategies_x_affine : forall pw gpow x y n alpha beta a' c d, 0 < c -> GpowPos gpow ->
  (2 <= n)%nat -> (2 <= length x)%nat -> length x = length y -> ssorted x ->
  (window_a n alpha a' <= Z.of_nat n)%Z -> 0 <= beta -> beta <= 1 ->
  rfa_pc (xmap c d x) y n = (xmap c d (fst (rfa_pc x y n)), snd (rfa_pc x y n)) /\
  rfa_linear_fixed (xmap c d x) y n alpha a' = (xmap c d (fst (rfa_linear_fixed x y n alpha a')), snd (rfa_linear_fixed x y n alpha a')) /\
  rfa_exp_fixed pw (xmap c d x) y n alpha beta a' = (xmap c d (fst (rfa_exp_fixed pw x y n alpha beta a')), snd (rfa_exp_fixed pw x y n alpha beta a')) /\
  rfa_linear_adaptive gpow (xmap c d x) y n alpha a' = (xmap c d (fst (rfa_linear_adaptive gpow x y n alpha a')), snd (rfa_linear_adaptive gpow x y n alpha a')) /\
  rfa_exp_adaptive pw gpow (xmap c d x) y n alpha beta a' = (xmap c d (fst (rfa_exp_adaptive pw gpow x y n alpha beta a')), snd (rfa_exp_adaptive pw gpow x y n alpha beta a')).
Proof. exact strategies_x_affine_E. Qed.

Print Assumptions avg_is_average.
Print Assumptions linear_fixed_bounded.
Print Assumptions exp_fixed_bounded.
Print Assumptions linear_adaptive_bounded.
Print Assumptions exp_adaptive_bounded.
Print Assumptions final_sample.
Print Assumptions strategies_y_affine.
Print Assumptions strategies_x_affine.
