(** Process2 glue proofs, one source function per file: average (process.py).  See Proofs/GlueProcess2Common.v. *)
From Coq Require Import Lia Bool.
From TW Require Import Model.GlueLeaves_Process2 Gen.Process2Glue.
From TW Require Import Proofs.ListLemmas Proofs.ListLemmas4 Proofs.ListLemmas7.
From TW Require Import Proofs.GlueFunLemmas Proofs.GlueProcess2Common.
Open Scope Qc_scope.
Open Scope string_scope.

(** ======================= C17: average ======================= *)
(* cells_of_cells: moved to GlueProcess2Common.v *)
(* rows_of_rows: moved to GlueProcess2Common.v *)

(** column 0 of the rows of an interval array: no row starts with padding *)
Lemma column0_rows_go : forall n r l, (1 <= n)%nat -> (r * n < length l + n)%nat ->
  column (rows_go l n r) 0 = Ok (map row_first (rows_go l n r)).
Proof.
  intros n r. induction r as [|r IH]; intros l Hn Hr; [reflexivity|].
  cbn [rows_go column map].
  destruct l as [|a l]; [cbn [length] in Hr; nia|].
  destruct n as [|n]; [lia|]. cbn [pad_row]. rewrite py_index_cons0.
  rewrite IH; [reflexivity|lia|].
  rewrite skipn_length. cbn [length] in *. nia.
Qed.
Lemma nrows_bound : forall len n, (1 <= n)%nat -> (nrows len n * n < len + n)%nat.
Proof.
  intros len n Hn. unfold nrows.
  pose proof (Nat.div_mod len n ltac:(lia)) as Hd. pose proof (Nat.mod_upper_bound len n ltac:(lia)) as Hm.
  destruct (Nat.eqb_spec (len mod n) 0) as [E|E]; nia.
Qed.
Lemma column0_to_2d : forall l n, (1 <= n)%nat ->
  column (to_2d_array {| arr := l; isize := n |}) 0 = Ok (map row_first (to_2d_array {| arr := l; isize := n |})).
Proof. intros l n Hn. unfold to_2d_array. cbn [arr isize]. apply column0_rows_go; [exact Hn|apply nrows_bound; exact Hn]. Qed.

Section Average.
Variable pw : Qc -> Qc -> Qc.
Variable normal : Qc -> noise_scale -> nat -> list Qc.

Definition average_run (x y : list Qc) (interval : Z) : res (list Qc * list Qc) :=
  outcome_arr_pair (call_fun (p2_callf normal) p2_methf no_apply (p2_powf pw) process2_functions "average"
     [("x", VArr x); ("y", VArr y); ("interval", VInt interval)]).

Lemma glue_average : forall x y n, (1 <=? n)%Z = true ->
  average_run x y n = Ok (average x y (Z.to_nat n)).
Proof.
  intros x y n Hg. apply Z.leb_le in Hg. unfold average_run. p2_call process2_functions.
  assert (Hn : (n <=? 0)%Z = false) by (apply Z.leb_gt; lia).
  repeat (p2_cbn; first [rewrite rows_of_rows | rewrite column0_to_2d by lia | p2_step]); p2_cbn.
  reflexivity.
Qed.

(** interval = 0 is refused (ZeroDivisionError in IntervalArray.to_2d_array; an exception outside the model's classes) *)
Lemma glue_average_zero : forall x y, average_run x y 0 = Raise OtherExn.
Proof. intros x y. unfold average_run. p2_call process2_functions. p2_run. reflexivity. Qed.
End Average.



(** average: the last, incomplete interval is averaged over the samples it holds *)
Example average_example :
  match average_run pw_ex normal_ex (qzs [0; 1; 2; 3; 4; 5; 6; 7; 8; 9]%Z) (qzs [0; 2; 4; 6; 8; 10; 12; 14; 16; 18]%Z) 4 with
  | Ok (x, y) => list_eqb Qc_eqb x (qzs [0; 4; 8]%Z) && list_eqb Qc_eqb y (qzs [3; 11; 17]%Z)
  | Raise _ => false
  end = true /\ (1 <=? 4)%Z = true.
Proof. split; vm_compute; reflexivity. Qed.

Print Assumptions glue_average.
